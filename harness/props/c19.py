"""
C19 -- public entry points do not modify caller-owned data or leak state between calls.

Division of labour (see ASSUMPTIONS): python aliasing lives in the runtime, so the theorems of
lean/Proofs/C19.lean are about an abstraction (a store of named cells in which every entry point
has a DECLARED write set and read set).  The substance of C19 is the refinement claim decided
here on real objects:

* a *world* of real objects is built (numpy arrays in several dtypes / layouts, astropy Tables,
  FITS-WCS and mock-JWST gWCS correctors with catalogs, a reference catalog, a reference
  corrector, a ref_tpwcs corrector, explicit set_correction arguments);
* a call sequence of length 1..3 over all entry points named by the property is executed on the
  SAME objects; before and after every call every caller-reachable object is snapshotted
  bit-exactly (array bytes + dtype + shape + flags.writeable; table columns, order, dtypes, meta;
  FITS WCS header + distortion arrays; gWCS frames + every parameter of every transform;
  corrector meta per key; default-argument objects of every tweakwcs function; module-level
  state; global PRNG state) and mapped to the model's cells;
* correspondence:  cells changed in reality  is a subset of  writeSet(model)  (driver op `store`),
  and whenever the model says a call cannot be influenced by the calls in between (driver op
  `leak` returns no cell) the repeated call gives a bit-identical result;
* oracle (python table of the documented side effects, independent of the model): anything that
  changed and is not the corrected WCS / meta['matrix'|'shift'] / meta['fit_info'] of an input
  corrector is a failure with the concrete call sequence; the whole sequence replayed on a deep
  copy of the initial world gives bit-identical results and states; a copy() shares no mutable
  object with its source and starts equal to it; ref_tpwcs=None is equivalent to passing a
  private deep copy of the first image's corrector (the reference plane is copied before use).
"""
import copy as _copy
import hashlib
import re
import struct
import types

import numpy as np

ID = 'C19'
RULE = ('call sequences of length 1..3 over 13 entry-point kinds on one world of real objects '
        '(FITS CD / PC / SIP and mock JWST gWCS correctors; arrays as double, long double, float32, '
        'Fortran order, strided views, read-only); a case is non-trivial when the sequence has at '
        'least two calls, or contains a call with a non-empty declared write set, or passes an '
        'array in a layout a non-copying conversion would alias; distinct = distinct '
        '(world seed, world kind, call sequence)')
ASSUMPTIONS = [
    'python aliasing lives in the runtime: the theorems (frame_condition, caller_data_untouched, '
    'deterministic, pure_repeat, no_leak, copy_independent) are about a store model with declared '
    'write/read sets; that the real code refines the model is decided by this correspondence check '
    'on real objects with bit-exact deep snapshots, for call sequences of length 1..3 only',
    'a snapshot sees values, not identities: an entry point that keeps a reference to a caller '
    'object without modifying it during the explored sequence is not detected (except for copy(), '
    'whose object graph is checked for shared mutable objects)',
    'wcslib / gwcs internal caches that are not observable through headers, distortion arrays, '
    'frames and model parameters are not part of a snapshot',
    'padding bytes of 80-bit long doubles are excluded from snapshots (only the 10 significant '
    'bytes are compared)',
    'loggers, warning registries and timing information are excluded from module state',
    'open finding F21 (known_findings.json): spherical_geometry overlap areas are not reproducible to the '
    'last bits, so the overlap-driven alignment order flips between identical calls when two images have '
    '(nearly) equal overlaps; the generator keeps user order for a corrector aligned together with its copy, '
    'the witness is replayed by a probe, and a determinism failure is attributed to F21 only when a wrapped '
    'order decision of that very sequence is an area near-tie (1e-5 relative)',
    'declared write set of fit_wcs / align_wcs in the model: corrWcs, corrMeta, fitInfo of the input '
    "correctors; the oracle is stricter for meta: only the keys 'matrix' and 'shift' (set_correction's "
    'documented update) and keys passed explicitly may change',
]

ABSENT = '<absent>'
PURE = ('iterLinearFit', 'fitShifts', 'fitRshift', 'fitRscale', 'fitGeneral', 'inv',
        'buildFitMatrix', 'convexHull', 'xyxyMatch')
_ADDR = re.compile(r'0x[0-9a-fA-F]+')


# =============================================================================================
# canonical deep encoding
# =============================================================================================
def _arr_bytes(a):
    a = np.ascontiguousarray(a)
    dt = a.dtype
    if dt.kind in 'fc' and dt.itemsize in (16, 32) and dt.kind == 'f' and np.finfo(dt).nmant == 63:
        # x87 extended precision: 10 significant bytes, 6 bytes of padding
        return a.view(np.uint8).reshape(-1, 16)[:, :10].tobytes()
    if dt.kind == 'c' and dt.itemsize == 32:
        return a.view(np.uint8).reshape(-1, 16)[:, :10].tobytes()
    return a.tobytes()


_TYPES = None


def _types():
    """(Table, astropy WCS, astropy Model, gwcs WCS, WCSCorrector, CompoundModel), imported once"""
    global _TYPES
    if _TYPES is None:
        from astropy.table import Table
        from astropy import wcs as fitswcs
        from astropy.modeling import Model
        from astropy.modeling.core import CompoundModel
        import gwcs
        from tweakwcs.correctors import WCSCorrector
        _TYPES = (Table, fitswcs.WCS, Model, gwcs.WCS, WCSCorrector, CompoundModel)
    return _TYPES


def _feed(h, obj, seen):
    t = type(obj)
    if obj is None:
        h.update(b'N;')
    elif t is bool:
        h.update(b'b1;' if obj else b'b0;')
    elif t is int:
        h.update(b'i%d;' % obj)
    elif t is float:
        h.update(b'f' + struct.pack('<d', obj) + b';')
    elif t is complex:
        h.update(b'c' + struct.pack('<dd', obj.real, obj.imag) + b';')
    elif t is str:
        e = obj.encode('utf-8', 'replace')
        h.update(b's%d:' % len(e) + e + b';')
    elif t is bytes:
        h.update(b'y%d:' % len(obj) + obj + b';')
    elif isinstance(obj, np.generic):
        h.update(b'g' + obj.dtype.str.encode() + _arr_bytes(np.asarray(obj)) + b';')
    elif isinstance(obj, (np.ndarray, list, tuple, dict, set, frozenset)):
        _feed_container(h, obj, seen)
    else:
        _feed_object(h, obj, seen)


def _feed_container(h, obj, seen):
    t = type(obj)
    if isinstance(obj, np.ma.MaskedArray):
        h.update(b'M' + type(obj).__name__.encode())
        _feed(h, np.asarray(obj.data), seen)
        _feed(h, np.ma.getmaskarray(obj), seen)
    elif isinstance(obj, np.ndarray):
        h.update(b'A' + type(obj).__name__.encode() + obj.dtype.str.encode() +
                 repr(obj.shape).encode() + (b'W' if obj.flags.writeable else b'R'))
        unit = getattr(obj, 'unit', None)
        if unit is not None:
            h.update(str(unit).encode())
        if obj.dtype.kind == 'O':
            _feed(h, obj.tolist(), seen)
        else:
            h.update(_arr_bytes(np.asarray(obj)))
        h.update(b';')
    elif t in (list, tuple):
        h.update(b'L' if t is list else b'T')
        h.update(b'%d:' % len(obj))
        for v in obj:
            _feed(h, v, seen)
        h.update(b';')
    elif isinstance(obj, dict):
        h.update(b'D' + type(obj).__name__.encode() + b'%d:' % len(obj))
        for k in sorted(obj, key=repr):
            _feed(h, k, seen)
            _feed(h, obj[k], seen)
        h.update(b';')
    elif isinstance(obj, (set, frozenset)):
        h.update(b'S%d:' % len(obj))
        for k in sorted(obj, key=repr):
            _feed(h, k, seen)
        h.update(b';')
    else:
        raise TypeError(type(obj))


def _feed_object(h, obj, seen):
    Table, FitsWCS, Model, GWCS, WCSCorrector, _ = _types()
    if isinstance(obj, Table):
        _feed(h, ('<Table>', snap_table(obj)), seen)
    elif isinstance(obj, FitsWCS):
        _feed(h, ('<FITSWCS>', snap_fitswcs(obj)), seen)
    elif isinstance(obj, GWCS):
        _feed(h, ('<GWCS>', snap_gwcs(obj)), seen)
    elif isinstance(obj, Model):
        _feed(h, ('<Model>', snap_model(obj)), seen)
    elif isinstance(obj, WCSCorrector):
        _feed(h, ('<Corrector>', snap_corrector_full(obj)), seen)
    elif isinstance(obj, (types.FunctionType, types.BuiltinFunctionType, types.MethodType, type)):
        h.update(b'F' + (getattr(obj, '__module__', '') or '').encode() + b'.' +
                 getattr(obj, '__qualname__', repr(type(obj))).encode() + b';')
    elif isinstance(obj, types.ModuleType):
        h.update(b'Mod' + obj.__name__.encode() + b';')
    elif hasattr(obj, '__dict__') and not isinstance(obj, type):
        if id(obj) in seen:
            h.update(b'<cycle>;')
            return
        seen = seen | {id(obj)}
        h.update(b'O' + type(obj).__module__.encode() + b'.' + type(obj).__qualname__.encode())
        _feed(h, dict(vars(obj)), seen)
    else:
        h.update(b'R' + _ADDR.sub('0x', repr(obj)).encode() + b';')


def D(obj):
    """hex digest of the canonical deep encoding of obj"""
    h = hashlib.sha1()
    _feed(h, obj, frozenset())
    return h.hexdigest()[:20]


def snap_array(a):
    if isinstance(a, np.ndarray):
        return {'type': D(type(a).__name__), 'dtype': D(a.dtype.str), 'shape': D(tuple(a.shape)),
                'writeable': D(bool(a.flags.writeable)), 'bytes': D(np.asarray(a))}
    return {'value': D(a)}


def snap_table(t):
    d = {'colnames': D(list(t.colnames)), 'masked': D(bool(t.masked)), 'len': D(len(t)),
         'class': D(type(t).__name__)}
    for k in t.meta:
        d['meta:%s' % k] = D(t.meta[k])
    for name in t.colnames:
        c = t[name]
        d['col:%s:dtype' % name] = D(c.dtype.str if c.dtype.names is None else repr(c.dtype.descr))
        if isinstance(c, np.ma.MaskedArray):
            d['col:%s:data' % name] = D(np.asarray(c.data))
            d['col:%s:mask' % name] = D(np.ma.getmaskarray(c))
        else:
            d['col:%s:data' % name] = D(np.asarray(c))
        d['col:%s:attrs' % name] = D((type(c).__name__, str(getattr(c, 'unit', None)),
                                      getattr(c, 'format', None), getattr(c, 'description', None),
                                      dict(getattr(c, 'meta', None) or {})))
    return d


def _lookup_table(lt):
    if lt is None:
        return None
    return (np.asarray(lt.data), tuple(lt.crpix), tuple(lt.crval), tuple(lt.cdelt))


def snap_fitswcs(w):
    d = {}
    try:
        d['header'] = D(w.to_header(relax=True).tostring())
    except Exception as e:  # the header itself is astropy's; an unserialisable WCS is recorded
        d['header'] = D('error:' + type(e).__name__)
    p = w.wcs
    for a in ('crval', 'crpix', 'cdelt', 'lonpole', 'latpole', 'naxis'):
        d[a] = D(np.array(getattr(p, a)))
    d['ctype'] = D([str(s) for s in p.ctype])
    d['cunit'] = D([str(s) for s in p.cunit])
    d['cd'] = D(np.array(p.cd)) if p.has_cd() else D(None)
    d['pc'] = D(np.array(p.pc)) if p.has_pc() else D(None)
    s = w.sip
    if s is None:
        d['sip'] = D(None)
    else:
        for a in ('a', 'b', 'ap', 'bp'):
            v = getattr(s, a)
            d['sip:' + a] = D(None if v is None else np.array(v))
        d['sip:crpix'] = D(np.array(s.crpix))
    d['cpdis1'] = D(_lookup_table(w.cpdis1))
    d['cpdis2'] = D(_lookup_table(w.cpdis2))
    d['det2im1'] = D(_lookup_table(w.det2im1))
    d['det2im2'] = D(_lookup_table(w.det2im2))
    d['pixel_shape'] = D(None if w.pixel_shape is None else tuple(w.pixel_shape))
    d['pixel_bounds'] = D(None if w.pixel_bounds is None else [tuple(b) for b in w.pixel_bounds])
    return d


def snap_model(m, prefix='', out=None, seen=None):
    """flat {path: digest} over every leaf model of a (compound) astropy model, user inverses
    included (cycles of mutually inverse models are cut): class, name, every parameter array with
    its fixed flag and unit, and the discrete attributes of mappings / rotations"""
    CompoundModel = _types()[5]
    if out is None:
        out = {}
        seen = set()
    if id(m) in seen:
        out[prefix + '/seen'] = 'cycle'
        return out
    seen.add(id(m))
    if isinstance(m, CompoundModel):
        out[prefix + '/op'] = D((m.op, m.name))
        snap_model(m.left, prefix + '/l', out, seen)
        snap_model(m.right, prefix + '/r', out, seen)
    else:
        d = vars(m)
        extra = [(a, d[a]) for a in ('axes_order', '_mapping', '_n_inputs', '_n_outputs', 'wrap_lon_at')
                 if a in d and isinstance(d[a], (int, float, str, tuple, list, type(None)))]
        pars = []
        for pn in m.param_names:
            par = getattr(m, pn)
            pars.append((pn, np.array(par.value), bool(par.fixed), str(par.unit)))
        out[prefix + '/leaf'] = D((type(m).__name__, m.name, extra, pars))
    ui = getattr(m, '_user_inverse', None)
    if ui is not None:
        snap_model(ui, prefix + '/inv', out, seen)
    return out


def _bbox(w):
    try:
        bb = w.bounding_box
    except Exception as e:
        return 'error:' + type(e).__name__
    if bb is None:
        return None
    try:
        return [(float(np.ravel(iv.lower)[0]), float(np.ravel(iv.upper)[0]))
                for iv in bb.intervals.values()]
    except Exception:
        return _ADDR.sub('0x', repr(bb))


def snap_gwcs(w):
    d = {'frames': D([str(f) for f in w.available_frames]), 'name': D(w.name), 'bbox': D(_bbox(w)),
         'pixel_shape': D(w.pixel_shape), 'array_shape': D(w.array_shape), 'nsteps': D(len(w.pipeline))}
    for k, st in enumerate(w.pipeline):
        fr = st.frame
        if isinstance(fr, str):
            d['step%d:frame' % k] = D(fr)
        else:
            d['step%d:frame' % k] = D((fr.name, type(fr).__name__, tuple(fr.axes_order),
                                       tuple(str(u) for u in fr.unit),
                                       tuple(str(n) for n in fr.axes_names)))
        if st.transform is None:
            d['step%d:transform' % k] = D(None)
        else:
            for path, dig in snap_model(st.transform).items():
                d['step%d:%s' % (k, path)] = dig
    return d


def snap_wcs(w):
    if w is None:
        return {'none': D(None)}
    if isinstance(w, _types()[1]):
        return snap_fitswcs(w)
    if isinstance(w, _types()[3]):
        return snap_gwcs(w)
    return {'value': D(w)}


def snap_corr_wcs(c):
    """the corrected WCS of a corrector together with the internal state derived from it"""
    d = {'class': D(type(c).__name__)}
    for k, v in snap_wcs(c.wcs).items():
        d['wcs:' + k] = v
    if hasattr(c, '_wcslin'):
        for k, v in snap_fitswcs(c._wcslin).items():
            d['wcslin:' + k] = v
    for a in ('_tpcorr', '_partial_tpcorr', '_default_tpcorr'):
        if hasattr(c, a):
            m = getattr(c, a)
            if m is None:
                d[a] = D(None)
            else:
                for k, v in snap_model(m).items():
                    d[a + k] = v
    for a in ('_v23name', '_wcsinfo'):
        if hasattr(c, a):
            d[a] = D(getattr(c, a))
    return d


def snap_corr_meta(c):
    return {'key:%s' % k: D(v) for k, v in c.meta.items() if k not in ('catalog', 'fit_info')}


def snap_corrector_full(c):
    d = {}
    for k, v in snap_corr_wcs(c).items():
        d['w:' + k] = v
    for k, v in snap_wcs(c.original_wcs).items():
        d['o:' + k] = v
    for k in c.meta:
        d['m:%s' % k] = D(c.meta[k])
    return d


# ---------------------------------------------------------------------------------------------
# global state of the library: default arguments, module-level objects, PRNG state
# ---------------------------------------------------------------------------------------------
def _tweak_modules():
    import tweakwcs
    from tweakwcs import linearfit, linalg, wcsimage, matchutils, imalign, correctors, wcsutils
    mods = [tweakwcs, linearfit, linalg, wcsimage, matchutils, imalign, correctors, wcsutils]
    try:
        from tweakwcs import tpwcs
        mods.append(tpwcs)
    except Exception:
        pass
    return mods


def _functions():
    """every function / method defined in tweakwcs (decorator wrappers unwrapped)"""
    out = {}

    def add(name, f):
        depth = 0
        while f is not None and depth < 5:
            if isinstance(f, (staticmethod, classmethod)):
                f = f.__func__
            if isinstance(f, property):
                for nm, g in (('fget', f.fget), ('fset', f.fset)):
                    if g is not None:
                        add(name + '.' + nm, g)
                return
            if isinstance(f, types.FunctionType):
                out['%s#%d' % (name, depth)] = f
            f = getattr(f, '__wrapped__', None)
            depth += 1

    for m in _tweak_modules():
        for k, v in vars(m).items():
            if isinstance(v, types.FunctionType) and (v.__module__ or '').startswith('tweakwcs'):
                add(m.__name__ + '.' + k, v)
            elif isinstance(v, type) and (v.__module__ or '').startswith('tweakwcs'):
                for kk, vv in vars(v).items():
                    add(m.__name__ + '.' + k + '.' + kk, vv)
    return out


def default_matcher():
    from tweakwcs import imalign, matchutils
    f = imalign.align_wcs
    while f is not None:
        for v in (f.__defaults__ or ()):
            if isinstance(v, matchutils.MatchCatalogs):
                return v
        f = getattr(f, '__wrapped__', None)
    return None


def snap_defaults():
    from tweakwcs import matchutils
    d = {}
    for name, f in _functions().items():
        dfl = tuple('<matcher>' if isinstance(v, matchutils.MatchCatalogs) else v
                    for v in (f.__defaults__ or ()))
        if dfl or f.__kwdefaults__:
            d[name] = D((dfl, f.__kwdefaults__))
    return d


def snap_matcher():
    m = default_matcher()
    if m is None:
        return {'missing': D(None)}
    d = {'class': D(type(m).__name__)}
    for k, v in vars(m).items():
        d['attr:' + k] = D(v)
    return d


def snap_module_state():
    import logging
    import random
    d = {}
    for m in _tweak_modules():
        for k, v in vars(m).items():
            if k.startswith('__') or isinstance(v, (types.ModuleType, types.FunctionType, logging.Logger,
                                                    types.BuiltinFunctionType)):
                continue
            if isinstance(v, type):
                if (v.__module__ or '').startswith('tweakwcs'):
                    for kk, vv in vars(v).items():
                        if kk.startswith('__') or isinstance(vv, (types.FunctionType, property,
                                                                  staticmethod, classmethod)):
                            continue
                        if kk in ('_abc_impl',):
                            continue
                        d['%s.%s.%s' % (m.__name__, k, kk)] = D(vv)
                continue
            if k == '__warningregistry__':
                continue
            d['%s.%s' % (m.__name__, k)] = D(v)
    st = np.random.get_state()
    d['numpy.random'] = D((st[0], np.asarray(st[1]), st[2], st[3], st[4]))
    d['random'] = D(random.getstate())
    d['numpy.geterr'] = D(np.geterr())
    po = dict(np.get_printoptions())
    d['numpy.printoptions'] = D({k: v for k, v in po.items() if not callable(v)})
    return d


GLOBAL_CELLS = ('defaultMatcher', 'defaultArgs', 'moduleState')
RNG_KEYS = ('numpy.random', 'random')
_BASE = {}


def global_snapshot():
    return {'defaultMatcher': snap_matcher(), 'defaultArgs': snap_defaults(), 'moduleState': snap_module_state()}


def set_baseline():
    """the library's global state at process start, before the harness makes any call into it.  A
    change that is idempotent (a default list whose 1 becomes 1.0, a PRNG re-seeded to a constant) is
    visible only the first time it happens, possibly in a call the harness does not bracket with
    snapshots (building a world): every later snapshot is therefore also compared with this baseline"""
    _BASE.clear()
    _BASE.update(global_snapshot())


def against_baseline(snap):
    """{cell: [paths]} of global cells that differ from the process-start baseline (PRNG state is
    excluded: the harness scrambles it on purpose); the baseline then moves, so that one change is
    reported once"""
    out = {}
    for c in GLOBAL_CELLS:
        if c not in _BASE:
            continue
        a, b = _BASE[c], snap.get(c, {})
        keys = sorted(k for k in set(a) | set(b) if a.get(k) != b.get(k) and k not in RNG_KEYS)
        if keys:
            out[c] = keys[:8]
            _BASE[c] = dict(b)
    return out


def scramble_prng(*key):
    """put the global numpy / python generators into a state derived from `key`: a library call that
    re-seeds them to a constant then always shows up as a change, and one that draws from them gives
    different results on the second, differently scrambled, run"""
    import random
    h = int(hashlib.sha1(repr(key).encode()).hexdigest()[:8], 16)
    np.random.seed(h)
    random.seed(h)


# =============================================================================================
# worlds of real objects
# =============================================================================================
ARR_VARIANTS = ['f8', 'f8', 'ld', 'ld', 'ldF', 'f4', 'view', 'ldview', 'ro', 'ldro']
ALIASING_VARIANTS = ('ld', 'ldF', 'ldview', 'ldro', 'view', 'ro')


def make_array(a, variant):
    a = np.asarray(a, dtype=np.double)
    if variant == 'f8':
        r = np.array(a, dtype=np.double)
    elif variant == 'ld':
        r = np.array(a, dtype=np.longdouble)
    elif variant == 'ldF':
        r = np.asfortranarray(np.array(a, dtype=np.longdouble))
    elif variant == 'f4':
        r = np.array(a, dtype=np.float32)
    elif variant in ('view', 'ldview'):
        dt = np.double if variant == 'view' else np.longdouble
        big = np.zeros(tuple(2 * s for s in a.shape), dtype=dt)
        sl = tuple(slice(None, None, 2) for _ in a.shape)
        big[sl] = a
        r = big[sl]
    elif variant in ('ro', 'ldro'):
        r = np.array(a, dtype=np.double if variant == 'ro' else np.longdouble)
        r.flags.writeable = False
    elif variant == 'list':
        r = np.asarray(a).tolist()
    elif variant == 'tuple':
        r = tuple(np.asarray(a).tolist())
    else:
        raise ValueError(variant)
    return r


def grid_points(rng, nx, ny, sx, sy, n, jitter):
    """n points on distinct interior cells of an nx x ny grid over a (sx, sy) image"""
    cells = [(i, j) for i in range(1, nx - 1) for j in range(1, ny - 1)]
    idx = rng.permutation(len(cells))[:min(n, len(cells))]
    cw, ch = sx / nx, sy / ny
    pts = [((cells[k][0] + 0.5) * cw + rng.uniform(-jitter, jitter),
            (cells[k][1] + 0.5) * ch + rng.uniform(-jitter, jitter)) for k in idx]
    return np.array(pts, dtype=np.double).reshape(-1, 2)


class World:
    """all caller-owned objects of one case, built deterministically from (seed, ckind, mode)"""

    CKINDS = ('fits-cd', 'fits-pc', 'fits-sip', 'jwst', 'jwst-novacorr')

    def __init__(self, seed, ckind=None, mode='matched', nv=None, need_corr=True):
        import random
        self.seed = seed
        self.pyr = random.Random('world:%d' % seed)
        self.rng = np.random.default_rng(seed)
        self.ckind = ckind
        self.mode = mode
        self.nv = dict(nv or {})
        self.build_numeric()
        self.corr = {}        # index -> corrector
        self.orig = {}        # index -> the caller's WCS object
        self.cat = {}         # index -> the caller's catalog Table
        self.ctor = {}        # index -> (meta dict, wcsinfo dict) passed to the constructor
        self.has_corr = False
        self.arglist_mutated = False
        if need_corr and ckind is not None:
            self.build_correctors()

    # ---- numeric part -----------------------------------------------------------------
    def variant(self, key, choices=ARR_VARIANTS):
        if key in self.nv:
            return self.nv[key]
        v = self.pyr.choice(choices)
        self.nv[key] = v
        return v

    def build_numeric(self):
        pyr, rng = self.pyr, self.rng
        n = pyr.choice([0, 1, 2, 3, 4, 5, 8, 12, 20, 30, 40, 40])
        if 'n' in self.nv:
            n = self.nv['n']
        ang = np.deg2rad(rng.uniform(-3, 3))
        sc = 1 + rng.uniform(-0.02, 0.02)
        m = sc * np.array([[np.cos(ang), np.sin(ang)], [-np.sin(ang), np.cos(ang)]])
        if pyr.random() < 0.3:
            m[:, 1] *= -1.0
        uv = rng.uniform(0, 1000, (n, 2))
        xy = uv @ m.T + rng.uniform(-20, 20, 2) + rng.normal(0, 0.05, (n, 2))
        if n >= 8:
            for k in rng.permutation(n)[:pyr.choice([0, 1, 2])]:
                xy[k] += rng.uniform(3, 30, 2)
        self.xy = make_array(xy, self.variant('xy'))
        self.uv = make_array(uv, self.variant('uv'))
        wxy = rng.uniform(0.5, 2.0, n)
        wuv = rng.uniform(0.5, 2.0, n)
        if n >= 6 and pyr.random() < 0.5:
            wxy[rng.integers(0, n)] = 0.0
            wuv[rng.integers(0, n)] = 0.0
        self.wxy = make_array(wxy, self.variant('wxy'))
        self.wuv = make_array(wuv, self.variant('wuv'))
        cv = self.variant('center', ['none', 'none', 'list', 'tuple', 'f8', 'ld', 'ro'])
        c = [float(rng.uniform(300, 700)), float(rng.uniform(300, 700))]
        self.center = None if cv == 'none' else make_array(c, cv)
        # linalg.inv
        k = pyr.choice([1, 2, 2, 3, 3, 4, 5])
        a = rng.uniform(-3, 3, (k, k)) + 3 * np.eye(k)
        iv = self.variant('inv', ['f8', 'ld', 'ld', 'ldF', 'list', 'ro', 'ldro', 'ldview', 'singular'])
        if iv == 'singular':
            a[-1] = a[0]
            iv = 'ld'
        self.invarg = make_array(a, iv)
        # build_fit_matrix
        rv = self.variant('bfm', ['float', 'tuple', 'list', 'f8', 'ld', 'ro'])
        r2 = [float(rng.uniform(-180, 180)), float(rng.uniform(-180, 180))]
        s2 = [float(rng.uniform(0.5, 2)), float(rng.uniform(0.5, 2))]
        if rv == 'float':
            self.bfm_rot, self.bfm_scale = r2[0], s2[0]
        else:
            self.bfm_rot, self.bfm_scale = make_array(r2, rv), make_array(s2, rv)
        # convex_hull
        hn = pyr.choice([0, 1, 2, 3, 5, 9, 17, 30])
        hx = np.round(rng.uniform(0, 10, hn), pyr.choice([0, 1, 6]))
        hy = np.round(rng.uniform(0, 10, hn), pyr.choice([0, 1, 6]))
        hv = self.variant('hull', ['list', 'tuple', 'f8', 'ld', 'ro', 'view'])
        self.hullx, self.hully = make_array(hx, hv), make_array(hy, hv)
        # two pairs of tables for the matcher
        self.mtab = {}
        for pair in ('A', 'B'):
            self.mtab[pair] = self.make_match_pair(pair)

    def make_match_pair(self, pair):
        from astropy.table import Table
        rng, pyr = self.rng, self.pyr
        m = pyr.choice([6, 15, 25, 40])
        pts = grid_points(rng, 12, 12, 600.0, 600.0, m, 12.0)
        sh = rng.uniform(-1.5, 1.5, 2)
        keep = rng.permutation(len(pts))[:max(3, int(len(pts) * pyr.choice([0.6, 0.8, 1.0])))]
        im = pts[keep] + sh + rng.normal(0, 0.02, (len(keep), 2))
        extra = rng.uniform(0, 600, (pyr.choice([0, 2, 5]), 2))
        im = np.vstack([im, extra])
        masked = pyr.random() < 0.3
        ref = Table([pts[:, 0], pts[:, 1], np.arange(1, len(pts) + 1), pts[:, 0] / 3600.0, pts[:, 1] / 3600.0],
                    names=['TPx', 'TPy', 'id', 'RA', 'DEC'], masked=masked,
                    meta={'name': 'ref' + pair, 'origin': {'pair': pair, 'v': [1, 2.5]}})
        imt = Table([im[:, 0], im[:, 1], im[:, 0] + 1, im[:, 1] + 1], names=['TPx', 'TPy', 'x', 'y'],
                    meta={'name': 'im' + pair} if pyr.random() < 0.8 else {})
        return ref, imt

    # ---- correctors -------------------------------------------------------------------
    def base_wcs(self, dx=0.0, dy=0.0):
        """a caller WCS object of the world's kind, dithered by (dx, dy) pixels"""
        from astropy import wcs as fitswcs
        from tweakwcs.linearfit import build_fit_matrix
        kind = self.ckind
        if kind == 'fits-sip':
            from astropy.io import fits
            from astropy.utils.data import get_pkg_data_filename
            hdr = fits.Header.fromfile(get_pkg_data_filename('data/wfc3_uvis1.hdr',
                                                             package='tweakwcs.tests'))
            w = fitswcs.WCS(hdr)
            cd = w.wcs.cd
            w.wcs.crval = w.wcs.crval + cd @ np.array([dx, dy]) / np.array([np.cos(np.deg2rad(w.wcs.crval[1])), 1.0])
            w.wcs.set()
            return w, None
        if kind in ('fits-cd', 'fits-pc'):
            p = self.geom
            cd = build_fit_matrix(p['rot'], p['scale'])
            w = fitswcs.WCS(naxis=2)
            if kind == 'fits-cd':
                w.wcs.cd = cd
            else:
                w.wcs.pc = cd / p['scale'][0]
                w.wcs.cdelt = [p['scale'][0], p['scale'][0]]
            d = cd @ np.array([dx, dy])
            w.wcs.crval = [p['crval'][0] + d[0] / np.cos(np.deg2rad(p['crval'][1])), p['crval'][1] + d[1]]
            w.wcs.crpix = [512.0, 1024.0]
            w.wcs.ctype = ['RA---TAN', 'DEC--TAN']
            w.pixel_shape = [1024, 2048]
            if self.geom['bounds']:
                w.pixel_bounds = ((-0.5, 1024 - 0.5), (-0.5, 2048 - 0.5))
            w.wcs.set()
            return w, None
        # mock JWST gWCS, built exactly as the repository's test helper does
        from tweakwcs.tests.helper_correctors import make_mock_jwst_wcs
        p = self.geom
        cd = build_fit_matrix(p['rot'], p['scale'])
        d = cd @ np.array([dx, dy])
        crval = [p['crval'][0] + d[0] / np.cos(np.deg2rad(p['crval'][1])), p['crval'][1] + d[1]]
        w = make_mock_jwst_wcs(v2ref=p['v2'], v3ref=p['v3'], roll=p['roll'], crpix=[512.0, 1024.0],
                               cd=cd, crval=crval, enable_vacorr=(kind == 'jwst'))
        return w, {'v2_ref': p['v2'], 'v3_ref': p['v3'], 'roll_ref': p['roll']}

    def new_corrector(self, w, info, meta):
        from tweakwcs import correctors
        if info is None:
            return correctors.FITSWCSCorrector(w, meta=meta)
        return correctors.JWSTWCSCorrector(w, info, meta=meta)

    def precorrected(self, w, info):
        """a caller gWCS that already carries a tangent-plane correction (frame 'v2v3corr')"""
        tmp = self.new_corrector(w, info, None)
        th = np.deg2rad(self.rng.uniform(-0.002, 0.002))
        tmp.set_correction(np.array([[np.cos(th), np.sin(th)], [-np.sin(th), np.cos(th)]]),
                           self.rng.uniform(-0.2, 0.2, 2))
        return _copy.deepcopy(tmp.wcs)

    def to_pix(self, c, ra, dec):
        x, y = c.world_to_det(ra, dec)
        return np.asarray(x, dtype=np.double), np.asarray(y, dtype=np.double)

    def build_correctors(self):
        from astropy.table import Table
        pyr, rng = self.pyr, self.rng
        self.has_corr = True
        a = float(rng.uniform(0, 360))
        self.geom = {'rot': (a, a + float(rng.uniform(-2, 2))),
                     'scale': (1e-5 * float(rng.uniform(0.8, 1.5)),) * 2,
                     'crval': [float(rng.uniform(5, 355)), float(rng.uniform(-70, 70))],
                     'v2': float(rng.uniform(-300, 300)), 'v3': float(rng.uniform(-600, 600)),
                     'roll': float(rng.uniform(0, 360)), 'bounds': pyr.random() < 0.7}
        sx, sy = (4096.0, 2051.0) if self.ckind == 'fits-sip' else (1024.0, 2048.0)
        nx, ny = (16, 8) if self.ckind == 'fits-sip' else (8, 16)
        jit = 10.0
        err = 1.0 if self.ckind.startswith('fits') else 0.1
        ncorr = self.nv.get('ncorr', pyr.choice([2, 3, 3, 4]))
        nsrc = self.nv.get('nsrc', pyr.choice([12, 20, 30, 45]))
        w0, info0 = self.base_wcs()
        c0 = self.new_corrector(w0, info0, None)
        pts = grid_points(rng, nx, ny, sx, sy, nsrc, jit)
        ra, dec = c0.det_to_world(pts[:, 0], pts[:, 1])
        ra, dec = np.asarray(ra, dtype=np.double), np.asarray(dec, dtype=np.double)
        self.sky = (ra, dec)
        weighted_ref = pyr.random() < 0.4
        weighted_im = pyr.random() < 0.4
        survey = self.mode == 'survey'
        # reference catalog (a Table)
        ridx = np.arange(len(ra))
        if survey:
            ridx = np.sort(rng.permutation(len(ra))[:max(6, int(0.8 * len(ra)))])
        cols = [ra[ridx], dec[ridx]]
        names = ['RA', 'DEC']
        if weighted_ref:
            cols.append(rng.uniform(0.5, 2.0, len(ridx)))
            names.append('weight')
        if pyr.random() < 0.5:
            cols.append(np.arange(100, 100 + len(ridx)))
            names.append('id')
        cols.append(rng.uniform(10, 20, len(ridx)))
        names.append('mag')
        self.refcat = Table(cols, names=names, meta={'name': 'REFCAT', 'src': {'epoch': 2015.5, 'tags': ['a', 'b']}})
        # image correctors
        gids = [pyr.choice([None, None, 1, 1, 2]) for _ in range(ncorr)]
        empty = pyr.randrange(ncorr) if (pyr.random() < 0.08 and ncorr >= 3) else None
        for i in range(ncorr):
            dx, dy = (0.0, 0.0) if i == 0 else tuple(rng.uniform(-20, 20, 2))
            w, info = self.base_wcs(dx, dy)
            probe = self.new_corrector(w, info, None)
            px, py = self.to_pix(probe, ra, dec)
            # pointing error of the image: a small affine map in pixel space.  The tangent plane of
            # the mock JWST corrector is in arcsec at ~3 arcsec / pixel (cd is in radians), so that
            # the errors are ten times smaller in pixels to stay inside the matcher's 3 arcsec
            th = np.deg2rad(rng.uniform(-0.01, 0.01)) * err
            s = 1 + rng.uniform(-5e-5, 5e-5) * err
            A = s * np.array([[np.cos(th), -np.sin(th)], [np.sin(th), np.cos(th)]])
            ctr = np.array([sx / 2, sy / 2])
            q = (np.column_stack([px, py]) - ctr) @ A.T + ctr + rng.uniform(-1.2, 1.2, 2) * err
            q = q + rng.normal(0, 0.01, q.shape) * err
            if survey:
                keep = rng.permutation(len(q))[:max(5, int(len(q) * pyr.choice([0.7, 0.85, 1.0])))]
                extra = grid_points(rng, nx, ny, sx, sy, pyr.choice([0, 3, 6]), jit) + np.array([sx / nx / 2.2, 0])
                q = np.vstack([q[keep], extra])
                q = q[rng.permutation(len(q))]
            if i == empty:
                q = q[:0]
            cols = [q[:, 0], q[:, 1]]
            names = ['x', 'y']
            if weighted_im:
                cols.append(rng.uniform(0.5, 2.0, len(q)))
                names.append('weight')
            cols.append(rng.uniform(100, 1e4, len(q)))
            names.append('flux')
            cat = Table(cols, names=names, meta={'name': 'imcat%d' % i, 'hist': [i, {'k': 1.5}]})
            meta = {'catalog': cat, 'name': 'im%d' % i, 'group_id': gids[i], 'user': {'note': [i, 'x']}}
            if info is not None and pyr.random() < 0.3:
                w = self.precorrected(w, info)
            self.orig[i] = w
            self.cat[i] = cat
            self.ctor[i] = (meta, info)     # the constructor arguments stay with the caller
            self.corr[i] = self.new_corrector(w, info, meta)
        # a separate reference-plane corrector and a reference corrector with an x, y catalog
        w, info = self.base_wcs(*rng.uniform(-5, 5, 2))
        self.ref_tpwcs_orig = w
        self.ref_tpwcs = self.new_corrector(w, info, {'name': 'REFPLANE', 'aux': [1, 2, 3]})
        w, info = self.base_wcs(*rng.uniform(-5, 5, 2))
        self.refcorr_orig = w
        probe = self.new_corrector(w, info, None)
        px, py = self.to_pix(probe, ra[ridx], dec[ridx])
        rcols = [px, py]
        rnames = ['x', 'y']
        if weighted_ref:
            rcols.append(np.array(self.refcat['weight']))
            rnames.append('weight')
        self.refcorr_cat = Table(rcols, names=rnames, meta={'name': 'refimcat', 'k': {'z': [0.5]}})
        self.refcorr = self.new_corrector(w, info, {'catalog': self.refcorr_cat, 'name': 'REFIMAGE'})
        # explicit arguments of set_correction
        th = np.deg2rad(rng.uniform(-0.05, 0.05))
        mm = (1 + rng.uniform(-1e-4, 1e-4)) * np.array([[np.cos(th), np.sin(th)], [-np.sin(th), np.cos(th)]])
        unit = 1.0 if info is None else 0.2
        self.arg_matrix = make_array(mm, self.variant('argm', ['f8', 'ld', 'list', 'ro', 'ldro', 'ldF']))
        self.arg_shift = make_array(rng.uniform(-2, 2, 2) * unit,
                                    self.variant('args', ['f8', 'ld', 'list', 'tuple', 'ro']))
        self.arg_meta = {'note': 'by-caller', 'nested': {'a': [1, 2, 3]}, 'arr': np.arange(3.0)}

    ARRAYS = ('xy', 'uv', 'wxy', 'wuv', 'center', 'invarg', 'bfm_rot', 'bfm_scale', 'hullx', 'hully',
              'arg_matrix', 'arg_shift')

    def clone(self):
        """a deep copy of the whole world (numpy's deepcopy drops the read-only flag: restored)"""
        c = _copy.deepcopy(self)
        for a in self.ARRAYS:
            o = getattr(self, a, None)
            if isinstance(o, np.ndarray) and not o.flags.writeable:
                getattr(c, a).flags.writeable = False
        return c

    # ---- snapshots --------------------------------------------------------------------
    def snapshot(self):
        s = {}
        s['argXY'] = snap_array(self.xy)
        s['argUV'] = snap_array(self.uv)
        s['argWxy'] = snap_array(self.wxy)
        s['argWuv'] = snap_array(self.wuv)
        s['argCenter'] = snap_array(self.center)
        s['invArg'] = snap_array(self.invarg)
        s['bfmRot'] = snap_array(self.bfm_rot)
        s['bfmScale'] = snap_array(self.bfm_scale)
        s['hullX'] = snap_array(self.hullx)
        s['hullY'] = snap_array(self.hully)
        mr, mi = {}, {}
        for pair, (r, t) in self.mtab.items():
            for k, v in snap_table(r).items():
                mr[pair + ':' + k] = v
            for k, v in snap_table(t).items():
                mi[pair + ':' + k] = v
        s['matchRef'], s['matchIm'] = mr, mi
        s['defaultMatcher'] = snap_matcher()
        s['defaultArgs'] = snap_defaults()
        s['moduleState'] = snap_module_state()
        if not self.has_corr:
            return s
        s['argMatrix'] = snap_array(self.arg_matrix)
        s['argShift'] = snap_array(self.arg_shift)
        s['argMeta'] = {'key:%s' % k: D(v) for k, v in self.arg_meta.items()}
        rc = {}
        for k, v in snap_table(self.refcat).items():
            rc['table:' + k] = v
        for k, v in snap_table(self.refcorr_cat).items():
            rc['corrcat:' + k] = v
        rc['corrcat:same-object'] = D(self.refcorr.meta.get('catalog') is self.refcorr_cat)
        s['refCatalog'] = rc
        s['refTpwcs'] = snap_corr_wcs(self.ref_tpwcs)
        m = snap_corr_meta(self.ref_tpwcs)
        for k in ('catalog', 'fit_info'):
            m['key:' + k] = D(self.ref_tpwcs.meta.get(k, ABSENT))
        s['refTpwcsMeta'] = m
        o = snap_wcs(self.ref_tpwcs.original_wcs)
        o['same-object'] = D(self.ref_tpwcs.original_wcs is self.ref_tpwcs_orig)
        s['refTpwcsOrig'] = o
        s['refCorrWcs'] = snap_corr_wcs(self.refcorr)
        m = snap_corr_meta(self.refcorr)
        m['key:fit_info'] = D(self.refcorr.meta.get('fit_info', ABSENT))
        s['refCorrMeta'] = m
        o = snap_wcs(self.refcorr.original_wcs)
        o['same-object'] = D(self.refcorr.original_wcs is self.refcorr_orig)
        s['refCorrOrig'] = o
        for i, c in self.corr.items():
            s['corrWcs:%d' % i] = snap_corr_wcs(c)
            s['corrMeta:%d' % i] = snap_corr_meta(c)
            s['fitInfo:%d' % i] = {'fit_info': D(c.meta.get('fit_info', ABSENT))}
            o = snap_wcs(c.original_wcs)
            o['same-object'] = D(c.original_wcs is self.orig[i])
            if i in self.ctor:
                # the other constructor arguments of the caller: the meta dict and the wcsinfo dict
                meta, info = self.ctor[i]
                for k, v in meta.items():
                    o['ctor-meta:%s' % k] = D('<the catalog>' if k == 'catalog' else v)
                o['ctor-meta-keys'] = D(sorted(meta))
                o['ctor-wcsinfo'] = D(info)
            s['origWcs:%d' % i] = o
            cat = c.meta.get('catalog')
            t = snap_table(cat) if cat is not None else {}
            t['same-object'] = D(cat is self.cat[i])
            s['imCatalog:%d' % i] = t
        return s

    # ---- the calls --------------------------------------------------------------------
    def sky_grid(self, c):
        (lx, hx), (ly, hy) = ((0.0, 1023.0), (0.0, 2047.0)) if self.ckind != 'fits-sip' else ((0.0, 4095.0), (0.0, 2050.0))
        gx, gy = np.meshgrid(np.linspace(lx + 5, hx - 5, 4), np.linspace(ly + 5, hy - 5, 4))
        ra, dec = c.det_to_world(gx.ravel(), gy.ravel())
        return (np.asarray(ra, dtype=np.double), np.asarray(dec, dtype=np.double))

    def corr_result(self, c):
        return {'wcs': snap_corr_wcs(c), 'meta': snap_corr_meta(c), 'fit_info': c.meta.get('fit_info', ABSENT),
                'sky': self.sky_grid(c)}

    def weights(self, spec):
        w = spec.get('w', 'none')
        return (self.wxy if w in ('xy', 'both') else None, self.wuv if w in ('uv', 'both') else None)

    def call(self, spec):
        """execute one call; returns ('ok', digest-able result) or ('exc', type name, message)"""
        try:
            return ('ok', self._call(spec))
        except Exception as e:  # error paths are calls too: the frame condition applies to them
            return ('exc', type(e).__name__, _ADDR.sub('0x', str(e))[:160])

    def _call(self, spec):
        from tweakwcs import linearfit, linalg, wcsimage, imalign, matchutils
        op = spec['op']
        if op == 'iterLinearFit':
            wxy, wuv = self.weights(spec)
            kw = dict(fitgeom=spec.get('fitgeom', 'general'), nclip=spec.get('nclip', 3),
                      sigma=tuple(spec['sigma']) if isinstance(spec.get('sigma'), list) else spec.get('sigma', (3.0, 'rmse')),
                      clip_accum=spec.get('clip_accum', False))
            if spec.get('center', False):
                kw['center'] = self.center
            return linearfit.iter_linear_fit(self.xy, self.uv, wxy, wuv, **kw)
        if op in ('fitShifts', 'fitRshift', 'fitRscale', 'fitGeneral'):
            fn = {'fitShifts': linearfit.fit_shifts, 'fitRshift': linearfit.fit_rshift,
                  'fitRscale': linearfit.fit_rscale, 'fitGeneral': linearfit.fit_general}[op]
            wxy, wuv = self.weights(spec)
            return fn(self.xy, self.uv, wxy, wuv)
        if op == 'inv':
            return linalg.inv(self.invarg)
        if op == 'buildFitMatrix':
            if spec.get('noscale'):
                return linearfit.build_fit_matrix(self.bfm_rot)
            return linearfit.build_fit_matrix(self.bfm_rot, self.bfm_scale)
        if op == 'convexHull':
            kw = {}
            if spec.get('wcs'):
                kw['wcs'] = lambda x, y: (np.asarray(x, dtype=np.double) * 2.0, np.asarray(y, dtype=np.double) + 1.0)
            if spec.get('minsep') is not None:
                kw['min_separation'] = spec['minsep']
            return wcsimage.convex_hull(self.hullx, self.hully, **kw)
        if op == 'xyxyMatch':
            ref, im = self.mtab[spec.get('pair', 'A')]
            return default_matcher()(ref, im, tp_pscale=spec.get('pscale', 1.0), tp_units='pix')
        # ---- corrector operations
        if op == 'fitWcs':
            i = spec['i']
            c = self.corr[i]
            r = imalign.fit_wcs(self.refcat, c.meta['catalog'], c,
                                ref_tpwcs=self.pick_ref_tpwcs(spec, [i]),
                                fitgeom=spec.get('fitgeom', 'general'), nclip=spec.get('nclip', 3),
                                clip_accum=spec.get('clip_accum', False),
                                group_bb_policy=spec.get('bb', 'auto'))
            return {'same': r is c, 'corr': self.corr_result(c)}
        if op == 'alignWcs':
            idx = spec['is']
            if spec.get('group') is not None:
                for i in idx:
                    self.corr[i].meta['group_id'] = spec['group']
            cs = [self.corr[i] for i in idx]
            arg = cs[0] if (spec.get('single') and len(cs) == 1) else list(cs)
            kw = dict(enforce_user_order=spec.get('enforce', True), expand_refcat=spec.get('expand', False),
                      fitgeom=spec.get('fitgeom', 'general'), nclip=spec.get('nclip', 3))
            rk = spec.get('refcat', 'table')
            if rk == 'table':
                kw['refcat'] = self.refcat
            elif rk == 'corr':
                kw['refcat'] = self.refcorr
            kw['ref_tpwcs'] = self.pick_ref_tpwcs(spec, idx)
            mk = spec.get('match', 'default')
            if mk == 'none':
                kw['match'] = None
            elif mk == 'explicit':
                kw['match'] = matchutils.XYXYMatch(searchrad=4.0, separation=0.3, use2dhist=spec.get('hist', True),
                                                   tolerance=1.5)
            if spec.get('minobj') is not None:
                kw['minobj'] = spec['minobj']
            if spec.get('bb') is not None:
                kw['group_bb_policy'] = spec['bb']
            eff = imalign.align_wcs(arg, **kw)
            if isinstance(arg, list) and not (len(arg) == len(cs) and all(a is b for a, b in zip(arg, cs))):
                self.arglist_mutated = True      # the caller's list itself was modified
            return {'refcat': eff, 'corr': [self.corr_result(c) for c in cs]}
        if op == 'setCorrection':
            c = self.corr[spec['i']]
            a = spec.get('args', 'default')
            kw = {}
            rt = self.pick_ref_tpwcs(spec, [spec['i']])
            if rt is not None:
                kw['ref_tpwcs'] = rt
            if spec.get('meta'):
                kw['meta'] = self.arg_meta
            if spec.get('extra'):
                kw['extra_kw'] = 7
            if a == 'default':
                c.set_correction(**kw)
            elif a == 'explicit':
                c.set_correction(self.arg_matrix, self.arg_shift, **kw)
            else:
                c.set_correction(matrix=self.arg_matrix, shift=self.arg_shift, **kw)
            return self.corr_result(c)
        if op == 'copyCorrector':
            i, j = spec['i'], spec['j']
            if j in self.corr:
                raise RuntimeError('harness: corrector %d exists' % j)
            c = self.corr[i].copy()
            self.corr[j] = c
            self.orig[j] = c.original_wcs
            self.cat[j] = c.meta.get('catalog')
            return {'type': type(c).__name__}
        raise ValueError('unknown op %r' % (op,))

    def pick_ref_tpwcs(self, spec, idx):
        rt = spec.get('ref_tpwcs', 'none')
        if rt in (None, False, 'none'):
            return None
        if rt == 'self':
            return self.corr[idx[0]]
        if rt == 'private':
            return _copy.deepcopy(self.corr[idx[0]])
        return self.ref_tpwcs


# =============================================================================================
# the model side and the documented side effects
# =============================================================================================
def model_tokens(spec):
    op = spec['op']
    if op in PURE:
        return op
    if op in ('fitWcs', 'setCorrection'):
        return '%s %d' % (op, spec['i'])
    if op == 'alignWcs':
        return 'alignWcs ' + ' '.join(str(i) for i in spec['is'])
    if op == 'copyCorrector':
        return 'copyCorrector %d %d' % (spec['i'], spec['j'])
    raise ValueError(op)


def documented_effects(spec):
    """(cells that may change, allowed meta keys) straight from the property statement and the
    docstrings: the corrected WCS and meta['fit_info'] of the input correctors, and the
    documented update of meta by set_correction (matrix, shift, merged `meta`, keyword args)"""
    op = spec['op']
    if op in PURE:
        return set(), set()
    if op == 'fitWcs':
        i = spec['i']
        return {'corrWcs:%d' % i, 'fitInfo:%d' % i, 'corrMeta:%d' % i}, {'key:matrix', 'key:shift'}
    if op == 'alignWcs':
        cells = set()
        for i in spec['is']:
            cells |= {'corrWcs:%d' % i, 'fitInfo:%d' % i, 'corrMeta:%d' % i}
        keys = {'key:matrix', 'key:shift'}
        if spec.get('group') is not None:
            keys.add('key:group_id')     # set by the harness itself before the call
        return cells, keys
    if op == 'setCorrection':
        i = spec['i']
        keys = {'key:matrix', 'key:shift'}
        if spec.get('meta'):
            keys |= {'key:note', 'key:nested', 'key:arr'}
        if spec.get('extra'):
            keys.add('key:extra_kw')
        return {'corrWcs:%d' % i, 'corrMeta:%d' % i}, keys
    if op == 'copyCorrector':
        j = spec['j']
        return {c % j for c in ('imCatalog:%d', 'origWcs:%d', 'corrWcs:%d', 'corrMeta:%d', 'fitInfo:%d')}, None
    raise ValueError(op)


def diff_snap(a, b):
    """{cell: [paths that differ]}"""
    out = {}
    for cell in set(a) | set(b):
        da, db = a.get(cell, {}), b.get(cell, {})
        if da != db:
            out[cell] = sorted(k for k in set(da) | set(db) if da.get(k) != db.get(k))[:8]
    return out


def shared_mutables(a, b):
    """mutable python objects reachable from both correctors (a deep copy must share none)"""
    def walk(o, acc, depth=0):
        if depth > 12 or id(o) in acc:
            return
        if isinstance(o, (str, bytes, int, float, complex, bool, type(None), type, types.FunctionType,
                          types.ModuleType, types.BuiltinFunctionType, np.generic, np.dtype)):
            return
        if isinstance(o, tuple):
            for v in o:
                walk(v, acc, depth + 1)
            return
        mod = type(o).__module__ or ''
        if mod.startswith('astropy.units') or mod.startswith('astropy.coordinates') or o is NotImplemented:
            return      # immutable singletons of astropy (units, reference frames) are legitimately shared
        acc[id(o)] = o
        if isinstance(o, dict):
            for v in o.values():
                walk(v, acc, depth + 1)
        elif isinstance(o, (list, set)):
            for v in o:
                walk(v, acc, depth + 1)
        elif isinstance(o, np.ndarray):
            if o.base is not None:
                walk(o.base, acc, depth + 1)
            if o.dtype.kind == 'O':
                for v in o.ravel().tolist():
                    walk(v, acc, depth + 1)
        elif hasattr(o, '__dict__'):
            for v in vars(o).values():
                walk(v, acc, depth + 1)
        try:
            from astropy.table import Table
            if isinstance(o, Table):
                for n in o.colnames:
                    walk(o[n], acc, depth + 1)
                walk(o.meta, acc, depth + 1)
        except Exception:
            pass

    ia, ib = {}, {}
    walk(a, ia)
    walk(b, ib)
    bad = []
    for k in set(ia) & set(ib):
        o = ia[k]
        mod = type(o).__module__ or ''
        if isinstance(o, (np.ndarray, dict, list, set)) or mod.startswith('tweakwcs') or \
                mod.startswith('astropy.table') or mod.startswith('astropy.modeling') or mod.startswith('gwcs') \
                or mod.startswith('astropy.wcs'):
            bad.append(type(o).__name__)
    return sorted(set(bad))


# =============================================================================================
# finding F21: the alignment order is decided by comparing spherical_geometry overlap areas that
# are not reproducible to the last bits; with (nearly) equal overlaps the order flips between
# identical calls
# =============================================================================================
F21_WITNESS = {'wseed': 541249835, 'ckind': 'fits-cd', 'mode': 'matched', 'nv': {'ncorr': 2},
               'ops': [{'op': 'copyCorrector', 'i': 1, 'j': 2},
                       {'op': 'setCorrection', 'i': 1, 'args': 'default', 'ref_tpwcs': 'sep', 'meta': True,
                        'extra': False},
                       {'op': 'alignWcs', 'is': [2, 1], 'refcat': 'corr', 'ref_tpwcs': 'self', 'expand': True,
                        'enforce': False, 'match': 'default', 'fitgeom': 'general', 'nclip': 3}]}
TIE_RTOL = 1e-5


def order_optimised(ops):
    return any(o['op'] == 'alignWcs' and o.get('expand') and not o.get('enforce', True) for o in ops)


def order_ties(world, ops):
    """run `ops` on `world` with the two order-deciding functions of imalign wrapped; returns the
    decisions in which the two best candidates' overlap areas agree to TIE_RTOL (relative)"""
    from tweakwcs import imalign
    ties = []
    orig_img, orig_pair = imalign._max_overlap_image, imalign._max_overlap_pair

    def near(a, b):
        return abs(a - b) <= TIE_RTOL * max(abs(a), abs(b), 1e-300)

    def w_img(refimage, images, enforce_user_order):
        if images and len(images) > 1 and not enforce_user_order:
            ar = sorted((float(refimage._guarded_intersection_area(im)[0]) for im in images), reverse=True)
            if near(ar[0], ar[1]):
                ties.append(['next-image', ar[0], ar[1]])
        return orig_img(refimage, images, enforce_user_order)

    def w_pair(images, enforce_user_order):
        if len(images) > 2 and not enforce_user_order:
            mm = imalign.overlap_matrix(images)
            vals = sorted((float(v) for v in mm[np.triu_indices(len(images), 1)]), reverse=True)
            if len(vals) > 1 and near(vals[0], vals[1]):
                ties.append(['reference-pair', vals[0], vals[1]])
            i, j = np.unravel_index(mm.argmax(), mm.shape)
            si, sj = float(np.sum(mm[i])), float(np.sum(mm[:, j]))
            if near(si, sj):
                ties.append(['reference-of-pair', si, sj])
        return orig_pair(images, enforce_user_order)

    imalign._max_overlap_image, imalign._max_overlap_pair = w_img, w_pair
    try:
        for o in ops:
            if o['op'] == 'copyCorrector' and (o['i'] not in world.corr or o['j'] in world.corr):
                break
            world.call(o)
    finally:
        imalign._max_overlap_image, imalign._max_overlap_pair = orig_img, orig_pair
    return ties


def attribute(case, ops, detail):
    """a determinism failure is attributed to the recorded finding F21 only when the sequence uses
    the overlap-driven alignment order AND one of its order decisions is an area near-tie"""
    if order_optimised(ops):
        try:
            ties = order_ties(build_world(dict(case, ops=ops)), ops)
        except Exception:
            ties = []
        if ties:
            detail['finding'] = 'F21'
            detail['area_ties'] = ties[:3]
    return detail


def probe_f19(ctx):
    """replays the recorded witness (reported as KNOWN-FINDING while it still fails): two correctors
    with identical footprints, alignment order chosen by overlap; equal inputs, different outcomes"""
    case = dict(F21_WITNESS, type='probe-F21')
    ctx.case(case, nontrivial=True, branch='probe:F21')
    base = build_world(case)
    seen = {}
    for trial in range(24):
        w = base.clone()
        r = [w.call(o) for o in case['ops']]
        key = D((r, _nomask(w.snapshot())))
        if key not in seen:
            seen[key] = [str((w.corr[i].meta.get('fit_info') or {}).get('status', 'not aligned')) for i in (2, 1)]
        if len(seen) > 1:
            break
    drift = against_baseline(global_snapshot())
    if drift:
        ctx.oracle_fail(case, {'what': 'global state of the library differs from its value at process start after '
                                       'the sequence', 'changed': drift, 'sequence': case['ops']})
    if len(seen) > 1:
        ctx.oracle_fail(case, {'what': 'align_wcs with expand_refcat=True, enforce_user_order=False on two images '
                                       'with identical footprints: repeated calls on deep copies of the same inputs '
                                       'align the images in different orders and end in different states',
                               'finding': 'F21', 'trials': trial + 1, 'outcomes (status of image 2, image 1)':
                                   list(seen.values()), 'sequence': case['ops']})
    else:
        ctx.note('finding F21 did not reproduce on its witness in 24 trials')


# =============================================================================================
# one case
# =============================================================================================
def _nomask(snap):
    """digest of a world snapshot without the `masked` flag of tables (astropy's deepcopy of a masked
    table that holds no masked value resets the flag: astropy behaviour, not tweakwcs's) and without
    the global PRNG state (scrambled differently for the two runs on purpose)"""
    return D({c: {k: v for k, v in d.items() if not (k == 'masked' or k.endswith(':masked') or k in RNG_KEYS)}
              for c, d in snap.items()})


def needs_corr(ops):
    return any(o['op'] not in PURE for o in ops)


def is_nontrivial(case, world):
    ops = case['ops']
    if len(ops) >= 2 or needs_corr(ops):
        return True
    return any(v in ALIASING_VARIANTS for v in world.nv.values() if isinstance(v, str))


def build_world(case):
    return World(case['wseed'], case.get('ckind'), case.get('mode', 'matched'), case.get('nv'),
                 need_corr=needs_corr(case['ops']))


def run_case(ctx, case, lines, pending):
    """execute one call sequence; returns nothing, records into ctx / lines / pending"""
    ops = case['ops']
    world = build_world(case)
    # the second, equal world: rebuilt from the same seed, or a deep copy of the first one
    if case['wseed'] % 2 == 0:
        other_name, other = 'rebuilt world', build_world(case)
    else:
        other_name, other = 'deep copy', world.clone()
    ctx.case(case, nontrivial=is_nontrivial(case, world),
             branch='seq:' + '+'.join(o['op'] for o in ops))
    ctx.branch('len:%d' % len(ops))
    if world.has_corr:
        ctx.branch('kind:%s:%s' % (world.ckind, world.mode))
    scramble_prng(case['wseed'], 'first')
    s0 = world.snapshot()
    if _nomask(s0) != _nomask(other.snapshot()):
        ctx.oracle_fail(case, {'what': 'harness: equal worlds have different snapshots',
                               'cells': sorted(diff_snap(s0, other.snapshot()))[:6]})
        return
    drift = against_baseline(s0)
    if drift:
        ctx.oracle_fail(case, {'what': 'global state of the library (default arguments / default matcher / module '
                                       'state) differs from its value at process start before the first call of '
                                       'this sequence: an earlier call or the construction of the correctors '
                                       'changed it', 'changed': drift})
    before = s0
    results = []
    union = {}
    for k, spec in enumerate(ops):
        if spec['op'] == 'copyCorrector' and spec['i'] not in world.corr:
            ctx.note('harness: copy of a missing corrector skipped')
            return
        res = world.call(spec)
        # results are digested at once: later calls must not be able to alter what is compared
        results.append((D(res), _brief(res)))
        after = world.snapshot()
        ctx.branch('%s:%s' % (spec['op'], 'ok' if res[0] == 'ok' else 'exc:' + res[1]))
        for key in ('refcat', 'ref_tpwcs', 'match', 'args', 'fitgeom', 'w'):
            if key in spec:
                ctx.branch('%s.%s=%s' % (spec['op'], key, spec[key]))
        if res[0] == 'ok' and spec['op'] in ('fitWcs', 'alignWcs'):
            for i in ([spec['i']] if spec['op'] == 'fitWcs' else spec['is']):
                st = str((world.corr[i].meta.get('fit_info') or {}).get('status', 'none'))
                ctx.branch('status:' + st.split(':')[0])
        observe_aliases(ctx, world, spec, res)
        if res[0] == 'exc' and 'read-only' in res[2]:
            ctx.oracle_fail(case, {'what': 'call %d (%s) tried to write into a read-only caller array'
                                           % (k, spec['op']), 'sequence': ops, 'error': res[2]})
        if res[0] == 'exc' and res[1] == 'RuntimeError' and res[2].startswith('harness'):
            raise RuntimeError(res[2])
        changed = diff_snap(before, after)
        for c, pth in against_baseline(after).items():
            changed.setdefault(c, pth)
        # ---- oracle: documented side effects only
        cells, keys = documented_effects(spec)
        bad = {c: p for c, p in changed.items() if c not in cells}
        for c, p in changed.items():
            if c.startswith('corrMeta:') and c in cells and keys is not None:
                extra = [q for q in p if q not in keys]
                if extra:
                    bad[c] = extra
        if world.arglist_mutated:
            world.arglist_mutated = False
            changed['argList'] = ['items']
            bad['argList'] = ['items']
        if bad:
            ctx.oracle_fail(case, {'what': 'call %d (%s) changed caller-owned data outside the documented '
                                           'side effects' % (k, spec['op']),
                                   'changed': {c: bad[c] for c in sorted(bad)[:6]}, 'sequence': ops,
                                   'world': {'seed': case['wseed'], 'kind': case.get('ckind'), 'variants': world.nv}})
        # ---- correspondence: changed cells within the model's declared write set
        mchanged = sorted(changed)
        lines.append('store ' + model_tokens(spec))
        pending.append(('step', case, k, mchanged))
        for c in mchanged:
            union[c] = 1
        if spec['op'] == 'copyCorrector' and res[0] == 'ok':
            i, j = spec['i'], spec['j']
            ctx.branch('copy-checked')
            for part in ('imCatalog', 'origWcs', 'corrWcs', 'corrMeta', 'fitInfo'):
                a = dict(after.get('%s:%d' % (part, i), {}))
                b = dict(after.get('%s:%d' % (part, j), {}))
                for dd in (a, b):
                    for kk in [kk for kk in dd if kk == 'same-object' or kk.startswith('ctor-')]:
                        dd.pop(kk)
                if a != b:
                    ctx.oracle_fail(case, {'what': 'copy() differs from its source in %s' % part, 'sequence': ops})
            sh = shared_mutables(world.corr[i], world.corr[j])
            if sh:
                ctx.oracle_fail(case, {'what': 'copy() shares mutable objects with its source', 'shared': sh,
                                       'sequence': ops})
        before = after
    lines.append('store ' + ' ; '.join(model_tokens(o) for o in ops))
    pending.append(('seq', case, None, sorted(union)))
    lines.append('storerun ' + ' ; '.join(model_tokens(o) for o in ops))
    pending.append(('run', case, None, None))

    # ---- determinism: the same sequence on the twin and on the deep copy (after the first run,
    #      so that any state kept in the library between calls would show)
    final = _nomask(before)
    scramble_prng(case['wseed'], 'second')
    for name, other in ((other_name, other),):
        for k, spec in enumerate(ops):
            r2 = other.call(spec)
            if D(r2) != results[k][0]:
                ctx.oracle_fail(case, attribute(case, ops[:k + 1], {
                    'what': 'call %d (%s) repeated on an equal %s gave a different result' % (k, spec['op'], name),
                    'sequence': ops, 'first': results[k][1], 'second': _brief(r2)}))
                break
        else:
            s2 = other.snapshot()
            if _nomask(s2) != final:
                ctx.oracle_fail(case, attribute(case, ops, {
                    'what': 'the same sequence on an equal %s ended in a different state' % name,
                    'cells': sorted(diff_snap(before, s2))[:6], 'sequence': ops}))
    # ---- pure calls repeated on the same objects after the rest of the sequence (model: leak = [])
    for k, spec in enumerate(ops):
        if spec['op'] in PURE:
            lines.append('leak ' + ' ; '.join(model_tokens(o) for o in ops[k:]) + ' | ' + model_tokens(spec))
            r3 = world.call(spec)
            pending.append(('leak', case, k, D(r3) == results[k][0]))
    after = world.snapshot()
    ch = diff_snap(before, after)
    if 'moduleState' in ch:     # the PRNG state was scrambled by the harness in between
        ch['moduleState'] = [k for k in ch['moduleState'] if k not in RNG_KEYS]
        if not ch['moduleState']:
            del ch['moduleState']
    if ch:
        ctx.oracle_fail(case, {'what': 'repeating the pure calls of the sequence changed caller-owned data',
                               'changed': ch, 'sequence': ops})


def observe_aliases(ctx, world, spec, res):
    """results that alias caller-owned objects.  Not a violation of C19 as stated (nothing is modified
    by the entry point), but the caller can then corrupt its own input by editing a result in place:
    recorded in the evidence as observations"""
    if res[0] != 'ok':
        return
    r, op = res[1], spec['op']
    obs = None
    if op == 'iterLinearFit' and spec.get('center') and world.center is not None:
        if r.get('center') is world.center:
            obs = "iter_linear_fit: fit['center'] is the caller's `center` object itself"
        elif isinstance(r.get('center'), np.ndarray) and isinstance(world.center, np.ndarray) and \
                np.shares_memory(r['center'], world.center):
            obs = "iter_linear_fit: fit['center'] shares memory with the caller's `center`"
    elif op == 'alignWcs' and spec.get('refcat', 'table') == 'table':
        eff = r.get('refcat')
        try:
            if eff is world.refcat or any(np.shares_memory(np.asarray(eff[c]), np.asarray(world.refcat[c]))
                                          for c in world.refcat.colnames if c in eff.colnames):
                obs = "align_wcs: the returned reference catalog shares memory with the caller's refcat"
        except Exception:
            pass
    elif op == 'setCorrection' and spec.get('meta'):
        c = world.corr[spec['i']]
        if c.meta.get('nested') is world.arg_meta['nested'] or c.meta.get('arr') is world.arg_meta['arr']:
            obs = "set_correction(meta=...): corrector.meta holds the caller's mutable values (shallow merge)"
    if obs:
        ctx.branch('observation:' + obs.split(':')[0])
        if obs not in ctx.notes:
            ctx.note(obs)


def _brief(res):
    if res[0] == 'exc':
        return list(res)
    r = res[1]
    if isinstance(r, dict):
        out = {}
        for k in ('matrix', 'shift', 'fitmask', 'rmse'):
            if k in r:
                out[k] = np.asarray(r[k], dtype=np.double).tolist() if k != 'fitmask' else np.asarray(r[k]).astype(int).tolist()
        if 'corr' in r:
            cs = r['corr'] if isinstance(r['corr'], list) else [r['corr']]
            out['fit_info'] = [{kk: (np.asarray(v).tolist() if kk in ('matrix', 'shift') else v)
                                for kk, v in (c['fit_info'].items() if isinstance(c['fit_info'], dict) else [])
                                if kk in ('status', 'matrix', 'shift', 'nmatches')} for c in cs]
        return out
    return _ADDR.sub('0x', repr(r))[:200]


def sandwich_case(ctx, case, lines, pending):
    """the same call on two fresh deep copies of the same inputs, before and after unrelated
    calls (on other objects) that use the shared default matcher / default arguments"""
    base = build_world({'wseed': case['wseed'], 'ckind': case['ckind'], 'mode': case['mode'],
                        'nv': case.get('nv'), 'ops': case['ops']})
    other = build_world({'wseed': case['wseed'] + 1000003, 'ckind': case['mid_ckind'], 'mode': case['mid_mode'],
                         'ops': case['mid']})
    ctx.case(case, nontrivial=True, branch='sandwich:' + '+'.join(o['op'] for o in case['mid']))
    x = base.clone()
    y = base.clone()
    s0 = base.snapshot()
    r1, d1, r2, d2 = [], [], [], []
    scramble_prng(case['wseed'], 'x')
    for o in case['ops']:
        r = x.call(o)
        d1.append(D(r))
        r1.append(_brief(r))
    for o in case['mid']:
        if o['op'] == 'copyCorrector' and o['i'] not in other.corr:
            return
        r = other.call(o)
        ctx.branch('mid:%s:%s' % (o['op'], r[0] if r[0] == 'ok' else r[1]))
    scramble_prng(case['wseed'], 'y')
    for o in case['ops']:
        r = y.call(o)
        d2.append(D(r))
        r2.append(_brief(r))
    same = d1 == d2 and _nomask(x.snapshot()) == _nomask(y.snapshot())
    # model: the calls in between act on other correctors (indices shifted by 100)
    def shift(o):
        o = dict(o)
        for k in ('i', 'j'):
            if k in o:
                o[k] += 100
        if 'is' in o:
            o['is'] = [i + 100 for i in o['is']]
        return o
    detail = None
    if not same:
        k = next((k for k in range(len(r1)) if d1[k] != d2[k]), None)
        detail = attribute(case, case['ops'], {
            'what': 'the same call on fresh deep copies of the same inputs gave different results before and '
                    'after unrelated calls',
            'call': case['ops'][k] if k is not None else 'final state', 'between': case['mid'],
            'first': r1[k] if k is not None else None, 'second': r2[k] if k is not None else None})
        ctx.oracle_fail(case, detail)
    for o in case['ops']:
        lines.append('leak ' + ' ; '.join(model_tokens(shift(m)) for m in case['mid']) + ' | ' + model_tokens(o))
        # a difference attributed to the recorded finding is not held against the model
        pending.append(('leak', case, None, True if (detail and detail.get('finding')) else same))
    if _nomask(base.snapshot()) != _nomask(s0):
        ctx.oracle_fail(case, {'what': 'calls on deep copies / other objects changed the original objects',
                               'cells': sorted(diff_snap(s0, base.snapshot()))[:6], 'between': case['mid']})


def private_plane_case(ctx, case):
    """two metamorphic relations that hold only if internal working objects are private copies:
    * ref_tpwcs=None must be equivalent to passing a private deep copy of the first image's
      corrector: the reference plane is copied before use (wcsimage.align_to_ref);
    * with a fixed alignment order the bounding-polygon policy must not influence the result: the
      approximate bounding box works on a copy of the corrector (WCSGroupCatalog._aproximate_bb)"""
    base = build_world(case)
    variant = case.get('variant', 'plane')
    ctx.case(case, nontrivial=True, branch='private-%s:%s' % (variant, case['ops'][0]['op']))
    x = base.clone()
    y = base.clone()
    spec = dict(case['ops'][0])
    spec['ref_tpwcs'] = 'none'
    spec2 = dict(spec)
    if variant == 'plane':
        spec2['ref_tpwcs'] = 'private'
        what = ("ref_tpwcs=None differs from passing a private deep copy of the first image's corrector: the "
                'reference plane is not independent of the correctors being modified')
    else:
        spec['bb'] = 'auto'
        spec2['bb'] = 0
        what = ('group_bb_policy=0 and group_bb_policy="auto" give different results for a fixed alignment '
                'order: computing the approximate bounding box modified a corrector')
    r1 = x.call(spec)
    r2 = y.call(spec2)
    ctx.branch('private-%s:%s' % (variant, r1[0] if r1[0] == 'ok' else r1[1]))
    if D(r1) != D(r2):
        diff = None
        try:
            c1 = r1[1]['corr'] if isinstance(r1[1]['corr'], list) else [r1[1]['corr']]
            c2 = r2[1]['corr'] if isinstance(r2[1]['corr'], list) else [r2[1]['corr']]
            diff = [sorted(k for k in set(a['wcs']) | set(b['wcs']) if a['wcs'].get(k) != b['wcs'].get(k))[:6]
                    for a, b in zip(c1, c2)]
        except Exception:
            pass
        ctx.oracle_fail(case, {'what': what, 'sequence': [spec], 'versus': [spec2], 'wcs_differences': diff,
                               'first': _brief(r1), 'second': _brief(r2)})


def compare(ctx, outs, pending):
    last_ws = None
    for out, (kind, case, k, data) in zip(outs, pending):
        toks = out.split()
        if not toks or toks[0] != 'ok':
            ctx.disagree(case, {'op': 'store' if kind != 'leak' else 'leak', 'model': out, 'impl': 'valid sequence'})
            continue
        cells = set(toks[1:])
        if kind in ('step', 'seq'):
            extra = [c for c in data if c not in cells]
            if extra:
                ctx.disagree(case, {'op': 'store', 'what': 'cells changed in reality are not in the declared write set',
                                    'call': k, 'changed': data, 'model_write_set': sorted(cells),
                                    'outside': extra})
            if kind == 'seq':
                last_ws = cells
        elif kind == 'run':
            ws, last_ws = last_ws, None
            if ws is not None and not cells <= ws:
                ctx.disagree(case, {'op': 'storerun', 'what': 'the executed model changed cells outside mayWrite',
                                    'run': sorted(cells), 'mayWrite': sorted(ws)})
        elif kind == 'leak':
            if not cells and not data:
                ctx.disagree(case, {'op': 'leak', 'what': 'the model declares the call independent of the calls in '
                                                          'between, the implementation gave a different result',
                                    'call': k})
            elif cells:
                ctx.branch('leak:model-dependent')


# =============================================================================================
# generators
# =============================================================================================
def gen_pure(rng):
    op = rng.choice(['iterLinearFit', 'iterLinearFit', 'fitShifts', 'fitRshift', 'fitRscale', 'fitGeneral',
                     'inv', 'buildFitMatrix', 'convexHull', 'xyxyMatch', 'xyxyMatch'])
    s = {'op': op}
    if op == 'iterLinearFit':
        s.update(fitgeom=rng.choice(['shift', 'rshift', 'rscale', 'general']),
                 w=rng.choice(['none', 'xy', 'uv', 'both']), center=rng.random() < 0.5,
                 nclip=rng.choice([0, 1, 3, None]), sigma=rng.choice([[3.0, 'rmse'], [2.0, 'mae'], [2.5, 'std'], 2.0]),
                 clip_accum=rng.random() < 0.5)
    elif op.startswith('fit'):
        s.update(w=rng.choice(['none', 'xy', 'uv', 'both']))
    elif op == 'convexHull':
        s.update(wcs=rng.random() < 0.5, minsep=rng.choice([None, 0.0, 1e-3, 0.5]))
    elif op == 'buildFitMatrix':
        s.update(noscale=rng.random() < 0.2)
    elif op == 'xyxyMatch':
        s.update(pair=rng.choice(['A', 'B']), pscale=rng.choice([1.0, 0.5, 1.3]))
    return s


def gen_corr_op(rng, live, nxt, mode):
    """one corrector operation over the live corrector indices; returns (spec, new live, nxt)"""
    op = rng.choice(['fitWcs', 'alignWcs', 'alignWcs', 'alignWcs', 'setCorrection', 'setCorrection', 'copyCorrector'])
    if op == 'fitWcs':
        s = {'op': op, 'i': rng.choice(live), 'ref_tpwcs': rng.choice(['none', 'none', 'sep', 'self']),
             'fitgeom': rng.choice(['shift', 'rshift', 'rscale', 'general']), 'nclip': rng.choice([0, 3])}
        if rng.random() < 0.2:
            s['bb'] = 0
    elif op == 'alignWcs':
        k = rng.randint(1, len(live))
        idx = rng.sample(live, k)
        if rng.random() < 0.05:
            idx = idx + [idx[0]]
        refcat = rng.choice(['table', 'table', 'corr', 'none'])
        s = {'op': op, 'is': idx, 'refcat': refcat, 'ref_tpwcs': rng.choice(['none', 'none', 'sep', 'self']),
             'expand': rng.random() < 0.4, 'enforce': rng.random() < 0.6,
             'match': rng.choice(['default', 'default', 'default', 'explicit'] + (['none'] if mode == 'matched' else [])),
             'fitgeom': rng.choice(['shift', 'rshift', 'rscale', 'general']), 'nclip': rng.choice([0, 3])}
        if len(idx) == 1 and rng.random() < 0.5:
            s['single'] = True
        if rng.random() < 0.15:
            s['group'] = 7
        if rng.random() < 0.05:
            s['minobj'] = 500
        if rng.random() < 0.2:
            s['bb'] = rng.choice([0, 1, 'exact'])
    elif op == 'setCorrection':
        s = {'op': op, 'i': rng.choice(live), 'args': rng.choice(['default', 'explicit', 'kw']),
             'ref_tpwcs': rng.choice(['none', 'none', 'sep']), 'meta': rng.random() < 0.4, 'extra': rng.random() < 0.2}
    else:
        s = {'op': op, 'i': rng.choice(live), 'j': nxt}
        live = live + [nxt]
        nxt += 1
    return s, live, nxt


def gen_case(rng, force_corr=None):
    n = rng.choice([1, 2, 2, 3, 3, 3])
    wseed = rng.getrandbits(30)
    corr = force_corr if force_corr is not None else rng.random() < 0.5
    case = {'wseed': wseed, 'ops': []}
    if not corr:
        case['ops'] = [gen_pure(rng) for _ in range(n)]
        if rng.random() < 0.3 and n >= 2:
            case['ops'][-1] = dict(case['ops'][0])     # the same call twice on the same objects
        return case
    case['ckind'] = rng.choice(World.CKINDS)
    case['mode'] = rng.choice(['matched', 'matched', 'survey'])
    ncorr = rng.choice([2, 3, 3, 4])
    case['nv'] = {'ncorr': ncorr}
    live, nxt = list(range(ncorr)), ncorr
    root = {i: i for i in live}
    for _ in range(n):
        if rng.random() < 0.2:
            case['ops'].append(gen_pure(rng))
        else:
            s, live, nxt = gen_corr_op(rng, live, nxt, case['mode'])
            if s['op'] == 'copyCorrector':
                root[s['j']] = root[s['i']]
            if s['op'] == 'alignWcs' and s['expand'] and not s['enforce'] and \
                    len({root[i] for i in s['is']}) < len(s['is']):
                # open finding F21 (known_findings.json): images with identical footprints (a corrector
                # and its copy) aligned in overlap-driven order.  Exactly this class is excluded here;
                # its witness is replayed by probe_f19
                s['enforce'] = True
            case['ops'].append(s)
    if rng.random() < 0.2 and n >= 2 and case['ops'][0]['op'] != 'copyCorrector':
        case['ops'][-1] = dict(case['ops'][0])
    return case


def corpus(full=True):
    """hand-built sequences that run first (quick tier: every sequence for the FITS CD and the JWST
    corrector, a rotating third of them for the other three kinds)"""
    ld = {'xy': 'ld', 'uv': 'ld', 'wxy': 'ld', 'wuv': 'ld', 'center': 'ld', 'inv': 'ld', 'hull': 'ld',
          'bfm': 'ld', 'n': 20}
    ldf = dict(ld, xy='ldF', uv='ldview', wxy='ldro', wuv='ldview', center='list', inv='ldF', hull='list')
    ro = dict(ld, xy='ldro', uv='ro', wxy='ro', wuv='ldro', center='ro', inv='ldro', hull='ro', bfm='ro')
    out = []
    ilf = {'op': 'iterLinearFit', 'fitgeom': 'general', 'w': 'both', 'center': True, 'nclip': 3,
           'sigma': [3.0, 'rmse'], 'clip_accum': False}
    for k, nv in enumerate((ld, ldf, ro)):
        out.append({'wseed': 100 + k, 'nv': nv, 'ops': [ilf, dict(ilf, fitgeom='rscale', center=False), ilf]})
        out.append({'wseed': 110 + k, 'nv': nv, 'ops': [{'op': 'fitShifts', 'w': 'both'}, {'op': 'fitRscale', 'w': 'xy'},
                                                       {'op': 'fitGeneral', 'w': 'uv'}]})
        out.append({'wseed': 120 + k, 'nv': nv, 'ops': [{'op': 'fitRshift', 'w': 'none'}, {'op': 'fitGeneral', 'w': 'none'},
                                                       {'op': 'fitRshift', 'w': 'none'}]})
        out.append({'wseed': 130 + k, 'nv': nv, 'ops': [{'op': 'inv'}, {'op': 'buildFitMatrix'}, {'op': 'inv'}]})
        out.append({'wseed': 140 + k, 'nv': nv, 'ops': [{'op': 'convexHull', 'wcs': True, 'minsep': 1e-3},
                                                       {'op': 'convexHull', 'wcs': False, 'minsep': None}]})
    out.append({'wseed': 150, 'ops': [{'op': 'xyxyMatch', 'pair': 'A'}, {'op': 'xyxyMatch', 'pair': 'B'},
                                      {'op': 'xyxyMatch', 'pair': 'A'}]})
    k = 0
    for ckind in ('fits-cd', 'jwst', 'fits-sip', 'fits-pc', 'jwst-novacorr'):
        nv = {'ncorr': 3, 'nsrc': 20}
        base = {'ckind': ckind, 'mode': 'matched', 'nv': nv}
        al = {'op': 'alignWcs', 'is': [0, 1], 'refcat': 'table', 'ref_tpwcs': 'none', 'expand': False,
              'enforce': True, 'match': 'default', 'fitgeom': 'general', 'nclip': 3}
        seqs = [
            [{'op': 'fitWcs', 'i': 0, 'ref_tpwcs': 'none', 'fitgeom': 'general', 'nclip': 3}],
            [{'op': 'fitWcs', 'i': 0, 'ref_tpwcs': 'sep', 'fitgeom': 'rscale', 'nclip': 3},
             {'op': 'fitWcs', 'i': 0, 'ref_tpwcs': 'none', 'fitgeom': 'general', 'nclip': 0},
             {'op': 'setCorrection', 'i': 0, 'args': 'default', 'ref_tpwcs': 'none'}],
            [al, {'op': 'xyxyMatch', 'pair': 'B'}, dict(al, **{'is': [2]})],
            [dict(al, **{'is': [0, 1, 2], 'refcat': 'none', 'expand': True, 'enforce': False}),
             dict(al, **{'is': [0, 1, 2], 'refcat': 'none', 'expand': True, 'enforce': False})],
            [dict(al, refcat='corr'), dict(al, refcat='corr', ref_tpwcs='sep', expand=True)],
            [dict(al, **{'is': [0], 'single': True, 'ref_tpwcs': 'sep', 'expand': True}),
             dict(al, **{'is': [1], 'single': True, 'ref_tpwcs': 'self', 'match': 'none'})],
            [dict(al, **{'is': [0, 1, 2], 'group': 7, 'match': 'explicit'})],
            [{'op': 'setCorrection', 'i': 0, 'args': 'default', 'ref_tpwcs': 'none'},
             {'op': 'setCorrection', 'i': 0, 'args': 'explicit', 'ref_tpwcs': 'none', 'meta': True},
             {'op': 'setCorrection', 'i': 0, 'args': 'kw', 'ref_tpwcs': 'sep', 'meta': True, 'extra': True}],
            [{'op': 'copyCorrector', 'i': 0, 'j': 3}, {'op': 'fitWcs', 'i': 3, 'ref_tpwcs': 'none', 'fitgeom': 'general', 'nclip': 3},
             dict(al, **{'is': [0, 3]})],
            [{'op': 'copyCorrector', 'i': 1, 'j': 3}, {'op': 'setCorrection', 'i': 3, 'args': 'explicit', 'ref_tpwcs': 'none'},
             {'op': 'setCorrection', 'i': 1, 'args': 'default', 'ref_tpwcs': 'none'}],
        ]
        for n, seq in enumerate(seqs):
            if full or ckind in ('fits-cd', 'jwst') or n % 4 == len(ckind) % 4:
                out.append(dict(base, wseed=200 + k, ops=seq, nv=dict(nv, argm=['ld', 'list', 'ldro'][k % 3],
                                                                     args=['ld', 'list', 'ro'][k % 3])))
            k += 1
        if full or ckind in ('fits-cd', 'jwst'):
            out.append(dict(base, mode='survey', wseed=400 + k,
                            ops=[dict(al, **{'is': [0, 1, 2], 'expand': True, 'enforce': False}),
                                 dict(al, **{'is': [2, 1], 'refcat': 'corr', 'expand': True})]))
    return out


def gen_sandwich(rng):
    ckind = rng.choice(World.CKINDS)
    mode = rng.choice(['matched', 'survey'])
    al = {'op': 'alignWcs', 'is': [0, 1], 'refcat': rng.choice(['table', 'corr', 'none']),
          'ref_tpwcs': rng.choice(['none', 'sep']), 'expand': rng.random() < 0.5, 'enforce': rng.random() < 0.5,
          'match': 'default', 'fitgeom': rng.choice(['rscale', 'general']), 'nclip': 3}
    ops = [al]
    if rng.random() < 0.4:
        ops = [rng.choice([al, {'op': 'fitWcs', 'i': 0, 'ref_tpwcs': 'none', 'fitgeom': 'general', 'nclip': 3}]),
               {'op': 'setCorrection', 'i': 1, 'args': 'default', 'ref_tpwcs': 'none'}]
    mid = []
    for _ in range(rng.randint(1, 3)):
        r = rng.random()
        if r < 0.4:
            mid.append({'op': 'alignWcs', 'is': [0, 1], 'refcat': 'table', 'ref_tpwcs': 'none', 'expand': rng.random() < 0.5,
                        'enforce': True, 'match': 'default', 'fitgeom': 'shift', 'nclip': 0})
        elif r < 0.7:
            mid.append({'op': 'xyxyMatch', 'pair': rng.choice(['A', 'B']), 'pscale': rng.choice([1.0, 0.7])})
        elif r < 0.85:
            mid.append({'op': 'setCorrection', 'i': 0, 'args': 'default', 'ref_tpwcs': 'none'})
        else:
            mid.append(gen_pure(rng))
    return {'type': 'sandwich', 'wseed': rng.getrandbits(30), 'ckind': ckind, 'mode': mode,
            'nv': {'ncorr': 2}, 'ops': ops, 'mid': mid, 'mid_ckind': rng.choice(World.CKINDS),
            'mid_mode': rng.choice(['matched', 'survey'])}


def gen_private_plane(rng):
    ckind = rng.choice(World.CKINDS)
    if rng.random() < 0.4:
        op = {'op': 'fitWcs', 'i': 0, 'fitgeom': rng.choice(['rscale', 'general']), 'nclip': 3}
    else:
        op = {'op': 'alignWcs', 'is': [0, 1, 2][:rng.choice([1, 2, 3])], 'refcat': 'table', 'expand': False, 'enforce': True,
              'match': rng.choice(['default', 'none']), 'fitgeom': rng.choice(['rscale', 'general']), 'nclip': 3,
              'group': 7}
    variant = rng.choice(['plane', 'plane', 'bb'])
    if variant == 'bb':
        ckind = rng.choice(['jwst', 'jwst-novacorr', 'fits-cd'])
    return {'type': 'private-plane', 'variant': variant, 'wseed': rng.getrandbits(30), 'ckind': ckind,
            'mode': 'matched', 'nv': {'ncorr': 3}, 'ops': [op]}


# =============================================================================================
def matcher_call_purity(ctx):
    """XYXYMatch.__call__ as an entry point of its own: the two caller-owned tables (and the corrector handed
    over in the deprecated `tp_wcs=` form) are the same before and after the call, in both forms of the call
    and when the call is repeated with another tangent plane"""
    import warnings
    from astropy.table import Table
    from tweakwcs.matchutils import XYXYMatch
    from .. import scenes
    rng = ctx.rng
    for _ in range(ctx.n(6, 60)):
        c, info = scenes.mk_jwst(rng) if rng.random() < 0.5 else scenes.mk_fits(rng, kind=rng.choice(['cd', 'pc', 'lut']))
        c2, _i2 = scenes.mk_fits(rng, kind='cd', pointing=tuple(info['crval']))
        nx, ny = scenes.image_size(c)
        n = rng.randint(4, 15)
        pts = []
        for _k in range(3000):
            if len(pts) == n:
                break
            q = (rng.uniform(30, nx - 30), rng.uniform(30, ny - 30))
            if all(abs(q[0] - r[0]) + abs(q[1] - r[1]) > 40 for r in pts):
                pts.append(q)
        pts = np.array(pts)
        ra, dec = c.det_to_world(pts[:, 0] + 0.4, pts[:, 1] - 0.3)
        form = rng.choice(['tp_wcs', 'tpxy'])
        case = {'type': 'matcher-call', 'form': form, 'corrector': info, 'n': len(pts)}
        ctx.case(case, nontrivial=True, branch='matcher-call:' + form)
        m = XYXYMatch(searchrad=3.0, separation=0.5, tolerance=1.5, use2dhist=rng.random() < 0.5)
        if form == 'tp_wcs':
            refcat = Table([np.asarray(ra, float), np.asarray(dec, float)], names=('RA', 'DEC'), meta={'name': 'r'})
            imcat = Table([pts[:, 0], pts[:, 1]], names=('x', 'y'), meta={'name': 'i'})
            kws = [{'tp_wcs': c}, {'tp_wcs': c2}]
        else:
            rt = np.array(c.world_to_tanp(ra, dec), dtype=float)
            it = np.array(c.det_to_tanp(pts[:, 0], pts[:, 1]), dtype=float)
            refcat = Table([rt[0], rt[1], np.asarray(ra, float)], names=('TPx', 'TPy', 'RA'))
            imcat = Table([it[0], it[1], pts[:, 0]], names=('TPx', 'TPy', 'x'))
            kws = [{}, {}]
        before = (snap_table(refcat), snap_table(imcat), snap_corrector_full(c), snap_corrector_full(c2))
        for kw in kws:
            try:
                with warnings.catch_warnings():
                    warnings.simplefilter('ignore')
                    m(refcat, imcat, tp_pscale=float(c.tanp_center_pixel_scale), **kw)
            except Exception as e:   # noqa
                ctx.oracle_fail(case, {'what': 'XYXYMatch raised on valid catalogs', 'error': repr(e)[:160]})
                break
            after = (snap_table(refcat), snap_table(imcat), snap_corrector_full(c), snap_corrector_full(c2))
            for nm, a, b in zip(('reference table', 'image table', 'corrector', 'second corrector'), before, after):
                df = sorted(k for k in set(a) | set(b) if a.get(k) != b.get(k))
                if df:
                    ctx.oracle_fail(case, {'what': 'XYXYMatch.__call__ modified the caller-owned %s' % nm,
                                           'changed': [str(x) for x in df[:6]]})
                    break


def refcat_feedback_purity(ctx):
    """a reference table that already carries the bookkeeping columns of an earlier run (`TPx`, `TPy`, `id`:
    the catalog RETURNED by align_wcs fed back as `refcat`, as multi-pass pipelines do) is caller-owned data
    like any other: a further align_wcs / fit_wcs in ANOTHER tangent plane leaves it bit-identical"""
    import warnings
    from astropy.table import Table
    from tweakwcs import align_wcs, fit_wcs, XYXYMatch
    from .. import scenes
    from . import c01
    rng = ctx.rng
    for _ in range(ctx.n(4, 40)):
        pt = scenes.rand_pointing(rng)
        cors = []
        ras, decs = [], []
        for i in range(2):
            dec_i = pt[1] + (0.3 * i if pt[1] < 0 else -0.3 * i)
            c, info = (scenes.mk_jwst(rng, pointing=(pt[0], dec_i)) if rng.random() < 0.4
                       else scenes.mk_fits(rng, kind=rng.choice(['cd', 'pc']), pointing=(pt[0], dec_i)))
            nx, ny = scenes.image_size(c)
            px, py = c01.separated_pixels(rng, nx, ny, rng.choice([6, 12]))
            unit = float(c.tanp_center_pixel_scale)
            ra, dec = c.det_to_world(px + 0.3, py - 0.2)
            c.meta['catalog'] = Table([px, py], names=['x', 'y'])
            c.meta['name'] = 'im%d' % i
            cors.append((c, info, px, py, np.asarray(ra, float), np.asarray(dec, float)))
            ras += list(np.asarray(ra, float))
            decs += list(np.asarray(dec, float))
        tbl = Table([np.array(ras), np.array(decs)], names=['RA', 'DEC'])
        case = {'type': 'refcat-feedback', 'kinds': [t[1]['kind'] for t in cors]}
        ctx.case(case, nontrivial=True, branch='refcat-feedback')
        m = XYXYMatch(searchrad=5.0, separation=0.1, tolerance=2.0, use2dhist=False)
        try:
            with warnings.catch_warnings():
                warnings.simplefilter('ignore')
                out = align_wcs([cors[0][0]], refcat=tbl, fitgeom='shift', match=m, expand_refcat=rng.random() < 0.5)
                if not ('TPx' in out.colnames and 'id' in out.colnames):
                    ctx.note('refcat-feedback: the returned catalog carries no TPx / id columns')
                before = snap_table(out)
                second = rng.choice(['align_wcs', 'fit_wcs'])
                c2 = cors[1][0]
                if second == 'align_wcs':
                    align_wcs([c2], refcat=out, fitgeom='shift', match=m, expand_refcat=False)
                else:
                    fit_wcs(Table([cors[1][4], cors[1][5]], names=['RA', 'DEC']), c2.meta['catalog'], c2.copy())
                    align_wcs([c2], refcat=out, fitgeom='rscale', match=m, expand_refcat=False)
                after = snap_table(out)
        except Exception as e:   # noqa
            ctx.oracle_fail(case, {'what': 'alignment raised', 'error': repr(e)[:200]})
            continue
        df = sorted(k for k in set(before) | set(after) if before.get(k) != after.get(k))
        if df:
            ctx.oracle_fail(case, {'what': 'a reference table returned by an earlier align_wcs and passed as refcat '
                                           'of a further alignment was modified', 'changed': [str(x) for x in df[:6]],
                                   'second_call': second})


def kept_wcs_purity(ctx):
    """a WCS object the caller took from a corrector after one correction (`w1 = corr.wcs`, e.g. wrapped in a
    second corrector whose `original_wcs` it becomes) is not rewritten by LATER corrections of the first
    corrector, and corrections of the second corrector do not reach the first"""
    from .. import scenes
    from . import c02
    rng = ctx.rng
    # histories before the WCS is taken: S = set_correction, W = re-wrap (every run: all of them for gWCS)
    patterns = ['', 'S', 'SS', 'SWS', 'SSS', 'SW', 'SSW']
    todo = [(True, p) for p in patterns] + [(False, rng.choice(patterns)) for _ in range(3)]
    todo += [(rng.random() < 0.6, rng.choice(patterns)) for _ in range(ctx.n(0, 70))]
    for jw, pat in todo:
        c, info = scenes.mk_jwst(rng) if jw else scenes.mk_fits(rng)
        unit = float(c.tanp_center_pixel_scale) if jw else 1.0
        case = {'type': 'kept-wcs', 'kind': info['kind'], 'history_before': pat}
        ctx.case(case, nontrivial=True, branch='kept-wcs:%s:%s' % ('jwst' if jw else info['kind'], pat or '-'))
        try:
            for op in pat:
                if op == 'S':
                    f = c02.gen_corr(rng, unit, big=False)
                    c.set_correction(f.M.tolist(), f.t.tolist())
                else:
                    c = scenes.rewrap(c)
            w1 = c.wcs
            c2 = scenes.rewrap(c)
            px, py = scenes.probe_pixels(rng, c, 6)
            sky1 = np.array(w1(px, py) if jw else w1.all_pix2world(px, py, 0))
            s1 = snap_wcs(w1)
            o2 = snap_wcs(c2.original_wcs)
            for _k in range(rng.choice([1, 2])):
                f = c02.gen_corr(rng, unit, big=False)
                c.set_correction(f.M.tolist(), f.t.tolist())
            sky1b = np.array(w1(px, py) if jw else w1.all_pix2world(px, py, 0))
            # (a FITS corrector updates its own astropy WCS object in place - that object IS `corr.wcs`, the
            #  documented side effect; a gWCS corrector builds a new gWCS for every correction, so an earlier
            #  one is the caller's)
            if jw and (not np.array_equal(sky1, sky1b) or snap_wcs(w1) != s1 or snap_wcs(c2.original_wcs) != o2):
                ctx.oracle_fail(case, {'what': 'a WCS object taken from the corrector before a further correction (and '
                                               'the original_wcs of a corrector built on it) was rewritten by that '
                                               'correction', 'max_sky_change_deg': float(np.max(np.abs(sky1 - sky1b)))})
                continue
            # the other direction: correcting the second corrector leaves the first one alone
            sc = snap_corr_wcs(c)
            f = c02.gen_corr(rng, unit, big=False)
            c2.set_correction(f.M.tolist(), f.t.tolist())
            if snap_corr_wcs(c) != sc:
                ctx.oracle_fail(case, {'what': 'correcting a corrector built on the WCS of another one changed the '
                                               'other corrector'})
        except Exception as e:   # noqa
            ctx.oracle_fail(case, {'what': 'correction sequence raised', 'error': repr(e)[:200]})


def dispatch(ctx, case, lines, pending):
    t = case.get('type', 'sequence')
    if t == 'probe-F21':
        probe_f19(ctx)
    elif t == 'sandwich':
        sandwich_case(ctx, case, lines, pending)
    elif t == 'private-plane':
        private_plane_case(ctx, case)
    else:
        run_case(ctx, case, lines, pending)


def stale_fit_info_probes(ctx, count):
    """a corrector that is aligned again carries the fit_info of the LAST call only: the same call on a corrector
    freshly built from the same WCS and catalog gives the same fit_info (same keys, same status) - a successful
    alignment with matching followed by a call that fails, and a call with a matcher followed by match=None"""
    from astropy.table import Table
    from astropy import wcs as fitswcs
    from tweakwcs import FITSWCSCorrector, align_wcs, XYXYMatch
    rng = ctx.rng
    for it in range(count):
        npr = np.random.default_rng(rng.getrandbits(32))
        w = fitswcs.WCS(naxis=2)
        w.wcs.crpix = [512.0, 512.0]
        w.wcs.crval = [float(npr.uniform(0, 360)), float(npr.uniform(-60, 60))]
        a = float(npr.uniform(0, 6.28))
        w.wcs.cd = np.array([[-np.cos(a), np.sin(a)], [np.sin(a), np.cos(a)]]) * 2e-5
        w.wcs.ctype = ['RA---TAN', 'DEC--TAN']
        w.pixel_shape = (1024, 1024)
        w.wcs.set()
        gx, gy = np.meshgrid(np.arange(150, 900, 90.0), np.arange(150, 900, 90.0))
        x = (gx + npr.uniform(-20, 20, gx.shape)).ravel()
        y = (gy + npr.uniform(-20, 20, gy.shape)).ravel()
        ra, dec = w.all_pix2world(x, y, 0)
        cat = Table([x + 0.4, y - 0.3], names=('x', 'y'))
        ref_full = Table([ra, dec], names=('RA', 'DEC'))
        second = ['fail-general-2-sources', 'match-none'][it % 2]
        case = {'op': 'stale-fit-info', 'second': second}
        ctx.case(case, nontrivial=True, branch='stale-fit-info:' + second)
        try:
            c = FITSWCSCorrector(w.deepcopy(), meta={'catalog': cat.copy(), 'name': 'im'})
            align_wcs([c], refcat=ref_full.copy(), fitgeom='rscale',
                      match=XYXYMatch(searchrad=5, separation=0.5, tolerance=2.0, use2dhist=False))
            fresh = FITSWCSCorrector(c.wcs.deepcopy(), meta={'catalog': cat.copy(), 'name': 'im'})
            for cc in (c, fresh):
                if second == 'fail-general-2-sources':
                    align_wcs([cc], refcat=ref_full[:2].copy(), fitgeom='general',
                              match=XYXYMatch(searchrad=5, separation=0.5, tolerance=2.0, use2dhist=False))
                else:
                    align_wcs([cc], refcat=ref_full.copy(), fitgeom='shift', match=None)
        except Exception as e:   # noqa
            ctx.oracle_fail(case, {'what': 'align_wcs raised', 'exception': '%s: %s' % (type(e).__name__, str(e)[:100])})
            continue
        f1, f2 = c.meta.get('fit_info', {}), fresh.meta.get('fit_info', {})
        if set(f1) != set(f2) or f1.get('status') != f2.get('status'):
            ctx.oracle_fail(case, {'what': 'the fit_info of a corrector aligned for the second time is not the fit_info of '
                                           'the same call on a fresh corrector (results of the earlier call survive)',
                                   'only_in_repeated': sorted(set(f1) - set(f2))[:8],
                                   'only_in_fresh': sorted(set(f2) - set(f1))[:8],
                                   'status': [f1.get('status'), f2.get('status')]})


def run(ctx):
    import warnings
    import logging
    warnings.filterwarnings('ignore')
    logging.getLogger('tweakwcs').setLevel(logging.CRITICAL)
    logging.disable(logging.CRITICAL)
    rng = ctx.rng
    lines, pending = [], []
    cases = []
    set_baseline()
    stale_fit_info_probes(ctx, 4 if ctx.tier == 'quick' else 20)
    if not ctx.search_only:
        probe_f19(ctx)
        cases.extend(corpus(full=(ctx.tier != 'quick')))
    cases.extend(gen_case(rng, force_corr=False) for _ in range(ctx.n(120, 1400)))
    cases.extend(gen_case(rng, force_corr=True) for _ in range(ctx.n(30, 400)))
    cases.extend(gen_sandwich(rng) for _ in range(ctx.n(6, 60)))
    cases.extend(gen_private_plane(rng) for _ in range(ctx.n(8, 80)))
    for case in cases:
        dispatch(ctx, case, lines, pending)
    matcher_call_purity(ctx)
    refcat_feedback_purity(ctx)
    kept_wcs_purity(ctx)
    outs = ctx.driver(lines)
    compare(ctx, outs, pending)


def replay(ctx, payload):
    import warnings
    import logging
    warnings.filterwarnings('ignore')
    logging.disable(logging.CRITICAL)
    fi = payload.get('failing_input') or (payload.get('correspondence') or [None])[0]
    if not fi:
        print('nothing to replay: %s' % payload.get('broken'))
        return 1
    case = fi['case']
    lines, pending = [], []
    set_baseline()
    dispatch(ctx, case, lines, pending)
    compare(ctx, ctx.driver(lines), pending)
    # failures attributed to a recorded open finding are reported by the check itself, not here
    bad = [b for b in ctx.oracle_failures + ctx.disagreements
           if not (isinstance(b['detail'], dict) and b['detail'].get('finding'))]
    for b in bad:
        print('STILL FAILS:', b['detail'])
    return 1 if bad else 0
