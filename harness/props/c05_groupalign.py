"""
C05 / C01 -- `WCSGroupCatalog.align_to_ref` end to end at group level (model `TW.GA.groupAlign` of
lean/Model/GroupAlign.lean, driver op `groupalign`, lean/Drv/GroupAlign.lean).

Scenario (flat-sky regime): a group of 1..4 REAL `FITSWCSCorrector`s (TAN, CD or PC/CDELT form, no distortion,
different orientations / anisotropic scales / skew / parity / reference pixels / image shapes -> different
differentiation steps hx, hy; each corrected 0..2 times before by real `set_correction` calls, some re-wrapped) whose
fields (FIELD = 2e-3 deg each) all lie within 2 FIELD of (RA, DEC) = (1 deg, 0).  There the (RA, DEC) plane IS the sky
plane of the model and `world_to_tanp` of the reference corrector is the affine chart
P = (CD^-1, crpix0 - CD^-1 crval).  Each member has its own catalog (some empty, some contribute no pair), optional
weights (zeros included); the reference catalog is the true affine map T of the plane of the fit applied to the
group rows (+ optional noise / gross outliers / unmatched rows / optional weights); a FAKE matcher returns
prescribed index arrays (shuffled, subsets, negative indices; `match=None` too).  The real
`align_to_ref(refcat, ref_tpwcs, match, minobj, fitgeom, nclip, sigma, clip_accum)` runs on a real
`WCSGroupCatalog`; a spy records the four arrays handed to `iter_linear_fit`.

Correspondence (fit geometries `shift` and `general`: model on EXACT rationals, every double that enters is passed as
num/den, root-free metric; `rshift` and `rscale`: the same model run in IEEE doubles, mode `F`; statistic `rmse`):
  * what `align_to_ref` returned (True / False) or raised;
  * the matched pairs handed to the fitter (xy, uv in plane pixels to PAIR_TOL; weights exactly);
  * `fit_info` matrix / shift / center / fitmask of the group;
  * RA, DEC of every row of the group catalog afterwards and every member's corrected `det_to_world` at probe pixels
    (members without sources included), in units of the plane's pixel.
Tolerances.  The model is exact; the code works in doubles on the sphere.  Two effects (measured for one
world<->pixel conversion of 512-pixel images while this module was built):
  (a) wcslib carries native latitudes near 90 deg, whose spacing 1.4e-14 deg is an ABSOLUTE rounding of the sky
      position: 1e-8 px at FIELD = 2e-3 deg (3e-8 px at 1e-3 deg, 2e-7 px at 1e-4 deg - smaller fields are worse);
  (b) the flat-sky idealisation, relative size theta^2 (theta = angular distance involved, <= 4e-3 deg = 7e-5 rad):
      1.5e-7 px over one image, up to ~7e-6 px for a source 1500 plane pixels away from the tangent point of a
      finely sampled reference plane.
`set_correction` differentiates numerically with steps hx, hy >= 1 px, so (a) enters the new CD matrix as a relative
error ~1e-8 and appears as ~5e-6 px at the far end of a 512-pixel image.  Hence PAIR_TOL = 1e-4 px (observed
<= 7e-6), SKY_TOL = 3e-4 px (observed <= 1.3e-5), FIT_TOL = 2e-5 px on the shift / on matrix x extent (observed
<= 1e-5), each multiplied by the conditioning of the fit `amp` = lever / spread (input differences d in the fitted
points appear as d * lever / spread at a point `lever` away from their centroid; `spread` = smaller principal
extent of the points in the final fit).  Any index error moves a position by >= 1e-2 px.  Not compared: positions
when the fit is wild (gross outliers the clipping could not remove: |M - I| > 0.1 or |shift| > 50 px; rounding is
then amplified with the size of the correction) or ill-conditioned (amp > 1e3) - pairs, weights and fit are still
compared.  Clipping decisions are discrete: a `fitmask` difference is a near-tie when the real fitter itself
changes its mask under a 1e-7 relative change of nsigma, else a disagreement; noise-free scenarios with clipping
(their residuals are pure rounding) are compared on pairs, fit and positions, not on `fitmask`; a similarity fit
through exactly two points is a tie of C06 (rotation and reflection fit equally well) and is only counted.

Oracle (independent of the model): all members carry the identical fit; every member - also empty ones and
members that contributed no pair - is moved by the reported (matrix, shift) in the plane of the fit at probe
pixels; every catalog row's recomputed RA/DEC is its own member's corrected det_to_world; in noise-free scenarios
the reported fit is T and every source of every member lands on T(old position).
"""
import logging
import math
import warnings

import numpy as np

from ..common import Fraction, q2s, s2q, to_fraction, f2x, x2f

PAIR_TOL = 1e-4
FIT_TOL = 2e-5
SKY_TOL = 3e-4
ORACLE_TOL = 3e-4      # as SKY_TOL: the oracle sees the same two effects
RA0, DEC0 = 1.0, 0.0
FIELD = 2e-3          # deg: size of one member's field; all fields lie within 2 FIELD of (RA0, DEC0)
TINY = Fraction(*float(np.finfo(np.double).tiny).as_integer_ratio())
FITMIN = {'shift': 1, 'rshift': 2, 'rscale': 2, 'general': 3}
ERRK = {'KeyError': 'keyError', 'ValueError': 'valueError', 'RuntimeError': 'runtimeError',
        'IndexError': 'indexError', 'AttributeError': 'attributeError'}


def num(v):
    return q2s(to_fraction(float(v)))


# ---------------------------------------------------------------------------
# real objects from a pure-data spec
# ---------------------------------------------------------------------------
def build_wcs(ws):
    from astropy import wcs as fitswcs
    w = fitswcs.WCS(naxis=2)
    w.wcs.ctype = ['RA---TAN', 'DEC--TAN']
    w.wcs.crval = list(ws['crval'])
    w.wcs.crpix = list(ws['crpix'])
    if ws['form'] == 'pc':
        w.wcs.pc = np.array(ws['lin'], dtype=float)
        w.wcs.cdelt = list(ws['cdelt'])
    else:
        w.wcs.cd = np.array(ws['lin'], dtype=float)
    w.pixel_shape = tuple(ws['shape'])
    w.wcs.set()
    return w


def build_corrector(ws):
    from tweakwcs import FITSWCSCorrector
    c = FITSWCSCorrector(build_wcs(ws))
    for h in ws.get('hist', []):
        ref = None if h['ref'] is None else FITSWCSCorrector(build_wcs(h['ref']))
        c.set_correction(np.array(h['M'], dtype=float), np.array(h['s'], dtype=float), ref_tpwcs=ref)
        if h.get('rewrap'):
            c = FITSWCSCorrector(c.wcs.deepcopy())
    return c


def wcs_state(c):
    """the state of a FITS corrector as the model holds it (exact values of the doubles)"""
    w = c.wcs
    crval = [float(v) for v in w.wcs.crval]
    crpix = [float(v) for v in w.wcs.crpix]
    if w.wcs.has_cd():
        lin = np.array(w.wcs.cd, dtype=float)
        cdelt = [1.0, 1.0]
        pc = 0
    else:
        lin = np.array(w.wcs.pc, dtype=float)
        cdelt = [float(v) for v in w.wcs.cdelt]
        pc = 1
    nx, ny = w.pixel_shape
    hx = max(1.0, min(10, (crpix[0] - 1.0) / 100.0, (nx - crpix[0]) / 100.0))
    hy = max(1.0, min(10, (crpix[1] - 1.0) / 100.0, (ny - crpix[1]) / 100.0))
    return {'crval': crval, 'lin': lin.tolist(), 'cdelt': cdelt, 'pc': pc,
            'crpix0': [crpix[0] - 1.0, crpix[1] - 1.0], 'hx': hx, 'hy': hy}


def state_L(st):
    """effective linear matrix (exact)"""
    a, b = [to_fraction(v) for v in st['lin'][0]]
    c, d = [to_fraction(v) for v in st['lin'][1]]
    if st['pc']:
        cx, cy = [to_fraction(v) for v in st['cdelt']]
        return (cx * a, cx * b, cy * c, cy * d)
    return (a, b, c, d)


def chart_of(st):
    """world -> 0-based pixel of the WCS as an exact affine map (m.a, m.b, m.c, m.d, t.x, t.y)"""
    a, b, c, d = state_L(st)
    det = a * d - b * c
    ia, ib, ic, id_ = d / det, -b / det, -c / det, a / det
    vx, vy = [to_fraction(v) for v in st['crval']]
    px, py = [to_fraction(v) for v in st['crpix0']]
    return (ia, ib, ic, id_, px - (ia * vx + ib * vy), py - (ic * vx + id_ * vy))


def member_tokens(st, ms, num):
    t = [num(v) for v in st['crval']] + [num(v) for row in st['lin'] for v in row] + [num(v) for v in st['cdelt']]
    t += [str(st['pc'])] + [num(v) for v in st['crpix0']] + [num(st['hx']), num(st['hy'])]
    for k, (x, y) in enumerate(zip(ms['x'], ms['y'])):
        t += [str(k + 1), num(x), num(y)]
    if ms.get('w') is not None:
        t += [num(v) for v in ms['w']]
    return t


class FakeMatch:
    """a matcher with the call signature of XYXYMatch that returns prescribed index arrays"""

    def __init__(self, mref, minput):
        self.mref, self.minput = list(mref), list(minput)

    def __call__(self, refcat, imcat, tp_pscale=1.0, tp_units=None, **kw):
        return np.array(self.mref, dtype=int), np.array(self.minput, dtype=int)


class FitSpy:
    """records the arrays `fit2ref` hands to `iter_linear_fit` and what the fitter returned"""

    def __init__(self):
        from tweakwcs import wcsimage
        self.mod = wcsimage
        self.orig = wcsimage.iter_linear_fit
        self.args = None
        self.kw = None

    def __enter__(self):
        def spy(xy, uv, wxy=None, wuv=None, **kw):
            self.args = {'xy': np.array(xy, dtype=float), 'uv': np.array(uv, dtype=float),
                         'wxy': None if wxy is None else np.array(wxy, dtype=float),
                         'wuv': None if wuv is None else np.array(wuv, dtype=float)}
            self.kw = dict(kw)
            return self.orig(xy, uv, wxy, wuv, **kw)
        self.mod.iter_linear_fit = spy
        return self

    def __exit__(self, *a):
        self.mod.iter_linear_fit = self.orig
        return False


# ---------------------------------------------------------------------------
# generation
# ---------------------------------------------------------------------------
def gen_wcs(rng, shape=None):
    nx, ny = shape or (rng.choice([64, 200, 400, 512]), rng.choice([64, 300, 512]))
    sc = FIELD / max(nx, ny) * rng.uniform(0.7, 1.0)
    th = math.radians(rng.uniform(-180, 180))
    an = 1 + rng.uniform(-0.1, 0.1)
    par = rng.choice([-1.0, -1.0, 1.0])
    rot = np.array([[math.cos(th), -math.sin(th)], [math.sin(th), math.cos(th)]])
    form = rng.choice(['cd', 'cd', 'pc'])
    crval = [RA0 + rng.uniform(-FIELD / 2, FIELD / 2), DEC0 + rng.uniform(-FIELD / 2, FIELD / 2)]
    crpix = [rng.uniform(1, nx), rng.uniform(1, ny)] if rng.random() < 0.6 else [nx / 2 + 0.5, ny / 2 + 0.5]
    if form == 'pc':
        skew = np.array([[1.0, rng.uniform(-0.02, 0.02)], [0.0, 1.0]])
        return {'form': 'pc', 'lin': (rot @ skew).tolist(), 'cdelt': [par * sc, sc * an], 'crval': crval, 'crpix': crpix,
                'shape': [nx, ny]}
    cd = rot @ np.array([[par * sc, rng.uniform(-0.02, 0.02) * sc], [0.0, sc * an]])
    return {'form': 'cd', 'lin': cd.tolist(), 'crval': crval, 'crpix': crpix, 'shape': [nx, ny]}


def gen_affine(rng, fitgeom, big):
    s = [rng.uniform(-8, 8), rng.uniform(-8, 8)] if big else [rng.uniform(-1, 1), rng.uniform(-1, 1)]
    if fitgeom == 'shift':
        return [[1.0, 0.0], [0.0, 1.0]], s
    if fitgeom in ('rshift', 'rscale'):
        a = math.radians(rng.uniform(-2, 2) if big else rng.uniform(-0.1, 0.1))
        sc = 1.0 if fitgeom == 'rshift' else 1 + (rng.uniform(-3e-2, 3e-2) if big else rng.uniform(-2e-3, 2e-3))
        return [[sc * math.cos(a), -sc * math.sin(a)], [sc * math.sin(a), sc * math.cos(a)]], s
    e = 3e-2 if big else 2e-3
    M = [[1 + rng.uniform(-e, e), rng.uniform(-e, e)], [rng.uniform(-e, e), 1 + rng.uniform(-e, e)]]
    return M, s


def gen_hist(rng):
    hist = []
    for _ in range(rng.choice([0, 0, 1, 2])):
        M, s = gen_affine(rng, 'general', False)
        hist.append({'M': M, 's': s, 'ref': gen_wcs(rng) if rng.random() < 0.5 else None,
                     'rewrap': rng.random() < 0.4})
    return hist


def gen_spec(rng, forced=None):
    forced = forced or {}
    nmem = forced.get('nmem', rng.choice([1, 2, 2, 3, 3, 4]))
    fitgeom = forced.get('fitgeom', rng.choice(['shift', 'general', 'general', 'rshift', 'rscale']))
    noise = forced.get('noise', rng.choice([0.0, 0.0, 0.02, 0.05]))
    members = []
    empty = set(forced.get('empty', [k for k in range(nmem) if nmem >= 2 and rng.random() < 0.25]))
    if len(empty) == nmem:
        empty.discard(min(empty))
    weights = forced.get('weights', rng.random() < 0.4)
    for k in range(nmem):
        ws = gen_wcs(rng)
        ws['hist'] = gen_hist(rng)
        n = 0 if k in empty else forced.get('nsrc', rng.choice([1, 3, 4, 6, 9]))
        nx, ny = ws['shape']
        ms = {'wcs': ws, 'x': [rng.uniform(0, nx - 1) for _ in range(n)], 'y': [rng.uniform(0, ny - 1) for _ in range(n)]}
        if weights:
            ms['w'] = [rng.choice([0.0, 0.5, 1.0, 1.0, 2.0, 3.5]) for _ in range(n)]
        members.append(ms)
    pk = forced.get('plane', rng.choice(['default', 'member', 'nonmember', 'nonmember']))
    spec = {'op': 'groupalign', 'members': members, 'fitgeom': fitgeom, 'noise': noise, 'plane_kind': pk,
            'plane_member': rng.randrange(nmem), 'plane_wcs': dict(gen_wcs(rng), hist=gen_hist(rng)),
            'big': rng.random() < 0.3,
            'nclip': forced.get('nclip', rng.choice([None, 0, 1, 3])), 'nsigma': rng.choice([2.5, 3.0, 3.0]),
            'accum': rng.random() < 0.3, 'minobj': forced.get('minobj', rng.choice([None, None, None, 2, 4])),
            'ref_weights': rng.random() < 0.25, 'extra_ref': rng.choice([0, 0, 2, 5]),
            'unmatched_frac': forced.get('unmatched_frac', rng.choice([0.0, 0.2, 0.5])),
            'skip_member': forced.get('skip_member', rng.random() < 0.25),
            'outliers': forced.get('outliers', rng.choice([0, 0, 0, 1, 2])),
            'neg_idx': rng.random() < 0.3, 'match_none': forced.get('match_none', rng.random() < 0.1),
            'seed2': rng.randrange(1 << 30)}
    spec['T'] = gen_affine(rng, fitgeom, spec['big'])
    return spec


def corpus(rng):
    """hand-built corner cases first"""
    out = []
    # three members, the middle one empty, noise-free, no clipping: the exactness scenario of the theorems
    out.append(gen_spec(rng, {'nmem': 3, 'empty': [1], 'fitgeom': 'general', 'noise': 0.0, 'nclip': None, 'outliers': 0,
                              'match_none': False, 'minobj': None, 'nsrc': 4}))
    # first member empty (the default reference plane is a copy of an EMPTY member), last member contributes no pair
    out.append(gen_spec(rng, {'nmem': 3, 'empty': [0], 'fitgeom': 'general', 'noise': 0.0, 'nclip': 0, 'outliers': 0,
                              'plane': 'default', 'skip_member': True, 'match_none': False, 'minobj': None, 'nsrc': 6}))
    # shift fit, one source in the whole group
    out.append(gen_spec(rng, {'nmem': 2, 'empty': [1], 'fitgeom': 'shift', 'noise': 0.0, 'nclip': 3, 'outliers': 0,
                              'match_none': False, 'minobj': None, 'nsrc': 1, 'unmatched_frac': 0.0}))
    # match=None: rows paired one to one
    out.append(gen_spec(rng, {'nmem': 2, 'empty': [], 'fitgeom': 'general', 'noise': 0.02, 'nclip': 3, 'outliers': 0,
                              'match_none': True, 'minobj': None, 'nsrc': 4}))
    # not enough matches: minobj larger than the number of pairs -> False, nothing moves
    out.append(gen_spec(rng, {'nmem': 2, 'empty': [], 'fitgeom': 'general', 'noise': 0.0, 'nclip': 0, 'outliers': 0,
                              'match_none': False, 'minobj': 40, 'nsrc': 3}))
    # weights with zeros, noise and outliers, clipping
    out.append(gen_spec(rng, {'nmem': 4, 'empty': [2], 'fitgeom': 'general', 'noise': 0.05, 'nclip': 3, 'outliers': 2,
                              'match_none': False, 'minobj': None, 'nsrc': 9, 'weights': True}))
    return out


# ---------------------------------------------------------------------------
# one case
# ---------------------------------------------------------------------------
def apply_chart(P, ra, dec):
    ra = np.asarray(ra, dtype=float)
    dec = np.asarray(dec, dtype=float)
    return (float(P[0]) * ra + float(P[1]) * dec + float(P[4]), float(P[2]) * ra + float(P[3]) * dec + float(P[5]))


def run_case(ctx, spec, lines, pending):
    from astropy.table import Table
    from tweakwcs import wcsimage
    import random as _random
    r2 = _random.Random(spec['seed2'])
    correctors = [build_corrector(ms['wcs']) for ms in spec['members']]
    states = [wcs_state(c) for c in correctors]
    nmem = len(correctors)
    pk = spec['plane_kind']
    if pk == 'default':
        plane_arg, plane = None, correctors[0].copy()
    elif pk == 'member':
        plane = correctors[spec['plane_member'] % nmem].copy()
        plane_arg = plane
    else:
        plane = build_corrector(spec['plane_wcs'])
        plane_arg = plane
    pst = wcs_state(plane)
    P = chart_of(pst)
    # group rows (member, source) in catalog order
    rows = [(k, j) for k, ms in enumerate(spec['members']) for j in range(len(ms['x']))]
    nrows = len(rows)
    Tm, Ts = np.array(spec['T'][0], dtype=float), np.array(spec['T'][1], dtype=float)
    old_plane = []
    for (k, j) in rows:
        ms = spec['members'][k]
        ra, dec = correctors[k].det_to_world(ms['x'][j], ms['y'][j])
        tx, ty = plane.world_to_tanp(float(ra), float(dec))
        old_plane.append((float(tx), float(ty)))
    # reference catalog
    noise = spec['noise']
    target = []
    for (tx, ty) in old_plane:
        v = Tm @ np.array([tx, ty]) + Ts
        target.append((v[0] + (r2.gauss(0, noise) if noise else 0.0), v[1] + (r2.gauss(0, noise) if noise else 0.0)))
    if spec['match_none']:
        order = list(range(nrows))
        extra = 0
    else:
        order = list(range(nrows))
        r2.shuffle(order)
        extra = spec['extra_ref']
    ref_of_row = {}
    ref_tp = []
    for pos, i in enumerate(order):
        ref_of_row[i] = pos
        ref_tp.append(target[i])
    for _ in range(extra):
        ref_tp.append((r2.uniform(0, 500), r2.uniform(0, 500)))
    if ref_tp:
        rra, rdec = plane.tanp_to_world(np.array([p[0] for p in ref_tp]), np.array([p[1] for p in ref_tp]))
    else:
        rra, rdec = np.zeros(0), np.zeros(0)
    rra = np.atleast_1d(np.asarray(rra, dtype=float))
    rdec = np.atleast_1d(np.asarray(rdec, dtype=float))
    nref = len(ref_tp)
    refw = [r2.choice([0.5, 1.0, 1.0, 2.0]) for _ in range(nref)] if spec['ref_weights'] else None
    # the matcher's answer
    if spec['match_none']:
        mref = minput = None
    else:
        cand = [i for i in range(nrows) if r2.random() >= spec['unmatched_frac']]
        if spec['skip_member'] and nmem >= 2:
            ne = [k for k in range(nmem) if spec['members'][k]['x']]
            if len(ne) >= 2:
                drop = ne[-1]
                cand = [i for i in cand if rows[i][0] != drop]
        r2.shuffle(cand)
        minput = list(cand)
        mref = [ref_of_row[i] for i in cand]
        # gross outliers: pairs matched to a wrong reference row
        for _ in range(min(spec['outliers'], max(0, (len(cand) - 6) // 4))):
            a = r2.randrange(len(cand))
            mref[a] = r2.randrange(nref)
        if spec['neg_idx'] and minput:
            a = r2.randrange(len(minput))
            minput[a] -= nrows
            b = r2.randrange(len(mref))
            mref[b] -= nref
    # real objects
    images = []
    for k, ms in enumerate(spec['members']):
        cols = [np.array(ms['x'], dtype=float), np.array(ms['y'], dtype=float)]
        names = ['x', 'y']
        if ms.get('w') is not None:
            cols.append(np.array(ms['w'], dtype=float))
            names.append('weight')
        images.append(wcsimage.WCSImageCatalog(Table(cols, names=names), correctors[k], name='m%d' % k))
    rcols = [rra, rdec]
    rnames = ['RA', 'DEC']
    if refw is not None:
        rcols.append(np.array(refw, dtype=float))
        rnames.append('weight')
    case = {k: v for k, v in spec.items()}
    nontrivial = nmem >= 2
    try:
        group = wcsimage.WCSGroupCatalog(images, name='grp', bb_policy=0)
        refcat = wcsimage.RefCatalog(Table(rcols, names=rnames), name='ref')
    except Exception as e:
        ctx.note('groupalign: construction raised %s: %s' % (type(e).__name__, str(e)[:120]))
        ctx.branch('groupalign:construction-raised')
        return
    old_correctors = [c.copy() for c in correctors]
    ret, err = None, None
    with FitSpy() as spy:
        try:
            ret = group.align_to_ref(refcat, ref_tpwcs=plane_arg,
                                     match=None if mref is None else FakeMatch(mref, minput),
                                     minobj=spec['minobj'], fitgeom=spec['fitgeom'], nclip=spec['nclip'],
                                     sigma=(spec['nsigma'], 'rmse'), clip_accum=spec['accum'])
        except Exception as e:
            err = e
    ctx.case(case, nontrivial=nontrivial, branch='groupalign:%s:%s:n%d' % (spec['fitgeom'], pk, nmem))
    ctx.branch('groupalign:empty-members:%d' % sum(1 for ms in spec['members'] if not ms['x']))
    ctx.branch('groupalign:ret:%s' % (type(err).__name__ if err is not None else ret))
    probes = [(r2.uniform(0, 60), r2.uniform(0, 60)) for _ in range(3)]
    pscale = math.sqrt(abs(float(state_L(pst)[0] * state_L(pst)[3] - state_L(pst)[1] * state_L(pst)[2])))
    real = {'ret': ret, 'err': None if err is None else type(err).__name__, 'spy': spy.args,
            'fit_info': [dict(im.fit_info) for im in group], 'probes': probes, 'pscale': pscale, 'P': P,
            'rows_sky': (np.array(group.catalog['RA'], dtype=float), np.array(group.catalog['DEC'], dtype=float)),
            'probe_sky': [[tuple(float(v) for v in im.corrector.det_to_world(px, py)) for (px, py) in probes]
                          for im in group]}

    # ---- oracle --------------------------------------------------------------------------------------
    if err is None and ret:
        fi0 = real['fit_info'][0]
        M = np.array(fi0['matrix'], dtype=float)
        s = np.array(fi0['shift'], dtype=float)
        # conditioning of the fit: input differences d (rounding, flat-sky idealisation) in the fitted points
        # appear as d * lever / spread at a point `lever` away from their centroid, `spread` = the smaller
        # principal extent of the points that entered the final fit (shift fits do not extrapolate)
        real['amp'] = 1.0
        if spec['fitgeom'] != 'shift' and spy.args is not None:
            sel = np.array(fi0['fitmask'], dtype=bool)
            uv = spy.args['uv'][:len(sel)][sel]
            cen = uv.mean(axis=0)
            sv = np.linalg.svd(uv - cen, compute_uv=False)
            if spec['fitgeom'] == 'general':
                spread = float(sv[-1]) / math.sqrt(len(uv)) if len(uv) >= 3 else 0.0
            else:       # a similarity is fixed by two points: the larger principal extent counts
                spread = float(sv[0]) / math.sqrt(len(uv)) if len(uv) >= 2 else 0.0
            pts = list(old_plane) + [(0.0, 0.0)]      # the reported shift refers to the origin of the plane
            for k in range(nmem):
                for (px, py) in probes:
                    pts.append(tuple(float(v) for v in apply_chart(P, *old_correctors[k].det_to_world(px, py))))
            lever = max(math.hypot(p[0] - cen[0], p[1] - cen[1]) for p in pts)
            real['amp'] = max(1.0, lever / spread) if spread > 0 else float('inf')
        amp = real['amp']
        if amp > 1e3:
            ctx.branch('groupalign:ill-conditioned-fit-positions-not-compared')
        for fi in real['fit_info'][1:]:
            if not (np.array_equal(fi['matrix'], fi0['matrix']) and np.array_equal(fi['shift'], fi0['shift'])):
                ctx.oracle_fail(case, {'what': 'groupalign: members do not share one fit'})
        # a fit through gross outliers that clipping could not remove is a wild affine map (hundreds of pixels):
        # rounding is amplified with the size of the correction; positions are then not compared
        real['wild'] = bool(np.max(np.abs(M - np.eye(2))) > 0.1 or np.max(np.abs(s)) > 50.0) or amp > 1e3
        if real['wild']:
            ctx.branch('groupalign:wild-fit-positions-not-compared')
        for k, im in enumerate(group):
            if real['wild']:
                break
            pts = list(probes) + list(zip(spec['members'][k]['x'], spec['members'][k]['y']))
            for (px, py) in pts:
                o = apply_chart(P, *old_correctors[k].det_to_world(px, py))
                n = apply_chart(P, *im.corrector.det_to_world(px, py))
                e = M @ np.array([float(o[0]), float(o[1])]) + s
                d = math.hypot(float(n[0]) - e[0], float(n[1]) - e[1])
                if not d <= ORACLE_TOL:
                    ctx.oracle_fail(case, {'what': 'groupalign: member not moved by the reported (matrix, shift)',
                                           'member': k, 'empty': not spec['members'][k]['x'], 'err': d})
                    break
        # rows: own member's corrected WCS
        for i, (k, j) in enumerate(rows):
            ra, dec = group[k].corrector.det_to_world(spec['members'][k]['x'][j], spec['members'][k]['y'][j])
            d = math.hypot(float(ra) - real['rows_sky'][0][i], float(dec) - real['rows_sky'][1][i]) / pscale
            if not d <= ORACLE_TOL:
                ctx.oracle_fail(case, {'what': 'groupalign: catalog row does not carry its own member\'s corrected position',
                                       'row': i, 'member': k, 'err': d})
                break
        if noise == 0.0 and spec['outliers'] == 0 and mref is not None or (noise == 0.0 and spec['match_none']):
            # exactness: the reported fit is T and every source of every member lands on T(old)
            if real['wild']:
                pass
            elif not (np.allclose(M, Tm, rtol=0, atol=1e-2) and np.allclose(s, Ts, rtol=0, atol=1e-2 * amp)):
                ctx.oracle_fail(case, {'what': 'groupalign: noise-free data not fitted by the generating map',
                                       'M': M.tolist(), 's': s.tolist()})
            for i, (k, j) in enumerate(rows):
                n = apply_chart(P, real['rows_sky'][0][i], real['rows_sky'][1][i])
                e = Tm @ np.array(old_plane[i]) + Ts
                d = math.hypot(float(n[0]) - e[0], float(n[1]) - e[1])
                if real['wild']:
                    break
                if not d <= ORACLE_TOL * amp:
                    ctx.oracle_fail(case, {'what': 'groupalign: source does not land on T(old position)', 'row': i,
                                           'member': k, 'err': d})
                    break
            ctx.branch('groupalign:exactness-checked')
    elif err is None and ret is False:
        for k, im in enumerate(group):
            for (px, py) in probes:
                a = old_correctors[k].det_to_world(px, py)
                b = im.corrector.det_to_world(px, py)
                if not (float(a[0]) == float(b[0]) and float(a[1]) == float(b[1])):
                    ctx.oracle_fail(case, {'what': 'groupalign: a failed alignment changed a member WCS', 'member': k})

    # ---- model line ----------------------------------------------------------------------------------
    if ctx.search_only:
        return
    # exact rationals where the model has a root-free version of the fit, doubles for the similarity fits
    mode = 'Q' if spec['fitgeom'] in ('shift', 'general') else 'F'
    enc = (lambda v: q2s(to_fraction(float(v)))) if mode == 'Q' else (lambda v: f2x(float(v)))
    ctx.branch('groupalign:mode:' + mode)
    hdr = ['groupalign', mode, spec['fitgeom'], 'none' if spec['nclip'] is None else str(spec['nclip']),
           enc(spec['nsigma']), '1' if spec['accum'] else '0', q2s(TINY) if mode == 'Q' else f2x(float(TINY)),
           'none' if spec['minobj'] is None else str(spec['minobj']), '1' if refw is not None else '0',
           str(nref), str(nmem)]
    for ms in spec['members']:
        hdr += [str(len(ms['x'])), '1' if ms.get('w') is not None else '0']
    hdr += [str(-1 if mref is None else len(mref)), str(len(probes))]
    ptoks = [q2s(v) if mode == 'Q' else f2x(float(v)) for v in P]
    mtoks = []
    for st, ms in zip(states, spec['members']):
        mtoks += member_tokens(st, ms, enc)
    rtoks = []
    for i in range(nref):
        rtoks += [str(i + 1), enc(rra[i]), enc(rdec[i])]
    if refw is not None:
        rtoks += [enc(v) for v in refw]
    itoks = [] if mref is None else [str(v) for v in mref] + [str(v) for v in minput]
    prtoks = [enc(v) for p in probes for v in p]
    lines.append(' '.join(hdr) + ' | ' + ' '.join(ptoks) + ' | ' + ' '.join(mtoks) + ' | ' + ' '.join(rtoks) + ' | ' +
                 ' '.join(itoks) + ' | ' + ' '.join(prtoks))
    pending.append((case, real, spec))


# ---------------------------------------------------------------------------
# comparison with the model
# ---------------------------------------------------------------------------
def qs(toks):
    return [x2f(t) if t[0] == 'x' else s2q(t) for t in toks]


def parse_model(out):
    if out.startswith('err '):
        return {'err': out.split()[1]}
    if not out.startswith('ok '):
        return None
    sec = [s.split() for s in out.split('|')]
    if len(sec) != 5 or len(sec[0]) != 2:
        return None
    res = {'err': None, 'ret': sec[0][1] == '1', 'pairs': None, 'fit': None}
    if sec[1] != ['-']:
        t = sec[1]
        nx, nu, hx, hu = int(t[0]), int(t[1]), t[2] == '1', t[3] == '1'
        v = qs(t[4:])
        xy = v[:2 * nx]
        uv = v[2 * nx:2 * nx + 2 * nu]
        rest = v[2 * nx + 2 * nu:]
        wxy = rest[:nx] if hx else None
        wuv = (rest[nx:] if hx else rest) if hu else None
        res['pairs'] = {'xy': xy, 'uv': uv, 'wxy': wxy, 'wuv': wuv, 'nx': nx, 'nu': nu}
    if sec[2] != ['-']:
        t = sec[2]
        v = qs(t[:8])
        res['fit'] = {'M': v[:4], 's': v[4:6], 'center': v[6:8], 'eff': int(t[8]),
                      'mask': '' if t[9] == '-' else t[9]}
    res['rows'] = [] if sec[3] == ['-'] else qs(sec[3])
    res['sky'] = [] if sec[4] == ['-'] else qs(sec[4])
    return res


def mask_is_tie(real, spec):
    """does the real fitter change its mask under a 1e-7 relative change of nsigma?"""
    from tweakwcs.linearfit import iter_linear_fit
    a = real['spy']
    masks = []
    for f in (1 - 1e-7, 1 + 1e-7):
        try:
            fit = iter_linear_fit(a['xy'], a['uv'], a['wxy'], a['wuv'], fitgeom=spec['fitgeom'], nclip=spec['nclip'],
                                  sigma=(spec['nsigma'] * f, 'rmse'), center=None, clip_accum=spec['accum'])
            masks.append(''.join('1' if b else '0' for b in fit['fitmask']))
        except Exception as e:
            masks.append(type(e).__name__)
    return masks[0] != masks[1]


def compare(ctx, out, item):
    case, real, spec = item

    def bad(what, **kw):
        ctx.disagree(case, dict({'op': 'groupalign', 'what': what}, **kw))

    m = parse_model(out)
    if m is None:
        return bad('unparsable model answer', model=out[:120])
    if real['err'] is not None or m['err'] is not None:
        rk = ERRK.get(real['err'], 'fitError' if real['err'] else None)
        if rk != m['err']:
            bad('raised / returned', impl=real['err'], model=m['err'])
        return
    noise_free_clip = spec['noise'] == 0.0 and spec['nclip'] not in (None, 0)
    if bool(real['ret']) != m['ret']:
        if noise_free_clip or (real['spy'] is not None and mask_is_tie(real, spec)):
            ctx.near_tie()
            return
        return bad('return value', impl=real['ret'], model=m['ret'])
    # pairs
    if (real['spy'] is None) != (m['pairs'] is None):
        return bad('fitter reached', impl=real['spy'] is not None, model=m['pairs'] is not None)
    if m['pairs'] is not None:
        a, p = real['spy'], m['pairs']
        if a['xy'].shape[0] != p['nx'] or a['uv'].shape[0] != p['nu']:
            return bad('number of pairs', impl=[a['xy'].shape[0], a['uv'].shape[0]], model=[p['nx'], p['nu']])
        for nm in ('xy', 'uv'):
            d = np.max(np.abs(a[nm].ravel() - np.array([float(v) for v in p[nm]]))) if p[nm] else 0.0
            ctx.extra['groupalign_worst_pair_px'] = max(ctx.extra.get('groupalign_worst_pair_px', 0.0), float(d))
            if not d <= PAIR_TOL:
                return bad('pairs handed to the fitter: ' + nm, max_diff=float(d))
        for nm in ('wxy', 'wuv'):
            if (a[nm] is None) != (p[nm] is None):
                return bad('weights handed to the fitter: presence of ' + nm)
            if a[nm] is not None and [to_fraction(v) for v in a[nm]] != [to_fraction(v) for v in p[nm]]:
                return bad('weights handed to the fitter: ' + nm, impl=a[nm].tolist(), model=[float(v) for v in p[nm]])
    if not m['ret']:
        ctx.branch('groupalign:compared-failed-run')
        return
    if m['fit'] is None:
        return bad('model returned True without a fit')
    fi = real['fit_info'][0]
    rmask = ''.join('1' if b else '0' for b in fi['fitmask'])
    if spec['fitgeom'] in ('rshift', 'rscale') and rmask.count('1') <= 2:
        # two points: rotation and reflection fit equally well, rounding picks one (a tie of C06)
        ctx.near_tie()
        ctx.branch('groupalign:two-point-similarity-fit-skipped')
        return
    if not noise_free_clip:
        if rmask != m['fit']['mask'] or int(fi['eff_nclip'] if 'eff_nclip' in fi else m['fit']['eff']) != m['fit']['eff']:
            if mask_is_tie(real, spec):
                ctx.near_tie()
                return
            return bad('fitmask', impl=rmask, model=m['fit']['mask'])
    # an interpolating fit of exactly minobj points amplifies rounding by the inverse extent only: same tolerance
    ext = 1.0 + float(np.max(np.abs(real['spy']['uv']))) if real['spy']['uv'].size else 1.0
    M = np.array(fi['matrix'], dtype=float).ravel()
    dM = float(np.max(np.abs(M - np.array([float(v) for v in m['fit']['M']]))))
    dS = float(np.max(np.abs(np.array(fi['shift'], dtype=float) - np.array([float(v) for v in m['fit']['s']]))))
    amp = real.get('amp', 1.0)
    if not amp <= 1e3:
        return
    tol = FIT_TOL * amp
    ctx.extra['groupalign_worst_fit_px'] = max(ctx.extra.get('groupalign_worst_fit_px', 0.0), dM * ext, dS)
    ctx.extra['groupalign_worst_fit_over_tol'] = max(ctx.extra.get('groupalign_worst_fit_over_tol', 0.0),
                                                     max(dM * ext, dS) / tol)
    if not (dM * ext <= tol and dS <= tol):
        return bad('fit_info matrix / shift', dM=dM, dS=dS, extent=ext)
    if not noise_free_clip:
        dC = float(np.max(np.abs(np.array(fi['center'], dtype=float) - np.array([float(v) for v in m['fit']['center']]))))
        if not dC <= FIT_TOL:
            return bad('fit_info center', dC=dC)
    if real.get('wild'):
        return
    # sky positions, in plane pixels
    ps = real['pscale']
    rows = np.array([float(v) for v in m['rows']]).reshape(-1, 2)
    if rows.shape[0] != len(real['rows_sky'][0]):
        return bad('number of catalog rows', impl=len(real['rows_sky'][0]), model=rows.shape[0])
    stol = SKY_TOL * amp
    if rows.shape[0]:
        d = float(np.max(np.hypot(rows[:, 0] - real['rows_sky'][0], rows[:, 1] - real['rows_sky'][1]))) / ps
        ctx.extra['groupalign_worst_sky_px'] = max(ctx.extra.get('groupalign_worst_sky_px', 0.0), d)
        ctx.extra['groupalign_worst_sky_over_tol'] = max(ctx.extra.get('groupalign_worst_sky_over_tol', 0.0), d / stol)
        if not d <= stol:
            return bad('RA/DEC of the group catalog after the alignment', max_diff_px=d)
    sky = np.array([float(v) for v in m['sky']]).reshape(-1, 2)
    rs = np.array([p for mem in real['probe_sky'] for p in mem], dtype=float).reshape(-1, 2)
    if sky.shape != rs.shape:
        return bad('number of probe positions', impl=rs.shape[0], model=sky.shape[0])
    if sky.shape[0]:
        d = float(np.max(np.hypot(sky[:, 0] - rs[:, 0], sky[:, 1] - rs[:, 1]))) / ps
        ctx.extra['groupalign_worst_sky_px'] = max(ctx.extra.get('groupalign_worst_sky_px', 0.0), d)
        ctx.extra['groupalign_worst_sky_over_tol'] = max(ctx.extra.get('groupalign_worst_sky_over_tol', 0.0), d / stol)
        if not d <= stol:
            k = int(np.argmax(np.hypot(sky[:, 0] - rs[:, 0], sky[:, 1] - rs[:, 1]))) // max(1, len(real['probes']))
            return bad('corrected det_to_world of a member', member=k, max_diff_px=d)
    ctx.branch('groupalign:compared-successful-run')


def run_extra(ctx):
    """oracle part always; correspondence part (model driver) only when not ctx.search_only"""
    old = logging.root.manager.disable
    logging.disable(logging.CRITICAL)
    try:
        with warnings.catch_warnings():
            warnings.simplefilter('ignore')
            lines, pending = [], []
            for spec in corpus(ctx.rng):
                run_case(ctx, spec, lines, pending)
            for _ in range(ctx.n(60, 600)):
                run_case(ctx, gen_spec(ctx.rng), lines, pending)
        if ctx.search_only or not lines:
            return
        outs = ctx.driver(lines)
        for out, item in zip(outs, pending):
            compare(ctx, out, item)
    finally:
        logging.disable(old)
