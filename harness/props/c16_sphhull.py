"""
C16 (part) -- the spherical part of `RefCatalog._calc_cat_convex_hull`: unit vectors, mean direction, the rotation
`euler_rot = multi_dot(rotm[::-1])`, `inv(euler_rot)`, gnomonic projection, back-projection of the tangent-plane
polygon `(1, xv, yv)` and conversion to RA/DEC  (model `TW.Sph.*`, Model/SphHull.lean, ops `sph.*`).

Instrumentation (harness side, nothing in /repo changes): the module globals `_S2C`, `_C2S`, `planar_rot_3d`, `inv`
and `convex_hull` of `tweakwcs.wcsimage` are wrapped by recorders while a REAL `RefCatalog` is built from an astropy
table of RA/DEC, so every intermediate of the method is observed: unit vectors, mean vector, `(ra_ref, dec_ref)`, the
two `planar_rot_3d` matrices (angle, axis), `euler_rot`, `inv_euler_rot` (long double), the tangent-plane coordinates
handed to `convex_hull`, its result, the back-projected vectors handed to `_C2S`, and `refcat._radec`.

Correspondence, stage by stage, each stage of the model fed with the values the real code computed one stage earlier
(bit patterns in mode F, the exact rational values of the doubles / long doubles in mode Q):
  s2c      `sph.s2c F`      unit vectors                         |d| <= 8 eps (2 + |angles|)   (numpy's SIMD cos/sin vs libm)
  mean     `sph.mean Q/F`   mean vector                          |d| <= (n + 4) eps           (numpy sums pairwise)
  refdir   `sph.c2s F`      (ra_ref, dec_ref) in degrees         |d| <= 2e-13 deg
  prot     `sph.prot F`     `planar_rot_3d(angle, axis)`         equal as doubles (entries are copies of cos, sin, 0, 1)
  rot      `sph.rot Q`      `euler_rot` from the exact cos / sin |d| <= eps |entry|           (every entry is ONE product)
           `sph.rot Q/F`    `inv_euler_rot`                      |d| <= 16 eps
           `sph.rotdeg F`   `euler_rot` from the angles          |d| <= 8 eps (1 + |angle|)
  proj     `sph.proj Q/F`   tangent-plane coordinates            |d| <= 16 eps (1 + x^2 + y^2)
  back     `sph.back Q`     `inv_euler_rot . (1, xv, yv)`        |d| <= 8 eps (1 + |xv| + |yv|)   (hull branch)
  radec    `sph.c2s F`      RA/DEC of the vertices               angular separation <= 2e-14 rad
  foot     `sph.foot F`     vertex count and vertex directions from the recorded rotation and unit vectors
  full     `sph.full F`     the whole method from RA/DEC: vertex count and directions of `refcat._radec`
           (hull vertices: 1e-13 (1 + x^2 + y^2) rad; box corners: 1e-6 of the box half-width)
  exact    `sph.rot Q` + `sph.foot Q` with an EXACTLY orthogonal rational rotation (rational points of the circle within
           1e-20 of the code's cos / sin): the inverse must be exactly the transpose, all sources in the open hemisphere,
           and every source must pass the spherical containment test exactly (the statement of
           `sph_footprint_contains` evaluated by the model), and the vertex set must be the real one.
  A different vertex set / count is a disagreement only when the projected sources are not near-degenerate (some
  triple with a cross product below 1e-9 of the field size squared, or two extreme points closer than 1e-9 rad);
  otherwise it is counted as a near-tie.

Oracle (independent of the model; numpy and exact `fractions.Fraction` arithmetic on doubles):
  * `euler_rot` is orthogonal, has determinant +1, sends the mean direction to (1, 0, 0) and `inv_euler_rot` is its
    inverse (1e-14);
  * every source direction has a triple product of the right sign (a rounding margin of 1e-10 rad as in c16.py) with
    EVERY edge of the real footprint `refcat._radec`, computed exactly from the doubles of the unit vectors (the
    floating-point triple product of three directions 1e-8 rad apart is pure noise); footprints of >= 3 non-collinear
    sources are counter-clockwise seen from outside (positive), the 1- and 2-source boxes clockwise;
  * the footprint is closed, hull vertices are source directions (1e-12 rad), boxes have 5 vertices;
  * `polygon.contains_radec(source)` is True for every source that is farther than 1e-7 rad inside all edges, for
    footprints wider than 1.5e-7 rad (`spherical_geometry` cannot decide thinner ones; sources on the boundary - all
    hull vertices - are decided by rounding and are not tested).
"""
import math

import numpy as np

from ..common import Fraction, q2s, f2x, x2f, s2q, to_fraction

EPS = 2.220446049250313e-16
TINY_Q = Fraction(1, 2 ** 1022)          # numpy.finfo(numpy.double).tiny, the singularity threshold of `inv`
TINY_F = 2.2250738585072014e-308
MIN_SEP = 1e-11
D2R = float(np.deg2rad(1.0))
ARCSEC = math.pi / 180.0 / 3600.0
MARGIN = 1e-10                           # rad, as c16.MARGIN
SG_MIN_WIDTH = 1.5e-7                    # rad: narrowest footprint for which spherical_geometry is consulted
SG_INTERIOR = 1e-7                       # rad: a source this far inside every edge must be reported as contained
MAX_FROM_MEAN_DEG = 80.0                 # generated catalogs stay within this distance of their mean direction
FINDING_TAG = 'observation-hemisphere'


# ---------------------------------------------------------------------------
# instrumentation of the real method
# ---------------------------------------------------------------------------
class SphRecorder:
    def __init__(self):
        from tweakwcs import wcsimage
        self.mod = wcsimage
        self.reset()

    def reset(self):
        self.s2c, self.c2s, self.prot, self.inv, self.hull = [], [], [], [], []

    def __enter__(self):
        mod = self.mod
        self.saved = {k: getattr(mod, k) for k in ('_S2C', '_C2S', 'planar_rot_3d', 'inv', 'convex_hull')}
        sv = self.saved

        def s2c(*a):
            out = sv['_S2C'](*a)
            self.s2c.append(([np.array(v, dtype=np.double) for v in a], [np.array(v, dtype=np.double) for v in out]))
            return out

        def c2s(*a):
            out = sv['_C2S'](*a)
            self.c2s.append(([np.array(v, dtype=np.double) for v in a], [np.array(v, dtype=np.double) for v in out]))
            return out

        def prot(angle, axis):
            out = sv['planar_rot_3d'](angle, axis)
            self.prot.append((float(angle), axis, np.array(out, dtype=np.double)))
            return out

        def inv(m):
            out = sv['inv'](m)
            self.inv.append((np.array(m, dtype=np.double), np.array(out)))
            return out

        def hull(x, y, wcs=None, min_separation=None):
            xs, ys = np.array(x, dtype=np.double), np.array(y, dtype=np.double)
            out = sv['convex_hull'](x, y, wcs=wcs, min_separation=min_separation)
            self.hull.append((xs, ys, min_separation, np.array(out[0], dtype=np.double), np.array(out[1], dtype=np.double)))
            return out

        mod._S2C, mod._C2S, mod.planar_rot_3d, mod.inv, mod.convex_hull = s2c, c2s, prot, inv, hull
        return self

    def __exit__(self, *a):
        for k, v in self.saved.items():
            setattr(self.mod, k, v)
        return False


def run_real(rec, spec):
    from astropy.table import Table
    from tweakwcs.wcsimage import RefCatalog
    ra = np.array(spec['RA'], dtype=float)
    dec = np.array(spec['DEC'], dtype=float)
    rec.reset()
    try:
        ref = RefCatalog(Table([ra, dec], names=('RA', 'DEC')), footprint_tol=spec['footprint_tol'])
    except Exception as e:
        return {'status': 'exc', 'exc': type(e).__name__, 'msg': str(e)[:160],
                'calls': [len(rec.s2c), len(rec.c2s), len(rec.prot), len(rec.inv), len(rec.hull)]}
    res = {'status': 'ok', 'ref': ref, 'calls': [len(rec.s2c), len(rec.c2s), len(rec.prot), len(rec.inv), len(rec.hull)]}
    if res['calls'] != [1, 2, 2, 1, 1]:
        res['status'] = 'structure'
        return res
    res['vec'] = np.stack(rec.s2c[0][1], axis=-1).reshape(-1, 3)
    res['mean'] = np.array([float(v) for v in rec.c2s[0][0]])
    res['refdir'] = np.array([float(v) for v in rec.c2s[0][1]])
    res['prot'] = list(rec.prot)
    res['rot'] = rec.inv[0][0]
    res['rotinv'] = rec.inv[0][1]
    res['px'], res['py'], res['sep'], res['hx'], res['hy'] = rec.hull[0]
    res['back'] = np.stack(rec.c2s[1][0], axis=-1).reshape(-1, 3)
    pra, pdec = ref._radec[0]
    res['pra'], res['pdec'] = np.array(pra, dtype=float), np.array(pdec, dtype=float)
    return res


# ---------------------------------------------------------------------------
# small helpers
# ---------------------------------------------------------------------------
def s2c_np(ra, dec):
    ra = np.deg2rad(np.asarray(ra, dtype=float))
    dec = np.deg2rad(np.asarray(dec, dtype=float))
    return np.stack([np.cos(dec) * np.cos(ra), np.cos(dec) * np.sin(ra), np.sin(dec)], axis=-1)


def angsep(u, v):
    u = np.asarray(u, dtype=float)
    v = np.asarray(v, dtype=float)
    u = u / np.linalg.norm(u)
    v = v / np.linalg.norm(v)
    return 2.0 * math.asin(min(1.0, 0.5 * float(np.linalg.norm(u - v))))


def fr(x):
    """exact value of a double or of a numpy long double"""
    if isinstance(x, np.longdouble):
        a, b = x.as_integer_ratio()
        return Fraction(int(a), int(b))
    return to_fraction(float(x))


def fvec(v):
    return [fr(c) for c in v]


def triple_exact(a, b, c):
    return (a[0] * (b[1] * c[2] - b[2] * c[1]) - a[1] * (b[0] * c[2] - b[2] * c[0]) + a[2] * (b[0] * c[1] - b[1] * c[0]))


def cross_norm(a, b):
    c = (a[1] * b[2] - a[2] * b[1], a[2] * b[0] - a[0] * b[2], a[0] * b[1] - a[1] * b[0])
    return math.sqrt(float(c[0] * c[0] + c[1] * c[1] + c[2] * c[2]))


def signed_distances(verts, v):
    """signed angular distances (rad, small-angle) of the direction v from the great circles of the consecutive
    vertex pairs, exact triple products of the doubles; None for an edge of zero length"""
    out = []
    for i in range(len(verts) - 1):
        nn = cross_norm(verts[i], verts[i + 1])
        if nn == 0.0:
            out.append(None)
            continue
        out.append(float(triple_exact(verts[i], verts[i + 1], v)) / nn)
    return out


def near_degenerate(px, py):
    """projected sources for which rounding may decide the vertex set: a (nearly) collinear triple"""
    P = sorted(set(zip([float(a) for a in px], [float(b) for b in py])))
    if len(P) > 40:
        return True
    if len(P) < 3:
        return False
    ext = max(max(a for a, _ in P) - min(a for a, _ in P), max(b for _, b in P) - min(b for _, b in P))
    if ext == 0:
        return True
    # (the projected coordinates carry an absolute rounding error of a few eps whatever the field size)
    thr = 1e-9 * ext * ext + 256 * EPS * ext * (1 + max(abs(a) + abs(b) for a, b in P))
    for i in range(len(P)):
        for j in range(i + 1, len(P)):
            ax, ay = P[j][0] - P[i][0], P[j][1] - P[i][1]
            for k in range(j + 1, len(P)):
                if abs(ax * (P[k][1] - P[i][1]) - ay * (P[k][0] - P[i][0])) < thr:
                    return True
    return False


def close_extremes(px, py):
    """two distinct projected points closer than 1e-9 rad (the direction of a two-source box is then rounding)"""
    P = sorted(set(zip([float(a) for a in px], [float(b) for b in py])))
    return len(P) >= 2 and math.hypot(P[-1][0] - P[0][0], P[-1][1] - P[0][1]) < 1e-9


def rational_cs(angle):
    """a rational point of the unit circle within ~1e-16 of (cos, sin)(angle): exactly c^2 + s^2 = 1"""
    t = to_fraction(math.tan(0.5 * angle))
    if t.denominator > 2 ** 80:
        t = t.limit_denominator(2 ** 80)
    return (1 - t * t) / (1 + t * t), 2 * t / (1 + t * t)


# ---------------------------------------------------------------------------
# the independent oracle
# ---------------------------------------------------------------------------
def oracle(ctx, case, spec, res):
    ra = np.array(spec['RA'], dtype=float)
    dec = np.array(spec['DEC'], dtype=float)
    n = len(ra)
    bad = []
    E = res['rot']
    Ei = np.array(res['rotinv'], dtype=float)
    # ---- the rotation -------------------------------------------------------------
    if np.max(np.abs(E @ E.T - np.eye(3))) > 1e-14 or abs(np.linalg.det(E) - 1.0) > 1e-14:
        bad.append('euler_rot is not a rotation (orthogonal, determinant +1)')
    if np.max(np.abs(Ei @ E - np.eye(3))) > 1e-14:
        bad.append('inv_euler_rot is not the inverse of euler_rot')
    V = s2c_np(ra, dec)
    m = V.mean(axis=0)
    mn = float(np.linalg.norm(m))
    if mn > 1e-9:
        t = E @ (m / mn)
        if np.max(np.abs(t - np.array([1.0, 0.0, 0.0]))) > 1e-13:
            bad.append('euler_rot does not send the mean direction of the sources to the tangent point (1, 0, 0): '
                       'it goes to (%.6g, %.6g, %.6g)' % tuple(t))
    # ---- the footprint ---------------------------------------------------------------
    pra, pdec = res['pra'], res['pdec']
    k = len(pra)
    if k < 4 or pra[0] != pra[-1] or pdec[0] != pdec[-1]:
        bad.append('footprint is not a closed list of at least 4 vertices (%d)' % k)
        return report(ctx, case, bad)
    P = s2c_np(pra, pdec)
    PF = [fvec(p) for p in P]
    VF = [fvec(v) for v in V]
    # (the side test below is blind to the antipodal image of a polygon: triple(-a, -b, v) = triple(a, b, v))
    if mn > 1e-9 and float(np.min(P @ (m / mn))) <= 0.0:
        bad.append('a footprint vertex is farther than 90 degrees from the mean direction of the sources (the '
                   'footprint is on the far side of the sphere)')
        return report(ctx, case, bad)
    distinct = [V[0]]
    for u in V[1:]:
        if all(angsep(u, t) > 2 * MIN_SEP for t in distinct):
            distinct.append(u)
    box = len(res['hx']) < 4
    ctx.branch('sph:branch:' + ('box' if box else 'hull'))
    if box:
        if k != 5:
            bad.append('footprint of a catalog whose hull has %d entries has %d vertices, not 5' % (len(res['hx']), k))
    else:
        for p in P[:-1]:
            if min(angsep(p, v) for v in V) > 1e-12:
                bad.append('a vertex of the hull footprint is not a source direction')
                break
    worst_in, worst_out = float('inf'), 0.0
    inner = []
    for v in VF:
        d = [x for x in signed_distances(PF, v) if x is not None]
        if not d:
            continue
        if box:
            d = [-x for x in d]          # the boxes are listed clockwise
        inner.append(min(d))
        worst_in = min(worst_in, min(d))
    if inner and worst_in < -MARGIN:
        # (is the whole list oriented the other way round?)
        flipped = []
        for v in VF:
            d = [x for x in signed_distances(PF, v) if x is not None]
            flipped.append(min(-x if not box else x for x in d))
        if min(flipped) >= -MARGIN:
            bad.append('footprint is listed %s (seen from outside the sphere)'
                       % ('counter-clockwise although it is a small box' if box else 'CLOCKWISE although it is a hull'))
        else:
            i = int(np.argmin(inner))
            bad.append('source %d (RA %.12g, DEC %.12g) is outside the footprint: %.3g rad beyond an edge'
                       % (i, ra[i], dec[i], -inner[i]))
    ctx.branch('sph:orientation:' + ('cw' if box else 'ccw'))
    # ---- spherical_geometry ------------------------------------------------------------
    width = None
    if not box:
        # thinness: the largest distance of a vertex from the great circle of an edge, minimised over the edges
        w = []
        for i in range(k - 1):
            nn = cross_norm(PF[i], PF[i + 1])
            if nn == 0.0:
                continue
            w.append(max(abs(float(triple_exact(PF[i], PF[i + 1], q))) / nn for q in PF[:-1]))
        width = min(w) if w else 0.0
    else:
        width = spec['footprint_tol'] * ARCSEC
    if width < SG_MIN_WIDTH:
        ctx.branch('sph:sg:too-thin-skipped')
        ctx.near_tie()
    elif not bad:
        poly = res['ref'].polygon
        tested = 0
        for i, dmin in enumerate(inner):
            if dmin < SG_INTERIOR:
                continue
            tested += 1
            try:
                c = bool(poly.contains_radec(float(ra[i]), float(dec[i])))
            except Exception as e:   # noqa
                c = None
            if c is not True:
                bad.append('polygon.contains_radec(source %d) is %r although the source is %.3g rad inside every edge '
                           'of refcat._radec (footprint width %.3g rad)' % (i, c, dmin, width))
                break
        ctx.branch('sph:sg:interior-sources-tested', tested)
        if tested == 0:
            ctx.branch('sph:sg:no-interior-source')
        a = res['ref'].poly_area
        if a is None or not (a < 2 * math.pi):
            bad.append('poly_area %r is not below a hemisphere: the polygon is inside out' % a)
    return report(ctx, case, bad)


def report(ctx, case, bad):
    for b in bad[:3]:
        ctx.oracle_fail(case, {'what': 'refcat footprint on the sphere: ' + b})
    return bad


# ---------------------------------------------------------------------------
# the model
# ---------------------------------------------------------------------------
def nums(vals, mode):
    return ' '.join(f2x(float(v)) if mode == 'F' else q2s(fr(v)) for v in vals)


def qnums(vals):
    return ' '.join(q2s(v) for v in vals)


def parse(out, mode):
    toks = out.split()
    conv = x2f if mode == 'F' else s2q
    return toks


def driver_lines(spec, res):
    """(tag, line) pairs of one successful case"""
    L = []
    ra, dec = spec['RA'], spec['DEC']
    n = len(ra)
    flat_radec = [v for p in zip(ra, dec) for v in p]
    vec = res['vec']
    flatv = [c for v in vec for c in v]
    E = res['rot']
    Ei = res['rotinv']
    L.append(('s2c', 'sph.s2c F %d %s' % (n, nums(flat_radec, 'F'))))
    L.append(('meanF', 'sph.mean F %d %s' % (n, nums(flatv, 'F'))))
    if n <= 64:
        L.append(('meanQ', 'sph.mean Q %d %s' % (n, nums(flatv, 'Q'))))
    L.append(('refdir', 'sph.c2s F 1 %s' % nums(res['mean'], 'F')))
    for i, (ang, ax, _) in enumerate(res['prot']):
        L.append(('prot%d' % i, 'sph.prot F %s %s %d' % (f2x(math.cos(ang)), f2x(math.sin(ang)), int(ax))))
    (a0, _, _), (a1, _, _) = res['prot']
    cs = [math.cos(a0), math.sin(a0), math.cos(a1), math.sin(a1)]
    L.append(('rotQ', 'sph.rot Q %s %s' % (q2s(TINY_Q), nums(cs, 'Q'))))
    L.append(('rotF', 'sph.rot F %s %s' % (f2x(TINY_F), nums(cs, 'F'))))
    L.append(('rotdeg', 'sph.rotdeg F %s %s' % (f2x(TINY_F), nums(res['refdir'], 'F'))))
    Eflat = [c for row in E for c in row]
    if n <= 64:
        L.append(('projQ', 'sph.proj Q %s %d %s' % (nums(Eflat, 'Q'), n, nums(flatv, 'Q'))))
    L.append(('projF', 'sph.proj F %s %d %s' % (nums(Eflat, 'F'), n, nums(flatv, 'F'))))
    k = len(res['hx'])
    if k >= 4:
        Eiq = ' '.join(q2s(fr(c)) for row in Ei for c in row)
        hv = [v for p in zip(res['hx'], res['hy']) for v in p]
        L.append(('backQ', 'sph.back Q %s %d %s' % (Eiq, k, nums(hv, 'Q'))))
    flatb = [c for v in res['back'] for c in v]
    L.append(('radec', 'sph.c2s F %d %s' % (len(res['back']), nums(flatb, 'F'))))
    tolbox = 0.5 * float(np.deg2rad(spec['footprint_tol'] / 3600.0))
    Eid = [float(c) for row in Ei for c in row]
    L.append(('foot', 'sph.foot F %s %s %s %s %d %s' % (nums(Eflat, 'F'), nums(Eid, 'F'), f2x(MIN_SEP), f2x(tolbox), n,
                                                      nums(flatv, 'F'))))
    L.append(('full', 'sph.full F %s %s %s %s %d %s' % (f2x(TINY_F), f2x(MIN_SEP), f2x(D2R), f2x(spec['footprint_tol']),
                                                      n, nums(flat_radec, 'F'))))
    if n <= 40:
        cr, sr = rational_cs(a0)
        cd, sd = rational_cs(a1)
        L.append(('orthrot', 'sph.rot Q %s %s' % (q2s(TINY_Q), qnums([cr, sr, cd, sd]))))
        R = [cd * cr, cd * sr, sd, -sr, cr, Fraction(0), -(sd * cr), -(sd * sr), cd]
        Rt = [R[0], R[3], R[6], R[1], R[4], R[7], R[2], R[5], R[8]]
        res['orthR'] = R
        L.append(('orthfoot', 'sph.foot Q %s %s %s %s %d %s' % (qnums(R), qnums(Rt), q2s(to_fraction(MIN_SEP)),
                                                              q2s(to_fraction(tolbox)), n, nums(flatv, 'Q'))))
    return L


def fl(toks, mode):
    conv = x2f if mode == 'F' else s2q
    return [conv(t) for t in toks]


def maxdiff(a, b):
    return max((abs(float(x) - float(y)) for x, y in zip(a, b)), default=0.0)


def compare(ctx, case, spec, res, outs):
    """outs: {tag: output line}"""
    def dis(tag, what, **kw):
        d = {'op': 'sph.' + tag, 'what': what}
        d.update(kw)
        ctx.disagree(case, d)

    def ok_tokens(tag):
        o = outs.get(tag)
        if o is None:
            return None
        t = o.split()
        if t[:1] != ['ok']:
            dis(tag, 'model answered %r' % o[:80])
            return None
        return t[1:]

    ra, dec = np.array(spec['RA'], float), np.array(spec['DEC'], float)
    n = len(ra)
    vec = res['vec']
    E = res['rot']
    Ei = res['rotinv']
    # ---- s2c ---------------------------------------------------------------------
    t = ok_tokens('s2c')
    if t is not None:
        mv = np.array(fl(t, 'F')).reshape(-1, 3)
        tol = 8 * EPS * (2 + np.abs(np.deg2rad(ra)) + np.abs(np.deg2rad(dec)))
        d = np.max(np.abs(mv - vec), axis=1)
        if np.any(d > tol):
            i = int(np.argmax(d - tol))
            dis('s2c', 'unit vector of source %d differs' % i, model=mv[i].tolist(), impl=vec[i].tolist())
        else:
            ctx.branch('sph:corr:s2c')
    # ---- mean ----------------------------------------------------------------------
    for tag, mode in (('meanF', 'F'), ('meanQ', 'Q')):
        t = ok_tokens(tag)
        if t is not None:
            mm = fl(t, mode)
            if maxdiff(mm, res['mean']) > (n + 4) * EPS:
                dis(tag, 'mean vector differs', model=[float(v) for v in mm], impl=res['mean'].tolist())
            else:
                ctx.branch('sph:corr:mean:' + mode)
    # ---- reference direction -----------------------------------------------------------
    t = ok_tokens('refdir')
    if t is not None:
        lon, lat = fl(t, 'F')
        dl = abs(lon - res['refdir'][0])
        dl = min(dl, abs(dl - 360.0))
        if dl > 2e-13 or abs(lat - res['refdir'][1]) > 2e-13:
            dis('refdir', '(ra_ref, dec_ref) differs', model=[lon, lat], impl=res['refdir'].tolist())
        else:
            ctx.branch('sph:corr:refdir')
    # ---- planar_rot_3d -------------------------------------------------------------------
    axes = [int(p[1]) for p in res['prot']]
    if axes != [2, 1]:
        dis('prot', 'planar_rot_3d called with axes %r, the model uses [2, 1]' % axes)
    want = [float(np.deg2rad(res['refdir'][0])), float(np.deg2rad(res['refdir'][1]))]
    if [p[0] for p in res['prot']] != want:
        dis('prot', 'planar_rot_3d called with angles %r, not deg2rad(ra_ref, dec_ref) = %r'
            % ([p[0] for p in res['prot']], want))
    for i in range(2):
        t = ok_tokens('prot%d' % i)
        if t is not None:
            mm = fl(t, 'F')
            im = [float(c) for row in res['prot'][i][2] for c in row]
            if mm != im:
                dis('prot', 'planar_rot_3d(angle, %d) differs' % axes[i], model=mm, impl=im)
            else:
                ctx.branch('sph:corr:planar_rot_3d:axis%d' % axes[i])
    # ---- euler_rot, inv_euler_rot ----------------------------------------------------------
    Efl = [float(c) for row in E for c in row]
    Eifl = [fr(c) for row in Ei for c in row]
    for tag, mode in (('rotQ', 'Q'), ('rotF', 'F')):
        t = ok_tokens(tag)
        if t is None:
            continue
        if t[-1] == 'singular':
            dis(tag, 'the model of inv reports a singular euler_rot')
            continue
        mm = fl(t, mode)
        r, ri = mm[:9], mm[9:]
        badr = [j for j in range(9) if abs(float(r[j]) - Efl[j]) > EPS * abs(float(r[j])) + 1e-300]
        if mode == 'F':
            badr = [j for j in range(9) if float(r[j]) != Efl[j]]
        if badr:
            dis(tag, 'euler_rot entry %d differs' % badr[0], model=[float(v) for v in r], impl=Efl)
            continue
        if maxdiff(ri, Eifl) > 16 * EPS:
            dis(tag, 'inv_euler_rot differs', model=[float(v) for v in ri], impl=[float(v) for v in Eifl])
            continue
        ctx.branch('sph:corr:euler_rot:' + mode)
    t = ok_tokens('rotdeg')
    if t is not None and t[-1] != 'singular':
        mm = fl(t, 'F')
        if maxdiff(mm[:9], Efl) > 8 * EPS * (1 + abs(want[0])):
            dis('rotdeg', 'euler_rot from (ra_ref, dec_ref) differs', model=mm[:9], impl=Efl)
        else:
            ctx.branch('sph:corr:euler_rot:from-angles')
    # ---- projection -----------------------------------------------------------------------------
    px, py = res['px'], res['py']
    ptol = 16 * EPS * (1 + px * px + py * py)
    for tag, mode in (('projQ', 'Q'), ('projF', 'F')):
        o = outs.get(tag)
        if o is None:
            continue
        if o.startswith('err div0'):
            ctx.branch('sph:model:div0')
            ctx.near_tie()
            continue
        t = ok_tokens(tag)
        if t is None:
            continue
        hemi = t[0]
        mm = fl(t[1:], mode)
        mx = np.array([float(v) for v in mm[0::2]])
        my = np.array([float(v) for v in mm[1::2]])
        if len(mx) != n or np.any(np.abs(mx - px) > ptol) or np.any(np.abs(my - py) > ptol):
            dis(tag, 'tangent-plane coordinates differ', model=[mx[:6].tolist(), my[:6].tolist()],
                impl=[px[:6].tolist(), py[:6].tolist()])
            continue
        ctx.branch('sph:corr:projection:' + mode)
        ctx.branch('sph:hemisphere:' + hemi)
    # ---- back-projection (hull branch, exact inputs) ------------------------------------------------
    k = len(res['hx'])
    t = ok_tokens('backQ')
    if t is not None:
        mm = np.array([float(v) for v in fl(t, 'Q')]).reshape(-1, 3)
        btol = 8 * EPS * (1 + np.abs(res['hx']) + np.abs(res['hy']))
        if len(mm) != len(res['back']) or np.any(np.max(np.abs(mm - res['back']), axis=1) > btol):
            dis('backQ', 'back-projected vertex vectors differ', model=mm[:4].tolist(), impl=res['back'][:4].tolist())
        else:
            ctx.branch('sph:corr:back-projection:Q')
    # ---- RA/DEC of the vertices -----------------------------------------------------------------------
    t = ok_tokens('radec')
    if t is not None:
        mm = np.array(fl(t, 'F')).reshape(-1, 2)
        mm[-1] = mm[0]
        MV = s2c_np(mm[:, 0], mm[:, 1])
        IV = s2c_np(res['pra'], res['pdec'])
        if len(MV) != len(IV) or max(angsep(a, b) for a, b in zip(MV, IV)) > 2e-14:
            dis('radec', 'RA/DEC of the footprint vertices differ', model=mm[:4].tolist(),
                impl=[res['pra'][:4].tolist(), res['pdec'][:4].tolist()])
        else:
            ctx.branch('sph:corr:radec')
    # ---- footprint from the recorded rotation, and the whole method -------------------------------------
    neardeg = near_degenerate(px, py)
    closepair = close_extremes(px, py)
    lexamb = lexmin_ambiguous(px, py)
    box = k < 4
    tolbox = 0.5 * float(np.deg2rad(spec['footprint_tol'] / 3600.0))
    scale = float(1 + np.max(px * px + py * py))
    t = ok_tokens('foot')
    if t is not None:
        kk = int(t[3])
        vals = fl(t[4:], 'F')
        back = np.array(vals[2 * kk:]).reshape(-1, 3)
        compare_vertices(ctx, dis, 'foot', back, res['back'], box, neardeg, closepair, tolbox, scale, lexamb)
    o = outs.get('full')
    if o is not None and not o.startswith('ok'):
        dis('full', 'model answered %r' % o[:80])
    elif o is not None:
        t = o.split()[1:]
        head = fl(t[:23], 'F')
        mmean, mdir, mR = np.array(head[:3]), head[3:5], np.array(head[5:14]).reshape(3, 3)
        if np.max(np.abs(mmean - res['mean'])) > (n + 12) * EPS * 4:
            dis('full', 'mean vector differs', model=mmean.tolist(), impl=res['mean'].tolist())
        dsep = angsep(s2c_np(mdir[0], mdir[1]), s2c_np(res['refdir'][0], res['refdir'][1]))
        mnorm = float(np.linalg.norm(res['mean']))
        if dsep > 64 * EPS * (n + 8) / max(mnorm, 1e-300):
            if mnorm < 1e-6:
                ctx.near_tie()
            else:
                dis('full', 'reference direction differs by %.3g rad' % dsep, model=mdir, impl=res['refdir'].tolist())
        elif np.max(np.abs(mR[0] - E[0])) > 1e-13 / max(mnorm, 1e-3):
            dis('full', 'first row of euler_rot (the reference direction) differs', model=mR[0].tolist(), impl=E[0].tolist())
        else:
            ctx.branch('sph:corr:full:reference-direction')
        nn = int(t[23])
        rest = t[24 + 2 * nn:]
        kk = int(rest[0])
        vals = fl(rest[1:], 'F')
        mradec = np.array(vals[5 * kk:]).reshape(-1, 2)
        if len(mradec) != kk:
            dis('full', 'malformed model line')
        else:
            MV = s2c_np(mradec[:, 0], mradec[:, 1])
            IV = s2c_np(res['pra'], res['pdec'])
            compare_vertices(ctx, dis, 'full', MV, IV, box, neardeg, closepair, tolbox, scale, lexamb)
    # ---- exactly orthogonal rational rotation: the theorem, evaluated ---------------------------------------
    t = ok_tokens('orthrot')
    if t is not None:
        if t[-1] == 'singular':
            dis('orthrot', 'inv reports an exactly orthogonal rational matrix singular')
        else:
            mm = fl(t, 'Q')
            r, ri = mm[:9], mm[9:]
            rt = [r[0], r[3], r[6], r[1], r[4], r[7], r[2], r[5], r[8]]
            if r != res['orthR'] or ri != rt:
                dis('orthrot', 'inverse of an exactly orthogonal rotation is not exactly its transpose')
            elif maxdiff(r, Efl) > 1e-15:
                dis('orthrot', 'rational rotation is not close to euler_rot', model=[float(v) for v in r], impl=Efl)
            else:
                ctx.branch('sph:corr:exact-rotation:inverse-is-transpose')
    o = outs.get('orthfoot')
    if o is not None:
        if o.startswith('err needsSqrt'):
            ctx.branch('sph:exact:box-needs-sqrt')
            if not box and not (neardeg or closepair):
                dis('orthfoot', 'exact model has fewer than 4 hull entries, the implementation has %d' % k)
        elif o.startswith('err div0'):
            ctx.branch('sph:model:div0')
        elif not o.startswith('ok'):
            dis('orthfoot', 'model answered %r' % o[:80])
        else:
            t = o.split()[1:]
            hemi, allleft, kk = t[0], t[1], int(t[3])
            if hemi != '1':
                ctx.branch('sph:exact:outside-hemisphere')
            elif allleft != '1':
                # hypotheses of sph_footprint_contains: hemisphere, not collinear (4+ entries), Separated: when the
                # merging loop removed a vertex the theorem does not apply
                if neardeg or closepair:
                    ctx.near_tie()
                else:
                    dis('orthfoot', 'exact model: a source fails the exact spherical containment test against the '
                                    'model footprint (sph_footprint_contains)')
            else:
                ctx.branch('sph:exact:all-sources-contained')
            vals = fl(t[4:], 'Q')
            back = np.array([float(v) for v in vals[2 * kk:]]).reshape(-1, 3)
            compare_vertices(ctx, dis, 'orthfoot', back, res['back'], box, neardeg, closepair, tolbox, scale, lexamb)


def lexmin_ambiguous(px, py):
    """the start vertex of the hull is the lexicographically smallest projected source: is that decided by rounding?
    (two distinct points whose abscissae differ by less than 1e-9 of the field size among the candidates)"""
    P = sorted(set(zip([float(a) for a in px], [float(b) for b in py])))
    if len(P) < 2:
        return False
    ext = max(P[-1][0] - P[0][0], max(b for _, b in P) - min(b for _, b in P), 1e-300)
    # (the projected coordinates carry an absolute rounding error of a few eps whatever the field size)
    return (P[1][0] - P[0][0]) < 1e-9 * ext + 64 * EPS * (1 + abs(P[0][0]))


def compare_vertices(ctx, dis, tag, mv, iv, box, neardeg, closepair, tolbox, scale, lexamb=False):
    """vertex directions of the model against those of the implementation (any normalisation)"""
    if len(mv) != len(iv):
        if neardeg or closepair:
            ctx.near_tie()
            ctx.branch('sph:near-tie:' + tag)
        else:
            dis(tag, 'number of footprint vertices', model=len(mv), impl=len(iv))
        return
    tol = (1e-6 * tolbox + 64 * EPS * scale) if box else 1e-13 * scale
    worst = max(angsep(a, b) for a, b in zip(mv, iv))
    if worst > tol:
        if (box and closepair) or ((not box) and neardeg):
            ctx.near_tie()
            ctx.branch('sph:near-tie:' + tag)
            return
        if lexamb:
            # the same closed polygon started at another vertex: the lexicographically smallest projection is a tie
            body = list(mv[:-1])
            for sft in range(1, len(body)):
                rot = body[sft:] + body[:sft]
                rot.append(rot[0])
                if max(angsep(a, b) for a, b in zip(rot, iv)) <= tol:
                    ctx.near_tie()
                    ctx.branch('sph:near-tie:start-vertex:' + tag)
                    return
        dis(tag, 'footprint vertex directions differ by %.3g rad (tolerance %.3g)' % (worst, tol),
            model=np.asarray(mv)[:4].tolist(), impl=np.asarray(iv)[:4].tolist())
        return
    ctx.branch('sph:corr:%s:%s' % (tag, 'box' if box else 'hull'))


# ---------------------------------------------------------------------------
# cases
# ---------------------------------------------------------------------------
def frame(ra0, dec0):
    """unit vector of (ra0, dec0) and an orthonormal (east, north) pair (any pair at the poles)"""
    c = s2c_np(ra0, dec0)
    e = np.cross([0.0, 0.0, 1.0], c)
    if np.linalg.norm(e) < 1e-9:
        e = np.array([1.0, 0.0, 0.0]) - c * c[0]
    e = e / np.linalg.norm(e)
    return c, e, np.cross(c, e)


def to_radec(v, wrap):
    ra = math.degrees(math.atan2(v[1], v[0]))
    dec = math.degrees(math.atan2(v[2], math.hypot(v[0], v[1])))
    if wrap == '0..360' and ra < 0:
        ra += 360.0
    return ra, dec


def place(ra0, dec0, offs, wrap):
    """sources at tangent-plane offsets (radians, gnomonic) about (ra0, dec0)"""
    c, e, nr = frame(ra0, dec0)
    out = [to_radec(c + a * e + b * nr, wrap) for a, b in offs]
    return [p[0] for p in out], [p[1] for p in out]


def mkspec(ra, dec, ftol=1.0, label='corpus'):
    return {'op': 'sphhull', 'label': label, 'RA': [float(v) for v in ra], 'DEC': [float(v) for v in dec],
            'footprint_tol': float(ftol)}


SKY = [(0.0, 0.0), (359.9999, 0.0), (1e-9, 10.0), (0.0, 85.0), (180.0, -85.0), (45.0, 89.0), (300.0, -89.0),
       (123.456, 89.9), (10.0, -89.9), (77.0, 89.99), (200.0, 60.0), (90.0, 45.0), (270.0, -30.0), (359.5, -60.0),
       (180.0, 0.0), (-179.99999, 33.0), (82.0, 12.0)]


def corpus():
    C = []
    tri = [(-1.0, -0.6), (1.0, -0.5), (0.1, 1.0)]
    quad = [(-1.0, -1.0), (1.0, -1.0), (1.0, 1.0), (-1.0, 1.0), (0.1, 0.2), (-0.3, 0.4)]
    for (r0, d0) in SKY:
        for size in (1e-6, 1e-3, 0.5, 25.0):
            s = math.radians(size)
            for offs, lab in ((tri, 'tri'), (quad, 'quad')):
                ra, dec = place(r0, d0, [(math.tan(s) * a, math.tan(s) * b) for a, b in offs], '0..360')
                C.append(mkspec(ra, dec, label='corpus:%s:%g' % (lab, size)))
    # 1 source (the pole itself included), 2 sources, duplicates
    for (r0, d0) in SKY + [(30.0, 90.0), (0.0, -90.0), (360.0, 0.0)]:
        C.append(mkspec([r0], [d0], ftol=1.0, label='corpus:one'))
    C.append(mkspec([10.0, 10.0, 10.0], [20.0, 20.0, 20.0], label='corpus:one-repeated'))
    C.append(mkspec([359.9, 0.1], [0.0, 0.0], label='corpus:two-across-RA-wrap'))
    C.append(mkspec([10.0, 190.0], [89.9, 89.9], label='corpus:two-across-the-pole'))
    C.append(mkspec([10.0, 190.0], [-89.95, -89.9], ftol=3.0, label='corpus:two-across-the-pole'))
    C.append(mkspec([30.0, 30.0], [40.0, 40.001], ftol=0.1, label='corpus:two-meridian'))
    C.append(mkspec([30.0, 30.001], [40.0, 40.0], ftol=10.0, label='corpus:two-parallel'))
    C.append(mkspec([30.0, 30.0 + 1e-7 / 3600], [40.0, 40.0], label='corpus:two-1e-7-arcsec'))
    C.append(mkspec([30.0, 30.0 + 1e-13], [40.0, 40.0], label='corpus:two-closer-than-min_separation'))
    C.append(mkspec([0.0, 90.0], [0.0, 0.0], label='corpus:two-90-degrees-apart'))
    C.append(mkspec([0.0, 150.0], [0.0, 0.0], label='corpus:two-150-degrees-apart'))
    # collinear on a great circle through the tangent point: exactly collinear projections on the equator
    # (z = 0 exactly) and on the meridian RA = 0 (y = 0 exactly); the meridian RA = 10 is collinear only up to rounding
    C.append(mkspec([-1.0, 0.0, 1.0], [0.0, 0.0, 0.0], label='corpus:collinear-equator'))
    C.append(mkspec([359.0, 0.0, 1.0, 0.5], [0.0, 0.0, 0.0, 0.0], label='corpus:collinear-equator'))
    C.append(mkspec([0.0, 0.0, 0.0], [-1.0, 0.0, 1.0], label='corpus:collinear-meridian0'))
    C.append(mkspec([10.0, 10.0, 10.0], [-1.0, 0.0, 1.0], label='corpus:collinear-meridian10'))
    # duplicates among many
    ra, dec = place(200.0, 60.0, [(0.01 * a, 0.01 * b) for a, b in quad + quad[:3]], '-180..180')
    C.append(mkspec(ra, dec, label='corpus:duplicates'))
    # wide fields
    C.append(mkspec([30.0, 30.0, 70.0, 70.0, 50.0], [-30.0, 30.0, 30.0, -30.0, 0.0], label='corpus:40x60deg'))
    C.append(mkspec([30.0, 30.0, 110.0, 110.0, 70.0], [-40.0, 40.0, 40.0, -40.0, 5.0], label='corpus:80x80deg'))
    C.append(mkspec([0.0, 90.0, 180.0, 270.0, 33.0], [10.0, 10.0, 10.0, 10.0, 80.0], label='corpus:ring-about-the-pole'))
    C.append(mkspec([0.0, 120.0, 240.0, 50.0], [89.9, 89.9, 89.9, 89.99], label='corpus:around-the-pole'))
    C.append(mkspec([0.0, 120.0, 240.0, 77.0], [-89.99, -89.9, -89.95, -90.0], label='corpus:around-the-south-pole'))
    return C


def gen_spec(rng):
    ra0 = rng.choice([0.0, 360.0, 359.99999, 1e-7, 180.0, -180.0, 90.0, rng.uniform(0, 360), rng.uniform(-180, 180)])
    dec0 = rng.choice([0.0, 89.9, -89.9, 89.0, -89.0, 85.0, -85.0, 60.0, -45.0, 89.99, rng.uniform(-89.9, 89.9),
                       rng.uniform(-30, 30)])
    size = rng.choice([1e-6, 1e-5, 1e-4, 1e-3, 0.01, 0.1, 1.0, 5.0, 20.0, 40.0, 10 ** rng.uniform(-6, 1.6)])
    s = math.tan(math.radians(min(size, 60.0)))
    fam = rng.choice(['one', 'two', 'three', 'three', 'few', 'few', 'few', 'many', 'dups', 'lattice', 'nearline', 'ring'])
    if fam == 'one':
        offs = [(rng.uniform(-s, s), rng.uniform(-s, s))] * rng.choice([1, 1, 2, 3])
    elif fam == 'two':
        offs = [(rng.uniform(-s, s), rng.uniform(-s, s)) for _ in range(2)]
        if rng.random() < 0.3:
            offs.append(offs[0])
    elif fam == 'three':
        offs = [(rng.uniform(-s, s), rng.uniform(-s, s)) for _ in range(3)]
    elif fam == 'few':
        offs = [(rng.uniform(-s, s), rng.uniform(-s, s)) for _ in range(rng.randint(4, 12))]
    elif fam == 'many':
        offs = [(rng.gauss(0, s / 3), rng.gauss(0, s / 3)) for _ in range(rng.choice([30, 60, 120, 250]))]
        offs = [(max(-s, min(s, a)), max(-s, min(s, b))) for a, b in offs]
    elif fam == 'dups':
        base = [(rng.uniform(-s, s), rng.uniform(-s, s)) for _ in range(rng.randint(3, 6))]
        offs = base + [rng.choice(base) for _ in range(rng.randint(1, 5))]
        rng.shuffle(offs)
    elif fam == 'lattice':
        k = rng.randint(2, 4)
        offs = [(s * (2.0 * i / (k - 1) - 1), s * (2.0 * j / (k - 1) - 1)) for i in range(k) for j in range(k)]
    elif fam == 'nearline':
        th = rng.uniform(0, math.pi)
        w = rng.choice([0.0, 1e-12, 1e-6, 1e-3])
        offs = [(s * t * math.cos(th) - w * s * u * math.sin(th), s * t * math.sin(th) + w * s * u * math.cos(th))
                for t, u in ((rng.uniform(-1, 1), rng.uniform(-1, 1)) for _ in range(rng.randint(3, 6)))]
    else:
        m = rng.randint(5, 16)
        ph = rng.uniform(0, 2 * math.pi)
        offs = [(s * math.cos(ph + 2 * math.pi * i / m), s * math.sin(ph + 2 * math.pi * i / m)) for i in range(m)]
        offs.append((0.0, 0.0))
    wrap = rng.choice(['0..360', '-180..180'])
    ra, dec = place(ra0, dec0, offs, wrap)
    if rng.random() < 0.1:
        ra = [round(v, 6) for v in ra]
        dec = [max(-90.0, min(90.0, round(v, 6))) for v in dec]
    return mkspec(ra, dec, ftol=rng.choice([1.0, 1.0, 0.1, 3.0, 10.0]), label='gen:%s:%.3g' % (fam, size))


def within_hemisphere(spec):
    """the generated class: mean vector well defined, every source within MAX_FROM_MEAN_DEG of the mean direction"""
    V = s2c_np(spec['RA'], spec['DEC'])
    m = V.mean(axis=0)
    mn = float(np.linalg.norm(m))
    if mn < 1e-3:
        return False
    return float(np.min(V @ (m / mn))) > math.cos(math.radians(MAX_FROM_MEAN_DEG))


def one_case(ctx, rec, spec, batch):
    case = dict(spec)
    n = len(spec['RA'])
    res = run_real(rec, spec)
    ctx.case(case, nontrivial=True, branch='sph:' + spec['label'].split(':')[0] + ':' + spec['label'].split(':')[1])
    ctx.branch('sph:n=%s' % (n if n <= 3 else '4-12' if n <= 12 else '13+'))
    if res['status'] == 'exc':
        ctx.branch('sph:impl-exception:' + res['exc'])
        ctx.oracle_fail(case, {'what': 'refcat footprint on the sphere: RefCatalog raised %s: %s' % (res['exc'], res['msg'])})
        return
    if res['status'] == 'structure':
        ctx.disagree(case, {'op': 'sph.full', 'what': 'the method did not make the calls the model mirrors '
                                                     '(_S2C, _C2S, planar_rot_3d, inv, convex_hull) = (1, 2, 2, 1, 1)',
                            'impl': res['calls']})
        # the property itself is still tested on what was built
        soft_oracle(ctx, case, spec, res['ref'])
        return
    if res['sep'] != MIN_SEP:
        ctx.disagree(case, {'op': 'sph.full', 'what': 'convex_hull called with min_separation %r, the model uses 1e-11'
                                                     % res['sep']})
    oracle(ctx, case, spec, res)
    if ctx.search_only:
        return
    batch.append((case, spec, res, driver_lines(spec, res)))


def soft_oracle(ctx, case, spec, ref):
    """containment by exact triple products only (used when the intermediates could not be observed)"""
    V = [fvec(v) for v in s2c_np(spec['RA'], spec['DEC'])]
    pra, pdec = ref._radec[0]
    Pn = s2c_np(np.array(pra, float), np.array(pdec, float))
    P = [fvec(p) for p in Pn]
    m = s2c_np(spec['RA'], spec['DEC']).mean(axis=0)
    if float(np.linalg.norm(m)) > 1e-9 and float(np.min(Pn @ m)) <= 0.0:
        ctx.oracle_fail(case, {'what': 'refcat footprint on the sphere: a footprint vertex is farther than 90 degrees '
                                       'from the mean direction of the sources (the footprint is on the far side of '
                                       'the sphere)'})
        return
    for i, v in enumerate(V):
        d = [x for x in signed_distances(P, v) if x is not None]
        if d and min(d) < -MARGIN and max(d) > MARGIN:
            ctx.oracle_fail(case, {'what': 'refcat footprint on the sphere: source %d is outside the footprint '
                                           '(%.3g rad beyond an edge)' % (i, -min(d))})
            return


def flush(ctx, batch):
    if not batch:
        return
    lines = [ln for item in batch for _, ln in item[3]]
    outs = ctx.driver(lines)
    pos = 0
    for case, spec, res, L in batch:
        o = {tag: outs[pos + i] for i, (tag, _) in enumerate(L)}
        pos += len(L)
        compare(ctx, case, spec, res, o)
    del batch[:]


def planar_rot_cases(ctx):
    """`planar_rot_3d` on its own: the three axes, float axes, and the ValueError"""
    from tweakwcs.wcsutils import planar_rot_3d
    lines, items = [], []
    for ang in (0.0, 0.3, -2.5, math.pi / 2, math.pi, 1e-9, 6.0):
        for ax in (0, 1, 2, 3, 7, 2.0):
            case = {'op': 'sph.prot', 'angle': ang, 'axis': ax}
            ctx.case(case, nontrivial=True, branch='sph:planar_rot_3d')
            try:
                im = [float(c) for row in planar_rot_3d(ang, ax) for c in row]
            except ValueError:
                im = 'ValueError'
            if (im == 'ValueError') != (ax not in (0, 1, 2)):
                ctx.oracle_fail(case, {'what': 'planar_rot_3d: ValueError expected exactly for an axis outside 0, 1, 2',
                                       'got': im})
            if ctx.search_only:
                continue
            lines.append('sph.prot F %s %s %d' % (f2x(math.cos(ang)), f2x(math.sin(ang)), int(ax)))
            items.append((case, im))
    if not lines:
        return
    for out, (case, im) in zip(ctx.driver(lines), items):
        if out == 'err badAxis':
            if im != 'ValueError':
                ctx.disagree(case, {'op': 'sph.prot', 'model': out, 'impl': im})
            continue
        t = out.split()
        if t[:1] != ['ok'] or im == 'ValueError' or [x2f(v) for v in t[1:]] != im:
            ctx.disagree(case, {'op': 'sph.prot', 'model': out[:120], 'impl': im})
        else:
            ctx.branch('sph:corr:planar_rot_3d:direct')


def hemisphere_probe(ctx, rec):
    """OBSERVATION (recorded, not counted): the hypothesis of the containment theorems - every source closer than 90
    degrees to the mean direction - is not checked by the code.  A catalog spread over more than a hemisphere is
    processed silently and the sources beyond 90 degrees from the mean direction (projected through the centre of
    the sphere, `xr < 0`) are left outside the footprint."""
    spec = mkspec([0.0, 1.0, 0.5, 126.87], [0.0, 0.0, 1.0, 0.0], label='probe:more-than-a-hemisphere')
    case = dict(spec)
    ctx.case(case, nontrivial=True, branch='sph:probe:more-than-a-hemisphere')
    res = run_real(rec, spec)
    if res['status'] != 'ok':
        ctx.note('sph probe more-than-a-hemisphere: RefCatalog did not build (%s)' % res.get('exc', res['status']))
        return
    V = [fvec(v) for v in s2c_np(spec['RA'], spec['DEC'])]
    P = [fvec(p) for p in s2c_np(res['pra'], res['pdec'])]
    d = [min(x for x in signed_distances(P, v) if x is not None) for v in V]
    xr = (res['rot'] @ res['vec'].T)[0]
    if min(d) < -MARGIN:
        ctx.branch('sph:probe:more-than-a-hemisphere:source-outside')
        ctx.note('OBSERVATION (not counted, %s): RefCatalog RA=%r DEC=%r: source 3 is %.1f deg from the mean direction '
                 '(xr = %.3f < 0) and lies %.3g rad outside the footprint that is returned; no error is raised'
                 % (FINDING_TAG, spec['RA'], spec['DEC'], math.degrees(math.acos(max(-1.0, min(1.0, float(xr[3]))))),
                    float(xr[3]), -min(d)))
    else:
        ctx.branch('sph:probe:more-than-a-hemisphere:contained')
        ctx.note('sph probe more-than-a-hemisphere: all sources are now inside the footprint')


def run_extra(ctx):
    """oracle part always; correspondence part (model driver) only when not ctx.search_only"""
    planar_rot_cases(ctx)
    batch = []
    with SphRecorder() as rec:
        for spec in corpus():
            one_case(ctx, rec, spec, batch)
        hemisphere_probe(ctx, rec)
        flush(ctx, batch)
        todo = ctx.n(150, 2600)
        tries = 0
        while todo > 0 and tries < 20 * ctx.n(150, 2600):
            tries += 1
            spec = gen_spec(ctx.rng)
            if not within_hemisphere(spec):
                ctx.branch('sph:gen:rejected-beyond-%g-deg' % MAX_FROM_MEAN_DEG)
                continue
            todo -= 1
            one_case(ctx, rec, spec, batch)
            if len(batch) >= 200:
                flush(ctx, batch)
        flush(ctx, batch)


def replay_case(ctx, case):
    if case.get('op') == 'sph.prot':
        planar_rot_cases(ctx)
        return
    spec = {k: case[k] for k in ('op', 'label', 'RA', 'DEC', 'footprint_tol')}
    batch = []
    with SphRecorder() as rec:
        one_case(ctx, rec, spec, batch)
        flush(ctx, batch)
