"""
C12 -- the 2-D histogram offset estimate is unbiased and the peak stays in bounds.

Anchors (private functions of tweakwcs.matchutils, called by name):
  _xy_2dhist, _estimate_2dhist_shift, _find_peak.

Correspondence (model = lean/Model/Hist.lean, run on IEEE doubles through the driver, so that every
comparison made by the code -- pair selection, bin edges, arg-max -- is reproduced bit for bit):
  op `hist`      _xy_2dhist            all non-zero bins equal
  op `estshift`  _estimate_2dhist_shift  both offsets equal (1e-9)
  op `findpeak`  _find_peak            coordinates (1e-9), status string, fit box equal
numpy.linalg.lstsq is an external of the model (parameter `lsq`): the harness observes the
coefficients the real call produced (by wrapping numpy.linalg.lstsq during the call) and hands them
to the model; separately the contract of `lsq` is tested (observed coefficients = exact rational
solution of the normal equations whenever the design matrix has full rank), and on integer data with
a full-rank design the model is also run on exact rationals with the driver's own normal-equation
solver (`Q ... N`).

The call is also CONCRETE in the model (lean/Model/Lstsq.lean: `lstsqNormal` / `lstsqMinNorm` / `lstsqLsq`,
theorems at the end of Proofs/C12.lean), and the closed function `findPeakConcrete` is compared with the
real `_find_peak` without handing over any coefficient:
  op `findpeakm Q`  exact rationals (every double is a rational): coordinates, status, fit box.  The real
                    call goes through numpy's SVD-based lstsq, so a SUCCESS coordinate is compared with
                    the tolerance  2 L tolc  where  tolc = 16 eps (k |c| + k |b|/smax + k^2 |r|/smax)  is
                    Wedin's perturbation bound for a backward-stable least-squares solver (k = smax/smin
                    of the design matrix over its non-zero singular values, r the residual) and L the
                    sensitivity of the vertex formula to the coefficients (sum of the absolute partial
                    derivatives, ~ 1/det); a different status is a near-tie ONLY when, for the model's
                    exact coefficients, a deciding quantity of the fit stage is within the propagated
                    margin of its threshold: |det| <= 10 sc tolc, |c20| or |c02| <= tolc, vertex within
                    2 L tolc of a box edge (this includes the exact ties of rank-deficient boxes, whose
                    minimum-norm coefficients often have c11 = 0 or det = 0 exactly);
  op `findpeakm F`  the same model on doubles (pivot threshold 1e-10): full-rank boxes are compared with
                    the tolerance enlarged by the error of normal equations on doubles
                    (64 eps k^2 (|c| + |b|/smax)); rank-deficient boxes are only counted (squaring the
                    normal matrix on doubles is not accurate enough for a verdict);
  op `lstsq Q`      numpy.linalg.lstsq against `lstsqMinNorm` on the design matrix and data of the run:
                    same rank; coefficients within tolc (full rank and rank deficient: numpy returns the
                    minimum-norm solution, which is what the model computes; the first few rank-deficient
                    answers of numpy are recorded in the evidence).
Injected failures of lstsq (LinAlgError, non-finite result) are outside real arithmetic: those cases are
compared with the model whose `lsq` parameter fails (`X`), as before.

Oracle (independent of the model; ground truth by construction):
  * catalogs that are shifted copies: estimate within pscale/2 of the true shift when a brute-force
    enumeration finds only true pairs in the search box; within the five-bin fit box around the
    (unique) highest bin in crowded fields; exactly (0, 0) when no pair is in the box; shifts have
    very different x and y so an interchange is seen;
  * _find_peak: status in the documented vocabulary, coordinates finite, inside the array and
    inside the returned fit box, fit box inside the array; vertex of a sampled concave paraboloid
    returned exactly; peak_fit_box < 1 raises ValueError.
"""
import itertools
import logging
import math

import numpy as np

from ..common import Fraction, f2x, x2f, q2s, s2q, to_fraction

ID = 'C12'
RULE = ('histogram scenes: catalogs (1..60 sources, sparse grid-separated or crowded, with extras, '
        'optional jitter) x true shifts on bin centres / off centre / on bin edges / beyond the radius '
        'x pscale in 0.01..10 x searchrad/pscale integer and non-integer (0.6..300); peak finder: '
        'peaked / random / paraboloid (dyadic and arbitrary double parameters) / all-zero integer arrays up to 9x9 '
        'with masks and box sizes 0..7, rank-deficient fit boxes (good pixels on two columns / two rows / a row '
        'and a column / the diagonals / one row / a random conic through the peak), the histograms of the '
        'scenes with the mask the estimator passes, '
        'thorough: every 3x3 array with entries in {masked, 0, 1, 2}. A case is non-trivial when at '
        'least one pair falls in the search box (histogram scenes) or at least one unmasked pixel is '
        '>= 1 (peak finder); distinct = distinct canonical input')
ASSUMPTIONS = [
    'theorems are over an arbitrary linearly ordered field with a floor (real arithmetic); rounding of '
    'the divisions by pscale and of the peak arithmetic is outside the model and is covered by running '
    'the same model on doubles in the correspondence check',
    'numpy.linalg.lstsq is modelled by its documented result (the least-squares solution of minimum norm), '
    'computed exactly through the normal equations (Model/Lstsq.lean); the SVD algorithm itself, LinAlgError '
    'and overflow to non-finite values are outside the model (failures are injected by the harness and '
    'compared with the model whose lsq parameter fails); agreement with numpy is tested to the conditioning '
    'bound stated in the module docstring',
    'scipy KDTree.query_ball_point with radius (r+0.5)*sqrt(2) is assumed to return a superset of the '
    'pairs that pass the box test that follows it',
    'numpy.histogram2d is modelled by its documented semantics (unit bins with edges j-R-1/2, '
    'searchsorted(side=right), closed last edge)',
    'data arrays are finite; pscale > 0 and searchrad > 0',
]

VOCAB = ('SUCCESS', 'ERROR:NODATA', 'WARNING:EDGE', 'WARNING:BADFIT', 'WARNING:CENTER-OF-MASS')
PSCALES = [0.01, 0.025, 0.05, 0.063, 0.1, 0.25, 0.4, 0.7, 1.0, 1.3, 2.0, 3.7, 5.0, 10.0]


def _mu():
    from tweakwcs import matchutils
    logging.getLogger(matchutils.__name__).disabled = True
    return matchutils


# ---------------------------------------------------------------------------
# observing the external least-squares call
# ---------------------------------------------------------------------------
class LsqSpy:
    """wraps numpy.linalg.lstsq for the duration of one call of the code under test"""

    def __init__(self, inject=None):
        # inject: None | 'raise' (LinAlgError, as when the SVD does not converge) | 'nan' (non-finite
        # coefficients) | 'nan0' (only the constant term is non-finite - the one coefficient the vertex
        # formula never reads, so that nothing but the finiteness test of the code can notice it): the
        # failure modes of the external call that the code handles by falling back to the centre of mass
        self.inject = inject

    def __enter__(self):
        self.calls = []
        self.info = {}      # index of the call -> (rank reported by numpy, singular values)
        self.orig = np.linalg.lstsq
        spy = self

        def lstsq(a, b, rcond=None):
            if spy.inject == 'raise':
                spy.calls.append((np.array(a), np.array(b), None))
                raise np.linalg.LinAlgError('SVD did not converge (injected)')
            if spy.inject in ('nan', 'nan0'):
                res = spy.orig(a, b, rcond=rcond)
                if spy.inject == 'nan':
                    bad = np.full_like(np.asarray(res[0], dtype=float), np.nan)
                else:
                    bad = np.array(res[0], dtype=float)
                    bad[0] = np.inf
                spy.calls.append((np.array(a), np.array(b), bad))
                return (bad,) + tuple(res[1:])
            try:
                res = spy.orig(a, b, rcond=rcond)
            except np.linalg.LinAlgError:
                spy.calls.append((np.array(a), np.array(b), None))
                raise
            spy.calls.append((np.array(a), np.array(b), np.array(res[0], dtype=float)))
            spy.info[len(spy.calls) - 1] = (int(res[2]), np.array(res[3], dtype=float))
            return res

        np.linalg.lstsq = lstsq
        return self

    def __exit__(self, *exc):
        np.linalg.lstsq = self.orig
        return False

    def spec(self):
        """the `<lsq>` tokens of the driver line for mode F"""
        if not self.calls:
            return 'N'
        c = self.calls[-1][2]
        if c is None or not np.all(np.isfinite(c)):
            return 'X'
        return 'C ' + ' '.join(f2x(v) for v in c)


def exact_lsq(v, d):
    """exact solution of the normal equations over Fractions; None when rank deficient"""
    rows = [[Fraction(int(x)) for x in r] for r in v]
    dd = [to_fraction(x) for x in d]
    n = 6
    a = [[sum(r[i] * r[j] for r in rows) for j in range(n)] + [sum(r[i] * y for r, y in zip(rows, dd))]
         for i in range(n)]
    for c in range(n):
        p = next((r for r in range(c, n) if a[r][c] != 0), None)
        if p is None:
            return None
        a[c], a[p] = a[p], a[c]
        pv = a[c][c]
        a[c] = [x / pv for x in a[c]]
        for r in range(n):
            if r != c and a[r][c] != 0:
                f = a[r][c]
                a[r] = [x - f * y for x, y in zip(a[r], a[c])]
    return [a[i][n] for i in range(n)]


def check_lsq_contract(ctx, case, spy):
    """numpy.linalg.lstsq meets the contract assumed of the model's parameter"""
    spy.exact = {}
    for k, (v, d, c) in enumerate(spy.calls):
        if c is None or not np.all(np.isfinite(c)):
            ctx.branch('lsq:failed')
            continue
        ex = exact_lsq(v, d)
        spy.exact[k] = ex
        if ex is None:
            ctx.branch('lsq:rank-deficient')
            continue
        ctx.branch('lsq:full-rank')
        scale = max(1.0, max(abs(float(x)) for x in ex))
        err = max(abs(float(a) - float(b)) for a, b in zip(c, ex))
        if err > 1e-9 * scale * max(1.0, float(np.max(np.abs(v))) ** 2):
            ctx.disagree(case, {'op': 'lsq-contract', 'numpy': [float(x) for x in c],
                                'exact': [float(x) for x in ex], 'err': err})


# ---------------------------------------------------------------------------
# _find_peak
# ---------------------------------------------------------------------------
def impl_find_peak(data, box, mask, inject=None):
    mu = _mu()
    arr = np.array(data, dtype=float)
    m = None if mask is None else np.array(mask, dtype=bool)
    with LsqSpy(inject) as spy:
        try:
            coord, status, sl = mu._find_peak(arr.copy(), peak_fit_box=box, mask=None if m is None else m.copy())
        except ValueError as e:
            return ('err', 'ValueError', str(e)), spy
        except Exception as e:   # anything else is reported by the oracle
            return ('err', type(e).__name__, str(e)), spy
    bx = (sl[0].start, sl[0].stop, sl[1].start, sl[1].stop)
    return ('ok', (float(coord[0]), float(coord[1])), status, bx), spy


def peak_line(mode, data, box, mask, spec):
    ny, nx = len(data), len(data[0])
    ms = '-' if mask is None else ''.join('1' if b else '0' for r in mask for b in r)
    if mode == 'F':
        ds = ' '.join(f2x(x) for r in data for x in r)
    else:
        ds = ' '.join(q2s(to_fraction(x)) for r in data for x in r)
    return 'findpeak %s %d %d %d %s %s %s' % (mode, ny, nx, box, ms, ds, spec)


def oracle_find_peak(ctx, case, res, data, box, mask, vertex=None):
    ny, nx = len(data), len(data[0])
    if box < 1:
        if not (res[0] == 'err' and res[1] == 'ValueError'):
            ctx.oracle_fail(case, {'what': 'peak_fit_box < 1 did not raise ValueError', 'got': res[:2]})
        return
    if res[0] != 'ok':
        ctx.oracle_fail(case, {'what': '_find_peak raised on valid input', 'got': list(res)})
        return
    (x, y), status, (y1, y2, x1, x2) = res[1], res[2], res[3]
    tol = 1e-9 * max(1, nx, ny)
    if status not in VOCAB:
        ctx.oracle_fail(case, {'what': 'status outside the documented vocabulary', 'status': status})
    if not (math.isfinite(x) and math.isfinite(y)):
        ctx.oracle_fail(case, {'what': 'non-finite peak coordinates', 'coord': [x, y], 'status': status})
        return
    if not (0 <= x1 < x2 <= nx and 0 <= y1 < y2 <= ny):
        ctx.oracle_fail(case, {'what': 'fit box not inside the array', 'box': [y1, y2, x1, x2]})
    if not (-tol <= x <= nx - 1 + tol and -tol <= y <= ny - 1 + tol):
        ctx.oracle_fail(case, {'what': 'peak outside the histogram', 'coord': [x, y], 'status': status,
                               'shape': [ny, nx]})
    if not (x1 - tol <= x <= x2 - 1 + tol and y1 - tol <= y <= y2 - 1 + tol):
        ctx.oracle_fail(case, {'what': 'peak outside its fit box', 'coord': [x, y], 'status': status,
                               'box': [y1, y2, x1, x2]})
    if vertex is not None:
        vx, vy = vertex
        vm = 1e-6 if case.get('kind') == 'paraboloidf' else 0.0     # rounded samples: stay off the box edges
        if case.get('kind') == 'paraboloidf' and not (x1 + vm <= vx <= x2 - 1 - vm and y1 + vm <= vy <= y2 - 1 - vm) \
                and (x1 - vm <= vx <= x2 - 1 + vm and y1 - vm <= vy <= y2 - 1 + vm):
            ctx.near_tie()
        elif x1 <= vx <= x2 - 1 and y1 <= vy <= y2 - 1:
            if status != 'SUCCESS' or abs(x - vx) > 1e-7 or abs(y - vy) > 1e-7:
                ctx.oracle_fail(case, {'what': 'vertex of a sampled concave paraboloid not returned',
                                       'vertex': [vx, vy], 'coord': [x, y], 'status': status})
            else:
                ctx.branch('oracle:paraboloid-vertex-exact')
        else:
            ctx.branch('oracle:paraboloid-vertex-outside-box')


def gen_rankdef_case(rng):
    """good pixels of the fit box on a conic through the peak: the design matrix is rank deficient and
    numpy.linalg.lstsq returns the minimum-norm solution"""
    ny, nx = rng.randint(5, 9), rng.randint(5, 9)
    box = rng.choice([3, 5, 5, 5, 5, 7, 7, 4, 6])
    cy, cx = rng.randint(1, ny - 2), rng.randint(1, nx - 2)
    pat = rng.choice(['two-cols', 'two-rows', 'cross', 'diagonals', 'row-only', 'col-only', 'col+diag',
                      'conic', 'conic', 'three-cols-hole'])
    e = rng.choice([-2, -1, 1, 2])
    q = [rng.randint(-2, 2) for _ in range(5)]

    def on(dj, di):
        if pat == 'two-cols':
            return di in (0, e)
        if pat == 'two-rows':
            return dj in (0, e)
        if pat == 'cross':
            return di == 0 or dj == 0
        if pat == 'diagonals':
            return abs(di) == abs(dj)
        if pat == 'row-only':
            return dj == 0
        if pat == 'col-only':
            return di == 0
        if pat == 'col+diag':
            return di == 0 or di == e * dj
        if pat == 'three-cols-hole':
            # full rank in general: three columns, a few pixels missing
            return di in (-1, 0, 1) and (dj, di) != (e, 1)
        a, b, c, d, f = q
        return a * di * di + b * di * dj + c * dj * dj + d * di + f * dj == 0
    h = rng.randint(3, 9)
    data = [[0.0] * nx for _ in range(ny)]
    mask = [[False] * nx for _ in range(ny)]
    for j in range(ny):
        for i in range(nx):
            if on(j - cy, i - cx):
                mask[j][i] = True
                data[j][i] = float(rng.randint(1, h - 1))
            elif rng.random() < 0.15:
                data[j][i] = float(rng.randint(0, h - 1))      # masked pixels carry values that must not matter
    data[cy][cx] = float(h)
    mask[cy][cx] = True
    return 'rankdef:' + pat, data, box, mask, None


def gen_peak_case(rng):
    kind = rng.choice(['peaked', 'peaked', 'peaked', 'random', 'sparsecounts', 'zeros', 'paraboloid',
                       'paraboloid', 'plateau', 'rankdef', 'rankdef', 'paraboloidf'])
    if kind == 'rankdef':
        return gen_rankdef_case(rng)
    ny, nx = rng.randint(1, 9), rng.randint(1, 9)
    box = rng.choice([1, 2, 3, 3, 4, 5, 5, 5, 6, 7])
    vertex = None
    if kind == 'peaked':
        ny, nx = rng.randint(3, 9), rng.randint(3, 9)
        cy, cx = rng.randint(0, ny - 1), rng.randint(0, nx - 1)
        if rng.random() < 0.7:
            cy, cx = rng.randint(1, ny - 2), rng.randint(1, nx - 2)
        h = rng.randint(2, 9)
        w = rng.choice([0.7, 1.0, 1.5, 2.5])
        data = [[float(max(0, int(round(h * math.exp(-((i - cx) ** 2 + (j - cy) ** 2) / (2 * w * w))
                                         + rng.choice([0, 0, 0, 1]) * rng.random()))))
                 for i in range(nx)] for j in range(ny)]
        data[cy][cx] = float(h + 1)
    elif kind == 'random':
        top = rng.randint(1, 5)
        data = [[float(rng.randint(0, top)) for _ in range(nx)] for _ in range(ny)]
    elif kind == 'sparsecounts':
        data = [[float(rng.choice([0, 0, 0, 0, 1, 1, 2])) for _ in range(nx)] for _ in range(ny)]
    elif kind == 'zeros':
        data = [[0.0] * nx for _ in range(ny)]
    elif kind == 'plateau':
        ny, nx = rng.randint(3, 8), rng.randint(3, 8)
        v = float(rng.randint(1, 3))
        data = [[v if rng.random() < 0.6 else float(rng.randint(0, int(v))) for _ in range(nx)] for _ in range(ny)]
    elif kind == 'paraboloidf':
        # the same with arbitrary double parameters: the samples are rounded, the vertex is recovered to
        # the conditioning of the fit
        ny, nx = rng.randint(5, 9), rng.randint(5, 9)
        box = rng.choice([3, 5, 5, 7])
        x0 = rng.uniform(2.0, nx - 3.0)
        y0 = rng.uniform(2.0, ny - 3.0)
        a = rng.uniform(0.2, 3.0)
        c = rng.uniform(0.2, 3.0)
        b = rng.uniform(-0.9, 0.9) * 2.0 * math.sqrt(a * c)
        raw = [[-a * (i - x0) ** 2 - b * (i - x0) * (j - y0) - c * (j - y0) ** 2 for i in range(nx)]
               for j in range(ny)]
        lo = min(min(r) for r in raw)
        data = [[v - lo + 1.0 for v in r] for r in raw]
        vertex = (x0, y0)
    else:
        # concave paraboloid A - a (i-X0)^2 - b (i-X0)(j-Y0) - c (j-Y0)^2 with 4ac - b^2 > 0, sampled
        # exactly (dyadic parameters), shifted up so that every sample is >= 1
        ny, nx = rng.randint(5, 9), rng.randint(5, 9)
        box = rng.choice([3, 5, 5, 7])
        x0 = rng.randint(2 * 8, (nx - 3) * 8) / 8.0
        y0 = rng.randint(2 * 8, (ny - 3) * 8) / 8.0
        a = rng.choice([0.5, 1.0, 2.0, 0.25])
        c = rng.choice([0.5, 1.0, 2.0, 0.25])
        b = rng.choice([0.0, 0.25, -0.25, 0.5, -0.5]) * min(a, c)
        raw = [[-a * (i - x0) ** 2 - b * (i - x0) * (j - y0) - c * (j - y0) ** 2 for i in range(nx)]
               for j in range(ny)]
        lo = min(min(r) for r in raw)
        data = [[v - lo + 1.0 for v in r] for r in raw]
        vertex = (x0, y0)
    mask = None
    mk = rng.random()
    if kind in ('paraboloid', 'paraboloidf'):
        if mk < 0.4:
            # a few holes away from a 3x3 block around the vertex keep the design matrix of full rank
            mask = [[True] * nx for _ in range(ny)]
            for _ in range(rng.randint(1, 4)):
                j, i = rng.randrange(ny), rng.randrange(nx)
                if abs(i - vertex[0]) > 1.6 or abs(j - vertex[1]) > 1.6:
                    mask[j][i] = False
    elif mk < 0.35:
        pass
    elif mk < 0.6:
        mask = [[v > 0 for v in r] for r in data]      # the mask _estimate_2dhist_shift passes
    else:
        p = rng.choice([0.9, 0.8, 0.5, 0.3])
        mask = [[rng.random() < p for _ in range(nx)] for _ in range(ny)]
    return kind, data, box, mask, vertex


_CROSS = [[0.0, 0.0, 1.0, 0.0, 0.0], [0.0, 0.0, 3.0, 0.0, 0.0], [1.0, 2.0, 6.0, 3.0, 1.0],
          [0.0, 0.0, 2.0, 0.0, 0.0], [0.0, 0.0, 1.0, 0.0, 0.0]]
_TWOROWS = [[0.0] * 5, [0.0] * 5, [1.0, 2.0, 6.0, 3.0, 1.0], [1.0, 1.0, 2.0, 2.0, 1.0], [0.0] * 5]

PEAK_CORPUS = [
    ('corpus', [[0.0, 1.0, 0.0], [1.0, 2.0, 1.0], [0.0, 1.0, 0.0]], 3, None, (1.0, 1.0)),
    ('corpus', [[0.0, 1.0, 0.0], [1.0, 2.0, 1.0], [0.0, 1.0, 0.0]], 5, None, None),
    ('corpus', [[0.0, 1.0, 0.0], [1.0, 2.0, 1.0], [0.0, 1.0, 0.0]], 0, None, None),
    ('corpus', [[0.0, 1.0, 0.0], [1.0, 2.0, 1.0], [0.0, 1.0, 0.0]], -3, None, None),
    ('corpus', [[0.0] * 4] * 3, 5, None, None),
    ('corpus', [[1.0]], 5, None, None),
    ('corpus', [[1.0, 1.0, 1.0]] * 3, 3, None, None),                       # plateau: flat fit, BADFIT
    ('corpus', [[0.0, 0.0, 0.0, 0.0, 0.0], [0.0, 1.0, 2.0, 1.0, 0.0], [0.0, 2.0, 5.0, 2.0, 0.0],
                [0.0, 1.0, 2.0, 1.0, 0.0], [0.0, 0.0, 0.0, 0.0, 0.0]], 5, None, None),
    ('corpus', [[0.0, 0.0, 0.0, 0.0, 0.0], [0.0, 1.0, 2.0, 1.0, 0.0], [0.0, 2.0, 5.0, 2.0, 0.0],
                [0.0, 1.0, 2.0, 1.0, 0.0], [0.0, 0.0, 0.0, 0.0, 0.0]], 5,
     [[False] * 5, [False, True, True, True, False], [False, True, True, True, False],
      [False, True, True, True, False], [False] * 5], None),
    ('corpus', [[5.0, 0.0, 0.0], [0.0, 0.0, 0.0], [0.0, 0.0, 0.0]], 3, None, None),     # corner: EDGE
    ('corpus', [[0.0, 0.0, 0.0, 0.0], [0.0, 3.0, 1.0, 0.0], [0.0, 0.0, 0.0, 0.0]], 5,
     [[False, False, False, False], [False, True, True, False], [False] * 4], None),     # < 6 points: COM
    ('corpus', [[0.5, 0.25], [0.75, 0.5]], 3, None, None),                               # max < 1: NODATA
    ('corpus', [[1.0, 2.0, 1.0], [2.0, 1.0, 2.0], [1.0, 2.0, 1.0]], 3, None, None),
    # rank-deficient fit boxes (numpy returns the minimum-norm solution and _find_peak goes on with it)
    ('corpus', _CROSS, 5, [[v > 0 for v in r] for r in _CROSS], None),            # a row and a column: SUCCESS
    ('corpus', _TWOROWS, 5, [[v > 0 for v in r] for r in _TWOROWS], None),        # two rows: centre of mass
    ('corpus', [list(r) for r in zip(*_TWOROWS)], 5,
     [[v > 0 for v in r] for r in zip(*_TWOROWS)], None),                          # two columns
    ('corpus', [[0.0] * 7, [0.0] * 7, [0.0] * 7, [1.0, 2.0, 3.0, 7.0, 4.0, 2.0, 1.0], [0.0] * 7, [0.0] * 7,
                [0.0] * 7], 7, [[False] * 7] * 3 + [[True] * 7] + [[False] * 7] * 3, None),   # one row, rank 3
    ('corpus', [[2.0, 0.0, 0.0, 0.0, 1.0], [0.0, 3.0, 0.0, 2.0, 0.0], [0.0, 0.0, 6.0, 0.0, 0.0],
                [0.0, 2.0, 0.0, 3.0, 0.0], [1.0, 0.0, 0.0, 0.0, 2.0]], 5,
     [[True, False, False, False, True], [False, True, False, True, False], [False, False, True, False, False],
      [False, True, False, True, False], [True, False, False, False, True]], None),   # the two diagonals
    ('corpus', [[1.0, 2.0, 1.0], [2.0, 5.0, 2.0], [1.0, 2.0, 1.0], [0.0, 1.0, 0.0]], 5, None, None),  # 3 columns: full rank
    ('corpus', [[1.0, 2.0, 1.0, 0.0], [2.0, 5.0, 3.0, 1.0], [1.0, 2.0, 1.0, 0.0]], 7, None, None),   # 3 rows, box clipped
]


def run_peak_case(ctx, kind, data, box, mask, vertex, lines, pending, count=True):
    ny, nx = len(data), len(data[0])
    case = {'op': 'findpeak', 'kind': kind, 'data': data, 'box': box, 'mask': mask}
    if vertex is not None:
        case['vertex'] = list(vertex)
    inject = None
    if kind != 'corpus' and vertex is None and ctx.rng.random() < 0.04:
        # the external least-squares call fails: the code must fall back to the centre of mass
        inject = ctx.rng.choice(['raise', 'nan', 'nan0'])
        case['lstsq'] = inject
    res, spy = impl_find_peak(data, box, mask, inject)
    nontrivial = any(data[j][i] >= 1 and (mask is None or mask[j][i]) for j in range(ny) for i in range(nx))
    if count:
        ctx.case(case, nontrivial=nontrivial,
                 branch='impl:' + (res[2] if res[0] == 'ok' else 'raise:' + res[1]))
    oracle_find_peak(ctx, case, res, data, box, mask, vertex)
    if ctx.search_only:
        return
    check_lsq_contract(ctx, case, spy)
    lines.append(peak_line('F', data, box, mask, spy.spec()))
    pending.append(('peak', case, res))
    # exact run with the driver's own least squares when the data are integers and the fit is
    # uniquely determined
    if spy.calls and spy.calls[-1][2] is not None and vertex is None \
            and all(float(x).is_integer() for r in data for x in r):
        v, d, c = spy.calls[-1]
        if spy.exact.get(len(spy.calls) - 1) is not None:
            lines.append(peak_line('Q', data, box, mask, 'N'))
            pending.append(('peakQ', dict(case, _coef=[float(x) for x in c]), res))
    # the closed model (concrete least squares, no coefficient handed over) on exact rationals and on
    # doubles, and numpy.linalg.lstsq against the model's solver on the design matrix of this call
    if inject is None and (spy.calls or ctx.rng.random() < 0.05):
        shared = {}
        if spy.calls and spy.calls[-1][2] is not None:
            v, d, c = spy.calls[-1]
            shared['v'], shared['d'] = v, d
            info = spy.info.get(len(spy.calls) - 1)
            if (info is not None and info[0] < 6) or ctx.rng.random() < 0.4:
                lines.append(lstsq_line('Q', v, d))
                pending.append(('lstsq', case, (v, d, c, info)))
        lines.append(peakm_line('Q', data, box, mask))
        pending.append(('peakM', case, (res, shared)))
        lines.append(peakm_line('F', data, box, mask))
        pending.append(('peakMF', case, (res, shared)))


# ---------------------------------------------------------------------------
# the concrete least-squares model (lean/Model/Lstsq.lean) against numpy's lstsq
# ---------------------------------------------------------------------------
EPS = 2.0 ** -52


def lstsq_line(mode, v, d):
    m = len(v)
    if mode == 'F':
        vs = ' '.join(f2x(x) for r in v for x in r)
        ds = ' '.join(f2x(x) for x in d)
    else:
        vs = ' '.join(q2s(to_fraction(x)) for r in v for x in r)
        ds = ' '.join(q2s(to_fraction(x)) for x in d)
    return 'lstsq %s %d %s %s' % (mode, m, vs, ds)


def peakm_line(mode, data, box, mask):
    ny, nx = len(data), len(data[0])
    ms = '-' if mask is None else ''.join('1' if b else '0' for r in mask for b in r)
    if mode == 'F':
        ds = ' '.join(f2x(x) for r in data for x in r)
    else:
        ds = ' '.join(q2s(to_fraction(x)) for r in data for x in r)
    return 'findpeakm %s %d %d %d %s %s' % (mode, ny, nx, box, ms, ds)


def conditioning(v, d, cex):
    """Wedin's bound for the coefficients returned by a backward-stable least-squares solver on the design
    matrix `v` and data `d`, `cex` the exact (minimum-norm) solution.
    -> (tolc, tolc_normal_equations_on_doubles, kappa, numerical rank, smax)"""
    a = np.asarray(v, dtype=float)
    sv = np.linalg.svd(a, compute_uv=False)
    smax = float(sv[0]) if sv.size else 0.0
    if smax == 0.0:
        return 0.0, 0.0, 1.0, 0, 0.0
    cut = EPS * max(a.shape) * smax
    nz = sv[sv > cut]
    smin = float(nz[-1])
    kappa = smax / smin
    c = np.array([float(x) for x in cex])
    b = np.asarray(d, dtype=float)
    cn = float(np.linalg.norm(c))
    bn = float(np.linalg.norm(b))
    rn = float(np.linalg.norm(a @ c - b))
    tolc = 16.0 * EPS * (kappa * cn + kappa * bn / smax + kappa * kappa * rn / smax) + 1e-300
    tolf = tolc + 64.0 * EPS * kappa * kappa * (cn + bn / smax)
    return tolc, tolf, kappa, int(nz.size), smax


def fit_decisions(cex, bx, tolc):
    """the decisions of the fit stage of _find_peak for the exact coefficients `cex` and how far each is
    from its threshold: -> (names of the deciding quantities within the margin, tolx, toly, exact outcome)"""
    c10, c01, c11, c20, c02 = [float(x) for x in cex[1:]]
    y1, y2, x1, x2 = bx
    near = []
    det = 4 * c02 * c20 - c11 ** 2
    sc = max(abs(c02), abs(c20), abs(c11))
    if abs(det) <= 10 * sc * tolc + 10 * tolc * tolc:
        near.append('det')
    if abs(c20) <= tolc:
        near.append('c20')
    if abs(c02) <= tolc:
        near.append('c02')
    tolx = toly = float('inf')
    if det != 0:
        xm = (c01 * c11 - 2.0 * c02 * c10) / det
        ym = (c10 * c11 - 2.0 * c01 * c20) / det
        lx = (abs(2 * c02) + abs(c11) + abs(c01 + 2 * c11 * xm) + abs(2 * c10 + 4 * c20 * xm)
              + abs(4 * c02 * xm)) / abs(det)
        ly = (abs(2 * c20) + abs(c11) + abs(c10 + 2 * c11 * ym) + abs(2 * c01 + 4 * c02 * ym)
              + abs(4 * c20 * ym)) / abs(det)
        tolx = 2 * lx * tolc + 1e-12 * max(1.0, abs(xm) + x1)
        toly = 2 * ly * tolc + 1e-12 * max(1.0, abs(ym) + y1)
        xa, ya = xm + x1 - 1, ym + y1 - 1
        if min(abs(xa - x1), abs(xa - (x2 - 1))) <= tolx:
            near.append('x-edge')
        if min(abs(ya - y1), abs(ya - (y2 - 1))) <= toly:
            near.append('y-edge')
    return near, tolx, toly


def parse_peakm(out, mode):
    """-> None | ('err', name) | ('ok', (x, y), status, box, None | (rank, [exact or float coefs]))"""
    toks = out.split()
    if not toks or toks[0] not in ('ok', 'err'):
        return None
    if toks[0] == 'err':
        return ('err', toks[1])
    num = (lambda t: x2f(t)) if mode == 'F' else (lambda t: s2q(t))
    x, y = num(toks[1]), num(toks[2])
    bx = tuple(int(t) for t in toks[4:8])
    fit = None
    if toks[8] != 'nofit':
        fit = (int(toks[8]), [num(t) for t in toks[9:15]])
    return ('ok', (x, y), toks[3], bx, fit)


def compare_peak_concrete(ctx, out, kind, case, res, shared):
    """real _find_peak against the closed model `findPeakConcrete` (no coefficient handed over)"""
    mode = 'Q' if kind == 'peakM' else 'F'
    tag = '' if mode == 'Q' else '(F)'
    m = parse_peakm(out, mode)
    if m is None:
        ctx.disagree(case, {'op': 'findpeakm', 'mode': mode, 'model': out[:120]})
        return
    if m[0] == 'err' or res[0] != 'ok':
        if not (m[0] == 'err' and res[0] == 'err'):
            ctx.disagree(case, {'op': 'findpeakm', 'mode': mode, 'model': out[:120], 'impl': list(res)})
        return
    (mx, my), mstatus, mbox, fit = m[1], m[2], m[3], m[4]
    (x, y), status, bx = res[1], res[2], res[3]
    ny, nx = len(case['data']), len(case['data'][0])
    detail = {'op': 'findpeakm', 'mode': mode, 'model': [float(mx), float(my), mstatus, list(mbox)],
              'impl': [x, y, status, list(bx)]}
    if mbox != tuple(bx):
        ctx.disagree(case, detail)
        return
    if mode == 'Q':
        shared['fit'] = fit
    base = 1e-9 * max(1, nx, ny)
    v, d = shared.get('v'), shared.get('d')
    if fit is None or v is None:
        # no fit stage on either side (or only on one: then the results differ and that is reported)
        ctx.branch('concrete%s:%s:nofit' % (tag, mstatus))
        if mstatus != status or abs(float(mx) - x) > base or abs(float(my) - y) > base:
            ctx.disagree(case, detail)
        return
    rank = fit[0]
    cex = (shared.get('fit') or fit)[1]          # the exact coefficients (Q run) when available
    if 'cond' not in shared:
        shared['cond'] = conditioning(v, d, cex)
    tolc, tolf, kappa, nrank, _ = shared['cond']
    if mode == 'F':
        if shared.get('fit') is not None and shared['fit'][0] == 6 and fit[0] != 6:
            # the model on doubles took a regular but ill-conditioned normal matrix for a singular one
            # (relative pivot below 1e-10, i.e. cond(A) of about 1e5 or more): a threshold decision of the
            # floating-point run, not of the code under test; the exact run is the one that is compared
            ctx.near_tie()
            ctx.branch('concrete(F):near-tie:rank-threshold')
            return
        if (shared.get('fit') or fit)[0] < 6:
            # rank-deficient box on doubles: the minimum-norm step squares the normal matrix; counted only
            ok = (mstatus == status and abs(mx - x) <= 1e-6 and abs(my - y) <= 1e-6)
            ctx.branch('concrete(F):rank-deficient:' + ('agrees' if ok else 'differs(not-a-verdict)'))
            return
        tolc = tolf
    near, tolx, toly = fit_decisions(cex, bx, tolc)
    ctx.branch('concrete%s:%s:rank%d' % (tag, mstatus, rank))
    if mstatus == status:
        if status == 'SUCCESS':
            tx, ty = base + tolx, base + toly
        else:
            tx = ty = base
        if abs(float(mx) - x) <= tx and abs(float(my) - y) <= ty:
            return
        detail['tolerance'] = [tx, ty]
        detail['kappa'] = kappa
    if near:
        ctx.near_tie()
        ctx.branch('concrete%s:near-tie:%s' % (tag, '+'.join(near)))
        return
    detail['coefficients'] = [float(t) for t in cex]
    detail['tolc'] = tolc
    ctx.disagree(case, detail)


def compare_lstsq_direct(ctx, out, case, v, d, c, info):
    """numpy.linalg.lstsq against the model's lstsqMinNorm on the same design matrix and data"""
    toks = out.split()
    if toks[0] != 'ok':
        ctx.disagree(case, {'op': 'lstsq', 'model': out[:120]})
        return
    rank = int(toks[1])
    cex = [s2q(t) for t in toks[2:8]]
    tolc, _, kappa, nrank, smax = conditioning(v, d, cex)
    nprank = info[0] if info else None
    ctx.branch('lstsq-direct:rank%d' % rank)
    err = max(abs(float(a) - float(b)) for a, b in zip(c, cex))
    ratio = err / tolc if tolc > 0 else 0.0
    ctx.extra['lstsq_err_over_bound_max'] = max(ctx.extra.get('lstsq_err_over_bound_max', 0.0), ratio)
    ctx.extra['lstsq_kappa_max'] = max(ctx.extra.get('lstsq_kappa_max', 0.0), kappa)
    if rank < 6:
        rec = ctx.extra.setdefault('numpy_on_rank_deficient', [])
        if len(rec) < 5:
            rec.append({'rank_model': rank, 'rank_numpy': nprank,
                        'singular_values': None if not info else [float(t) for t in info[1]],
                        'numpy': [float(t) for t in c], 'model_min_norm': [float(t) for t in cex],
                        'max_abs_diff': err})
    if nprank is not None and nprank != rank:
        ctx.disagree(case, {'op': 'lstsq', 'what': 'rank', 'model': rank, 'numpy': nprank,
                            'singular_values': [float(t) for t in info[1]]})
        return
    if err > tolc:
        ctx.disagree(case, {'op': 'lstsq', 'what': 'coefficients', 'rank': rank,
                            'numpy': [float(t) for t in c], 'model': [float(t) for t in cex],
                            'err': err, 'tolc': tolc, 'kappa': kappa})



def fit_near_threshold(c, bx):
    """a decision of the fit stage (det <= 0, sign of a curvature, vertex inside the box) is within
    rounding of its threshold for the coefficients numpy returned"""
    if c is None or not np.all(np.isfinite(c)):
        return True
    _, c10, c01, c11, c20, c02 = [float(v) for v in c]
    y1, y2, x1, x2 = bx
    # (numpy's coefficients carry an absolute error of about cond * eps * |c|: a quadratic part below 1e-7 of
    #  the constant term - exactly zero for small-integer data such as a 3x3 box 2 1 2 / 1 3 1 / 2 1 2 - is noise)
    sc = max(max(abs(float(v)) for v in c[1:]), 1e-7 * abs(float(c[0]))) or 1.0
    det = 4 * c02 * c20 - c11 ** 2
    if abs(det) <= 1e-9 * sc * sc or abs(c20) <= 1e-9 * sc or abs(c02) <= 1e-9 * sc:
        return True
    xm = (c01 * c11 - 2.0 * c02 * c10) / det + x1 - 1
    ym = (c10 * c11 - 2.0 * c01 * c20) / det + y1 - 1
    w = 1e-9 * max(1.0, abs(xm), abs(ym))
    return (min(abs(xm - x1), abs(xm - (x2 - 1))) <= w or min(abs(ym - y1), abs(ym - (y2 - 1))) <= w)


def compare_peak(ctx, out, kind, case, res):
    toks = out.split()
    ny, nx = len(case['data']), len(case['data'][0])
    if toks[0] == 'err':
        ctx.branch('model:err-' + toks[1])
        if res[0] != 'err':
            ctx.disagree(case, {'op': 'findpeak', 'model': out, 'impl': list(res)})
        return
    if toks[0] != 'ok':
        ctx.disagree(case, {'op': 'findpeak', 'model': out[:100]})
        return
    if res[0] != 'ok':
        ctx.disagree(case, {'op': 'findpeak', 'model': out, 'impl': list(res)})
        return
    if kind == 'peakQ':
        mx, my = float(s2q(toks[1])), float(s2q(toks[2]))
    else:
        mx, my = x2f(toks[1]), x2f(toks[2])
    mstatus = toks[3]
    mbox = tuple(int(t) for t in toks[4:8])
    ctx.branch('model:' + mstatus + ('(Q)' if kind == 'peakQ' else ''))
    (x, y), status, bx = res[1], res[2], res[3]
    tol = 1e-9 * max(1, nx, ny)
    if mstatus != status or mbox != tuple(bx) or abs(mx - x) > tol or abs(my - y) > tol:
        if kind == 'peakQ' and mbox == tuple(bx) and fit_near_threshold(case.get('_coef'), bx):
            # exact arithmetic and doubles fall on different sides of a threshold of the fit stage
            ctx.near_tie()
            ctx.branch('fit-threshold-near-tie(Q)')
            return
        ctx.disagree(case, {'op': 'findpeak', 'mode': kind, 'model': [mx, my, mstatus, list(mbox)],
                            'impl': [x, y, status, list(bx)]})


def exhaustive_3x3(ctx, lines, pending, sample=None):
    """every 3x3 array with entries in {masked, 0, 1, 2} (masked pixels carry a value that must not
    matter), box 3; `sample`: only that many of them, drawn at random"""
    rng = ctx.rng
    total = 4 ** 9
    idxs = range(total) if sample is None else [rng.randrange(total) for _ in range(sample)]
    for idx in idxs:
        cells = []
        k = idx
        for _ in range(9):
            cells.append(k % 4)
            k //= 4
        data = [[float(c - 1) if c else float((idx + q) % 3) for q, c in enumerate(cells[3 * r:3 * r + 3])]
                for r in range(3)]
        mask = [[c != 0 for c in cells[3 * r:3 * r + 3]] for r in range(3)]
        box = 3 if sample is None else rng.choice([3, 3, 3, 1, 2, 4, 5])
        run_peak_case(ctx, 'exh3x3', data, box, mask, None, lines, pending)
    if sample is None:
        ctx.exhaustive = True
        ctx.extra['exhaustive_domain'] = 'all 4^9 = 262144 3x3 arrays with entries in {masked,0,1,2}, box 3'


# ---------------------------------------------------------------------------
# _xy_2dhist / _estimate_2dhist_shift
# ---------------------------------------------------------------------------
def gen_ratio(rng, tier):
    k = rng.choice(['int', 'nonint', 'nonint', 'half', 'named'])
    if k == 'int':
        r = float(rng.choice([1, 2, 3, 3, 4, 5, 7, 10, 15, 25] + ([60, 100] if rng.random() < 0.3 else [])))
    elif k == 'half':
        r = rng.randint(0, 12) + 0.5
    elif k == 'named':
        r = rng.choice([30.0 / 7.0, 2.5, 4.3, 1.2, 7.9, 0.6, 3.0 / 1.3, 3.0 / 0.4, 3.0 / 0.063])
    else:
        r = rng.uniform(0.6, 12.0) if rng.random() < 0.85 else rng.uniform(12.0, 80.0)
    if tier == 'thorough' and rng.random() < 0.01:
        r = rng.choice([150.0, 299.3, 300.0])
    return k, r


def gen_scene(rng, tier):
    pscale = rng.choice(PSCALES)
    rkind, r = gen_ratio(rng, tier)
    if rng.random() < 0.15:
        searchrad = rng.choice([1.0, 2.5, 3.0, 5.0])
        if searchrad / pscale > 120 or searchrad / pscale < 0.6:
            searchrad = r * pscale
        else:
            rkind = 'direct'
    else:
        searchrad = r * pscale
    r = searchrad / pscale
    field = rng.choice(['sparse', 'sparse', 'sparse', 'crowded', 'crowded', 'sparse-extras', 'jitter'])
    n = rng.randint(1, 60)
    if r > 40:
        n = rng.randint(1, 12)
    # true shift, in bins, with very different x and y
    R = math.ceil(r)
    skind = rng.choice(['centre', 'centre', 'off', 'off', 'edge', 'beyond', 'zero'])
    fr = Fraction(searchrad) / Fraction(pscale)
    if skind == 'centre':
        kmaxb = int(math.floor(fr))
        kx = rng.randint(-kmaxb, kmaxb)
        ky = rng.randint(-kmaxb, kmaxb)
        if kmaxb >= 1 and kx == ky:
            ky = -kx if kx else rng.choice([-1, 1]) * rng.randint(1, kmaxb)
        sx, sy = kx * pscale, ky * pscale
    elif skind == 'off':
        sx = rng.uniform(-1, 1) * searchrad
        sy = -0.37 * sx + rng.uniform(-0.3, 0.3) * searchrad
    elif skind == 'edge':
        kmaxb = int(math.floor(fr - Fraction(1, 2)))
        if kmaxb < 0:
            sx, sy = 0.0, 0.0
            skind = 'zero'
        else:
            kx = rng.randint(-kmaxb - 1, kmaxb)
            ky = rng.randint(-kmaxb - 1, kmaxb)
            sx, sy = (kx + 0.5) * pscale, (ky + 0.5) * pscale
    elif skind == 'beyond':
        sx = rng.choice([-1, 1]) * (searchrad + pscale * rng.uniform(0.7, 3.0))
        sy = rng.uniform(-1, 1) * searchrad
        if rng.random() < 0.5:
            sx, sy = sy, sx
    else:
        sx, sy = 0.0, 0.0
    sep = 2 * searchrad + 3 * pscale + 2 * max(abs(sx), abs(sy))
    if field in ('sparse', 'sparse-extras', 'jitter'):
        g = int(math.ceil(math.sqrt(n)))
        cell = 2 * sep
        cells = rng.sample([(a, b) for a in range(g) for b in range(g)], n)
        ref = [[a * cell + rng.uniform(0, cell - sep), b * cell + rng.uniform(0, cell - sep)] for a, b in cells]
        size = g * cell
    else:
        size = rng.uniform(4.0, 14.0) * (searchrad + pscale)
        ref = [[rng.uniform(0, size), rng.uniform(0, size)] for _ in range(n)]
    o = [rng.choice([0.0, 1000.0 * pscale, -37.5 * pscale]), rng.choice([0.0, -250.0 * pscale])]
    ref = [[p[0] + o[0], p[1] + o[1]] for p in ref]
    img = [[p[0] + sx, p[1] + sy] for p in ref]
    jitter = 0.0
    if field == 'jitter':
        jitter = rng.choice([0.05, 0.15, 0.3]) * pscale
        img = [[p[0] + rng.gauss(0, jitter), p[1] + rng.gauss(0, jitter)] for p in img]
    if field in ('sparse-extras', 'crowded') and rng.random() < 0.7:
        ne = rng.randint(1, max(1, n))
        ext = [[rng.uniform(0, size) + o[0], rng.uniform(0, size) + o[1]] for _ in range(ne)]
        if rng.random() < 0.5:
            img = img + ext
        else:
            ref = ref + ext
    if rng.random() < 0.5:
        rng.shuffle(img)
    if rng.random() < 0.3:
        rng.shuffle(ref)
    return {'op': 'estshift', 'pscale': pscale, 'searchrad': searchrad, 'ratio': rkind, 'field': field,
            'shiftkind': skind, 'shift': [sx, sy], 'jitter': jitter, 'img': img, 'ref': ref}


def H(pscale, searchrad, shift, ref, extra_img=(), extra_ref=(), field='corpus', skind='corpus'):
    img = [[p[0] + shift[0], p[1] + shift[1]] for p in ref] + [list(p) for p in extra_img]
    return {'op': 'estshift', 'pscale': pscale, 'searchrad': searchrad, 'ratio': 'corpus', 'field': field,
            'shiftkind': skind, 'shift': list(shift), 'jitter': 0.0, 'img': img,
            'ref': [list(p) for p in ref] + [list(p) for p in extra_ref]}


GRID = [[100.0 * a + 7.0 * b, 100.0 * b - 3.0 * a] for a in range(4) for b in range(3)]
SCENE_CORPUS = [
    H(0.7, 3.0, (0.0, 0.0), GRID),                       # the witness of finding F3 (r = 30/7)
    H(0.7, 3.0, (1.4, -0.7), GRID),
    H(1.0, 3.0, (1.0, -2.0), GRID),
    H(1.3, 3.0, (1.0, -2.0), GRID),
    H(0.063, 3.0, (1.0, -2.0), GRID),
    H(0.4, 3.0, (-2.8, 0.4), GRID),
    H(2.0, 5.0, (4.0, -2.0), GRID),
    H(10.0, 25.0, (20.0, -10.0), [[1000.0 * a, 1000.0 * b] for a in range(3) for b in range(3)]),
    H(0.01, 0.043, (0.02, -0.03), [[a, b] for a in range(3) for b in range(3)]),
    H(1.0, 3.0, (3.0, -3.0), GRID),                      # on the last bin centre
    H(1.0, 3.0, (3.4, 0.0), GRID),                       # beyond searchrad, still in the last bin
    H(1.0, 3.0, (3.5, 0.0), GRID),                       # on the closed/open outer edge: no pairs
    H(1.0, 3.0, (-3.5, 0.0), GRID),                      # on the inner outer edge: selected
    H(1.0, 3.0, (9.0, 0.0), GRID, skind='beyond'),       # no pairs: (0, 0)
    H(1.0, 3.0, (0.5, 0.5), GRID, skind='edge'),
    H(1.0, 3.0, (1.0, -2.0), [[5.0, 5.0]]),              # single source
    H(1.0, 2.5, (1.0, -2.0), GRID),
    H(1.0, 0.6, (0.0, 0.0), GRID),                       # R = 1
]


def brute_pairs(img, ref, pscale, searchrad):
    """independent enumeration of the pair differences in bin units (exact rationals of the doubles
    the code computes: coordinates are divided by pscale in floating point first)"""
    a = np.array(img, dtype=float).reshape(-1, 2) / pscale
    b = np.array(ref, dtype=float).reshape(-1, 2) / pscale
    dx = a[:, None, 0] - b[None, :, 0]
    dy = a[:, None, 1] - b[None, :, 1]
    return dx, dy


def impl_hist(img, ref, r):
    mu = _mu()
    h = mu._xy_2dhist(np.array(img, dtype=float).reshape(-1, 2), np.array(ref, dtype=float).reshape(-1, 2), r)
    return np.asarray(h)


def impl_estimate(img, ref, searchrad, pscale):
    mu = _mu()
    with LsqSpy() as spy:
        xp, yp = mu._estimate_2dhist_shift(np.array(img, dtype=float).reshape(-1, 2),
                                           np.array(ref, dtype=float).reshape(-1, 2),
                                           searchrad=searchrad, pscale=pscale)
    return (float(xp), float(yp)), spy


def coords(l):
    return ' '.join(f2x(v) for p in l for v in p)


def oracle_estimate(ctx, case, est):
    """ground truth by construction"""
    p, sr = case['pscale'], case['searchrad']
    sx, sy = case['shift']
    img, ref = case['img'], case['ref']
    r = sr / p
    ex, ey = est
    if not (math.isfinite(ex) and math.isfinite(ey)):
        ctx.oracle_fail(case, {'what': 'non-finite offset estimate', 'estimate': [ex, ey]})
        return 'nonfinite'
    dx, dy = brute_pairs(img, ref, p, sr)
    lim = r + 0.5
    margin = 1e-6
    inbox = (np.abs(dx) < lim - margin) & (np.abs(dy) < lim - margin)
    nearbox = (np.abs(dx) < lim + margin) & (np.abs(dy) < lim + margin)
    if not nearbox.any():
        # no pair anywhere near the search box: the estimate must be exactly (0, 0)
        if ex != 0.0 or ey != 0.0:
            ctx.oracle_fail(case, {'what': 'no pair within the search radius but the estimate is not (0, 0)',
                                   'estimate': [ex, ey]})
        return 'no-pairs'
    if (nearbox & ~inbox).any():
        ctx.near_tie()
        return 'pair-on-the-box-boundary'
    # pairs in the box: are they all true pairs (difference = the true shift, up to rounding/jitter)?
    slack = 1e-9 * (1.0 + float(np.max(np.abs(np.array(img)))) / p) + 4.0 * case['jitter'] / p
    true = (np.abs(dx - sx / p) <= slack) & (np.abs(dy - sy / p) <= slack)
    spread = False
    if case['jitter'] > 0 and inbox.any():
        # jittered positions are not exact shifted copies: when the differences of the true pairs occupy several
        # bins the peak finder fits a surface through them (zero bins masked) and only the five-bin clause of the
        # property bounds the estimate (a 6-bin histogram 17/26/1-3 gave 1.77 bins in the widened search)
        spread = len({(int(a), int(b)) for a, b in zip(np.floor(dx[inbox] + 0.5), np.floor(dy[inbox] + 0.5))}) > 1
    if inbox.any() and not (inbox & ~true).any() and not spread:
        # only true pairs in the box: within half a bin in x and in y separately
        tol = p * (0.5 + slack) + 1e-12
        if abs(ex - sx) > tol or abs(ey - sy) > tol:
            ctx.oracle_fail(case, {'what': 'only true pairs in the search box but the estimate is farther than '
                                           'half a bin from the true shift', 'estimate': [ex, ey],
                                   'true_shift': [sx, sy], 'error_in_bins': [(ex - sx) / p, (ey - sy) / p]})
        return 'only-true-pairs'
    # crowded: brute-force histogram (bins centred on integers), the estimate must lie in the five-bin
    # box around the unique highest bin
    kx = np.floor(dx[inbox] + 0.5).astype(int)
    ky = np.floor(dy[inbox] + 0.5).astype(int)
    frac = np.maximum(np.abs(dx[inbox] + 0.5 - np.round(dx[inbox] + 0.5)),
                      np.abs(dy[inbox] + 0.5 - np.round(dy[inbox] + 0.5)))
    if frac.size and frac.min() < 1e-7:
        ctx.near_tie()
        return 'crowded-pair-on-a-bin-edge'
    cnt = {}
    for a, b in zip(kx.tolist(), ky.tolist()):
        cnt[(a, b)] = cnt.get((a, b), 0) + 1
    top = max(cnt.values())
    tops = [k for k, v in cnt.items() if v == top]
    if len(tops) != 1:
        ctx.near_tie()
        return 'crowded-tied-maximum'
    (tx, ty) = tops[0]
    R = math.ceil(r)
    # the fit box has at most five bins and contains the highest bin: 2 bins away at most when the box
    # is not clipped by the histogram border, 4 otherwise
    bx = 2 if abs(tx) <= R - 2 else 4
    by = 2 if abs(ty) <= R - 2 else 4
    if abs(ex / p - tx) > bx + 1e-6 or abs(ey / p - ty) > by + 1e-6:
        ctx.oracle_fail(case, {'what': 'estimate outside the five-bin box around the highest bin',
                               'estimate_in_bins': [ex / p, ey / p], 'highest_bin': [tx, ty]})
    elif true.any() and abs(tx - sx / p) <= 0.5 + slack and abs(ty - sy / p) <= 0.5 + slack:
        if abs(ex - sx) > (bx + 0.5 + slack) * p or abs(ey - sy) > (by + 0.5 + slack) * p:
            ctx.oracle_fail(case, {'what': 'crowded field: estimate outside the five-bin box around the true shift',
                                   'estimate': [ex, ey], 'true_shift': [sx, sy]})
    return 'crowded'


def run_scene(ctx, case, lines, pending):
    p, sr = case['pscale'], case['searchrad']
    img, ref = case['img'], case['ref']
    r = sr / p
    est, spy = impl_estimate(img, ref, sr, p)
    cls = oracle_estimate(ctx, case, est)
    ctx.case(case, nontrivial=cls not in ('no-pairs',), branch='scene:' + cls)
    ctx.branch('field:%s/shift:%s/ratio:%s' % (case['field'], case['shiftkind'], case['ratio']))
    if ctx.search_only:
        return
    check_lsq_contract(ctx, case, spy)
    lines.append('estshift F %s %s %d %d %s %s %s' % (f2x(sr), f2x(p), len(img), len(ref), coords(img),
                                                        coords(ref), spy.spec()))
    pending.append(('est', case, est))
    # the histogram itself
    simg = (np.array(img, dtype=float).reshape(-1, 2) / p).tolist()
    sref = (np.array(ref, dtype=float).reshape(-1, 2) / p).tolist()
    h = impl_hist(simg, sref, r)
    lines.append('hist F %s %d %d %s %s' % (f2x(r), len(simg), len(sref), coords(simg), coords(sref)))
    pending.append(('hist', case, h))
    # the histogram with the mask the estimator passes to the peak finder (masked, often sparse boxes)
    if h.shape[0] <= 41 and int(np.count_nonzero(h)) >= 2 and ctx.rng.random() < 0.5:
        run_peak_case(ctx, 'scenehist', np.asarray(h, dtype=float).tolist(), 5, (np.asarray(h) > 0).tolist(),
                      None, lines, pending)


def compare_scene(ctx, out, kind, case, val):
    toks = out.split()
    if toks[0] != 'ok':
        ctx.disagree(case, {'op': 'estshift' if kind == 'est' else 'hist', 'model': out[:100]})
        return
    if kind == 'est':
        mx, my = x2f(toks[1]), x2f(toks[2])
        ctx.branch('model:' + toks[3])
        p = case['pscale']
        tol = 1e-9 * max(p, abs(val[0]), abs(val[1]), abs(mx), abs(my))
        if not (abs(mx - val[0]) <= tol and abs(my - val[1]) <= tol):
            ctx.disagree(case, {'op': 'estshift', 'model': [mx, my, toks[3]], 'impl': list(val),
                                'diff_in_bins': [(mx - val[0]) / p, (my - val[1]) / p]})
    else:
        n = int(toks[1])
        m = int(toks[2])
        ents = [(int(toks[3 + 3 * k]), int(toks[4 + 3 * k]), int(toks[5 + 3 * k])) for k in range(m)]
        h = val
        nz = [(int(j), int(i), int(h[j, i])) for j, i in zip(*np.nonzero(h))]
        if h.shape != (n, n) or sorted(nz) != sorted(ents):
            ctx.disagree(case, {'op': 'hist', 'model_shape': n, 'impl_shape': list(h.shape),
                                'model_bins': ents[:20], 'impl_bins': nz[:20]})


# ---------------------------------------------------------------------------
def dispatch(ctx, out, kind, case, val):
    if kind in ('peak', 'peakQ'):
        compare_peak(ctx, out, kind, case, val)
    elif kind in ('peakM', 'peakMF'):
        compare_peak_concrete(ctx, out, kind, case, val[0], val[1])
    elif kind == 'lstsq':
        compare_lstsq_direct(ctx, out, case, *val)
    else:
        compare_scene(ctx, out, kind, case, val)


def run(ctx):
    lines, pending = [], []
    rng = ctx.rng
    # hand-built corpus first
    for c in SCENE_CORPUS:
        run_scene(ctx, dict(c), lines, pending)
    for kind, data, box, mask, vertex in PEAK_CORPUS:
        run_peak_case(ctx, kind, [list(r) for r in data], box, mask, vertex, lines, pending)
    for _ in range(ctx.n(700, 5000)):
        run_scene(ctx, gen_scene(rng, ctx.tier), lines, pending)
    for _ in range(ctx.n(6000, 60000)):
        kind, data, box, mask, vertex = gen_peak_case(rng)
        run_peak_case(ctx, kind, data, box, mask, vertex, lines, pending)
    if ctx.tier == 'thorough' and ctx.scale == 1:
        exhaustive_3x3(ctx, lines, pending)
    else:
        exhaustive_3x3(ctx, lines, pending, sample=ctx.n(5000, 5000))
    if ctx.search_only:
        return
    outs = ctx.driver(lines)
    for out, (kind, case, val) in zip(outs, pending):
        dispatch(ctx, out, kind, case, val)


def replay(ctx, payload):
    fi = payload.get('failing_input') or (payload.get('correspondence') or [None])[0]
    if not fi:
        print('nothing to replay: %s' % payload.get('broken'))
        return 1
    case = fi['case']
    lines, pending = [], []
    if case.get('op') == 'findpeak':
        v = case.get('vertex')
        run_peak_case(ctx, case.get('kind', 'replay'), [[float(x) for x in r] for r in case['data']],
                      int(case['box']), case.get('mask'), tuple(v) if v else None, lines, pending)
    else:
        run_scene(ctx, case, lines, pending)
    outs = ctx.driver(lines)
    for out, (kind, c, val) in zip(outs, pending):
        dispatch(ctx, out, kind, c, val)
    bad = ctx.oracle_failures + ctx.disagreements
    for b in bad:
        print('STILL FAILS:', b['detail'])
    return 1 if bad else 0
