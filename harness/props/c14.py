"""
C14 -- images aligned together agree on the sky; the reference catalog grows soundly.

Correspondence: real `tweakwcs.align_wcs` runs on mosaics of 2..6 overlapping synthetic FITS images
over one set of physical sources (`harness/alignsim.py`) against the Lean model `TW.alignWcs`
(op `align F`): statuses, alignment order, and the returned reference catalog row by row -- rows
are mapped back to physical sources by nearest neighbour and compared with the model's list of
(source, id, image of origin), as are the sizes of all `expand_catalog` calls.

Oracle (independent of the model, on the real objects): the original reference rows are returned
bit-identical and in order; without expand_refcat the catalog does not grow; every appended row
lies exactly at the sky position that its image of origin gives it *after* the run, that image is
SUCCESS (or its group FAILED with zero overlap with the reference at that moment); no physical
source appears twice; appended ids are max+1, max+2, ...; and every physical source seen by two
aligned images -- or by an aligned image and the reference image / the caller's reference table --
has the same sky position from both to within AGREE_TOL.  "Aligned" is read as the property allows:
the catalog of a FAILED group without any overlap with the reference may be appended (uncorrected);
an image that was then matched to such rows (or, transitively, to rows of such an image) was fitted
to a mixture of frames and is not compared (see `clean_images`).
"""
import itertools

import numpy as np

from ..common import f2x
from .. import alignsim
from ..alignsim import FITMIN, expected_groups
from . import c13

ID = 'C14'
RULE = ('mosaics of 2..6 overlapping 1024^2 FITS images on a jittered 60-px lattice of sources, WCS errors up '
        'to 1.5 px per exposure, optional two-chip groups, one optional unmatchable (junk) or empty image at '
        'every list position, all input orders of mosaics of <= 4 images (thorough), reference none / table '
        'with or without id column / corrector, expand_refcat x enforce_user_order x fitgeom.  Non-trivial: '
        'expand_refcat with at least two aligned groups, or a failing image; distinct = distinct scenario')
AGREE_TOL_PX = 2e-3     # pixels of 0.036 arcsec (7e-5 arcsec); see ASSUMPTIONS
ASSUMPTIONS = c13.ASSUMPTIONS[:4] + [
    'sky agreement of common sources is required to %.0e pixel (noise-free catalogs, CRVAL errors only; the '
    'residual is the second-order effect of moving a tangent point by <= 1.5 px over a 2500-px mosaic plus '
    'the 1e-6 tolerance of the iterative FITS inverse)' % AGREE_TOL_PX,
    'the property allows appending the catalog of a FAILED group that has no overlap with the reference; '
    'images whose matched reference rows stem (directly or transitively) from such a group are excluded '
    'from the sky-agreement and duplicate-source clauses, and runs with such an expansion from the '
    'model correspondence (the ideal matcher does not describe matching against a mixture of frames)',
]

MOSAIC = [(0, 0), (500, 0), (0, 500), (500, 500), (1000, 0), (1000, 500), (250, 250), (750, 250), (500, 1000),
          (0, 1000), (-500, 0), (-500, 500), (1000, 1000)]

MIXTURE_SCENARIO = {
    'images': [[[0, 0], 'good', None], [[1100, 0], 'good', None], [[550, 0], 'good', None]],
    'errs': [[0.0, 0.0], [1.4, -1.2], [-1.0, 0.8]], 'ref': None, 'expand': True, 'enforce': True,
    'minobj': None, 'fitgeom': 'rscale', 'match': True}
F16_WITNESS = {
    'images': [[[1100, 0], 'empty', 1], [[0, 0], 'good', 1]], 'errs': [[0.5, -0.4], [0.5, -0.4]],
    'ref': {'kind': 'table', 'region': 'centre', 'ids': None}, 'expand': True, 'enforce': True,
    'minobj': None, 'fitgeom': 'shift', 'match': True}


def overlaps(a, b):
    return abs(a[0] - b[0]) < 1024 - 80 and abs(a[1] - b[1]) < 1024 - 80


def gen_mosaic(rng, n=None):
    """connected mosaic: every image overlaps an earlier one"""
    if n is None:
        n = rng.choice([2, 3, 3, 4, 4, 5, 6])
    for _ in range(50):
        origins = [rng.choice(MOSAIC)]
        while len(origins) < n:
            cand = [o for o in MOSAIC if o not in origins and any(overlaps(o, q) for q in origins)]
            if not cand:
                break
            origins.append(rng.choice(cand))
        if len(origins) == n:
            rng.shuffle(origins)
            return origins
    return None


def gen_spec(rng, n=None):
    origins = gen_mosaic(rng, n)
    if origins is None:
        return None
    n = len(origins)
    gids = [None] * n
    # optionally make one two-chip group out of two images that do not overlap each other
    if n >= 3 and rng.random() < 0.35:
        pairs = [(i, j) for i in range(n) for j in range(i + 1, n)
                 if abs(origins[i][0] - origins[j][0]) >= 1024 or abs(origins[i][1] - origins[j][1]) >= 1024]
        if pairs:
            i, j = rng.choice(pairs)
            gids[i] = gids[j] = 1
    kinds = ['good'] * n
    r = rng.random()
    if r < 0.35:
        kinds[rng.randrange(n)] = 'junk'
    elif r < 0.45:
        kinds[rng.randrange(n)] = 'empty'
    errs = c13.group_errs(rng, gids)
    fitgeom = rng.choice(['shift', 'rscale', 'rscale', 'general'])
    rr = rng.random()
    if rr < 0.45:
        ref = None
    else:
        ref = {'kind': 'table' if rr < 0.85 else 'corrector', 'region': rng.choice(['centre', 'centre', 'wide', 'east']),
               'ids': None}
    spec = {'images': list(zip(origins, kinds, gids)), 'errs': errs, 'ref': ref,
            'expand': rng.random() < 0.75, 'enforce': rng.random() < 0.5, 'minobj': None, 'fitgeom': fitgeom,
            'match': True}
    if any(g is not None for g in gids) and rng.random() < 0.7:
        spec['labels'] = alignsim.draw_labels(rng, gids)   # group ids are any hashable, falsy ones included
    return spec


# ---------------------------------------------------------------------------
# members of a group that carry the same name (both chips of one exposure named after the file)
# ---------------------------------------------------------------------------
def shared_name_probes(ctx, count):
    """The catalog rows of a group are tied to their member by position in the group, never by the member's
    name: two chips of one exposure often carry the same name (or none: 'Unknown').  Oracle (geometric only,
    the name-based bookkeeping of the harness is not used): every image SUCCESS, every appended row at the true
    sky position of a physical source (noise-free scene), no physical source listed twice."""
    rng = ctx.rng
    for it in range(count):
        seed = rng.getrandbits(32)
        scene = alignsim.Scene(np.random.default_rng(seed))
        spec = None
        for _ in range(60):
            sp = gen_spec(rng, rng.choice([3, 4, 5]))
            if sp is None:
                continue
            gids = [g for _, _, g in sp['images']]
            if sum(1 for g in gids if g is not None) >= 2:
                spec = sp
                break
        if spec is None:
            continue
        n = len(spec['images'])
        spec['images'] = [(o, 'good', g) for o, _, g in spec['images']]
        spec['expand'] = True
        spec['ref'] = {'kind': 'table', 'region': rng.choice(['centre', 'east']), 'ids': None}
        same = rng.choice(['exp01_flt.fits', 'Unknown', 'a'])
        spec['names'] = [same if g is not None else 'single%d' % k for k, (_, _, g) in enumerate(spec['images'])]
        spec = c13.decanon(c13.canon(spec))
        case = {'op': 'align', 'scene_seed': seed, 'family': 'shared-member-name', 'spec': c13.canon(spec)}
        ctx.case(case, nontrivial=True, branch='align:shared-member-name')
        rec = alignsim.run_scenario(scene, spec, None)
        if rec['exc'] is not None or rec['out'] is None:
            ctx.oracle_fail(case, {'what': 'align_wcs raised', 'exception': rec['exc']})
            continue
        if alignsim.polluted(rec) or any(s != 'SUCCESS' for s in rec['status']):
            ctx.branch('shared-member-name:not-all-success-skipped')
            continue
        rows = rec['rows']
        ninit = len(rec['ref_ids'])
        bad = [(j, r[3]) for j, r in enumerate(rows) if j >= ninit and r[3] > 0.05]
        if bad:
            ctx.oracle_fail(case, {'what': 'a row appended from a successfully aligned group is not at the sky position '
                                   'of a physical source (members of the group share a name)', 'row': bad[0][0],
                                   'distance_px': bad[0][1], 'n_bad': len(bad)})
            continue
        seen = {}
        for j, r in enumerate(rows):
            seen.setdefault(r[0], []).append(j)
        dup = {s_: js for s_, js in seen.items() if len(js) > 1}
        if dup:
            s0, js = sorted(dup.items())[0]
            ctx.oracle_fail(case, {'what': 'a physical source is listed more than once in the returned catalog (members '
                                   'of the group share a name)', 'source': s0, 'rows': js})
        # every unmatched source of every image must have been appended exactly once
        want = set()
        for k in range(n):
            want.update(rec['srcs'][k])
        want -= set(rec['ref_ids'])
        got = {r[0] for r in rows[ninit:]}
        if want != got:
            ctx.oracle_fail(case, {'what': 'the appended rows are not exactly the sources that were not in the reference '
                                   'catalog', 'missing': sorted(want - got)[:5], 'extra': sorted(got - want)[:5]})


# ---------------------------------------------------------------------------
# a reference IMAGE used twice, re-aligned in between
# ---------------------------------------------------------------------------
def reused_reference_image_probes(ctx, count):
    """The reference may be a WCSCorrector with an x,y catalog: its sky positions are those its WCS gives NOW.
    Sequence: B is aligned to the reference image A; A itself is then aligned to the true sky; C is aligned to A.
    C must land on the true sky (A's current frame), not on the positions A's WCS gave before its own alignment."""
    from astropy.table import Table
    from tweakwcs import align_wcs, XYXYMatch
    rng = ctx.rng
    for it in range(count):
        seed = rng.getrandbits(32)
        scene = alignsim.Scene(np.random.default_rng(seed))
        errs = [(rng.uniform(-3, 3), rng.uniform(-3, 3)) for _ in range(3)]
        a, ida = scene.make_image(0, (0, 0), 'good', None, err=errs[0], name='A')
        b, idb = scene.make_image(1, (300, 100), 'good', None, err=errs[1], name='B')
        c, idc = scene.make_image(2, (100, 350), 'good', None, err=errs[2], name='C')
        case = {'op': 'reused-reference-image', 'scene_seed': seed, 'errs': [list(e) for e in errs]}
        ctx.case(case, nontrivial=True, branch='align:reused-reference-image')
        m = lambda: XYXYMatch(searchrad=6, separation=0.5, tolerance=2.0)   # noqa
        try:
            align_wcs([b], refcat=a, match=m(), fitgeom='shift')
            sky = scene.sky_of(scene.inside((0, 0), margin=-300))
            align_wcs([a], refcat=Table([sky[:, 0], sky[:, 1]], names=('RA', 'DEC')), match=m(), fitgeom='shift')
            out = align_wcs([c], refcat=a, match=m(), fitgeom='shift')
        except Exception as e:   # noqa
            ctx.oracle_fail(case, {'what': 'align_wcs raised', 'exception': '%s: %s' % (type(e).__name__, str(e)[:100])})
            continue
        st = [x.meta.get('fit_info', {}).get('status') for x in (a, b, c)]
        if st != ['SUCCESS'] * 3:
            ctx.branch('reused-reference-image:not-all-success-skipped')
            continue
        truth = scene.sky_of(idc)
        got = alignsim.catalog_sky(c)
        d = float(np.max(sky_sep_px(got, truth))) if len(idc) else 0.0
        if d > AGREE_TOL_PX * 5:
            ctx.oracle_fail(case, {'what': 'an image aligned to a reference IMAGE that had been re-aligned in between '
                                           'does not agree with the current sky positions of that reference image',
                                   'disagreement_px': d})
        # the returned catalog lists the reference image's sources at its CURRENT sky positions
        ra = np.asarray(out['RA'], dtype=float)
        dec = np.asarray(out['DEC'], dtype=float)
        ta = scene.sky_of(ida)
        if len(ra) >= len(ida) and len(ida):
            d2 = float(np.max(sky_sep_px(np.array([ra[:len(ida)], dec[:len(ida)]]).T, ta)))
            if d2 > AGREE_TOL_PX * 5:
                ctx.oracle_fail(case, {'what': 'the returned reference catalog does not list the sources of the reference '
                                               'image at the positions its current WCS gives', 'disagreement_px': d2})


# ---------------------------------------------------------------------------
# oracle
# ---------------------------------------------------------------------------
def sky_sep_px(a, b):
    """separation of two sky positions (deg) in units of the 1e-5 deg pixel"""
    dra = ((a[..., 0] - b[..., 0] + 180.0) % 360.0 - 180.0) * np.cos(np.deg2rad(0.5 * (a[..., 1] + b[..., 1])))
    ddec = a[..., 1] - b[..., 1]
    return np.hypot(dra, ddec) / alignsim.SCALE


polluted = alignsim.polluted
initial_length = alignsim.initial_length


def oracle(ctx, case, rec, scene):
    spec = rec['spec']
    if rec['exc'] is not None or rec['out'] is None:
        return
    out = rec['out']
    st = rec['status']
    n = len(st)
    rows = rec['rows']

    def fail(what, **kw):
        d = {'what': what}
        d.update(kw)
        ctx.oracle_fail(case, d)
    ninit = initial_length(rec)
    if len(out) < ninit:
        fail('returned catalog is shorter than the initial reference catalog', returned=len(out), initial=ninit)
        return
    ra = np.asarray(out['RA'], dtype=float)
    dec = np.asarray(out['DEC'], dtype=float)
    ids = [int(i) for i in out['id']]
    # (a) original rows unchanged and in order
    if spec.get('ref') is not None:
        rcin = rec['refcat_in']
        if spec['ref']['kind'] == 'table':
            ra0, dec0 = np.asarray(rcin['RA'], dtype=float), np.asarray(rcin['DEC'], dtype=float)
        else:
            cat = rcin.meta['catalog']
            ra0, dec0 = [np.asarray(v, dtype=float) for v in rcin.det_to_world(np.asarray(cat['x']), np.asarray(cat['y']))]
        ids0 = rec['ref_idcol'] if rec['ref_idcol'] is not None else list(range(1, ninit + 1))
    else:
        refimgs = [k for k in range(n) if st[k] == 'REFERENCE']
        sk = np.concatenate([rec['sky_before'][k] for k in refimgs] or [np.zeros((0, 2))])
        ra0, dec0 = sk[:, 0], sk[:, 1]
        ids0 = [j + 1 for k in refimgs for j in range(len(rec['srcs'][k]))]
    if not (np.array_equal(ra[:ninit], ra0) and np.array_equal(dec[:ninit], dec0)):
        fail('positions of the original reference rows changed (or their order)',
             max_change_deg=float(np.max(np.abs(ra[:ninit] - ra0)) if len(ra0) == ninit else -1))
    if ids[:ninit] != [int(i) for i in ids0]:
        fail('ids of the original reference rows changed', returned=ids[:5], original=list(ids0)[:5])
    # (a') the footprint of the growing reference catalog follows its rows (it decides every later overlap)
    for b in alignsim.stale_footprints(rec['obs']):
        fail('after expand_catalog the footprint of the reference catalog is not the footprint of its rows', **b)
        break
    for b in alignsim.misplaced_footprints(rec['obs']):
        fail('the footprint of the reference catalog (it decides overlap and expansion) does not contain the '
             'centroid of its own sources', **b)
        break
    # (b) growth only with expand_refcat
    if not spec['expand']:
        if len(out) != ninit or rec['obs'].expansions:
            fail('reference catalog extended although expand_refcat is off', returned=len(out), initial=ninit)
        appended = []
    else:
        appended = rows[ninit:]
    # (c) appended rows
    if appended:
        want_ids = list(range(max(ids[:ninit]) + 1, max(ids[:ninit]) + 1 + len(appended)))
        if ids[ninit:] != want_ids:
            fail('appended ids are not max+1, max+2, ...', got=ids[ninit:ninit + 5], expected=want_ids[:5])
        seen = {}
        for j, r in enumerate(rows):
            if r[3] <= 4.0:
                seen.setdefault(r[0], []).append(j)
        clean = clean_images(rec)
        dup = {s: js for s, js in seen.items()
               if len(js) > 1 and all(rows[j][2] is None or rows[j][2] in clean for j in js)}
        if dup:
            s0, js = sorted(dup.items())[0]
            fail('a physical source is listed more than once in the returned catalog', source=s0, rows=js)
        zero_ok = zero_overlap_groups(rec)
        for j, r in enumerate(appended):
            src, rid, origin, dist, xy = r
            if not isinstance(origin, int):
                fail('an appended row does not name an input image as its origin', row=ninit + j, origin=origin)
                break
            if src not in rec['srcs'][origin]:
                fail('an appended row is not at the position of a source of its image of origin',
                     row=ninit + j, origin=origin, nearest_source=src, distance_px=dist)
                break
            i = rec['srcs'][origin].index(src)
            p_after = rec['sky_after'][origin][i]
            if st[origin] == 'SUCCESS':
                if abs(ra[ninit + j] - p_after[0]) > 1e-12 or abs(dec[ninit + j] - p_after[1]) > 1e-12:
                    fail('a row appended from a SUCCESS image is not at its corrected sky position',
                         row=ninit + j, origin=origin,
                         offset_px=float(sky_sep_px(np.array([ra[ninit + j], dec[ninit + j]]), p_after)))
                    break
            else:
                g = next(gg for gg in expected_groups([x for _, _, x in spec['images']]) if origin in gg)
                if tuple(g) not in zero_ok:
                    fail('sources of an image that is not SUCCESS and overlaps the reference were appended',
                         row=ninit + j, origin=origin, status=st[origin])
                    break
    # (d) common sources agree on the sky (images fitted to a mixture of frames are not compared)
    clean = clean_images(rec)
    worst = (0.0, None)
    worst_mixed = 0.0
    pos = {}
    for k in range(n):
        if st[k] in ('SUCCESS', 'REFERENCE'):
            for s, p in zip(rec['srcs'][k], rec['sky_after'][k]):
                pos.setdefault(s, []).append((k, p))
    for s, lst in pos.items():
        for (k1, p1), (k2, p2) in itertools.combinations(lst, 2):
            d = float(sky_sep_px(p1, p2))
            if k1 in clean and k2 in clean:
                if d > worst[0]:
                    worst = (d, ('images', k1, k2, s))
            else:
                worst_mixed = max(worst_mixed, d)
    if spec.get('ref') is not None:
        refpos = {s: np.array([ra0[j], dec0[j]]) for j, s in enumerate(rec['ref_ids'])}
        for k in range(n):
            if st[k] != 'SUCCESS':
                continue
            for s, p in zip(rec['srcs'][k], rec['sky_after'][k]):
                if s in refpos:
                    d = float(sky_sep_px(p, refpos[s]))
                    if k in clean:
                        if d > worst[0]:
                            worst = (d, ('image-reference', k, s))
                    else:
                        worst_mixed = max(worst_mixed, d)
    ctx.extra['max_sky_disagreement_px'] = max(ctx.extra.get('max_sky_disagreement_px', 0.0), worst[0])
    ctx.extra['max_sky_disagreement_px_of_images_fitted_to_a_mixture'] = max(
        ctx.extra.get('max_sky_disagreement_px_of_images_fitted_to_a_mixture', 0.0), worst_mixed)
    if worst[0] > AGREE_TOL_PX:
        fail('a physical source has different sky positions from two aligned images (or from an aligned image '
             'and the reference)', disagreement_px=worst[0], where=worst[1], status=st)


def clean_images(rec):
    """REFERENCE images, and SUCCESS images all of whose matched reference rows are rows of the
    caller's catalog or rows taken from clean images (closure along the order of alignment)"""
    st = rec['status']
    rows = rec['rows'] or []
    clean = set(k for k, s in enumerate(st) if s == 'REFERENCE')
    for g in rec['aligned']:
        if not g or not all(st[k] == 'SUCCESS' for k in g):
            continue
        fi = rec['ims'][g[0]].meta.get('fit_info', {})
        idx = fi.get('matched_ref_idx')
        if idx is None:
            ok = not polluted(rec)       # match=None: no record of the matched rows
        else:
            ok = all(int(i) < len(rows) and (rows[int(i)][2] is None or rows[int(i)][2] in clean) for i in idx)
        if ok:
            clean.update(g)
    return clean


def zero_overlap_groups(rec):
    """groups whose overlap with the reference was exactly zero when they were selected.  The overlap
    is taken from the guarded intersection areas observed while the ordering function evaluated them
    (`calls`), NOT from the area the ordering function returned: whether the returned area is the true
    one is part of what is being checked"""
    out = set()
    kept = rec['kept'] or []
    for oc in rec['obs'].order_calls:
        if oc['fn'] == 'next' and oc['ret'][0] is not None:
            true = [a for (p, a, _nf) in oc['calls'] if p == oc['ret'][0]]
            area = true[0] if true else oc['ret'][1]
            if area == 0.0:
                g = oc['work'][oc['ret'][0]]
                if g is not None and g < len(kept):
                    out.add(tuple(kept[g]))
        if oc['fn'] == 'pair' and oc['ret'][1] is not None:
            r, j = oc['ret'][0], oc['ret'][1]
            true = [a for (p, q, a, _nf) in oc['calls'] if p is not None and q is not None and {p, q} == {r, j}]
            if not true and oc['calls'] and (oc['enforce'] or oc['n'] == 2):
                true = [oc['calls'][0][2]]
            area = true[0] if true else oc['ret'][2]
            if area == 0.0:
                if j < len(kept):
                    out.add(tuple(kept[j]))
    return out


# ---------------------------------------------------------------------------
def do_scenario(ctx, scene, scene_seed, spec, lines, pending, family):
    spec = c13.decanon(c13.canon(spec))
    case = {'op': 'align', 'scene_seed': scene_seed, 'family': family, 'spec': c13.canon(spec)}
    rec = alignsim.run_scenario(scene, spec, None)
    st = rec['status']
    nontrivial = (spec['expand'] and len(rec['aligned']) >= 2) or any(s not in ('SUCCESS', 'REFERENCE') for s in st)
    ctx.case(case, nontrivial=nontrivial,
             branch='mosaic:%s:%s' % (family, 'exc:' + rec['exc'][0] if rec['exc'] else 'returned'))
    ctx.branch('opt:expand=%d,enforce=%d' % (spec['expand'], spec['enforce']))
    ctx.branch('opt:ref=%s' % (None if spec.get('ref') is None else spec['ref']['kind']
                               + (':ids' if spec['ref'].get('ids') else '')))
    ctx.branch('expansions:%d' % len(rec['obs'].expansions))
    if polluted(rec):
        ctx.branch('catalog of a FAILED zero-overlap group appended')
    if rec['exc'] is not None:
        if not (rec['exc'][0] == 'NotEnoughCatalogs'):
            ctx.oracle_fail(case, {'what': 'align_wcs raised on a valid mosaic', 'exception': rec['exc']})
        return rec
    oracle(ctx, case, rec, scene)
    if polluted(rec):
        # the later images are matched against a mixture of two frames: not the ideal matcher
        ctx.branch('excluded-from-correspondence:mixture-after-zero-overlap-expansion')
        return rec
    if alignsim.near_tie_areas(rec):
        ctx.near_tie()
        return rec
    lines.append(alignsim.model_line(rec, FITMIN[spec['fitgeom']] if spec['minobj'] is None else spec['minobj'], f2x))
    pending.append((case, rec))
    return rec


def regression_probes(ctx, lines, pending):
    """witness of the repaired finding F16 (324ab0c) and the zero-overlap mixture scenario: both must
    pass the oracle; the first must also agree with the model"""
    scene = alignsim.Scene(np.random.default_rng(7))
    do_scenario(ctx, scene, 7, c13.decanon(F16_WITNESS), lines, pending, 'regression:F16')
    scene = alignsim.Scene(np.random.default_rng(1))
    rec = do_scenario(ctx, scene, 1, c13.decanon(MIXTURE_SCENARIO), lines, pending, 'observation:mixture')
    if rec['exc'] is None and polluted(rec):
        ctx.note('observation: user order [A, C (no overlap with A), B]: C FAILED and its uncorrected catalog was '
                 'appended (allowed); B then ended %s with nmatches %s' % (rec['status'][2], rec['obs'].nmatches))


def run(ctx):
    rng = ctx.rng
    scene_seed = rng.getrandbits(32)
    scene = alignsim.Scene(np.random.default_rng(scene_seed))
    lines, pending = [], []
    if not ctx.search_only:
        regression_probes(ctx, lines, pending)
    shared_name_probes(ctx, ctx.n(4, 40))
    reused_reference_image_probes(ctx, ctx.n(3, 30))
    # the five-image scenario family of the design-phase experiment e5 (failing image in the middle)
    for enforce in (True, False):
        for junkpos in (0, 1, 2):
            for ref in (None, {'kind': 'table', 'region': 'centre', 'ids': None}):
                origins = [(0, 0), (500, 0), (250, 250)]
                kinds = ['good', 'good', 'good']
                kinds[junkpos] = 'junk'
                spec = {'images': [(o, k, None) for o, k in zip(origins, kinds)],
                        'errs': [(0.9, -0.7), (-1.2, 0.5), (0.4, 1.3)], 'ref': ref, 'expand': True,
                        'enforce': enforce, 'minobj': None, 'fitgeom': 'rscale', 'match': True}
                do_scenario(ctx, scene, scene_seed, spec, lines, pending, 'corpus')
    # overlap-ordered runs in which the reference PRECEDES its partner in the input list and the partner
    # fails to align although it overlaps the reference (the area returned with the pair decides
    # whether its unmatched sources are appended): partner adjacent to the reference, and one image apart
    for origins, kinds in (([(0, 0), (200, 0), (0, 400)], ['good', 'junk', 'good']),
                           ([(0, 0), (0, 400), (200, 0)], ['good', 'good', 'junk']),
                           ([(0, 0), (200, 0), (0, 400), (900, 900)], ['good', 'junk', 'good', 'good'])):
        spec = {'images': [(o, k, None) for o, k in zip(origins, kinds)],
                'errs': [(0.6, -0.4), (-0.9, 0.7), (0.3, 1.1), (-0.5, -0.8)][:len(origins)], 'ref': None,
                'expand': True, 'enforce': False, 'minobj': None, 'fitgeom': 'rscale', 'match': True}
        do_scenario(ctx, scene, scene_seed, spec, lines, pending, 'corpus:pair-area')
    # a mosaic that straddles RA = 0 / 360 in every run (a third of the random scenarios, and a fixed one
    # with a failing image that overlaps the reference)
    wrap_seed, wrap_scene = alignsim.scene_with(rng, alignsim.WRAP_POINTS)
    spec = {'images': [((0, 0), 'good', None), ((300, 100), 'junk', None), ((600, 0), 'good', None)],
            'errs': [(0.6, -0.4), (-0.9, 0.7), (0.3, 1.1)], 'ref': {'kind': 'table', 'region': 'centre', 'ids': None},
            'expand': True, 'enforce': True, 'minobj': None, 'fitgeom': 'rscale', 'match': True}
    do_scenario(ctx, wrap_scene, wrap_seed, spec, lines, pending, 'corpus:ra-wrap')
    for k in range(ctx.n(70, 350)):
        spec = gen_spec(rng)
        if spec is None:
            continue
        sc, sd = (wrap_scene, wrap_seed) if k % 3 == 2 else (scene, scene_seed)
        c13.add_ref_ids(rng, sc, spec)
        do_scenario(ctx, sc, sd, spec, lines, pending, 'random' if sc is scene else 'random:ra-wrap')
    if ctx.tier == 'thorough' and not ctx.search_only:
        # all input orders of mosaics of up to 4 images, a failing image at every position
        for n in (2, 3, 4):
            for rep in range(2):
                base = gen_spec(rng, n)
                if base is None:
                    continue
                c13.add_ref_ids(rng, scene, base)
                for perm in itertools.permutations(range(n)):
                    for bad in [None] + list(range(n)):
                        spec = dict(base)
                        imgs = [base['images'][i] for i in perm]
                        if bad is not None:
                            imgs = [(o, 'junk' if j == bad else ('good' if k == 'junk' else k), g)
                                    for j, (o, k, g) in enumerate(imgs)]
                        spec['images'] = imgs
                        spec['errs'] = [base['errs'][i] for i in perm]
                        do_scenario(ctx, scene, scene_seed, spec, lines, pending, 'all-orders')
    outs = ctx.driver(lines)
    for out, (case, rec) in zip(outs, pending):
        alignsim.compare_with_model(ctx, case, rec, out)


def replay(ctx, payload):
    fi = payload.get('failing_input') or (payload.get('correspondence') or [None])[0]
    if not fi:
        print('nothing to replay: %s' % payload.get('broken'))
        return 1
    case = fi['case']
    scene = alignsim.Scene(np.random.default_rng(case['scene_seed']))
    lines, pending = [], []
    do_scenario(ctx, scene, case['scene_seed'], c13.decanon(case['spec']), lines, pending, 'replay')
    for out, (c, rec) in zip(ctx.driver(lines), pending):
        alignsim.compare_with_model(ctx, c, rec, out)
    bad = ctx.oracle_failures + ctx.disagreements
    for b in bad:
        print('STILL FAILS:', b['detail'])
    return 1 if bad else 0
