"""
C11 -- source matching returns exactly the true correspondences.

Anchor: tweakwcs.matchutils.XYXYMatch (constructor and __call__), called on astropy Tables with
'TPx', 'TPy' columns exactly as WCSGroupCatalog.match2ref calls it (tp_pscale keyword).

Correspondence (model = lean/Model/Match.lean on IEEE doubles): the model computes the initial
offset like the code (2-D histogram estimate of Model/Hist.lean, or xoffset/yoffset) and then applies
the *specification* of the matcher, {(i, j) : |im_j - origin - ref_i| <= tolerance}.  The C matcher
stsci.stimage.xyxymatch is an external of the model; the comparison "set of pairs returned by
XYXYMatch = set of pairs of the specification" is the test of its tolerance contract and is made
whenever the specification is unambiguous (no index occurs twice).

Oracle (independent of the model): ground truth by construction.  Fields are built so that the
hypotheses of theorem spec_matcher_exact hold (true pairs agree within eps, distinct sources of a
catalog farther apart than 2 tol + separation, extras equally far from every counterpart, offset
error at most tol - eps: for use2dhist the brute-force enumeration of C12 shows that only true pairs
are in the search box, so the estimate is within half a bin); then XYXYMatch must return exactly the
true pairs: two integer arrays of equal length, reference indices first, in range, without repeats,
no false and no missing pair; the set of matched *sources* must not change when rows are permuted.
"""
import math

import numpy as np

from ..common import f2x
from .c12 import LsqSpy, PSCALES, check_lsq_contract

ID = 'C11'
RULE = ('constructed fields: 1..50 common sources + 0..60 % unmatched extras in either list, rows '
        'permuted, pixel scales 0.01..10 with searchrad / tolerance / separation scaled accordingly '
        '(searchrad/pscale integer and non-integer), true offsets up to 0.8 searchrad, jitter up to '
        '0.1 pixel, both use2dhist values (xoffset/yoffset with an error up to 0.9 (tol - eps) when the '
        'histogram is off), wide fields (only true pairs in the histogram box) and tight fields '
        '(separation just above 2 tol + separation); a case is non-trivial when there are at least 2 '
        'common sources and at least one extra or a row permutation; distinct = distinct canonical input')
ASSUMPTIONS = [
    'the C matcher stsci.stimage.xyxymatch (algorithm "tolerance") is an external: the theorems are '
    'about the specification {(i,j) : |im_j - origin - ref_i| <= tol}; that XYXYMatch returns this set '
    'on unambiguous catalogs is what the correspondence check tests',
    'distances are compared through their squares (ordered field, no square roots)',
    'the 2-D histogram estimate is the model of C12 (its assumptions apply)',
    'only the TPx/TPy path of __call__ is modelled (the deprecated tp_wcs keyword is not)',
]


def _xyxy():
    import logging
    from tweakwcs import matchutils
    logging.getLogger(matchutils.__name__).disabled = True
    return matchutils


def make_base(rng, n, dmin, wide):
    """n points, pairwise farther apart than dmin in the Euclidean (tight) or Chebyshev (wide) sense;
    jittered grid, no rejection loop"""
    g = int(math.ceil(math.sqrt(n)))
    cell = dmin * rng.choice([2.0, 2.5, 4.0]) if wide else dmin * rng.choice([1.3, 1.6, 2.5])
    free = cell - dmin * 1.001
    cells = rng.sample([(a, b) for a in range(g) for b in range(g)], n)
    return [[a * cell + rng.uniform(0, free), b * cell + rng.uniform(0, free)] for a, b in cells]


def gen_field(rng, tier):
    p = rng.choice(PSCALES)
    tol = p * rng.choice([0.6, 1.0, 1.0, 1.0, 1.5, 2.0])
    sep = p * rng.choice([0.1, 0.5, 0.5, 1.0])
    r = rng.choice([3.0, 3.0, 30.0 / 7.0, 5.5, 2.5, 4.0, 7.3, 10.0, 12.5])
    sr = r * p
    use2d = rng.random() < 0.5
    eps = p * rng.choice([0.0, 0.02, 0.05, 0.1])
    wide = rng.random() < 0.75
    nc = rng.randint(1, 50) if rng.random() < 0.9 else rng.randint(1, 3)
    fr = rng.choice([0.0, 0.0, 0.2, 0.4, 0.6])
    fi = rng.choice([0.0, 0.0, 0.2, 0.4, 0.6])
    ner = int(round(fr / (1 - fr) * nc))
    nei = int(round(fi / (1 - fi) * nc))
    # true offset image - reference, x and y very different
    sx = rng.uniform(-0.8, 0.8) * sr
    sy = -0.41 * sx + rng.uniform(-0.3, 0.3) * sr
    if rng.random() < 0.15:
        sx, sy = round(sx / p) * p, round(sy / p) * p
    dmin_tight = 2 * tol + sep + 2 * eps + 0.05 * p
    dmin_wide = max(dmin_tight, 2 * sr + 3 * p + 2 * eps)
    base = make_base(rng, nc + ner + nei, dmin_wide if wide else dmin_tight, wide)
    o = [rng.choice([0.0, 1000.0 * p, -37.5 * p]), rng.choice([0.0, -250.0 * p])]
    base = [[q[0] + o[0], q[1] + o[1]] for q in base]
    common, rex, iex = base[:nc], base[nc:nc + ner], base[nc + ner:]

    def jit():
        a = rng.uniform(0, 2 * math.pi)
        d = eps * math.sqrt(rng.random()) * 0.999
        return d * math.cos(a), d * math.sin(a)
    ref = [list(q) for q in common + rex]
    img = []
    for q in common + iex:
        jx, jy = jit()
        img.append([q[0] + sx + jx, q[1] + sy + jy])
    # row permutations; truth as (ref index, image index)
    pr = list(range(len(ref)))
    pi = list(range(len(img)))
    if rng.random() < 0.85:
        rng.shuffle(pr)
        rng.shuffle(pi)
    ref = [ref[k] for k in pr]
    img = [img[k] for k in pi]
    truth = sorted((pr.index(k), pi.index(k)) for k in range(nc))
    if use2d:
        xo, yo = rng.choice([(0.0, 0.0), (123.0 * p, -7.0 * p)])     # ignored by the code
    else:
        a = rng.uniform(0, 2 * math.pi)
        d = 0.9 * (tol - eps) * math.sqrt(rng.random())
        xo, yo = sx + d * math.cos(a), sy + d * math.sin(a)
    return {'op': 'match', 'pscale': p, 'searchrad': sr, 'separation': sep, 'tolerance': tol,
            'use2dhist': use2d, 'xoffset': xo, 'yoffset': yo, 'shift': [sx, sy], 'eps': eps,
            'field': 'wide' if wide else 'tight', 'ref': ref, 'img': img, 'truth': [list(t) for t in truth]}


def C(p, sr, sep, tol, use2d, off, shift, ref, img, truth):
    return {'op': 'match', 'pscale': p, 'searchrad': sr, 'separation': sep, 'tolerance': tol,
            'use2dhist': use2d, 'xoffset': off[0], 'yoffset': off[1], 'shift': list(shift), 'eps': 0.0,
            'field': 'corpus', 'ref': ref, 'img': img, 'truth': truth}


G = [[100.0 * a + 7.0 * b, 100.0 * b - 3.0 * a] for a in range(3) for b in range(3)]
CORPUS = [
    # the suite's smoke test: single source
    C(1.0, 3.0, 0.5, 1.0, True, (0.0, 0.0), (0.0, 0.0), [[1.0, 2.0]], [[1.0, 2.0]], [[0, 0]]),
    C(1.0, 3.0, 0.5, 1.0, True, (0.0, 0.0), (1.0, -2.0), G, [[q[0] + 1.0, q[1] - 2.0] for q in G],
      [[k, k] for k in range(9)]),
    # non-integer searchrad/pscale (finding F3 made the initial offset wrong by 0.71 bin here)
    C(0.7, 3.0, 0.35, 0.7, True, (0.0, 0.0), (0.0, 0.0), G, [list(q) for q in G], [[k, k] for k in range(9)]),
    C(0.7, 3.0, 0.35, 0.7, True, (0.0, 0.0), (1.4, -0.7), G, [[q[0] + 1.4, q[1] - 0.7] for q in G],
      [[k, k] for k in range(9)]),
    # histogram off, offset supplied; reversed image rows and one extra reference
    C(1.0, 3.0, 0.5, 1.0, False, (2.0, -1.0), (2.0, -1.0), G + [[555.0, 555.0]],
      [[q[0] + 2.0, q[1] - 1.0] for q in G][::-1], [[k, 8 - k] for k in range(9)]),
    # histogram off and the offset is wrong by much more than the tolerance: nothing matches
    C(1.0, 3.0, 0.5, 1.0, False, (0.0, 0.0), (20.0, -10.0), G, [[q[0] + 20.0, q[1] - 10.0] for q in G], []),
]

BAD = [
    ('searchrad', dict(searchrad=0.0), 'badSearchrad'),
    ('searchrad', dict(searchrad=-1.0), 'badSearchrad'),
    ('separation', dict(separation=0.0), 'badSeparation'),
    ('tolerance', dict(tolerance=-2.0), 'badTolerance'),
    ('emptyref', dict(ref=[]), 'emptyRef'),
    ('emptyim', dict(img=[]), 'emptyIm'),
]


def impl_match(case, ref=None, img=None):
    from astropy.table import Table
    mu = _xyxy()
    ref = case['ref'] if ref is None else ref
    img = case['img'] if img is None else img
    ra = np.array(ref, dtype=float).reshape(-1, 2)
    ia = np.array(img, dtype=float).reshape(-1, 2)
    refcat = Table([ra[:, 0], ra[:, 1]], names=('TPx', 'TPy'))
    imcat = Table([ia[:, 0], ia[:, 1]], names=('TPx', 'TPy'))
    with LsqSpy() as spy:
        try:
            m = mu.XYXYMatch(searchrad=case['searchrad'], separation=case['separation'],
                             use2dhist=case['use2dhist'], xoffset=case['xoffset'], yoffset=case['yoffset'],
                             tolerance=case['tolerance'])
            out = m(refcat, imcat, tp_pscale=case['pscale'])
        except ValueError as e:
            return ('err', 'ValueError', str(e)), spy
        except Exception as e:
            return ('err', type(e).__name__, str(e)), spy
    return ('ok', out), spy


def match_line(case, spec):
    ref, img = case['ref'], case['img']
    nums = [case['searchrad'], case['separation'], case['tolerance'], case['xoffset'], case['yoffset'],
            case['pscale']]
    return 'match F %d %s %d %d %s %s %s' % (
        1 if case['use2dhist'] else 0, ' '.join(f2x(v) for v in nums), len(ref), len(img),
        ' '.join(f2x(v) for q in ref for v in q), ' '.join(f2x(v) for q in img for v in q), spec)


def hypotheses_hold(case):
    """independent check that the offset handed to the matcher is within tol - eps of the truth:
    given (histogram off) or guaranteed by C12 (only true pairs in the histogram box)"""
    p, sr, tol, eps = case['pscale'], case['searchrad'], case['tolerance'], case['eps']
    sx, sy = case['shift']
    if not case['truth']:
        return False
    if not case['use2dhist']:
        return math.hypot(case['xoffset'] - sx, case['yoffset'] - sy) <= 0.95 * (tol - eps)
    if max(abs(sx), abs(sy)) > sr:
        return False
    a = np.array(case['img'], dtype=float).reshape(-1, 2) / p
    b = np.array(case['ref'], dtype=float).reshape(-1, 2) / p
    dx = a[:, None, 0] - b[None, :, 0]
    dy = a[:, None, 1] - b[None, :, 1]
    lim = sr / p + 0.5 + 1e-6
    inbox = (np.abs(dx) < lim) & (np.abs(dy) < lim)
    true = np.zeros_like(inbox)
    for i, j in case['truth']:
        true[j, i] = True
    if (inbox & ~true).any():
        return False
    # estimate within half a bin (+ jitter) in each coordinate: Euclidean error <= (p/2 + eps) sqrt 2
    return (0.5 * p + eps) * math.sqrt(2.0) + eps <= 0.98 * tol


def oracle_match(ctx, case, res):
    nref, nim = len(case['ref']), len(case['img'])
    if res[0] != 'ok':
        ctx.oracle_fail(case, {'what': 'XYXYMatch raised on a valid field', 'got': list(res)})
        return None
    out = res[1]
    if not (isinstance(out, tuple) and len(out) == 2):
        ctx.oracle_fail(case, {'what': 'XYXYMatch did not return a pair of arrays', 'got': repr(out)[:200]})
        return None
    ri, ii = np.asarray(out[0]), np.asarray(out[1])
    if ri.ndim != 1 or ii.ndim != 1 or len(ri) != len(ii):
        ctx.oracle_fail(case, {'what': 'index arrays of different length / not 1-D',
                               'shapes': [list(ri.shape), list(ii.shape)]})
        return None
    if not (np.issubdtype(ri.dtype, np.integer) and np.issubdtype(ii.dtype, np.integer)):
        ctx.oracle_fail(case, {'what': 'index arrays are not integer arrays', 'dtypes': [str(ri.dtype), str(ii.dtype)]})
        return None
    ri = [int(v) for v in ri]
    ii = [int(v) for v in ii]
    got = sorted(zip(ri, ii))
    if any(not (0 <= a < nref) for a in ri) or any(not (0 <= b < nim) for b in ii):
        ctx.oracle_fail(case, {'what': 'returned index out of range (first array must index the reference '
                                       'catalog, second the image catalog)', 'pairs': got[:10],
                               'nref': nref, 'nim': nim})
        return got
    if len(set(ri)) != len(ri) or len(set(ii)) != len(ii):
        ctx.oracle_fail(case, {'what': 'repeated index in the returned arrays', 'pairs': got[:20]})
    if hypotheses_hold(case):
        ctx.branch('oracle:ground-truth')
        truth = sorted(tuple(t) for t in case['truth'])
        if got != truth:
            missing = sorted(set(truth) - set(got))
            false = sorted(set(got) - set(truth))
            ctx.oracle_fail(case, {'what': 'XYXYMatch did not return exactly the true correspondences',
                                   'missing': missing[:10], 'false': false[:10], 'n_true': len(truth),
                                   'n_returned': len(got)})
    else:
        ctx.branch('oracle:hypotheses-not-guaranteed')
    return got


def run_field(ctx, case, lines, pending):
    res, spy = impl_match(case)
    nc = len(case['truth'])
    nontrivial = nc >= 2 and (len(case['ref']) != nc or len(case['img']) != nc
                              or any(a != b for a, b in case['truth']))
    ctx.case(case, nontrivial=nontrivial,
             branch='field:%s/2dhist:%s' % (case['field'], case['use2dhist']))
    got = oracle_match(ctx, case, res)
    # metamorphic: other row orders, same set of matched sources
    if got is not None and ctx.rng.random() < 0.35:
        pr = list(range(len(case['ref'])))
        pi = list(range(len(case['img'])))
        ctx.rng.shuffle(pr)
        ctx.rng.shuffle(pi)
        res2, _ = impl_match(case, [case['ref'][k] for k in pr], [case['img'][k] for k in pi])
        ctx.branch('oracle:row-permutation')
        if res2[0] != 'ok':
            ctx.oracle_fail(case, {'what': 'XYXYMatch raised after a row permutation', 'got': list(res2)})
        else:
            try:
                got2 = sorted((pr[int(a)], pi[int(b)]) for a, b in zip(res2[1][0], res2[1][1]))
            except IndexError:
                got2 = None
            if got2 != got:
                ctx.oracle_fail(case, {'what': 'the set of matched sources changed under a row permutation',
                                       'perm_ref': pr, 'perm_img': pi, 'before': got[:10],
                                       'after': None if got2 is None else got2[:10]})
    if ctx.search_only:
        return
    check_lsq_contract(ctx, case, spy)
    lines.append(match_line(case, spy.spec() if case['use2dhist'] else 'X'))
    pending.append((case, res, got))


def compare_field(ctx, out, case, res, got):
    toks = out.split()
    if toks[0] == 'err':
        ctx.branch('model:err-' + toks[1])
        if res[0] != 'err' or res[1] != 'ValueError':
            ctx.disagree(case, {'op': 'match', 'model': out, 'impl': repr(res)[:200]})
        return
    if toks[0] != 'ok':
        ctx.disagree(case, {'op': 'match', 'model': out[:100]})
        return
    if res[0] != 'ok':
        ctx.disagree(case, {'op': 'match', 'model': out[:100], 'impl': list(res)})
        return
    n = int(toks[1])
    mp = sorted((int(toks[2 + 2 * k]), int(toks[3 + 2 * k])) for k in range(n))
    if len(set(a for a, _ in mp)) != n or len(set(b for _, b in mp)) != n:
        # the specification is ambiguous here (a source with two counterparts within the tolerance):
        # the contract of the C matcher says nothing
        ctx.near_tie()
        ctx.branch('model:ambiguous-skipped')
        return
    ctx.branch('model:pairs')
    if got is None or mp != got:
        ctx.disagree(case, {'op': 'match', 'model_pairs': mp[:20], 'impl_pairs': None if got is None else got[:20],
                            'n_model': n, 'n_impl': None if got is None else len(got)})


def run_bad(ctx, lines, pending):
    base = dict(CORPUS[1])
    for name, upd, kind in BAD:
        case = dict(base)
        case.update(upd)
        case['truth'] = []
        case['field'] = 'bad:' + name
        res, spy = impl_match(case)
        ctx.case(case, nontrivial=True, branch='bad:' + name)
        if not (res[0] == 'err' and res[1] == 'ValueError'):
            ctx.oracle_fail(case, {'what': 'invalid argument / empty catalog did not raise ValueError',
                                   'got': repr(res)[:200]})
        if ctx.search_only:
            continue
        lines.append(match_line(case, 'X'))
        pending.append((case, res, None))


# ---------------------------------------------------------------------------
# the call site: WCSGroupCatalog.match2ref (pixel scale / units handed to the matcher, order of
# the returned arrays, bookkeeping columns)
# ---------------------------------------------------------------------------
def gen_match2ref(rng):
    ps_target = rng.choice(PSCALES)                     # arcsec per pixel in the tangent plane
    cd = ps_target / 3600.0 * math.pi / 180.0
    v2, v3, roll = rng.uniform(-300, 300), rng.uniform(-700, -100), rng.uniform(0, 360)
    crval = [rng.uniform(0, 360), rng.uniform(-60, 60)]
    nc, ner, nei = rng.randint(2, 30), rng.randint(0, 8), rng.randint(0, 8)
    cells = rng.sample([(a, b) for a in range(12) for b in range(12)], nc + ner + nei)
    pts = [[300.0 + 30.0 * a + rng.uniform(0, 12), 300.0 + 30.0 * b + rng.uniform(0, 12)] for a, b in cells]
    dx, dy = rng.uniform(-2.0, 2.0), rng.uniform(-2.0, 2.0)
    imxy = pts[:nc] + pts[nc + ner:]
    refxy = [[q[0] - dx, q[1] - dy] for q in pts[:nc + ner]]
    pr = list(range(len(refxy)))
    pi = list(range(len(imxy)))
    rng.shuffle(pr)
    rng.shuffle(pi)
    imxy = [imxy[k] for k in pi]
    refxy = [refxy[k] for k in pr]
    truth = sorted((pr.index(k), pi.index(k)) for k in range(nc))
    return {'op': 'match2ref', 'cd': cd, 'v2v3roll': [v2, v3, roll], 'crval': crval,
            'use2dhist': rng.random() < 0.6, 'pixel_shift': [dx, dy], 'img_xy': imxy, 'ref_xy': refxy,
            'truth': [list(t) for t in truth]}


def probe_match2ref(ctx, case):
    import logging
    from astropy.table import Table
    from tweakwcs.tests.helper_correctors import make_mock_jwst_wcs
    from tweakwcs.correctors import JWSTWCSCorrector
    from tweakwcs import wcsimage
    mu = _xyxy()
    logging.getLogger(wcsimage.__name__).disabled = True
    logging.getLogger('tweakwcs.correctors').disabled = True
    cd = case['cd']
    v2, v3, roll = case['v2v3roll']
    imxy = np.array(case['img_xy'], dtype=float)
    refxy = np.array(case['ref_xy'], dtype=float)
    truth = sorted(tuple(t) for t in case['truth'])
    use2d = case['use2dhist']
    ctx.case(case, nontrivial=True, branch='match2ref/2dhist:%s' % use2d)
    try:
        w = make_mock_jwst_wcs(v2ref=v2, v3ref=v3, roll=roll, crpix=[512.0, 512.0], cd=[[cd, 0], [0, cd]],
                               crval=case['crval'])
        corr = JWSTWCSCorrector(w, {'v2_ref': v2, 'v3_ref': v3, 'roll_ref': roll})
        ps = float(corr.tanp_center_pixel_scale)
        ra, dec = w(refxy[:, 0], refxy[:, 1])
        imcat = wcsimage.WCSImageCatalog(Table([imxy[:, 0], imxy[:, 1]], names=('x', 'y')), corr, name='im')
        grp = wcsimage.WCSGroupCatalog(imcat)
        ref = wcsimage.RefCatalog(Table([ra, dec], names=('RA', 'DEC')))
        ref.calc_tanp_xy(tanplane_wcs=corr)
        grp.calc_tanp_xy(tanplane_wcs=corr)
        i0, j0 = truth[0]
        xo = float(grp.catalog['TPx'][j0] - ref.catalog['TPx'][i0])
        yo = float(grp.catalog['TPy'][j0] - ref.catalog['TPy'][i0])
        matcher = mu.XYXYMatch(searchrad=3.0 * ps, separation=0.5 * ps, tolerance=1.0 * ps, use2dhist=use2d,
                               xoffset=xo + 0.3 * ps, yoffset=yo - 0.2 * ps)
        seen = {}

        def spy(refcat, imcat_, **kw):
            seen.update(kw)
            seen['ref_is_ref'] = len(refcat) == len(refxy) and len(imcat_) == len(imxy)
            return matcher(refcat, imcat_, **kw)
        n, ri, ii = grp.match2ref(ref, match=spy)
    except Exception as e:
        ctx.oracle_fail(case, {'what': 'match2ref raised on a valid field', 'got': '%s: %s' % (type(e).__name__, e)})
        return
    if seen.get('tp_pscale') != corr.tanp_center_pixel_scale or seen.get('tp_units') != corr.units:
        ctx.oracle_fail(case, {'what': 'match2ref did not hand the image pixel scale / units to the matcher',
                               'seen': {k: repr(v) for k, v in seen.items()}, 'expected': [ps, corr.units]})
    if not seen.get('ref_is_ref'):
        ctx.oracle_fail(case, {'what': 'match2ref did not call the matcher as match(refcat, imcat)'})
    got = sorted(zip([int(v) for v in ri], [int(v) for v in ii]))
    if n != len(truth) or got != truth:
        ctx.oracle_fail(case, {'what': 'match2ref did not return exactly the true correspondences '
                                       '(nmatches, reference indices, image indices)',
                               'nmatches': int(n), 'n_true': len(truth), 'pixel_scale': ps,
                               'missing': sorted(set(truth) - set(got))[:10],
                               'false': sorted(set(got) - set(truth))[:10]})
        return
    col = grp.catalog['matched_ref_id']
    ids = ref.catalog['id']
    ok = True
    tmap = {j: i for i, j in truth}
    for j in range(len(imxy)):
        masked = bool(np.ma.getmaskarray(col)[j])
        if j in tmap:
            ok = ok and (not masked) and int(col[j]) == int(ids[tmap[j]])
        else:
            ok = ok and masked
    if not ok:
        ctx.oracle_fail(case, {'what': "column 'matched_ref_id' does not record the true correspondences"})
        return
    # ---- the same group matched AGAIN, to a reduced reference catalog with other ids and another row
    # order: the bookkeeping of the first pass must not survive (sources that lost their counterpart are
    # unmatched now)
    rr = __import__('random').Random(int(abs(xo) * 1e6) + len(truth))
    keep = [k for k in range(len(refxy)) if rr.random() < 0.6]
    if len(keep) < 1:
        keep = [truth[0][0]]
    rr.shuffle(keep)
    ids2 = [1000 + 7 * k for k in range(len(keep))]
    try:
        ref2 = wcsimage.RefCatalog(Table([np.asarray(ra)[keep], np.asarray(dec)[keep], ids2], names=('RA', 'DEC', 'id')))
        ref2.calc_tanp_xy(tanplane_wcs=corr)
        n2, ri2, ii2 = grp.match2ref(ref2, match=matcher)
    except Exception as e:
        ctx.oracle_fail(case, {'what': 'second match2ref of the same group raised', 'got': '%s: %s' % (type(e).__name__, e)})
        return
    ctx.branch('match2ref:second-pass')
    truth2 = sorted((keep.index(i), j) for i, j in truth if i in keep)
    got2 = sorted(zip([int(v) for v in ri2], [int(v) for v in ii2]))
    if n2 != len(truth2) or got2 != truth2:
        ctx.oracle_fail(case, {'what': 'second match2ref of the same group (reduced reference) did not return exactly '
                                       'the true correspondences', 'nmatches': int(n2), 'n_true': len(truth2),
                               'missing': sorted(set(truth2) - set(got2))[:10], 'false': sorted(set(got2) - set(truth2))[:10]})
        return
    col = grp.catalog['matched_ref_id']
    raw = grp.catalog['_raw_matched_ref_idx']
    tmap2 = {j: i for i, j in truth2}
    bad = None
    for j in range(len(imxy)):
        m1 = bool(np.ma.getmaskarray(col)[j])
        m2 = bool(np.ma.getmaskarray(raw)[j])
        if j in tmap2:
            if m1 or int(col[j]) != ids2[tmap2[j]]:
                bad = ('matched_ref_id', j)
            if m2 or int(raw[j]) != tmap2[j]:
                bad = bad or ('_raw_matched_ref_idx', j)
        elif not m1 or not m2:
            bad = bad or ('matched_ref_id' if not m1 else '_raw_matched_ref_idx', j)
    if bad:
        ctx.oracle_fail(case, {'what': "after a second match the bookkeeping column '%s' still carries the first pass "
                                       "(row %d)" % bad, 'matched_now': len(truth2), 'matched_before': len(truth)})
        return
    try:
        nm, nu = len(grp.get_matched_cat()), len(grp.get_unmatched_cat())
    except Exception as e:
        ctx.oracle_fail(case, {'what': 'get_matched_cat / get_unmatched_cat raised', 'got': repr(e)[:120]})
        return
    if nm != len(truth2) or nu != len(imxy) - len(truth2):
        ctx.oracle_fail(case, {'what': 'get_matched_cat / get_unmatched_cat do not split the catalog by the last match',
                               'matched': nm, 'unmatched': nu, 'true_matched': len(truth2), 'sources': len(imxy)})


def run_match2ref(ctx):
    for _ in range(ctx.n(25, 300)):
        probe_match2ref(ctx, gen_match2ref(ctx.rng))


def run_interface(ctx):
    """the catalog interface of XYXYMatch.__call__: (a) the deprecated `tp_wcs=` form (tangent-plane
    coordinates computed by the matcher from x,y / RA,DEC) returns exactly what the `TPx`,`TPy` form returns
    on coordinates computed by hand, and both return the true correspondences; (b) catalogs of the wrong
    type / without the needed columns are refused (TypeError / KeyError), never matched on other columns"""
    import warnings
    from astropy.table import Table
    from .. import scenes
    mu = _xyxy()
    rng = ctx.rng
    for _ in range(ctx.n(6, 80)):
        jw = rng.random() < 0.5
        c, info = scenes.mk_jwst(rng) if jw else scenes.mk_fits(rng, kind=rng.choice(['cd', 'pc', 'lut']))
        ps = float(c.tanp_center_pixel_scale)
        nx, ny = scenes.image_size(c)
        nc, ner, nei = rng.randint(3, 25), rng.randint(0, 5), rng.randint(0, 5)
        pts = []
        for _k in range(4000):
            if len(pts) == nc + ner + nei:
                break
            q = (rng.uniform(20, nx - 20), rng.uniform(20, ny - 20))
            if all(math.hypot(q[0] - r[0], q[1] - r[1]) > 30 for r in pts):
                pts.append(q)
        if len(pts) < nc + ner + nei:
            continue
        pts = np.array(pts)
        com, refonly, imonly = pts[:nc], pts[nc:nc + ner], pts[nc + ner:]
        sh = (rng.uniform(-1.5, 1.5), rng.uniform(-1.5, 1.5))          # pixels, inside the search radius
        im_xy = np.vstack([com, imonly]) if len(imonly) else com.copy()
        pi = list(range(len(im_xy)))
        rng.shuffle(pi)
        im_xy = im_xy[pi]
        ref_px = np.vstack([com, refonly]) if len(refonly) else com.copy()
        pr = list(range(len(ref_px)))
        rng.shuffle(pr)
        ref_px = ref_px[pr] + np.array(sh)
        ra, dec = c.det_to_world(ref_px[:, 0], ref_px[:, 1])
        truth = sorted((pr.index(k), pi.index(k)) for k in range(nc))
        use2d = rng.random() < 0.5
        case = {'op': 'XYXYMatch interface', 'corrector': info, 'use2dhist': use2d, 'shift_px': list(sh),
                'n': [nc, ner, nei]}
        ctx.case(case, nontrivial=True, branch='interface:%s:2dhist=%s' % ('jwst' if jw else info['kind'], use2d))
        # (search radius, separation and tolerance are in units of the tangent plane - arcsec for gWCS -, so they
        #  are scaled with the pixel scale; an earlier version of this scenario passed pixel values and raised a
        #  false alarm on gWCS correctors coarser than 0.083 arcsec/pixel, where 2.5 arcsec exceed the 30-pixel
        #  spacing of the sources)
        m = mu.XYXYMatch(searchrad=4.0 * ps, separation=0.5 * ps, tolerance=(2.5 if not use2d else 1.0) * ps,
                         use2dhist=use2d)
        refcat = Table([np.asarray(ra, dtype=float), np.asarray(dec, dtype=float)], names=('RA', 'DEC'))
        imcat = Table([im_xy[:, 0], im_xy[:, 1]], names=('x', 'y'))
        try:
            with warnings.catch_warnings(record=True) as wl:
                warnings.simplefilter('always')
                a = m(refcat, imcat, tp_pscale=ps, tp_units='u', tp_wcs=c)
            rt = np.array(c.world_to_tanp(refcat['RA'], refcat['DEC']), dtype=float)
            it = np.array(c.det_to_tanp(imcat['x'], imcat['y']), dtype=float)
            refcat2 = Table([rt[0], rt[1]], names=('TPx', 'TPy'))
            imcat2 = Table([it[0], it[1]], names=('TPx', 'TPy'))
            b = m(refcat2, imcat2, tp_pscale=ps, tp_units='u')
        except Exception as e:   # noqa
            ctx.oracle_fail(case, {'what': 'XYXYMatch raised on valid catalogs', 'error': repr(e)[:200]})
            continue
        if not any('tp_wcs' in str(w.message) for w in wl):
            ctx.oracle_fail(case, {'what': "no deprecation warning for 'tp_wcs'"})
        pa = sorted(zip([int(v) for v in a[0]], [int(v) for v in a[1]]))
        pb = sorted(zip([int(v) for v in b[0]], [int(v) for v in b[1]]))
        if pa != pb:
            ctx.oracle_fail(case, {'what': "the 'tp_wcs' form and the 'TPx/TPy' form of the same catalogs match "
                                           "different pairs", 'tp_wcs': pa[:8], 'tpxy': pb[:8]})
        if pb != truth:
            ctx.oracle_fail(case, {'what': 'matched pairs are not the true correspondences', 'got': pb[:8],
                                   'truth': truth[:8]})
    # (b) refused inputs
    good_r = Table([[1.0, 50.0, 90.0], [2.0, 60.0, 10.0]], names=('TPx', 'TPy'))
    good_i = Table([[1.2, 50.1, 90.3], [2.1, 60.2, 10.1]], names=('TPx', 'TPy'))
    sky_r = Table([[10.0, 10.001, 10.002], [20.0, 20.001, 20.0005]], names=('RA', 'DEC'))
    pix_i = Table([[100.0, 200.0, 300.0], [100.0, 250.0, 120.0]], names=('x', 'y'))
    cfits, _ = scenes.mk_fits(rng, kind='cd', pointing=(10.0, 20.0))
    m = mu.XYXYMatch(searchrad=3.0, separation=0.5, tolerance=1.0, use2dhist=False)
    bad = [
        ('refcat-not-a-table', (np.array([[1.0, 2.0]]), good_i), {}, 'TypeError'),
        ('imcat-not-a-table', (good_r, [[1.0, 2.0]]), {}, 'TypeError'),
        ('refcat-without-TPx', (Table([[1.0], [2.0]], names=('x', 'TPy')), good_i), {}, 'KeyError'),
        ('imcat-without-TPy', (good_r, Table([[1.0], [2.0]], names=('TPx', 'y'))), {}, 'KeyError'),
        ('refcat-sky-only-no-tp_wcs', (sky_r, good_i), {}, 'KeyError'),
        ('tp_wcs-refcat-without-DEC', (Table([[10.0], [2.0]], names=('RA', 'TPy')), pix_i), {'tp_wcs': cfits}, 'KeyError'),
        ('tp_wcs-imcat-without-x', (sky_r, good_i), {'tp_wcs': cfits}, 'KeyError'),
    ]
    for name, (r, i), kw, want in bad:
        case = {'op': 'XYXYMatch interface', 'bad': name}
        ctx.case(case, nontrivial=True, branch='interface:refused:' + name)
        try:
            with warnings.catch_warnings():
                warnings.simplefilter('ignore')
                out = m(r, i, tp_pscale=1.0, **kw)
            ctx.oracle_fail(case, {'what': 'an unusable catalog was matched instead of being refused',
                                   'returned': repr(out)[:120]})
        except Exception as e:   # noqa
            if type(e).__name__ != want:
                ctx.oracle_fail(case, {'what': 'unusable catalog refused with another exception',
                                       'raised': type(e).__name__, 'expected': want})
    # catalogs whose meta name is None are matched like any other
    r2, i2 = good_r.copy(), good_i.copy()
    r2.meta['name'] = None
    i2.meta['name'] = None
    case = {'op': 'XYXYMatch interface', 'names': None}
    ctx.case(case, nontrivial=True, branch='interface:name-none')
    try:
        a = m(r2, i2, tp_pscale=1.0)
        if sorted(zip([int(v) for v in a[0]], [int(v) for v in a[1]])) != [(0, 0), (1, 1), (2, 2)]:
            ctx.oracle_fail(case, {'what': 'catalogs with meta name None: wrong pairs'})
    except Exception as e:   # noqa
        ctx.oracle_fail(case, {'what': 'catalogs with meta name None are refused', 'error': repr(e)[:120]})


def run(ctx):
    lines, pending = [], []
    run_match2ref(ctx)
    run_interface(ctx)
    for c in CORPUS:
        run_field(ctx, dict(c), lines, pending)
    run_bad(ctx, lines, pending)
    for _ in range(ctx.n(2500, 40000)):
        run_field(ctx, gen_field(ctx.rng, ctx.tier), lines, pending)
    from . import c11_groupcat; c11_groupcat.run_extra(ctx)   # WCSGroupCatalog bookkeeping (model TW.GC, op `groupcat`)
    if ctx.search_only:
        return
    outs = ctx.driver(lines)
    for out, (case, res, got) in zip(outs, pending):
        compare_field(ctx, out, case, res, got)


def replay(ctx, payload):
    fi = payload.get('failing_input') or (payload.get('correspondence') or [None])[0]
    if not fi:
        print('nothing to replay: %s' % payload.get('broken'))
        return 1
    case = fi['case']
    lines, pending = [], []
    if case.get('op') == 'match2ref':
        probe_match2ref(ctx, case)
    elif case.get('op') == 'groupcat':
        from . import c11_groupcat; c11_groupcat.replay_case(ctx, case)
    else:
        run_field(ctx, case, lines, pending)
    outs = ctx.driver(lines)
    for out, (c, res, got) in zip(outs, pending):
        compare_field(ctx, out, c, res, got)
    bad = ctx.oracle_failures + ctx.disagreements
    for b in bad:
        print('STILL FAILS:', b['detail'])
    return 1 if bad else 0
