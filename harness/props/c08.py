"""
C08 -- fits are equivariant under relabelling and changes of coordinates.

Property oracle (on the IMPLEMENTATION, shares no code with the model): metamorphic relations on
`tweakwcs.linearfit.iter_linear_fit` (all fitgeom, nclip 0..3, sigma statistics, clip_accum,
weights none/one/both) and on the single-shot fitters `fit_shifts / fit_rshift / fit_rscale /
fit_general`:
  perm     rows permuted            -> fitmask permuted; matrix, effective shift, rmse, mae unchanged
  sim      A on xy, B on uv (similarities: translation, rotation incl. special angles, uniform
           scaling 1e-3..1e3, axis flip; A = B, or one of them the identity / a translation where
           the fit family is closed under it)
                                    -> (F, s_eff) -> (A F B^-1, A s_eff + a - A F B^-1 b), rmse and
                                       mae multiplied by the scale of A, retained set unchanged
  wscale   all weights x c > 0      -> effective map, rmse, mae, retained set unchanged
  center   another `center`         -> effective map xy ~ F uv + s_eff, rmse, mae, retained set unchanged
  uniform  constant weight arrays   -> same effective map, rmse, mae as no weights (never std)
Discrete decisions are compared only away from their thresholds: a case is skipped (and counted
with ctx.near_tie()) when some residual norm is within 1e-9 (relative) of a clipping cutoff at any
stage of the clipping history, when the reflection branch of fit_rscale is not determined
(|det H| <= 1e-6 |H|^2: collinear points, every two-point set), or when the general fit is
ill-conditioned.

Correspondence: the Lean model (driver op `fit8`: row form of fitShifts / fitGeneral / fitRscale,
centring and effective map of iter_linear_fit; exact rationals for shift/general on small sets,
doubles otherwise) on BOTH members of each metamorphic pair against the implementation's
single-shot fitters, and against iter_linear_fit(nclip=0, center=c) for the centre handling;
op `clip8` (the comparison `norm < nsigma*stat`) against numpy.

Tolerance: 1e-9 relative to the data scale (coordinates), 1e-9 relative for matrices.

Collinearity guard of fit_general (repaired finding F13): `SingularMatrixError` on one side only (model vs
implementation, or the two members of a metamorphic pair) is a near-tie only when the quantity the guard
tests, (cuu*cvv - cuv^2)/((cuu+cvv)/2)^2, computed exactly from the data (`common.guard_ratio`), lies in the
band [2^-52/64, 2^-52*64] (for the model run in doubles: at or below 2^-52 max(64, 4(n+4)), its own rounding
error); otherwise it is a disagreement / oracle failure.  The corpus contains thin but legitimate sets
(aspect ratio 1e-6 .. 1e-3, both orientations and rotated by 30 degrees) that must be fitted by both sides, and
exactly collinear / coincident integer sets (with weights, through iter_linear_fit with and without clipping)
that both sides must refuse, in the original and in every transformed frame.
"""
import logging
import math

import numpy as np

from ..common import (Fraction, q2s, f2x, x2f, s2q, to_fraction, guard_ratio, guard_expect, harmonic_weights,
                      guard_mismatch_is_tie)

logging.disable(logging.CRITICAL)

ID = 'C08'
RULE = ('point sets (random / clustered / integer lattice, 1..60 pairs, 0-30 % graded outliers, noise 0..1e-2 of '
        'the field) x fitgeom (4) x weight mode (none / wxy / wuv / both, with zero weights) x nclip 0..3 x '
        'sigma statistic x clip_accum x centre, each with 5-9 metamorphic relations (perm, sim both sets, sim one '
        'set, translation of one set, weights x c, other centre, uniform weights) on iter_linear_fit and on the '
        'single-shot fitters; a case (problem, relation, target) is non-trivial when the relation is not the '
        'identity and the base fit returned; distinct = distinct canonical (problem, relation, target)')
ASSUMPTIONS = [
    'theorems are over a linearly ordered field / the reals (exact arithmetic); long-double rounding is outside '
    'the model and bounded only by the 1e-9 tolerances used here',
    'fit_general: statements are about returned fits (the singularity threshold tiny=2e-308 of linalg.inv is not '
    'scale-free); the eps-independent rejections (too few points, bad weights) are proved coordinate-free',
    'fit_rscale/fit_rshift with exactly one axis flip among the two maps: the reflection branch must be determined '
    'by the data (cross-moment determinant non-zero, i.e. points not collinear); fit_rshift with different linear '
    'parts on the two sets additionally needs non-vanishing cross moments (angle determined)',
    'retained set: stated for the comparison norm < nsigma*stat on a generic list of norms and a statistic that '
    'scale by the same positive factor; the clipping loop itself is the model of C07',
    'std is deliberately not compared between uniform weights and no weights (different denominators in the code)',
]

TOL = 1e-9
MINOBJ = {'shift': 1, 'rshift': 2, 'rscale': 2, 'general': 3}
GEOMS = ['shift', 'rshift', 'rscale', 'general']
TINY = Fraction(*float(np.finfo(np.double).tiny).as_integer_ratio())


# ---------------------------------------------------------------------------------------------
# the implementation
# ---------------------------------------------------------------------------------------------
def _w(a):
    # weights reach the code in the caller's dtype: integer weight columns are legitimate input
    if a is None:
        return None
    if len(a) and all(isinstance(v, int) and not isinstance(v, bool) for v in a):
        return np.array(a, dtype=int)
    return np.array(a, dtype=float)


_LD = {}


def _coords(d):
    """the coordinate arrays handed to the implementation.  With d['ld'] the arrays are numpy.longdouble (the
    type the code works in) and the SAME array objects are handed over by every fit of the problem that has
    these coordinates (base fit, other centre, rescaled / uniform weights), as a caller that keeps its
    catalogs in long double would do: the relations must hold for that caller too"""
    if not d.get('ld'):
        return np.array(d['xy'], dtype=float), np.array(d['uv'], dtype=float)
    key = (np.array(d['xy'], dtype=float).tobytes(), np.array(d['uv'], dtype=float).tobytes())
    if key not in _LD:
        _LD[key] = (np.array(d['xy'], dtype=np.longdouble), np.array(d['uv'], dtype=np.longdouble))
    return _LD[key]


def run_iter(d, par):
    """iter_linear_fit on data d (xy, uv, wxy, wuv, center) with parameters par"""
    from tweakwcs import linearfit
    try:
        axy, auv = _coords(d)
        fit = linearfit.iter_linear_fit(
            axy, auv, wxy=_w(d['wxy']), wuv=_w(d['wuv']),
            fitgeom=par['geom'], center=None if d['center'] is None else list(d['center']),
            nclip=par['nclip'], sigma=par['sigma'], clip_accum=par['clip_accum'])
    except Exception as e:  # noqa: BLE001
        return ('err', type(e).__name__, None)
    return ('ok', None, fit)


def run_single(d, geom):
    from tweakwcs import linearfit
    fn = {'shift': linearfit.fit_shifts, 'rshift': linearfit.fit_rshift, 'rscale': linearfit.fit_rscale,
          'general': linearfit.fit_general}[geom]
    try:
        fit = fn(np.array(d['xy'], dtype=float).reshape(-1, 2), np.array(d['uv'], dtype=float).reshape(-1, 2),
                 _w(d['wxy']), _w(d['wuv']))
    except Exception as e:  # noqa: BLE001
        return ('err', type(e).__name__, None)
    return ('ok', None, fit)


def observe(fit, n):
    """what the property constrains: effective map, rmse, mae, retained set"""
    F = np.array(fit['matrix'], dtype=float)
    s = np.array(fit['shift'], dtype=float)
    if 'center' in fit:
        c = np.array(fit['center'], dtype=float)
        s = s + c - F.dot(c)
        mask = np.array(fit['fitmask'], dtype=bool)
    else:
        mask = np.ones(n, dtype=bool)
    return {'F': F, 's': s, 'rmse': float(fit['rmse']), 'mae': float(fit['mae']), 'mask': mask}


# ---------------------------------------------------------------------------------------------
# guards (near ties): computed from the implementation's own outputs
# ---------------------------------------------------------------------------------------------
def eff_weights(d, n):
    wx, wu = d['wxy'], d['wuv']
    if wx is None and wu is None:
        return np.ones(n)
    if wx is None:
        return np.array(wu, dtype=float)
    if wu is None:
        return np.array(wx, dtype=float)
    wx = np.array(wx, dtype=float)
    wu = np.array(wu, dtype=float)
    w = np.zeros(n)
    m = (wx > 0) & (wu > 0)
    w[m] = wx[m] * wu[m] / (wx[m] + wu[m])
    return w


def wmask_of(d, n):
    m = np.ones(n, dtype=bool)
    if d['wxy'] is not None:
        m &= np.array(d['wxy'], dtype=float) > 0
    if d['wuv'] is not None:
        m &= np.array(d['wuv'], dtype=float) > 0
    return m


def guard_quantity(d, mask=None):
    """the quantity tested by the collinearity guard of fit_general on the rows of `mask` (all rows when
    None), exactly; None when it cannot be evaluated (no positive total weight)"""
    n = len(d['uv'])
    w = harmonic_weights(n, d['wxy'], d['wuv'])
    idx = [i for i in range(n) if mask is None or bool(mask[i])]
    if len(idx) < 3 or any(w[i] < 0 for i in idx):
        return None
    return guard_ratio([d['uv'][i] for i in idx], [w[i] for i in idx])


def pair_singular_is_tie(d, d2, ok_fit):
    """one member of a metamorphic pair raised SingularMatrixError, the other returned `ok_fit` (or None): a
    near-tie decided by rounding only if the guard quantity -- on all positively weighted rows, and on the
    rows retained by the member that returned -- lies in the band around 2^-52 in one of the two frames"""
    qs = []
    for dd in (d, d2):
        n = len(dd['uv'])
        qs.append(guard_quantity(dd, wmask_of(dd, n)))
        if ok_fit is not None and 'fitmask' in ok_fit and len(ok_fit['fitmask']) == n:
            qs.append(guard_quantity(dd, np.array(ok_fit['fitmask'], dtype=bool)))
    return any(q is None or guard_expect(q) == 'tie' for q in qs)


def branch_margin(d, mask):
    """|det H| / |H|^2 of the cross-moment matrix of fit_rscale on the rows of `mask`"""
    xy = np.array(d['xy'], dtype=float)[mask]
    uv = np.array(d['uv'], dtype=float)[mask]
    w = eff_weights(d, len(d['xy']))[mask]
    if len(xy) == 0 or w.sum() <= 0:
        return 0.0
    w = w / w.sum()
    X = xy - w.dot(xy)
    U = uv - w.dot(uv)
    H = (X * w[:, None]).T.dot(U)
    nrm = float((H ** 2).sum())
    if nrm == 0.0:
        return 0.0
    return abs(float(np.linalg.det(H))) / nrm


def design_cond(d, mask):
    uv = np.array(d['uv'], dtype=float)[mask]
    w = eff_weights(d, len(d['uv']))[mask]
    keep = w > 0
    uv = uv[keep]
    if len(uv) < 3:
        return float('inf')
    U = uv - uv.mean(axis=0)
    sc = float(np.abs(U).max()) or 1.0
    A = np.hstack([U / sc, np.ones((len(U), 1))])
    return float(np.linalg.cond(A))


def normal_cond(d):
    """condition number of the normal matrix fit_general inverts on the raw (uncentred) data"""
    uv = np.array(d['uv'], dtype=float).reshape(-1, 2)
    w = eff_weights(d, len(uv))
    if len(uv) < 3:
        return float('inf')
    u, v = uv[:, 0], uv[:, 1]
    M = np.array([[w.dot(u * u), w.dot(u * v), w.dot(u)], [w.dot(u * v), w.dot(v * v), w.dot(v)],
                  [w.dot(u), w.dot(v), w.sum()]])
    sc = float(np.abs(uv).max()) or 1.0
    D = np.diag([1.0 / sc, 1.0 / sc, 1.0])          # equilibrated: what full pivoting effectively achieves
    try:
        return float(np.linalg.cond(D.dot(M).dot(D) / max(w.sum(), 1e-300)))
    except np.linalg.LinAlgError:
        return float('inf')


def amplification(d):
    """how much a rounding of the inputs (relative to their magnitude) is amplified in the matrix of a
    general fit: condition of the centred design times offset / spread"""
    uv = np.array(d['uv'], dtype=float).reshape(-1, 2)
    if len(uv) < 3:
        return float('inf')
    w = eff_weights(d, len(uv))
    keep = w > 0
    if np.count_nonzero(keep) < 3:
        return float('inf')
    U = uv[keep] - uv[keep].mean(axis=0)
    sig = float(np.abs(U).max())
    R = float(np.abs(uv).max())
    if d.get('center') is not None:
        R = max(R, float(np.abs(uv - np.array(d['center'], dtype=float)).max()))
    if sig == 0.0:
        return float('inf')
    return design_cond(d, np.ones(len(uv), dtype=bool)) * max(1.0, R / sig)


def history_guard(d, par):
    """walks the clipping history with the implementation's own results for nclip = 0, 1, ...:
    `near` = some residual norm is within 1e-9 (relative) of a clipping cutoff (or within the
    rounding noise 1e-11 x data scale of it), `branch` = the smallest reflection-branch margin and
    `cond` = the largest design condition number over the masks of the history; None if a stage raised"""
    n = len(d['xy'])
    xy = np.array(d['xy'], dtype=float).reshape(-1, 2)
    uv = np.array(d['uv'], dtype=float).reshape(-1, 2)
    wm = wmask_of(d, n)
    near = False
    bmarg = float('inf')
    cond = 0.0
    N = par['nclip'] or 0
    nsig, stat = par['sigma'] if isinstance(par['sigma'], (tuple, list)) else (par['sigma'], 'rmse')
    scale = max(1.0, float(np.abs(xy).max()) if n else 1.0, float(np.abs(uv).max()) if n else 1.0)
    j = 0
    while True:
        st, _, fit = run_iter(d, dict(par, nclip=j))
        if st != 'ok':
            # a later stage raised (the points left by an earlier clipping step cannot be fitted): what was
            # learnt about the earlier stages still stands - in particular a clipping decision taken on
            # residuals at rounding level (an exactly fitting data set) is a near-tie
            return None if j == 0 else {'near': near, 'branch': bmarg, 'cond': cond}
        mask = np.array(fit['fitmask'], dtype=bool)
        if par['geom'] in ('rscale', 'rshift'):
            bmarg = min(bmarg, branch_margin(d, mask))
        if par['geom'] == 'general':
            cond = max(cond, design_cond(d, mask))
        if j >= N or fit['eff_nclip'] < j or np.count_nonzero(wm) == MINOBJ[par['geom']]:
            break
        c = np.array(fit['center'], dtype=float)
        F = np.array(fit['matrix'], dtype=float)
        s = np.array(fit['shift'], dtype=float)
        tested = mask if par['clip_accum'] else wm
        r = np.linalg.norm(xy[tested] - (uv[tested] - c).dot(F.T) - s - c, axis=1)
        cutoff = float(nsig) * float(fit[stat])
        if len(r) and float(np.min(np.abs(r - cutoff))) < 1e-9 * cutoff + 1e-11 * scale:
            near = True
        j += 1
    return {'near': near, 'branch': bmarg, 'cond': cond}


# ---------------------------------------------------------------------------------------------
# relations
# ---------------------------------------------------------------------------------------------
def rot(theta_deg):
    k = theta_deg / 90.0
    if k == int(k):
        c, s = [(1.0, 0.0), (0.0, 1.0), (-1.0, 0.0), (0.0, -1.0)][int(k) % 4]
    else:
        c, s = math.cos(math.radians(theta_deg)), math.sin(math.radians(theta_deg))
    return np.array([[c, -s], [s, c]])


def mk_sim(lam, theta, flip, t):
    """[lin 2x2, translation 2]: x -> lam R(theta) diag(1, -1 if flip) x + t"""
    L = lam * rot(theta)
    if flip:
        L = L.dot(np.diag([1.0, -1.0]))
    return [L.tolist(), [float(t[0]), float(t[1])]]


IDENT = [[[1.0, 0.0], [0.0, 1.0]], [0.0, 0.0]]


def apply_rel(d, rel):
    """the transformed data"""
    n = len(d['xy'])
    xy = np.array(d['xy'], dtype=float).reshape(-1, 2)
    uv = np.array(d['uv'], dtype=float).reshape(-1, 2)
    out = dict(d)
    k = rel['kind']
    if k == 'perm':
        p = list(rel['perm'])
        out['xy'] = xy[p].tolist()
        out['uv'] = uv[p].tolist()
        out['wxy'] = None if d['wxy'] is None else [d['wxy'][i] for i in p]
        out['wuv'] = None if d['wuv'] is None else [d['wuv'][i] for i in p]
    elif k == 'sim':
        A, a = np.array(rel['A'][0]), np.array(rel['A'][1])
        B, b = np.array(rel['B'][0]), np.array(rel['B'][1])
        out['xy'] = (xy.dot(A.T) + a).tolist() if n else []
        out['uv'] = (uv.dot(B.T) + b).tolist() if n else []
        if d['center'] is not None:
            out['center'] = (B.dot(np.array(d['center'], dtype=float)) + b).tolist()
    elif k == 'wscale':
        c = rel['c']
        out['wxy'] = None if d['wxy'] is None else [c * w for w in d['wxy']]
        out['wuv'] = None if d['wuv'] is None else [c * w for w in d['wuv']]
    elif k == 'center':
        out['center'] = list(rel['c'])
    elif k == 'uniform':
        out['wxy'] = None if rel['cx'] is None else [rel['cx']] * n
        out['wuv'] = None if rel['cu'] is None else [rel['cu']] * n
    else:
        raise ValueError(k)
    return out


def expected(obs, rel):
    """observables the property predicts for the transformed problem"""
    k = rel['kind']
    e = dict(obs)
    if k == 'perm':
        e['mask'] = obs['mask'][list(rel['perm'])]
    elif k == 'sim':
        A, a = np.array(rel['A'][0]), np.array(rel['A'][1])
        B, b = np.array(rel['B'][0]), np.array(rel['B'][1])
        F2 = A.dot(obs['F']).dot(np.linalg.inv(B))
        lamA = math.sqrt(abs(float(np.linalg.det(A))))
        e['F'] = F2
        e['s'] = A.dot(obs['s']) + a - F2.dot(b)
        e['rmse'] = lamA * obs['rmse']
        e['mae'] = lamA * obs['mae']
    return e


def compare(got, exp, d2, check_mask=True):
    """list of discrepancies between observed and predicted observables of the transformed problem"""
    bad = []
    xy = np.array(d2['xy'], dtype=float).reshape(-1, 2)
    uv = np.array(d2['uv'], dtype=float).reshape(-1, 2)
    fmax = max(1.0, float(np.abs(exp['F']).max()))
    scale = max(1.0, float(np.abs(xy).max()) if len(xy) else 1.0,
                fmax * (float(np.abs(uv).max()) if len(uv) else 1.0))
    if d2.get('center') is not None:
        scale = max(scale, (1.0 + fmax) * float(np.abs(np.array(d2['center'], dtype=float)).max()))
    dF = float(np.abs(got['F'] - exp['F']).max())
    if not dF <= TOL * fmax:
        bad.append('matrix differs by %.3g (|F| %.3g)' % (dF, fmax))
    ds = float(np.abs(got['s'] - exp['s']).max())
    if not ds <= TOL * scale:
        bad.append('effective shift differs by %.3g (scale %.3g)' % (ds, scale))
    for key in ('rmse', 'mae'):
        dd = abs(got[key] - exp[key])
        if not dd <= TOL * scale:
            bad.append('%s differs by %.3g (%.6g vs %.6g)' % (key, dd, got[key], exp[key]))
    if check_mask and not np.array_equal(got['mask'], exp['mask']):
        bad.append('retained set differs: %s vs expected %s'
                   % (''.join('1' if x else '0' for x in got['mask']), ''.join('1' if x else '0' for x in exp['mask'])))
    return bad


# ---------------------------------------------------------------------------------------------
# generators
# ---------------------------------------------------------------------------------------------
def gen_weights(rng, n, k, allow_zero=True):
    if rng.random() < 0.25:
        w = [rng.randint(1, 9) for _ in range(n)]          # integer weight column
        if allow_zero and n > k + 1 and rng.random() < 0.4:
            for i in rng.sample(range(n), rng.randint(1, max(1, (n - k) // 3))):
                w[i] = 0
        return w
    w = [round(rng.uniform(0.2, 5.0), 3) for _ in range(n)]
    if allow_zero and n > k + 1 and rng.random() < 0.4:
        for i in rng.sample(range(n), rng.randint(1, max(1, (n - k) // 3))):
            w[i] = 0.0
    return w


def gen_problem(rng):
    geom = rng.choice(GEOMS)
    k = MINOBJ[geom]
    fam = rng.choice(['random', 'random', 'cluster', 'lattice'])
    r = rng.random()
    if r < 0.08:
        n = k
    elif r < 0.2:
        n = k + 1
    elif r < 0.7:
        n = rng.randint(k + 2, 14)
    else:
        n = rng.randint(15, 60)
    S = rng.choice([4.0, 100.0, 2048.0])
    off = np.array([rng.uniform(-3, 3) * S, rng.uniform(-3, 3) * S]) if rng.random() < 0.6 else np.zeros(2)
    nprng = np.random.default_rng(rng.getrandbits(32))
    if fam == 'lattice':
        S = 16.0
        off = np.array([float(rng.randint(-20, 20)), float(rng.randint(-20, 20))])
        uv = nprng.integers(-8, 9, size=(n, 2)).astype(float) + off
    elif fam == 'cluster':
        nc = rng.randint(2, 4)
        cen = nprng.uniform(-S, S, size=(nc, 2))
        uv = cen[nprng.integers(0, nc, size=n)] + nprng.normal(0, S / 20, size=(n, 2)) + off
    else:
        uv = nprng.uniform(-S, S, size=(n, 2)) + off
    # true map
    theta = rng.choice([0.0, 90.0, 180.0, 45.0, rng.uniform(0, 360), rng.uniform(-2, 2)])
    flipF = rng.random() < 0.25
    if geom == 'shift':
        F = np.eye(2)
    elif geom == 'rshift':
        F = rot(theta).dot(np.diag([1.0, -1.0 if flipF else 1.0]))
    elif geom == 'rscale':
        F = rng.choice([1.0, 0.5, 2.0, rng.uniform(0.3, 3.0)]) * rot(theta).dot(np.diag([1.0, -1.0 if flipF else 1.0]))
    else:
        F = rot(theta).dot(np.array([[rng.uniform(0.5, 2), rng.uniform(-0.3, 0.3)], [0.0, rng.uniform(0.5, 2)]]))
        if flipF:
            F = F.dot(np.diag([1.0, -1.0]))
    s = np.array([rng.uniform(-1, 1) * S, rng.uniform(-1, 1) * S])
    if fam == 'lattice':
        F = np.round(F)
        if abs(np.linalg.det(F)) < 0.5:
            F = np.eye(2)
        s = np.round(s)
    xy = uv.dot(F.T) + s
    noise = rng.choice([0.0, 1e-3, 1e-3, 3e-3, 1e-2, 1e-2]) * S
    if fam == 'lattice':
        xy = xy + nprng.integers(-1, 2, size=(n, 2)) * (1.0 if rng.random() < 0.7 else 0.0)
    elif noise > 0:
        xy = xy + nprng.normal(0, noise, size=(n, 2))
    # graded outliers
    if n > k + 2 and rng.random() < 0.7:
        nout = rng.randint(1, max(1, int(0.3 * n)))
        base = noise if noise > 0 else 1e-3 * S
        for i in rng.sample(range(n), nout):
            mag = base * rng.choice([5, 10, 30, 100, 500]) * rng.uniform(0.8, 1.2)
            ang = rng.uniform(0, 2 * math.pi)
            xy[i] += mag * np.array([math.cos(ang), math.sin(ang)])
            if fam == 'lattice':
                xy[i] = np.round(xy[i])
    wmode = rng.choice([0, 0, 1, 2, 3])
    wxy = gen_weights(rng, n, k) if wmode in (1, 3) else None
    wuv = gen_weights(rng, n, k) if wmode in (2, 3) else None
    cen = None
    if rng.random() < 0.5:
        cen = [float(off[0] + rng.uniform(-2, 2) * S), float(off[1] + rng.uniform(-2, 2) * S)]
        if fam == 'lattice':
            cen = [float(round(cen[0])), float(round(cen[1]))]
    nclip = rng.choice([0, 1, 2, 3, 3])
    stat = rng.choice(['rmse', 'rmse', 'mae', 'std'])
    nsig = rng.choice([1.5, 2.0, 2.5, 3.0, 5.0])
    sigma = (nsig, stat) if rng.random() < 0.8 else nsig
    data = {'xy': xy.tolist(), 'uv': uv.tolist(), 'wxy': wxy, 'wuv': wuv, 'center': cen, 'ld': rng.random() < 0.3}
    par = {'geom': geom, 'nclip': nclip, 'sigma': sigma, 'clip_accum': rng.random() < 0.5}
    return {'data': data, 'par': par, 'family': fam, 'S': S, 'wmode': wmode}


def gen_sim(rng, S, exact=False):
    if exact:
        lam = rng.choice([1.0, 2.0, 0.5, 4.0])
        theta = rng.choice([0.0, 90.0, 180.0, 270.0])
        t = [float(rng.randint(-30, 30)), float(rng.randint(-30, 30))]
    else:
        # (also changes of unit by many orders of magnitude - arcsec to radian, pixels to degrees: a threshold that is
        #  not scale-free, e.g. an absolute epsilon in the reflection decision, shows only there)
        lam = rng.choice([1.0, 1.0, 2.0 ** rng.randint(-10, 10), 10.0 ** rng.uniform(-3, 3), 4.84813681109536e-06,
                          1e-6, 2.0 ** -24, 1e5])
        theta = rng.choice([0.0, 90.0, 180.0, 270.0, 45.0, 30.0, 135.0, rng.uniform(0, 360), rng.uniform(0, 360)])
        tm = rng.choice([0.1, 1.0, 1.0, 5.0]) * S * lam
        t = [rng.uniform(-1, 1) * tm, rng.uniform(-1, 1) * tm] if rng.random() < 0.8 else [0.0, 0.0]
    return mk_sim(lam, theta, rng.random() < 0.35, t)


def gen_rels(rng, prob):
    """metamorphic relations for one problem: (relation, needs) with needs in
    {'branch' (reflection branch must be determined), None}"""
    d, par = prob['data'], prob['par']
    n = len(d['xy'])
    geom = par['geom']
    S = prob['S']
    exact = prob['family'] == 'lattice'
    rels = []
    p = list(range(n))
    rng.shuffle(p)
    if rng.random() < 0.3:
        p = sorted(range(n), key=lambda i: d['uv'][i])        # a sorting permutation
    rels.append(({'kind': 'perm', 'perm': p}, None))
    Q = gen_sim(rng, S, exact)
    Q2 = [Q[0], gen_sim(rng, S, exact)[1]]
    if not exact:
        # another translation of the size of the TRANSFORMED data (a translation many orders of magnitude larger than
        # the scaled data only measures the cancellation in the uncentred sums, not the fitters)
        lamq = math.sqrt(abs(float(np.linalg.det(np.array(Q[0])))))
        k2 = rng.choice([0.1, 1.0, 1.0, 5.0]) * S * lamq
        Q2 = [Q[0], [rng.uniform(-1, 1) * k2, rng.uniform(-1, 1) * k2]]
    rels.append(({'kind': 'sim', 'A': Q, 'B': Q, 'label': 'both'}, None))
    if rng.random() < 0.5:
        rels.append(({'kind': 'sim', 'A': Q, 'B': Q2, 'label': 'both-other-translation'}, None))
    # one set alone
    # (a pure translation of the size of the data, whatever scale factor the similarities of this problem drew)
    kt = rng.choice([0.1, 1.0, 1.0, 5.0, 100.0]) * S
    T = mk_sim(1.0, 0.0, False, [rng.uniform(-1, 1) * kt, rng.uniform(-1, 1) * kt] if not exact
               else [float(rng.randint(-9, 9)), 3.0])
    if rng.random() < 0.5:
        rels.append(({'kind': 'sim', 'A': T, 'B': IDENT, 'label': 'translate-xy'}, None))
    else:
        rels.append(({'kind': 'sim', 'A': IDENT, 'B': T, 'label': 'translate-uv'}, None))
    if geom in ('rscale', 'general', 'rshift'):
        Q3 = gen_sim(rng, S, exact)
        if geom == 'rshift':       # isometries only
            Q3 = mk_sim(1.0, rng.choice([90.0, 180.0, 45.0, rng.uniform(0, 360)]) if not exact
                        else rng.choice([90.0, 180.0, 270.0]), rng.random() < 0.4, Q3[1])
        flip3 = float(np.linalg.det(np.array(Q3[0]))) < 0
        need = 'branch' if geom != 'general' else None
        if rng.random() < 0.5:
            rels.append(({'kind': 'sim', 'A': Q3, 'B': IDENT, 'label': 'xy-alone' + ('-flip' if flip3 else '')}, need))
        else:
            rels.append(({'kind': 'sim', 'A': IDENT, 'B': Q3, 'label': 'uv-alone' + ('-flip' if flip3 else '')}, need))
    if d['wxy'] is not None or d['wuv'] is not None:
        # (also factors that take the sum of the weights far from 1: an absolute threshold anywhere would show)
        c = rng.choice([2.0, 0.5, 0.25, 3.7, 1e-3, 1e3, rng.uniform(0.1, 10), 1e-12, 1e12, 2.0 ** -70, 2.0 ** 60]) if not exact \
            else rng.choice([2.0, 0.5, 4.0, 2.0 ** -70, 2.0 ** 60])
        rels.append(({'kind': 'wscale', 'c': c}, None))
    else:
        mode = rng.choice([1, 2, 3])
        cx = rng.choice([1.0, 2.0, 0.5, 3.3, 1e-12, 2.0 ** 50]) if mode in (1, 3) else None
        cu = rng.choice([1.0, 4.0, 0.25, 0.7, 2.0 ** -60, 1e9]) if mode in (2, 3) else None
        rels.append(({'kind': 'uniform', 'cx': cx, 'cu': cu}, None))
    c2 = [rng.uniform(-4, 4) * S, rng.uniform(-4, 4) * S] if not exact else [float(rng.randint(-40, 40)), float(rng.randint(-40, 40))]
    rels.append(({'kind': 'center', 'c': c2}, None))
    return rels


# ---------------------------------------------------------------------------------------------
# correspondence with the Lean model
# ---------------------------------------------------------------------------------------------
def fit8_line(d, geom, mode, center):
    n = len(d['xy'])
    wm = (1 if d['wxy'] is not None else 0) + (2 if d['wuv'] is not None else 0)
    enc = (lambda v: q2s(to_fraction(float(v)))) if mode == 'Q' else (lambda v: f2x(float(v)))
    toks = ['fit8', mode, geom, str(n), str(wm), q2s(TINY) if mode == 'Q' else f2x(float(TINY)),
            enc(center[0]), enc(center[1])]
    for i in range(n):
        x, y = d['xy'][i]
        u, v = d['uv'][i]
        toks += [enc(x), enc(y), enc(u), enc(v), enc(1.0 if d['wxy'] is None else d['wxy'][i]),
                 enc(1.0 if d['wuv'] is None else d['wuv'][i])]
    return ' '.join(toks)


ERRMAP = {'notEnoughPoints': 'NotEnoughPointsError', 'singular': 'SingularMatrixError', 'badWeights': 'ValueError',
          'badArg': 'ValueError'}


def queue_model(ctx, lines, pending, case, d, geom, impl, via_center=None):
    """schedule the model on data d; `impl` = (status, errname, observables or None) of the implementation"""
    n = len(d['xy'])
    small = n <= 10
    if geom in ('shift', 'general') and small:
        mode = 'Q'
    else:
        mode = 'F'
    if via_center is not None:
        c = via_center
    elif mode == 'F' and n:
        c = [float(x) for x in np.array(d['uv'], dtype=float).reshape(-1, 2).mean(axis=0)]
    else:
        c = [0.0, 0.0]
    lines.append(fit8_line(d, geom, mode, c))
    pending.append((case, d, geom, mode, impl))


def _gq(d, geom):
    if geom != 'general':
        return None
    q = guard_quantity(d)
    return None if q is None else float(q)


def singular_tie(d, geom, mode):
    """`singular` on one side only (model / implementation): a near-tie?  fit_general: by the exact guard
    quantity of the data (band around 2^-52, `common.guard_mismatch_is_tie`); fit_rscale / fit_rshift (coincident
    points, su2v2 > 0, run on doubles only): as before"""
    if geom != 'general':
        return True
    return guard_mismatch_is_tie(guard_quantity(d), mode, len(d['uv']))


def compare_model(ctx, outs, pending):
    for out, (case, d, geom, mode, impl) in zip(outs, pending):
        toks = out.split()
        st, err, obs = impl
        if not toks or toks[0] == 'bad-op':
            ctx.disagree(case, {'op': 'fit8', 'model': out[:60], 'impl': st})
            continue
        if toks[0] == 'err':
            ctx.branch('model:err:' + toks[1])
            if st == 'ok':
                if toks[1] == 'singular' and singular_tie(d, geom, mode):
                    # the collinearity guard of fit_general decided by rounding
                    ctx.branch('guard-mismatch-in-band:' + mode)
                    ctx.near_tie()
                else:
                    ctx.disagree(case, {'op': 'fit8', 'mode': mode, 'model': out, 'impl': 'returned a fit',
                                        'guard_quantity': _gq(d, geom)})
            elif ERRMAP.get(toks[1]) != err:
                if (toks[1] == 'singular' or err == 'SingularMatrixError') and singular_tie(d, geom, mode):
                    ctx.near_tie()
                else:
                    ctx.disagree(case, {'op': 'fit8', 'mode': mode, 'model': out, 'impl': err,
                                        'guard_quantity': _gq(d, geom)})
            continue
        if st != 'ok':
            if err == 'SingularMatrixError' and singular_tie(d, geom, mode):
                ctx.branch('guard-mismatch-in-band:' + mode)
                ctx.near_tie()       # decided by rounding against the threshold of the guard
            else:
                ctx.disagree(case, {'op': 'fit8', 'mode': mode, 'model': 'returned a fit', 'impl': err,
                                    'guard_quantity': _gq(d, geom)})
            continue
        vals = [float(s2q(t)) if mode == 'Q' else x2f(t) for t in toks[1:7]]
        got = {'F': np.array([[vals[0], vals[1]], [vals[2], vals[3]]]), 's': np.array(vals[4:6]),
               'rmse': obs['rmse'], 'mae': obs['mae'], 'mask': obs['mask']}
        bad = compare(got, obs, d, check_mask=False)
        if bad:
            if geom == 'general' and (normal_cond(d) > 1e6 or (
                    mode == 'F' and design_cond(d, np.ones(len(d['xy']), dtype=bool)) > 1e4)):
                ctx.near_tie()
                continue
            if geom in ('rscale', 'rshift') and branch_margin(d, np.ones(len(d['xy']), dtype=bool)) < 1e-6:
                ctx.near_tie()
                continue
            ctx.disagree(case, {'op': 'fit8', 'mode': mode, 'what': bad, 'model': vals,
                                'impl': obs['F'].ravel().tolist() + obs['s'].tolist()})


def clip_correspondence(ctx):
    """op clip8 against numpy's comparison"""
    rng = ctx.rng
    lines, exp, cases = [], [], []
    for _ in range(ctx.n(30, 300)):
        n = rng.randint(0, 12)
        stat = rng.choice([0.5, 1.0, 3.25, rng.uniform(0, 5)])
        nsig = rng.choice([1.5, 2.0, 3.0])
        norms = [rng.choice([nsig * stat, rng.uniform(0, 4 * nsig * stat), 0.0]) for _ in range(n)]
        case = {'op': 'clip8', 'nsigma': nsig, 'stat': stat, 'norms': norms}
        ctx.case(case, nontrivial=n > 0, branch='clip8', impl=False)
        lines.append('clip8 F %s %s %s' % (f2x(nsig), f2x(stat), ' '.join(f2x(x) for x in norms)))
        exp.append(list(np.array(norms) < nsig * stat))
        cases.append(case)
    for out, e, case in zip(ctx.driver(lines), exp, cases):
        toks = out.split()
        got = [t == '1' for t in toks[1:]]
        if toks[:1] != ['ok'] or got != [bool(x) for x in e]:
            ctx.disagree(case, {'op': 'clip8', 'model': out, 'impl': [int(x) for x in e]})


# ---------------------------------------------------------------------------------------------
# one problem
# ---------------------------------------------------------------------------------------------
def _case(prob, rel, target):
    return {'target': target, 'family': prob.get('family'), 'par': prob['par'], 'data': prob['data'], 'rel': rel}


def _digest(data):
    import hashlib
    h = hashlib.sha1()
    for k in ('xy', 'uv', 'wxy', 'wuv', 'center'):
        v = data.get(k)
        h.update(b'-' if v is None else np.array(v, dtype=float).tobytes())
    return h.hexdigest()


def _count(ctx, case, nontrivial, branch, impl=True):
    """ctx.case with a light canonical form (digest of the arrays) once the evidence samples are taken"""
    if len(ctx.samples) < 3:
        ctx.case(case, nontrivial=nontrivial, branch=branch, impl=impl)
        return
    light = {k: v for k, v in case.items() if k != 'data'}
    light['data'] = case['_dg'] if '_dg' in case else _digest(case['data'])
    light.pop('_dg', None)
    ctx.case(light, nontrivial=nontrivial, branch=branch, impl=impl)


def check_must(ctx, prob, rels, lines, pending):
    """corpus problems with a prescribed outcome of fit_general in EVERY frame and labelling:
    must = 'singular' (exactly collinear / coincident points: SingularMatrixError from fit_general and from
    iter_linear_fit without and with clipping, `err singular` from the model) or must = 'fit' (thin but
    legitimate sets: a fit from all of them)"""
    d, par, must = prob['data'], prob['par'], prob['must']
    geom = par['geom']
    n = len(d['xy'])
    ds = dict(d, center=None)
    members = [(None, ds)] + [(rel, apply_rel(ds, rel)) for rel, _ in rels if rel['kind'] != 'center']
    for rel, dd in members:
        case = {'target': 'must-' + must, 'par': {'geom': geom}, 'data': dd,
                'rel': None if rel is None else {k: v for k, v in rel.items()}}
        _count(ctx, case, True, 'must:%s:%s' % (must, 'base' if rel is None else rel['kind'] + ':' + rel.get('label', '')))
        q = guard_quantity(dd)
        want = guard_expect(q)
        if want != must:
            # the transformed frame moved the data across the band (cannot happen for exact / thin corpus data)
            ctx.near_tie()
            continue
        s1 = run_single(dd, geom)
        outcomes = [('fit_general', s1)]
        for nclip, cen in ((0, None), (3, None), (3, [16.0, -4.0])):
            outcomes.append(('iter_linear_fit(nclip=%d, center=%s)' % (nclip, cen),
                             run_iter(dict(dd, center=cen), dict(par, nclip=nclip))))
        for name, r in outcomes:
            if must == 'singular' and not (r[0] == 'err' and r[1] == 'SingularMatrixError'):
                ctx.oracle_fail(case, {'what': '%s on exactly collinear / coincident points did not raise '
                                               'SingularMatrixError' % name, 'got': r[1] or 'returned a fit',
                                       'guard_quantity': None if q is None else float(q)})
            if must == 'fit' and r[0] != 'ok':
                ctx.oracle_fail(case, {'what': '%s refused a thin but legitimate point set' % name, 'got': r[1],
                                       'guard_quantity': None if q is None else float(q)})
        if not ctx.search_only:
            queue_model(ctx, lines, pending, case, dd, geom,
                        (s1[0], s1[1], observe(s1[2], n) if s1[0] == 'ok' else None))


def check_problem(ctx, prob, rels, lines, pending):
    d, par = prob['data'], prob['par']
    _LD.clear()
    geom = par['geom']
    n = len(d['xy'])
    if prob.get('must'):
        check_must(ctx, prob, rels, lines, pending)
    # ---- iter_linear_fit ------------------------------------------------
    st, err, fit = run_iter(d, par)
    # (also when the run raised: a raise after a clipping step taken on rounding-level residuals is a near-tie)
    guard = history_guard(d, par)
    skip_all = False
    if st == 'ok' and guard is None:
        skip_all = True
    if guard is not None:
        if guard['near']:
            ctx.branch('skip:clip-near-tie')
            skip_all = True
        if geom in ('rscale', 'rshift') and guard['branch'] < 1e-6:
            ctx.branch('skip:reflection-branch-undetermined')
            skip_all = True
        if geom == 'general' and guard['cond'] > 1e5:
            ctx.branch('skip:ill-conditioned')
            skip_all = True
    obs = observe(fit, n) if st == 'ok' else None
    for rel, need in rels:
        case = _case(prob, rel, 'iter_linear_fit')
        trivial = (rel['kind'] == 'perm' and list(rel['perm']) == sorted(rel['perm'])) or st != 'ok'
        _count(ctx, case, not trivial, 'iter:%s:%s:%s' % (rel['kind'], rel.get('label', ''), geom))
        if skip_all:
            ctx.near_tie()
            continue
        d2 = apply_rel(d, rel)
        hist = guard['cond'] / max(1.0, design_cond(d, np.ones(n, dtype=bool))) if guard else 1.0
        if geom == 'general' and max(amplification(d), amplification(d2)) * max(1.0, hist) > 1e5:
            ctx.branch('skip:general-rounding-amplified')
            ctx.near_tie()
            continue
        par2 = par
        if rel['kind'] == 'uniform' and par['nclip'] and isinstance(par['sigma'], tuple) and par['sigma'][1] == 'std':
            # the weighted std has another denominator: the property omits it, so do the clipping histories
            par2 = dict(par, nclip=0)
            st0, err0, fit0 = run_iter(d, par2)
            base = (st0, err0, observe(fit0, n) if st0 == 'ok' else None)
        else:
            base = (st, err, obs)
        st2, err2, fit2 = run_iter(d2, par2)
        if base[0] != 'ok' or st2 != 'ok':
            ctx.branch('iter:raised')
            if base[0] != st2 or (base[1] != err2):
                okf = fit2 if st2 == 'ok' else (fit if (base[0] == 'ok' and par2 is par) else None)
                if 'SingularMatrixError' in (base[1], err2) and (geom != 'general' or pair_singular_is_tie(d, d2, okf)):
                    ctx.near_tie()
                else:
                    ctx.oracle_fail(case, {'what': 'one member of the pair raised, the other did not (or another '
                                                   'exception)', 'base': base[1] or 'ok', 'transformed': err2 or 'ok'})
            continue
        got = observe(fit2, n)
        bad = compare(got, expected(base[2], rel), d2)
        if bad:
            ctx.oracle_fail(case, {'what': 'iter_linear_fit: relation %s %s violated: %s'
                                           % (rel['kind'], rel.get('label', ''), '; '.join(bad)),
                                   'base': {'F': base[2]['F'].tolist(), 's_eff': base[2]['s'].tolist(),
                                            'rmse': base[2]['rmse'], 'mae': base[2]['mae']},
                                   'transformed': {'F': got['F'].tolist(), 's_eff': got['s'].tolist(),
                                                   'rmse': got['rmse'], 'mae': got['mae']}})
    # ---- centre handling of iter_linear_fit against the model ---------------
    if d['center'] is not None and not ctx.search_only and np.count_nonzero(wmask_of(d, n)) > 0:
        st0, err0, fit0 = run_iter(d, dict(par, nclip=0))
        wm = wmask_of(d, n)
        dm = {'xy': [d['xy'][i] for i in range(n) if wm[i]], 'uv': [d['uv'][i] for i in range(n) if wm[i]],
              'wxy': None if d['wxy'] is None else [d['wxy'][i] for i in range(n) if wm[i]],
              'wuv': None if d['wuv'] is None else [d['wuv'][i] for i in range(n) if wm[i]], 'center': d['center']}
        case = {'target': 'iter_linear_fit(nclip=0) vs model', 'par': par, 'data': d}
        _count(ctx, case, True, 'corr:centre:' + geom)
        o0 = observe(fit0, n) if st0 == 'ok' else None
        if o0 is not None:
            o0 = dict(o0, mask=np.ones(len(dm['xy']), dtype=bool))
        queue_model(ctx, lines, pending, case, dm, geom, (st0, err0, o0), via_center=d['center'])
    # ---- single-shot fitters ---------------------------------------------
    ds = dict(d, center=None)
    s1 = run_single(ds, geom)
    o1 = observe(s1[2], n) if s1[0] == 'ok' else None
    if not ctx.search_only:
        case = {'target': 'single-shot vs model', 'par': {'geom': geom}, 'data': ds}
        _count(ctx, case, True, 'corr:single:' + geom)
        queue_model(ctx, lines, pending, case, ds, geom, (s1[0], s1[1], o1))
    full = np.ones(n, dtype=bool)
    undetermined = geom in ('rscale', 'rshift') and (s1[0] != 'ok' or branch_margin(ds, full) < 1e-6)
    illcond = geom == 'general' and (s1[0] != 'ok' or design_cond(ds, full) > 1e5)
    for rel, need in rels:
        if rel['kind'] == 'center':
            continue
        case = _case(dict(prob, data=ds), rel, 'single-shot')
        _count(ctx, case, s1[0] == 'ok', 'single:%s:%s:%s' % (rel['kind'], rel.get('label', ''), geom))
        if undetermined or illcond:
            ctx.near_tie()
            continue
        d2 = apply_rel(ds, rel)
        if geom == 'general' and (max(normal_cond(ds), normal_cond(d2)) > 1e6
                                  or max(amplification(ds), amplification(d2)) > 1e5):
            ctx.branch('skip:single-general-uncentred-ill-conditioned')
            ctx.near_tie()
            continue
        s2 = run_single(d2, geom)
        if s1[0] != 'ok' or s2[0] != 'ok':
            if s1[0] != s2[0] or s1[1] != s2[1]:
                if 'SingularMatrixError' in (s1[1], s2[1]) and (geom != 'general' or pair_singular_is_tie(ds, d2, None)):
                    ctx.near_tie()
                else:
                    ctx.oracle_fail(case, {'what': 'one member of the pair raised, the other did not',
                                           'base': s1[1] or 'ok', 'transformed': s2[1] or 'ok'})
            continue
        got = observe(s2[2], n)
        if not ctx.search_only:
            queue_model(ctx, lines, pending, case, d2, geom, ('ok', None, got))
        bad = compare(got, expected(o1, rel), d2)
        if rel['kind'] == 'perm':       # residuals travel with their rows
            r1 = np.array(s1[2]['resids'], dtype=float)[list(rel['perm'])]
            r2 = np.array(s2[2]['resids'], dtype=float)
            sc = max(1.0, float(np.abs(np.array(ds['xy'])).max()) if n else 1.0)
            if r1.shape != r2.shape or (n and float(np.abs(r1 - r2).max()) > TOL * sc):
                bad.append('residuals are not permuted with the rows')
        if bad:
            ctx.oracle_fail(case, {'what': 'single-shot %s: relation %s %s violated: %s'
                                           % (geom, rel['kind'], rel.get('label', ''), '; '.join(bad)),
                                   'base': {'F': o1['F'].tolist(), 's': o1['s'].tolist(), 'rmse': o1['rmse'],
                                            'mae': o1['mae']},
                                   'transformed': {'F': got['F'].tolist(), 's': got['s'].tolist(),
                                                   'rmse': got['rmse'], 'mae': got['mae']}})


# ---------------------------------------------------------------------------------------------
# hand-built edge cases (run first)
# ---------------------------------------------------------------------------------------------
def corpus():
    out = []
    sq = [[1.0, 0.0], [0.0, 1.0], [-1.0, 0.0], [0.0, -1.0]]
    r45 = [[x * math.cos(math.pi / 4) - y * math.sin(math.pi / 4) + 3.0,
            x * math.sin(math.pi / 4) + y * math.cos(math.pi / 4) - 1.0] for x, y in sq]
    QA = mk_sim(2.0, 90.0, True, [5.0, -7.0])
    QB = mk_sim(0.5, 180.0, False, [-16.0, 8.0])
    allrel = [({'kind': 'perm', 'perm': [2, 0, 3, 1]}, None),
              ({'kind': 'sim', 'A': QA, 'B': QA, 'label': 'both'}, None),
              ({'kind': 'sim', 'A': QB, 'B': QB, 'label': 'both'}, None),
              ({'kind': 'sim', 'A': mk_sim(1.0, 0.0, False, [1e6, -1e6]), 'B': IDENT, 'label': 'translate-xy'}, None),
              ({'kind': 'sim', 'A': IDENT, 'B': mk_sim(1.0, 0.0, False, [-512.0, 64.0]), 'label': 'translate-uv'}, None),
              ({'kind': 'center', 'c': [1000.0, -2000.0]}, None),
              ({'kind': 'uniform', 'cx': 2.0, 'cu': None}, None),
              ({'kind': 'uniform', 'cx': 2.0, 'cu': 0.5}, None)]
    for geom in GEOMS:
        # the exact 45-degree square (finding F1 territory), all relations
        out.append(({'data': {'xy': r45, 'uv': sq, 'wxy': None, 'wuv': None, 'center': None},
                     'par': {'geom': geom, 'nclip': 2, 'sigma': (3.0, 'rmse'), 'clip_accum': False},
                     'family': 'corpus', 'S': 1.0}, allrel))
    # a weighted lattice problem with one gross outlier, far centre, every statistic
    uv = [[0.0, 0.0], [4.0, 0.0], [0.0, 4.0], [4.0, 4.0], [2.0, 1.0], [1.0, 3.0], [3.0, 2.0], [-2.0, 5.0]]
    xy = [[u + 10.0, v - 3.0] for u, v in uv]
    xy[4] = [40.0, 40.0]
    xy[6] = [13.25, -0.75]
    w1 = [1.0, 2.0, 1.0, 4.0, 1.0, 2.0, 1.0, 0.5]
    w2 = [2.0, 2.0, 1.0, 1.0, 4.0, 1.0, 0.0, 1.0]
    rel2 = [({'kind': 'perm', 'perm': [7, 6, 5, 4, 3, 2, 1, 0]}, None),
            ({'kind': 'sim', 'A': QA, 'B': QA, 'label': 'both'}, None),
            ({'kind': 'wscale', 'c': 4.0}, None),
            ({'kind': 'center', 'c': [-100.0, 250.0]}, None),
            ({'kind': 'sim', 'A': IDENT, 'B': mk_sim(1.0, 0.0, False, [7.0, 9.0]), 'label': 'translate-uv'}, None)]
    for geom in GEOMS:
        for stat in ('rmse', 'mae', 'std'):
            for accum in (False, True):
                out.append(({'data': {'xy': xy, 'uv': uv, 'wxy': w1, 'wuv': w2, 'center': [2.0, 2.0]},
                             'par': {'geom': geom, 'nclip': 3, 'sigma': (2.0, stat), 'clip_accum': accum},
                             'family': 'corpus', 'S': 4.0}, rel2))
    out += guard_corpus()
    # minimum number of points (nclip is reset), two-point sets on a lattice (reflection branch exactly 0)
    for geom in GEOMS:
        k = MINOBJ[geom]
        out.append(({'data': {'xy': [[3.0, 4.0], [7.0, 4.0], [3.0, 8.0]][:k], 'uv': [[0.0, 0.0], [4.0, 0.0], [0.0, 2.0]][:k],
                              'wxy': None, 'wuv': [1.0, 2.0, 4.0][:k], 'center': None},
                     'par': {'geom': geom, 'nclip': 3, 'sigma': 3.0, 'clip_accum': False},
                     'family': 'corpus', 'S': 4.0},
                    [({'kind': 'perm', 'perm': list(range(k))[::-1]}, None),
                     ({'kind': 'sim', 'A': mk_sim(2.0, 0.0, False, [8.0, 8.0]), 'B': mk_sim(2.0, 0.0, False, [8.0, 8.0]),
                       'label': 'both'}, None),
                     ({'kind': 'wscale', 'c': 0.5}, None),
                     ({'kind': 'center', 'c': [16.0, -4.0]}, None)]))
        # too few points: both members must raise the same error
        out.append(({'data': {'xy': [[3.0, 4.0], [7.0, 4.0], [3.0, 8.0]][:k - 1],
                              'uv': [[0.0, 0.0], [4.0, 0.0], [0.0, 2.0]][:k - 1],
                              'wxy': None, 'wuv': None, 'center': [0.0, 0.0]},
                     'par': {'geom': geom, 'nclip': 0, 'sigma': 3.0, 'clip_accum': False},
                     'family': 'corpus', 'S': 4.0},
                    [({'kind': 'sim', 'A': QA, 'B': QA, 'label': 'both'}, None)]))
    return out


THIN_BASE = [(-1.0, 0.3), (-0.6, -0.8), (-0.2, 1.0), (0.1, -0.4), (0.5, 0.7), (0.9, -1.0), (1.0, 0.2)]
THIN_NOISE = [(0.31, -0.12), (-0.77, 0.45), (0.08, 0.93), (-0.52, -0.64), (0.99, 0.17), (-0.23, 0.71), (0.66, -0.88)]


def guard_corpus():
    """problems for the collinearity guard of fit_general: thin but legitimate sets (must be fitted in every
    frame) and exactly collinear / coincident integer sets (must be refused in every frame)"""
    out = []
    Q30 = mk_sim(1.0, 30.0, False, [5.0, -7.0])
    Q90 = mk_sim(2.0, 90.0, True, [5.0, -7.0])
    Qh = mk_sim(0.5, 180.0, False, [-16.0, 8.0])
    L = 100.0
    c30, s30 = math.cos(math.radians(30)), math.sin(math.radians(30))
    F = np.array([[1.01, 0.02], [-0.015, 0.99]])
    w1 = [1.0, 2.0, 1.0, 0.5, 3.0, 1.0, 2.0]
    w2 = [2.0, 1.0, 4.0, 1.0, 1.0, 0.25, 1.0]
    for a in (1e-6, 1e-5, 1e-4, 1e-3):
        for orient in ('u', 'v', 'r30'):
            if orient == 'u':
                uv = [[L * t, L * a * q] for t, q in THIN_BASE]
            elif orient == 'v':
                uv = [[L * a * q, L * t] for t, q in THIN_BASE]
            else:
                uv = [[L * (c30 * t - s30 * a * q) + 17.0, L * (s30 * t + c30 * a * q) - 5.0] for t, q in THIN_BASE]
            xy = (np.array(uv).dot(F.T) + np.array([3.5, -2.25]) + 1e-3 * np.array(THIN_NOISE)).tolist()
            for wxy, wuv in ((None, None), (w1, w2)):
                rels = [({'kind': 'perm', 'perm': [6, 2, 4, 0, 5, 1, 3]}, None),
                        ({'kind': 'sim', 'A': Q30, 'B': Q30, 'label': 'both'}, None),
                        ({'kind': 'sim', 'A': Q90, 'B': Q90, 'label': 'both'}, None),
                        ({'kind': 'sim', 'A': IDENT, 'B': mk_sim(1.0, 0.0, False, [-512.0, 64.0]),
                          'label': 'translate-uv'}, None),
                        ({'kind': 'center', 'c': [40.0, -20.0]}, None)]
                rels.append(({'kind': 'wscale', 'c': 4.0}, None) if wxy is not None else
                            ({'kind': 'uniform', 'cx': 2.0, 'cu': 0.5}, None))
                out.append(({'data': {'xy': xy, 'uv': uv, 'wxy': wxy, 'wuv': wuv, 'center': None},
                             'par': {'geom': 'general', 'nclip': 0, 'sigma': (3.0, 'rmse'), 'clip_accum': False},
                             'family': 'corpus-thin', 'S': L, 'must': 'fit'}, rels))
    line = [[4.0, 1.0], [7.0, 3.0], [10.0, 5.0], [-2.0, -3.0], [1.0, -1.0], [13.0, 7.0]]          # 2u - 3v = 5
    sets = [[[2.0, 3.0], [-1.0, 0.0], [-9.0, -8.0]],                                              # the F13 witness
            line,
            [[5.0, float(t)] for t in (-3, 0, 1, 4, 9)],
            [[float(t), -3.0] for t in (-3, 0, 1, 4, 9)],
            [[1000000.0 + 3 * t, 2000000.0 - 7 * t] for t in (-5, -1, 0, 2, 7, 11)],
            [[7.0, -2.0]] * 5]
    wi = [1, 2, 3, 1, 5, 2]
    vi = [4, 1, 1, 2, 1, 3]
    for uv in sets:
        n = len(uv)
        xy = [[u + 1.0 + 0.25 * (i % 3), v - 2.0 - 0.5 * (i % 2)] for i, (u, v) in enumerate(uv)]
        for wxy, wuv in ((None, None), (wi[:n], None), ([float(v) for v in wi[:n]], [float(v) for v in vi[:n]])):
            rels = [({'kind': 'perm', 'perm': list(range(n))[::-1]}, None),
                    ({'kind': 'sim', 'A': Q90, 'B': Q90, 'label': 'both'}, None),
                    ({'kind': 'sim', 'A': Qh, 'B': Qh, 'label': 'both'}, None),
                    ({'kind': 'sim', 'A': Q30, 'B': Q30, 'label': 'both'}, None),
                    ({'kind': 'sim', 'A': IDENT, 'B': mk_sim(1.0, 0.0, False, [-512.0, 64.0]),
                      'label': 'translate-uv'}, None),
                    ({'kind': 'center', 'c': [16.0, -4.0]}, None)]
            rels.append(({'kind': 'wscale', 'c': 4.0}, None) if wxy is not None else
                        ({'kind': 'uniform', 'cx': 2.0, 'cu': None}, None))
            out.append(({'data': {'xy': xy, 'uv': uv, 'wxy': wxy, 'wuv': wuv, 'center': None},
                         'par': {'geom': 'general', 'nclip': 3, 'sigma': (3.0, 'rmse'), 'clip_accum': False},
                         'family': 'corpus-degenerate', 'S': 16.0, 'must': 'singular'}, rels))
    # the only points off the line carry no weight
    uv = line + [[0.0, 9.0], [3.0, -8.0]]
    xy = [[u + 1.0, v - 2.0] for u, v in uv]
    out.append(({'data': {'xy': xy, 'uv': uv, 'wxy': wi + [0, 0], 'wuv': None, 'center': None},
                 'par': {'geom': 'general', 'nclip': 3, 'sigma': (3.0, 'rmse'), 'clip_accum': True},
                 'family': 'corpus-degenerate', 'S': 16.0, 'must': 'singular'},
                [({'kind': 'perm', 'perm': [7, 6, 5, 4, 3, 2, 1, 0]}, None),
                 ({'kind': 'sim', 'A': Q90, 'B': Q90, 'label': 'both'}, None),
                 ({'kind': 'wscale', 'c': 0.5}, None)]))
    return out


def flush(ctx, lines, pending):
    """one driver batch (a few thousand operations; batches keep the memory of a thorough run bounded)"""
    if lines:
        compare_model(ctx, ctx.driver(lines), pending)
    del lines[:]
    del pending[:]


def run(ctx):
    lines, pending = [], []
    for prob, rels in corpus():
        check_problem(ctx, prob, rels, lines, pending)
    for _ in range(ctx.n(1200, 12000)):
        prob = gen_problem(ctx.rng)
        rels = gen_rels(ctx.rng, prob)
        check_problem(ctx, prob, rels, lines, pending)
        if len(lines) >= 4000:
            flush(ctx, lines, pending)
    flush(ctx, lines, pending)
    if not ctx.search_only:
        clip_correspondence(ctx)


def replay(ctx, payload):
    fi = payload.get('failing_input') or (payload.get('correspondence') or [None])[0]
    if not fi:
        print('nothing to replay: %s' % payload.get('broken'))
        return 1
    case = fi['case']
    if 'rel' not in case:
        lines, pending = [], []
        d = case['data']
        geom = case['par']['geom']
        if case.get('target', '').startswith('iter'):
            st0, err0, fit0 = run_iter(d, dict(case['par'], nclip=0))
            n = len(d['xy'])
            o0 = observe(fit0, n) if st0 == 'ok' else None
            queue_model(ctx, lines, pending, case, d, geom, (st0, err0, o0), via_center=d['center'])
        else:
            s1 = run_single(d, geom)
            queue_model(ctx, lines, pending, case, d, geom,
                        (s1[0], s1[1], observe(s1[2], len(d['xy'])) if s1[0] == 'ok' else None))
        compare_model(ctx, ctx.driver(lines), pending)
    else:
        def tup(par):
            par = dict(par)
            if isinstance(par.get('sigma'), list):
                par['sigma'] = (par['sigma'][0], par['sigma'][1])
            return par
        prob = {'data': case['data'], 'par': tup(case['par']), 'family': case.get('family'), 'S': 1.0}
        if case['target'] == 'single-shot':
            prob['par'].setdefault('nclip', 0)
            prob['par'].setdefault('sigma', 3.0)
            prob['par'].setdefault('clip_accum', False)
        lines, pending = [], []
        check_problem(ctx, prob, [(case['rel'], None)], lines, pending)
        compare_model(ctx, ctx.driver(lines), pending)
    bad = ctx.oracle_failures + ctx.disagreements
    for b in bad:
        print('STILL FAILS:', b['detail'])
    return 1 if bad else 0
