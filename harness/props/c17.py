"""
C17 -- matrix inversion is accurate, total on regular input and loud on singular input.

Correspondence: tweakwcs.linalg.inv (the long-double Gauss-Jordan path) against the Lean model
`TW.invRows` evaluated on exact rationals (op `inv Q`) and on doubles (op `inv F`).
Oracle (independent of the model): exact Fraction inverse, numpy.linalg.inv, the residual bound
|X A - I| <= 64 n cond(A) eps, purity of the argument, the documented exceptions; degenerate
point sets make the fitters raise.
"""
import math

import numpy as np

from ..common import Fraction, q2s, f2x, x2f, s2q, to_fraction, guard_ratio, guard_expect, harmonic_weights

ID = 'C17'
RULE = ('matrices of order 1..8 drawn from 9 families (random, small-integer, permutation-like, '
        'zero-diagonal, badly scaled, near-singular, exactly singular, non-finite, non-square) and '
        'degenerate point sets for the fitters; a case is non-trivial when the order is >= 2 and at '
        'least one pivot requires a row or column exchange or the expected outcome is an error; '
        'distinct = distinct canonical input')
ASSUMPTIONS = [
    'theorems are over an arbitrary linearly ordered field (real arithmetic); long-double rounding '
    'is outside the model and is bounded only by the residual bound checked here',
    'NaN/inf handling is decided by the oracle only',
    'the numpy fall-back path of inv (platforms without extended long double) is not modelled',
]

TINY = Fraction(*float(np.finfo(np.double).tiny).as_integer_ratio())
EPS = float(np.finfo(np.double).eps)


def exact_inverse(rows):
    """Gauss-Jordan over Fractions with partial pivoting on non-zero; None when singular"""
    n = len(rows)
    a = [[Fraction(x) for x in r] + [Fraction(int(i == j)) for j in range(n)] for i, r in enumerate(rows)]
    for c in range(n):
        p = next((r for r in range(c, n) if a[r][c] != 0), None)
        if p is None:
            return None
        a[c], a[p] = a[p], a[c]
        pv = a[c][c]
        a[c] = [x / pv for x in a[c]]
        for r in range(n):
            if r != c and a[r][c] != 0:
                f = a[r][c]
                a[r] = [x - f * y for x, y in zip(a[r], a[c])]
    return [r[n:] for r in a]


def exactly_computable(rows):
    """simulate full-pivoting elimination exactly; True when every intermediate value is a dyadic
    rational of small bit length, i.e. when the long-double computation is exact as well, so that
    an exactly singular matrix *must* be detected"""
    n = len(rows)
    m = [[Fraction(x) for x in r] for r in rows]

    def ok(v):
        d = v.denominator
        return d & (d - 1) == 0 and d <= 2**20 and abs(v.numerator) < 2**40

    for k in range(n):
        best = None
        for i in range(k, n):
            for j in range(k, n):
                if best is None or abs(m[i][j]) > abs(m[best[0]][best[1]]):
                    best = (i, j)
        pv = m[best[0]][best[1]]
        if pv == 0:
            return True
        m[k], m[best[0]] = m[best[0]], m[k]
        for r in m:
            r[k], r[best[1]] = r[best[1]], r[k]
        m[k] = [x / pv if j >= k else x for j, x in enumerate(m[k])]
        if not all(ok(x) for x in m[k]):
            return False
        for l in range(k + 1, n):
            f = m[l][k]
            m[l] = [x - f * y if j > k else (Fraction(0) if j == k else x)
                    for j, (x, y) in enumerate(zip(m[l], m[k]))]
            if not all(ok(x) for x in m[l]):
                return False
    return True


# ---------------------------------------------------------------------------
# generators
# ---------------------------------------------------------------------------
def gen_matrix(rng):
    fam = rng.choice(['random', 'smallint', 'smallint', 'perm', 'zerodiag', 'badscale', 'pow2scale',
                      'nearsing', 'singular', 'singular', 'nonfinite', 'nonsquare'])
    n = rng.choice([1, 2, 2, 3, 3, 3, 4, 4, 5, 6, 7, 8])
    if fam == 'random':
        a = [[rng.uniform(-10, 10) for _ in range(n)] for _ in range(n)]
    elif fam == 'smallint':
        a = [[float(rng.randint(-5, 5)) for _ in range(n)] for _ in range(n)]
    elif fam == 'perm':
        p = list(range(n))
        rng.shuffle(p)
        a = [[0.0] * n for _ in range(n)]
        for i in range(n):
            a[i][p[i]] = float(rng.choice([1, -1, 2, 3, -4, 0.5]))
        for _ in range(rng.randint(0, n)):
            a[rng.randrange(n)][rng.randrange(n)] += float(rng.randint(-1, 1))
    elif fam == 'zerodiag':
        a = [[0.0 if i == j else float(rng.randint(-4, 4)) for j in range(n)] for i in range(n)]
    elif fam == 'badscale':
        sc = [10.0 ** rng.randint(-6, 6) for _ in range(n)]
        a = [[rng.uniform(-1, 1) * sc[i] * sc[j] ** 0.5 for j in range(n)] for i in range(n)]
    elif fam == 'pow2scale':
        # a regular, well-conditioned matrix times an exact power of two (tiny or huge): regular
        # input however small its entries are; singular ones must still raise
        k = rng.choice([-300, -200, -100, -60, -53, -30, 30, 100, 200])
        a = [[float(rng.randint(-5, 5)) for _ in range(n)] for _ in range(n)]
        for i in range(n):
            a[i][i] += 7.0 * rng.choice([1, -1])
        a = [[x * 2.0 ** k for x in r] for r in a]
    elif fam == 'nearsing':
        a = [[rng.uniform(-1, 1) for _ in range(n)] for _ in range(n)]
        if n >= 2:
            i, j = rng.sample(range(n), 2)
            e = 10.0 ** rng.randint(-9, -4)
            a[i] = [x + e * rng.uniform(-1, 1) for x in a[j]]
    elif fam == 'singular':
        kind = rng.choice(['zerorow', 'zerocol', 'rank1', 'duprow'])
        a = [[float(rng.choice([-2, -1, 0, 1, 2, 4, 0.5])) for _ in range(n)] for _ in range(n)]
        if kind == 'zerorow':
            a[rng.randrange(n)] = [0.0] * n
        elif kind == 'zerocol':
            j = rng.randrange(n)
            for r in a:
                r[j] = 0.0
        elif kind == 'rank1':
            u = [float(rng.choice([1, -1, 2, -2, 4, 0.5])) for _ in range(n)]
            v = [float(rng.choice([1, -1, 2, -2, 4, 0.25])) for _ in range(n)]
            a = [[u[i] * v[j] for j in range(n)] for i in range(n)]
            if n == 1:
                a = [[0.0]]
        else:
            if n >= 2:
                i, j = rng.sample(range(n), 2)
                a[i] = list(a[j])
            else:
                a = [[0.0]]
    elif fam == 'nonfinite':
        a = [[rng.uniform(-3, 3) for _ in range(n)] for _ in range(n)]
        a[rng.randrange(n)][rng.randrange(n)] = rng.choice([float('nan'), float('inf'), float('-inf')])
    else:  # nonsquare
        mrows = rng.choice([k for k in range(1, 6) if k != n])
        a = [[rng.uniform(-3, 3) for _ in range(n)] for _ in range(mrows)]
    return fam, a


CORPUS = [
    ('corpus', [[1.0, 1.0], [2.0, 2.0]]),                      # the suite's singular example
    ('corpus', [[0.0, 2.0, 1.0], [1.0, 0.0, 3.0], [4.0, 1.0, 0.0]]),
    ('corpus', [[0.0, 1.0], [1.0, 0.0]]),
    ('corpus', [[0.0]]),
    ('corpus', [[4.0]]),
    ('corpus', [[1.0, 2.0, 3.0], [2.0, 4.0]]),
    ('corpus', [[0, 0, 0, 1.0], [0, 0, 2.0, 0], [0, 4.0, 0, 0], [8.0, 0, 0, 0]]),
]


# ---------------------------------------------------------------------------
def impl_inv(a):
    from tweakwcs import linalg
    try:
        arr = np.array(a, dtype=np.double)
    except ValueError:
        arr = None   # ragged
    if arr is None:
        try:
            linalg.inv(a)
            return ('ok-ragged', None, True)
        except np.linalg.LinAlgError:
            return ('err', 'LinAlgError', True)
        except Exception as e:  # numpy refuses ragged input itself
            return ('err', type(e).__name__, True)
    before = arr.tobytes()
    try:
        x = linalg.inv(arr)
        out = ('ok', np.array(x, dtype=np.longdouble), None)
    except np.linalg.LinAlgError:
        out = ('err', 'LinAlgError', None)
    except Exception as e:
        out = ('err', type(e).__name__, None)
    pure = arr.tobytes() == before
    # the same matrix in the other containers a caller may own (seeded change C17-r6m1: np.asarray instead of
    # np.array aliases an input that already has the working dtype): extended precision, Fortran order, a strided
    # view, float32 / integer storage where that is lossless -- the argument must come back bit-identical and the
    # outcome (inverse / exception class) must be the one obtained for the float64 array
    variants = [np.array(arr, dtype=np.longdouble), np.asfortranarray(arr),
                np.array(np.asfortranarray(arr), dtype=np.longdouble, order='F')]
    if arr.ndim == 2 and arr.size:
        big = np.zeros((2 * arr.shape[0], 2 * arr.shape[1]), dtype=np.longdouble)
        big[::2, ::2] = arr
        variants.append(big[::2, ::2])
    with np.errstate(all='ignore'):
        if np.all(np.isfinite(arr)) and np.array_equal(arr.astype(np.float32).astype(np.double), arr):
            variants.append(arr.astype(np.float32))
        if np.all(np.isfinite(arr)) and np.all(np.abs(arr) < 2**53) and np.array_equal(np.rint(arr), arr):
            variants.append(arr.astype(np.int64))
    for v in variants:
        vb = v.tobytes()
        try:
            xv = linalg.inv(v)
            outv = ('ok', np.array(xv, dtype=np.longdouble))
        except np.linalg.LinAlgError:
            outv = ('err', 'LinAlgError')
        except Exception as e:
            outv = ('err', type(e).__name__)
        if v.tobytes() != vb:
            pure = False
        if outv[0] != out[0] or (outv[0] == 'err' and outv[1] != out[1]):
            pure = False   # container-dependent outcome: reported through the same channel
        elif outv[0] == 'ok' and out[1].shape == outv[1].shape and out[1].size and np.all(np.isfinite(out[1])):
            sc = float(np.max(np.abs(out[1])))
            if float(np.max(np.abs(outv[1] - out[1]))) > 1e-6 * sc + 1e-300 and np.linalg.cond(arr) < 1e8:
                pure = False
    return (out[0], out[1], pure)


def is_square(a):
    return all(len(r) == len(a) for r in a)


def check_case(ctx, fam, a, lines, pending):
    n = len(a)
    case = {'op': 'inv', 'family': fam, 'matrix': a}
    kind, val, pure = impl_inv(a)
    finite = all(np.isfinite(x) for r in a for x in r)
    square = is_square(a)
    nontrivial = n >= 2
    ctx.case(case, nontrivial=nontrivial, branch='family:' + fam)
    if not pure:
        ctx.oracle_fail(case, {'what': 'inv modified its argument'})
    if not square:
        ctx.branch('expect:nonsquare-error')
        if kind != 'err':
            ctx.oracle_fail(case, {'what': 'non-square input did not raise', 'got': kind})
        rows = a
        lines.append('inv Q %d %s %s' % (len(a), q2s(TINY), ' '.join(q2s(to_fraction(x)) for r in rows for x in r)))
        pending.append((case, 'nonsquare', None, None))
        return
    if not finite:
        ctx.branch('expect:nonfinite-error')
        if not (kind == 'err' and val == 'LinAlgError'):
            ctx.oracle_fail(case, {'what': 'non-finite input did not raise LinAlgError', 'got': [kind, repr(val)]})
        return
    exact = exact_inverse([[to_fraction(x) for x in r] for r in a])
    if exact is None:
        # exactly singular: must raise whenever the elimination is exact in binary arithmetic
        if exactly_computable([[to_fraction(x) for x in r] for r in a]):
            ctx.branch('expect:singular-error')
            if not (kind == 'err' and val == 'LinAlgError'):
                ctx.oracle_fail(case, {'what': 'singular matrix did not raise LinAlgError', 'got': kind})
        else:
            ctx.near_tie()
            ctx.branch('singular-but-inexact-skipped')
            return
    else:
        arr = np.array(a, dtype=np.double)
        cond = float(np.linalg.cond(arr)) if n > 0 else 1.0
        if cond > 1e13:
            ctx.near_tie()
            ctx.branch('ill-conditioned-skipped')
            return
        ctx.branch('expect:inverse')
        if kind != 'ok':
            ctx.oracle_fail(case, {'what': 'regular matrix (cond %.3g) raised' % cond, 'got': repr(val)})
        else:
            x = val
            if not np.all(np.isfinite(x)):
                ctx.oracle_fail(case, {'what': 'non-finite inverse returned'})
            else:
                ald = np.array(a, dtype=np.longdouble)
                res = float(np.max(np.abs(np.dot(x, ald) - np.eye(n, dtype=np.longdouble))))
                res2 = float(np.max(np.abs(np.dot(ald, x) - np.eye(n, dtype=np.longdouble))))
                bound = 64 * n * cond * EPS
                if max(res, res2) > bound:
                    ctx.oracle_fail(case, {'what': '|X A - I| exceeds 64 n cond eps', 'residual': max(res, res2),
                                           'bound': bound, 'cond': cond})
                ex = np.array([[float(v) for v in r] for r in exact])
                scale = float(np.max(np.abs(ex))) or 1.0
                err = float(np.max(np.abs(np.array(x, dtype=np.double) - ex)))
                if err > 64 * n * cond * EPS * scale:
                    ctx.oracle_fail(case, {'what': 'disagrees with the exact rational inverse', 'err': err,
                                           'cond': cond, 'scale': scale})
                npx = np.linalg.inv(arr)
                err2 = float(np.max(np.abs(np.array(x, dtype=np.double) - npx)))
                if err2 > 64 * n * cond * EPS * scale:
                    ctx.oracle_fail(case, {'what': 'disagrees with numpy.linalg.inv', 'err': err2, 'cond': cond})
    # model, exact and double
    flat = [x for r in a for x in r]
    lines.append('inv Q %d %s %s' % (n, q2s(TINY), ' '.join(q2s(to_fraction(x)) for x in flat)))
    pending.append((case, 'Q', kind, val))
    lines.append('inv F %d %s %s' % (n, q2s(TINY), ' '.join(f2x(x) for x in flat)))
    pending.append((case, 'F', kind, val))


def compare(ctx, outs, pending):
    for out, (case, mode, kind, val) in zip(outs, pending):
        toks = out.split()
        if mode == 'nonsquare':
            if toks[:2] != ['err', 'notSquare']:
                ctx.disagree(case, {'op': 'inv', 'model': out[:80], 'impl': 'error expected'})
            continue
        a = case['matrix']
        n = len(a)
        if toks[0] == 'err':
            ctx.branch('model:' + toks[1])
            if kind != 'err':
                # the model says singular (exactly, or |pivot| < tiny on doubles)
                if mode == 'Q':
                    ctx.disagree(case, {'op': 'inv', 'mode': mode, 'model': out, 'impl': 'returned an inverse'})
                else:
                    ctx.near_tie()
            continue
        if toks[0] != 'ok':
            ctx.disagree(case, {'op': 'inv', 'mode': mode, 'model': out[:80]})
            continue
        if kind == 'err':
            if mode == 'Q':
                ctx.disagree(case, {'op': 'inv', 'mode': mode, 'model': 'inverse', 'impl': repr(val)})
            else:
                ctx.near_tie()
            continue
        if mode == 'Q':
            mx = np.array([float(s2q(t)) for t in toks[1:]]).reshape(n, n)
        else:
            mx = np.array([x2f(t) for t in toks[1:]]).reshape(n, n)
        arr = np.array(a, dtype=np.double)
        cond = float(np.linalg.cond(arr))
        scale = float(np.max(np.abs(mx))) or 1.0
        err = float(np.max(np.abs(np.array(val, dtype=np.double) - mx)))
        if not np.isfinite(err) or err > 256 * n * cond * EPS * scale:
            ctx.disagree(case, {'op': 'inv', 'mode': mode, 'err': err, 'cond': cond,
                                'model': mx.tolist(), 'impl': np.array(val, dtype=np.double).tolist()})


# ---------------------------------------------------------------------------
# degenerate point sets
# ---------------------------------------------------------------------------
F13_WITNESS = [[2.0, 3.0], [-1.0, 0.0], [-9.0, -8.0]]


def degenerate_fits(ctx):
    from tweakwcs import linearfit
    rng = ctx.rng
    # regression probe of the repaired finding F13 (fixed 7128071): the witness must raise
    uvw = np.array(F13_WITNESS)
    case = {'op': 'degenerate', 'fitgeom': 'general', 'kind': 'collinear', 'uv': F13_WITNESS}
    ctx.case(case, nontrivial=True, branch='regression:F13')
    try:
        linearfit.fit_general(uvw + np.array([1.0, -2.0]), uvw)
        ctx.oracle_fail(case, {'what': 'collinear points: fit_general returned arbitrary parameters instead of '
                                       'raising SingularMatrixError (F13 has returned)'})
    except linearfit.SingularMatrixError:
        pass
    mlines, mpend = [], []
    for _ in range(ctx.n(40, 600)):
        geom = rng.choice(['general', 'rscale', 'rshift', 'shift'])
        kind = rng.choice(['collinear', 'coincident', 'toofew'])
        minobj = {'shift': 1, 'rshift': 2, 'rscale': 2, 'general': 3}[geom]
        if kind == 'toofew':
            n = rng.randint(0, minobj - 1)
            uv = np.array([[float(rng.randint(-9, 9)), float(rng.randint(-9, 9))] for _ in range(n)]).reshape(n, 2)
        elif kind == 'coincident':
            n = rng.randint(max(minobj, 2), 8)
            p = [float(rng.randint(-8, 8)), float(rng.randint(-8, 8))]
            uv = np.array([p] * n)
        else:
            n = rng.randint(max(minobj, 3), 9)
            # points on a line with power-of-two geometry so that the sums are exact
            d = rng.choice([(1.0, 0.0), (0.0, 1.0), (1.0, 1.0), (1.0, -1.0), (2.0, 1.0), (1.0, 2.0)])
            o = (float(rng.randint(-4, 4)), float(rng.randint(-4, 4)))
            ts = rng.sample(range(-8, 9), n)
            uv = np.array([[o[0] + t * d[0], o[1] + t * d[1]] for t in ts])
        xy = uv * 1.0 + np.array([1.0, -2.0]) if len(uv) else uv
        case = {'op': 'degenerate', 'fitgeom': geom, 'kind': kind, 'uv': uv.tolist()}
        fn = {'general': linearfit.fit_general, 'rscale': linearfit.fit_rscale,
              'rshift': linearfit.fit_rshift, 'shift': linearfit.fit_shifts}[geom]
        try:
            fit = fn(xy, uv)
            res = ('ok', fit)
        except linearfit.SingularMatrixError:
            res = ('SingularMatrixError', None)
        except linearfit.NotEnoughPointsError:
            res = ('NotEnoughPointsError', None)
        except Exception as e:
            res = (type(e).__name__, None)
        ctx.case(case, nontrivial=True, branch='degenerate:%s:%s' % (geom, kind))
        if geom == 'general':
            # the model the theorems `collinear_general_singular` / `coincident_general_singular` /
            # `too_few_points_general` speak about (TW.fitGeneral with the collinearity guard, exact
            # rationals, driver op `fit Q general`) must refuse the same input in the same way
            toks = ['fit', 'Q', 'general', str(len(uv)), '0']
            for (x, y), (u, v) in zip(xy.tolist(), uv.tolist()):
                toks += [q2s(to_fraction(t)) for t in (x, y, u, v)]
            mlines.append(' '.join(toks))
            mpend.append((case, res[0]))
        if kind == 'toofew':
            if res[0] != 'NotEnoughPointsError':
                ctx.oracle_fail(case, {'what': 'too few points did not raise NotEnoughPointsError', 'got': res[0]})
        elif geom == 'general':
            if res[0] != 'SingularMatrixError':
                # exact normal matrix of fit_general; when its elimination is exact in binary
                # arithmetic the zero pivot cannot be missed.  Otherwise round-off leaves a
                # non-zero pivot: known finding F13 (known_findings.json)
                u = [to_fraction(t) for t in uv[:, 0]]
                v = [to_fraction(t) for t in uv[:, 1]]
                nm = [[sum(u), sum(v), Fraction(len(u))],
                      [sum(a * a for a in u), sum(a * b for a, b in zip(u, v)), sum(u)],
                      [sum(a * b for a, b in zip(u, v)), sum(b * b for b in v), sum(v)]]
                det = {'what': 'degenerate points for general fit did not raise SingularMatrixError',
                       'got': res[0], 'elimination_exact_in_binary': bool(exactly_computable(nm))}
                ctx.oracle_fail(case, det)
        elif geom == 'rscale' and kind == 'coincident':
            if res[0] != 'SingularMatrixError':
                ctx.oracle_fail(case, {'what': 'coincident points for rscale fit did not raise SingularMatrixError',
                                       'got': res[0]})
        else:
            # shift / rshift (and rscale on a line) are well determined or documented as such:
            # whatever is returned must be finite
            if res[0] == 'ok':
                f = res[1]
                vals = list(np.ravel(f['matrix'])) + list(np.ravel(f['shift']))
                if not all(np.isfinite(v) for v in vals):
                    ctx.oracle_fail(case, {'what': 'non-finite parameters returned', 'got': [float(v) for v in vals]})
            elif res[0] not in ('SingularMatrixError', 'NotEnoughPointsError'):
                ctx.oracle_fail(case, {'what': 'unexpected exception', 'got': res[0]})
    names = {'err singular': 'SingularMatrixError', 'err notEnoughPoints': 'NotEnoughPointsError'}
    for out, (case, got) in zip(ctx.driver(mlines), mpend):
        mk = names.get(' '.join(out.split()[:2]), 'ok' if out.startswith('ok') else out[:40])
        if mk != got:
            ctx.disagree(case, {'op': 'fit', 'mode': 'Q', 'model': mk, 'impl': got})


def collinear_generic_fits(ctx):
    """collinear point sets whose evaluation in floating point is NOT exact: integer points on lines of generic
    direction with inexact means, also multiplied by non-dyadic factors or rotated (then collinear to the last
    bit of the doubles only), unweighted and weighted.  Whenever the quantity tested by the collinearity guard of
    fit_general, computed exactly from the doubles, is below 2^-52/64, fit_general and
    iter_linear_fit(fitgeom='general') must raise SingularMatrixError: a guard whose threshold is (much)
    smaller than the rounding noise of cuu*cvv - cuv^2 lets about half of these sets through"""
    from tweakwcs import linearfit
    rng = ctx.rng
    for _ in range(ctx.n(150, 2500)):
        n = rng.randint(3, 12)
        d = rng.choice([(3, 7), (5, -2), (7, 3), (1, 3), (2, -5), (11, 4), (1, 1), (1, 0), (0, 1)])
        o = (rng.randint(-60, 60), rng.randint(-60, 60))
        ts = rng.sample(range(-40, 41), n)
        pts = np.array([[o[0] + t * d[0], o[1] + t * d[1]] for t in ts], dtype=float)
        how = rng.choice(['integer', 'scaled', 'rotated'])
        if how == 'scaled':
            pts = pts * rng.choice([0.1, 3.3, 1.0 / 3.0, 1e3 / 7.0, 2.5e-3])
        elif how == 'rotated':
            a = math.radians(rng.choice([30.0, 17.0, 45.0, 60.0, rng.uniform(0, 180)]))
            pts = pts.dot(np.array([[math.cos(a), math.sin(a)], [-math.sin(a), math.cos(a)]]))
        wmode = rng.choice([0, 0, 1, 2, 3])
        wxy = [rng.choice([float(rng.randint(1, 9)), rng.uniform(0.2, 5.0)]) for _ in range(n)] if wmode in (1, 3) else None
        wuv = [rng.choice([float(rng.randint(1, 9)), rng.uniform(0.2, 5.0)]) for _ in range(n)] if wmode in (2, 3) else None
        uv = pts
        xy = uv.dot(np.array([[1.01, -0.02], [0.03, 0.98]])) + np.array([1.0, -2.0])
        q = guard_ratio(uv.tolist(), harmonic_weights(n, wxy, wuv))
        case = {'op': 'degenerate', 'fitgeom': 'general', 'kind': 'collinear-' + how, 'uv': uv.tolist(),
                'wxy': wxy, 'wuv': wuv}
        ctx.case(case, nontrivial=True, branch='degenerate:general:collinear-%s:w%d' % (how, wmode))
        if guard_expect(q) != 'singular':
            ctx.near_tie()
            continue
        a1 = None if wxy is None else np.array(wxy)
        a2 = None if wuv is None else np.array(wuv)
        for name, call in (('fit_general', lambda: linearfit.fit_general(xy, uv, a1, a2)),
                           ('iter_linear_fit', lambda: linearfit.iter_linear_fit(xy, uv, a1, a2, fitgeom='general',
                                                                                 nclip=rng.choice([0, 3])))):
            try:
                fit = call()
                got = 'returned matrix %s' % np.asarray(fit['matrix'], dtype=float).tolist()
            except linearfit.SingularMatrixError:
                continue
            except Exception as e:  # noqa
                got = type(e).__name__
            ctx.oracle_fail(case, {'what': '%s: points collinear to within rounding (guard quantity %.3g, below '
                                           '2^-52/64) were not refused with SingularMatrixError'
                                           % (name, float(q)), 'got': got})
            break


def weighted_collinear_fits(ctx):
    """the sources that carry weight lie exactly on a line (integer lattice direction), the sources off the line have
    weight zero (in either list): the weighted configuration is degenerate and fit_general - directly and through
    iter_linear_fit - must raise SingularMatrixError, whatever the unweighted point set looks like"""
    from tweakwcs import linearfit
    rng = ctx.rng
    for _ in range(ctx.n(40, 500)):
        n_on = rng.randint(3, 7)
        n_off = rng.randint(1, 4)
        dx, dy = rng.choice([(1, 0), (0, 1), (1, 1), (1, -1), (2, 1), (1, 3)])
        ts = rng.sample(range(-12, 13), n_on)
        x0, y0 = rng.randint(-20, 20), rng.randint(-20, 20)
        on = [(float(x0 + t * dx), float(y0 + t * dy)) for t in ts]
        off = []
        while len(off) < n_off:
            q = (float(rng.randint(-40, 40)), float(rng.randint(-40, 40)))
            if (q[0] - x0) * dy - (q[1] - y0) * dx != 0:
                off.append(q)
        uv = on + off
        order = list(range(len(uv)))
        rng.shuffle(order)
        uv = [uv[i] for i in order]
        onl = [i < n_on for i in order]
        xy = [(1.001 * u - 0.002 * v + 3.0, 0.003 * u + 0.999 * v - 2.0) for u, v in uv]
        mode = rng.choice(['wxy', 'wuv', 'both', 'complementary'])
        wxy = [float(rng.randint(1, 5)) for _ in uv]
        wuv = [float(rng.randint(1, 5)) for _ in uv]
        for i, o in enumerate(onl):
            if o:
                continue
            if mode == 'wxy' or (mode == 'complementary' and i % 2 == 0):
                wxy[i] = 0.0
            elif mode == 'wuv' or mode == 'complementary':
                wuv[i] = 0.0
            else:
                wxy[i] = wuv[i] = 0.0
        args = {'wxy': (wxy, None), 'wuv': (None, wuv)}.get(mode, (wxy, wuv))
        for entry in ('fit_general', 'iter_linear_fit'):
            case = {'op': 'weighted-collinear', 'entry': entry, 'mode': mode, 'uv': uv, 'xy': xy,
                    'wxy': args[0], 'wuv': args[1]}
            ctx.case(case, nontrivial=True, branch='weighted-collinear:%s:%s' % (entry, mode))
            a = [None if w is None else np.array(w) for w in args]
            try:
                if entry == 'fit_general':
                    fit = linearfit.fit_general(np.array(xy), np.array(uv), a[0], a[1])
                else:
                    fit = linearfit.iter_linear_fit(np.array(xy), np.array(uv), a[0], a[1], fitgeom='general', nclip=0)
            except linearfit.SingularMatrixError:
                continue
            except Exception as e:   # noqa
                ctx.oracle_fail(case, {'what': 'unexpected exception for sources whose weighted part is collinear',
                                       'got': '%s: %s' % (type(e).__name__, str(e)[:80])})
                continue
            ctx.oracle_fail(case, {'what': 'parameters returned although the sources that carry weight are exactly '
                                           'collinear', 'matrix': np.asarray(fit['matrix'], dtype=float).tolist()})


def weighted_degenerate_fits(ctx):
    """enough sources but too few with a positive effective weight (zeros in the image weights, in the
    reference weights, or complementary in both): a degenerate configuration the single-shot fitters must
    refuse (ValueError / NotEnoughPointsError / SingularMatrixError) instead of returning parameters"""
    from tweakwcs import linearfit
    rng = ctx.rng
    npr = np.random.default_rng(rng.getrandbits(32))
    fns = {'general': linearfit.fit_general, 'rscale': linearfit.fit_rscale,
           'rshift': linearfit.fit_rshift, 'shift': linearfit.fit_shifts}
    minobj = {'shift': 1, 'rshift': 2, 'rscale': 2, 'general': 3}
    for _ in range(ctx.n(60, 800)):
        geom = rng.choice(['general', 'general', 'rscale', 'rshift', 'shift'])
        n = rng.randint(minobj[geom] + 1, 9)
        uv = npr.uniform(-500, 500, (n, 2))
        a = np.deg2rad(rng.uniform(-3, 3))
        xy = uv.dot(np.array([[np.cos(a), np.sin(a)], [-np.sin(a), np.cos(a)]])) + npr.uniform(-5, 5, 2) + \
            npr.normal(0, 0.05, (n, 2))
        npos = rng.randint(0, minobj[geom] - 1)          # sources that keep a positive effective weight
        keep = set(rng.sample(range(n), npos))
        mode = rng.choice(['wxy', 'wuv', 'both', 'complementary'])
        wxy = np.array([rng.uniform(0.3, 3.0) for _ in range(n)])
        wuv = np.array([rng.uniform(0.3, 3.0) for _ in range(n)])
        for i in range(n):
            if i in keep:
                continue
            if mode == 'wxy':
                wxy[i] = 0.0
            elif mode == 'wuv':
                wuv[i] = 0.0
            elif mode == 'both':
                wxy[i] = wuv[i] = 0.0
            elif rng.random() < 0.5:
                wxy[i] = 0.0
            else:
                wuv[i] = 0.0
        args = {'wxy': (wxy, None), 'wuv': (None, wuv)}.get(mode, (wxy, wuv))
        case = {'op': 'degenerate-weights', 'fitgeom': geom, 'n': n, 'positive': npos, 'mode': mode,
                'xy': xy.tolist(), 'uv': uv.tolist(), 'wxy': None if args[0] is None else args[0].tolist(),
                'wuv': None if args[1] is None else args[1].tolist()}
        ctx.case(case, nontrivial=True, branch='degenerate-weights:%s:%s' % (geom, mode))
        try:
            fit = fns[geom](xy, uv, args[0], args[1])
        except (ValueError, linearfit.NotEnoughPointsError, linearfit.SingularMatrixError):
            continue
        except Exception as e:   # noqa
            ctx.oracle_fail(case, {'what': 'unexpected exception', 'got': type(e).__name__})
            continue
        ctx.oracle_fail(case, {'what': 'only %d of %d sources have a positive effective weight (minimum %d for %s): '
                                       'the fitter returned parameters instead of raising'
                                       % (npos, n, minobj[geom], geom),
                               'matrix': np.asarray(fit['matrix'], dtype=float).tolist(),
                               'shift': np.asarray(fit['shift'], dtype=float).tolist()})


def numpy_path(ctx):
    """the fall-back path of inv (platforms where long double is not wider than double): the same
    oracle on regular, exactly singular, non-finite and non-square input; no model correspondence
    (that path is numpy.linalg.inv plus a finiteness test)"""
    from tweakwcs import linalg
    rng = ctx.rng
    saved = linalg._USE_NUMPY_LINALG_INV
    linalg._USE_NUMPY_LINALG_INV = True
    try:
        for _ in range(ctx.n(60, 1500)):
            fam, a = gen_matrix(rng)
            if fam in ('pow2scale',):
                continue
            n = len(a)
            case = {'op': 'inv-numpy-path', 'family': fam, 'matrix': a}
            ctx.case(case, nontrivial=n >= 2, branch='numpy-path:' + fam)
            kind, val, pure = impl_inv(a)
            if not pure:
                ctx.oracle_fail(case, {'what': 'inv (numpy path) modified its argument'})
            if not is_square(a):
                if kind != 'err':
                    ctx.oracle_fail(case, {'what': 'non-square input did not raise (numpy path)'})
                continue
            if not all(np.isfinite(x) for r in a for x in r):
                if not (kind == 'err' and val == 'LinAlgError'):
                    ctx.oracle_fail(case, {'what': 'non-finite input did not raise LinAlgError (numpy path)',
                                           'got': [kind, repr(val)]})
                continue
            exact = exact_inverse([[to_fraction(x) for x in r] for r in a])
            if exact is None:
                if exactly_computable([[to_fraction(x) for x in r] for r in a]) and fam == 'singular':
                    # LAPACK detects an exact zero pivot only when its own (partial pivoting)
                    # elimination is exact; rank-1 / zero-row / zero-column matrices of small
                    # dyadic numbers qualify
                    if kind != 'err':
                        ctx.near_tie()
                continue
            arr = np.array(a, dtype=np.double)
            cond = float(np.linalg.cond(arr))
            if cond > 1e12:
                ctx.near_tie()
                continue
            if kind != 'ok':
                ctx.oracle_fail(case, {'what': 'regular matrix raised (numpy path)', 'cond': cond})
                continue
            ex = np.array([[float(v) for v in r] for r in exact])
            scale = float(np.max(np.abs(ex))) or 1.0
            err = float(np.max(np.abs(np.array(val, dtype=np.double) - ex)))
            if err > 64 * n * cond * EPS * scale:
                ctx.oracle_fail(case, {'what': 'numpy path disagrees with the exact rational inverse', 'err': err,
                                       'cond': cond})
    finally:
        linalg._USE_NUMPY_LINALG_INV = saved


def run(ctx):
    numpy_path(ctx)
    lines, pending = [], []
    for fam, a in CORPUS:
        check_case(ctx, fam, a, lines, pending)
    for _ in range(ctx.n(300, 6000)):
        fam, a = gen_matrix(ctx.rng)
        check_case(ctx, fam, a, lines, pending)
    outs = ctx.driver(lines)
    compare(ctx, outs, pending)
    degenerate_fits(ctx)
    collinear_generic_fits(ctx)
    weighted_collinear_fits(ctx)
    weighted_degenerate_fits(ctx)


def replay(ctx, payload):
    fi = payload.get('failing_input') or (payload.get('correspondence') or [None])[0]
    if not fi:
        print('nothing to replay: %s' % payload.get('broken'))
        return 1
    case = fi['case']
    if case.get('op') == 'inv':
        a = [[float(x) if not isinstance(x, str) else float(x) for x in r] for r in case['matrix']]
        lines, pending = [], []
        check_case(ctx, case.get('family', 'replay'), a, lines, pending)
        compare(ctx, ctx.driver(lines), pending)
    else:
        print('replay of degenerate-fit cases: re-run ./check C17 with the same VERIF_SEED')
    bad = ctx.oracle_failures + ctx.disagreements
    for b in bad:
        print('STILL FAILS:', b['detail'])
    return 1 if bad else 0
