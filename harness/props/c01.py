"""
C01 -- aligning to an affine-related reference lands every source on the reference.

Scenario: a real corrector (FITS CD/PC/SIP, mock gWCS) with a prior history of 0..2 earlier
alignments (live or re-wrapped), an image catalog of n >= minobj non-degenerate sources and a
reference catalog whose sky positions are G(current positions) for an affine G of the chosen
fitgeom family expressed in the plane of the fit; fit_wcs / align_wcs(match=None).
Oracle: status SUCCESS; every catalog pixel lands on its reference position (<= 1e-7 arcsec gWCS,
second-order bound FITS); reported matrix/shift = G; reported rmse equals the residual measured
through the corrected WCS (also for noisy data); fit_RA/fit_DEC are what the corrected WCS gives.
Correspondence: the corrector model (gcorr/fcorr) fed with the REPORTED (matrix, shift) predicts
the chart position of every source; the fit model (op iterfit, when available) predicts the
reported matrix/shift from the tangent-plane coordinates.
"""
import math

import numpy as np
from astropy.table import Table

from .. import scenes, corrsim
from ..scenes import Aff
from . import c02

ID = 'C01'
RULE = ('corrector kind x prior history (0..2 corrections, live / re-wrapped) x fitgeom x catalog size (minobj..60) '
        'x weights (none / image / reference / both) x noise-free or noisy reference x entry point (fit_wcs / '
        'align_wcs with match=None); non-trivial = prior history non-empty or fitgeom != shift; distinct = scenario')
ASSUMPTIONS = c02.ASSUMPTIONS + [
    'exact recovery is a theorem about the fit model (C06) composed with the corrector theorems (C02); the match '
    'between the real catalogs plumbing (tangent-plane projection, index bookkeeping) and that composition is what '
    'this check tests',
]

MINOBJ = {'shift': 1, 'rshift': 2, 'rscale': 2, 'general': 3}


def nondegenerate_pixels(rng, nx, ny, n):
    for _ in range(50):
        px = np.array([rng.uniform(0.05 * nx, 0.95 * nx) for _ in range(n)])
        py = np.array([rng.uniform(0.05 * ny, 0.95 * ny) for _ in range(n)])
        if n < 3:
            if n < 2 or math.hypot(px[0] - px[1], py[0] - py[1]) > 0.2 * min(nx, ny):
                return px, py
            continue
        c = np.vstack([px - px.mean(), py - py.mean()])
        sv = np.linalg.svd(c, compute_uv=False)
        if sv[-1] > 0.05 * min(nx, ny):
            return px, py
    return px, py


def scenario(ctx, lines, pend):
    rng = ctx.rng
    from tweakwcs.imalign import fit_wcs, align_wcs
    jw = rng.random() < 0.5
    c0, info = scenes.mk_jwst(rng) if jw else scenes.mk_fits(rng)
    unit = c0.tanp_center_pixel_scale if jw else 1.0
    unit_rad = corrsim.plane_unit_rad(c0)
    rho = corrsim.field_radius_units(c0)
    prior = []
    for _ in range(rng.choice([0, 0, 1, 1, 2])):
        prior.append(('S', c02.gen_corr(rng, unit, big=rng.random() < 0.3)))
        if rng.random() < 0.5:
            prior.append(('W',))
    cur, _ = corrsim.apply_real(c0, prior)
    fitgeom = rng.choice(['shift', 'rshift', 'rscale', 'general'])
    n = rng.choice([MINOBJ[fitgeom], MINOBJ[fitgeom] + 1, 5, 12, 30, 60])
    nx, ny = scenes.image_size(c0)
    px, py = nondegenerate_pixels(rng, nx, ny, n)
    big = rng.random() < 0.3
    G = c02.gen_corr(rng, unit, big)
    if fitgeom == 'shift':
        G = Aff(np.eye(2), G.t)
    elif fitgeom == 'rshift':
        a = math.radians(rng.uniform(-20, 20) if big else rng.uniform(-0.05, 0.05))
        G = Aff([[math.cos(a), -math.sin(a)], [math.sin(a), math.cos(a)]], G.t)
    elif fitgeom == 'rscale':
        a = math.radians(rng.uniform(-20, 20) if big else rng.uniform(-0.05, 0.05))
        s = 1 + (rng.uniform(-0.1, 0.1) if big else rng.uniform(-1e-3, 1e-3))
        G = Aff(s * np.array([[math.cos(a), -math.sin(a)], [math.sin(a), math.cos(a)]]), G.t)
    use_ref = rng.random() < 0.25
    if use_ref:
        # a reference plane with the same tangent point (different orientation / scale / type): the
        # plane-to-plane map is then affine to rounding and the own-plane bounds apply
        pt = tuple(np.array(cur.tanp_to_world(0.0, 0.0), dtype=float).ravel()) if jw else \
            tuple(cur.wcs.wcs.crval)
        ref, rinfo = scenes.mk_fits(rng, kind='cd', pointing=pt) if rng.random() < 0.5 else \
            scenes.mk_jwst(rng, pointing=pt)
        plane = ref
        punit = ref.tanp_center_pixel_scale if scenes.is_jwst(ref) else 1.0
        G = Aff(G.M, G.t / unit * punit)
    else:
        ref = None
        plane = cur.copy()
    a_k = np.array(plane.world_to_tanp(*cur.det_to_world(px, py)), dtype=float)
    r_k = G(a_k)
    noisy = rng.random() < 0.3 and n > MINOBJ[fitgeom] + 2
    punit_now = (plane.tanp_center_pixel_scale if scenes.is_jwst(plane) else 1.0)
    if noisy:
        nrng = np.random.default_rng(rng.getrandbits(32))
        r_k = r_k + nrng.normal(0, 0.05 * punit_now, size=r_k.shape)
    ra, dec = plane.tanp_to_world(r_k[0], r_k[1])
    wmode = rng.choice([0, 0, 1, 2, 3])
    imcat = Table([px, py], names=['x', 'y'])
    refcat = Table([np.asarray(ra, dtype=float), np.asarray(dec, dtype=float)], names=['RA', 'DEC'])
    wi = wr = None
    if wmode in (1, 3):
        wi = np.array([rng.uniform(0.5, 2.0) for _ in range(n)])
        imcat['weight'] = wi
    if wmode in (2, 3):
        wr = np.array([rng.uniform(0.5, 2.0) for _ in range(n)])
        refcat['weight'] = wr
    # sources without weight (in either catalog) take no part in the fit - also not in the centre about which the
    # fit is made and to which fit2ref refers the reported shift - but must land on the reference all the same
    nzero = 0
    if wmode and n >= MINOBJ[fitgeom] + 3 and rng.random() < 0.5:
        kz = rng.randint(1, max(1, min(n - MINOBJ[fitgeom] - 2, n // 3)))
        Z = rng.sample(range(n), kz)
        keep = np.ones(n, dtype=bool)
        keep[Z] = False
        cpos = np.vstack([px[keep] - px[keep].mean(), py[keep] - py[keep].mean()])
        spread = np.linalg.svd(cpos, compute_uv=False)
        if keep.sum() >= 3 and spread[-1] > 0.05 * min(nx, ny):
            for i in Z:
                tgt = rng.choice([w_ for w_ in (wi, wr) if w_ is not None])
                tgt[i] = 0.0
            if wi is not None:
                imcat['weight'] = wi
            if wr is not None:
                refcat['weight'] = wr
            nzero = kz
            ctx.branch('zero-weight-sources')
    entry = rng.choice(['fit_wcs', 'align_wcs'])
    case = {'kind': info['kind'], 'info': info, 'prior': [p[0] for p in prior], 'fitgeom': fitgeom, 'n': n, 'nzero': nzero,
            'G': [G.M.tolist(), G.t.tolist()], 'ref': bool(use_ref), 'noisy': noisy, 'wmode': wmode,
            'entry': entry, 'big': big}
    ctx.case(case, nontrivial=bool(prior) or fitgeom != 'shift',
             branch='%s:%s:%s' % (info['kind'], fitgeom, entry))
    new = cur.copy()
    try:
        if entry == 'fit_wcs':
            new = fit_wcs(refcat, imcat, new, ref_tpwcs=ref, fitgeom=fitgeom, nclip=None, sigma=3.0)
        else:
            new.meta['catalog'] = imcat
            new.meta['name'] = 'im'
            align_wcs(new, refcat=refcat, ref_tpwcs=ref, fitgeom=fitgeom, match=None, nclip=None,
                      sigma=3.0, minobj=None)
    except Exception as e:
        ctx.oracle_fail(case, {'what': 'alignment raised', 'error': '%s: %s' % (type(e).__name__, str(e)[:200])})
        return
    fi = new.meta.get('fit_info', {})
    if fi.get('status') != 'SUCCESS':
        ctx.oracle_fail(case, {'what': 'status is not SUCCESS', 'status': fi.get('status')})
        return
    landed = np.array(plane.world_to_tanp(*new.det_to_world(px, py)), dtype=float)
    ruse = rho * unit_rad / corrsim.plane_unit_rad(plane)
    # bounds are computed from the correction that was actually applied (for two-source catalogs the
    # fit may legitimately pick the reflected similarity, a field-sized correction)
    csize = max(corrsim.corr_size_units(G, ruse),
                corrsim.corr_size_units(Aff(np.array(fi['matrix'], dtype=float),
                                            np.array(fi['shift'], dtype=float)), ruse))
    pjw = scenes.is_jwst(plane)
    # gWCS: the plane-to-plane map of set_correction(ref_tpwcs=copy) is obtained by numerical
    # differentiation over one pixel, which limits the relative accuracy of the conjugated matrix to
    # ~1e-10: the 1e-7 arcsec of the property holds for corrections up to ~20 arcsec and scales beyond
    gscale = max(1.0, csize * corrsim.plane_unit_rad(plane) * corrsim.RAD2ARCSEC / 20.0)
    if jw and pjw:
        bound = 1e-7 * gscale
    elif jw:
        bound = 1e-7 * gscale / (corrsim.plane_unit_rad(plane) * corrsim.RAD2ARCSEC) + 2e-6
    else:
        bound = (c02.fits_base(c0, rho) + c02.fits_second_order(csize * corrsim.plane_unit_rad(plane) / unit_rad,
                                                                 rho, unit_rad)) * unit_rad / corrsim.plane_unit_rad(plane)
    M = np.array(fi['matrix'], dtype=float)
    s = np.array(fi['shift'], dtype=float)
    fmask = np.asarray(fi['fitmask'], dtype=bool)
    if not noisy:
        err = float(np.max(np.hypot(*(landed - r_k))))
        if not np.isfinite(err) or err > bound:
            ctx.oracle_fail(case, {'what': 'sources do not land on their reference positions', 'max_err': err,
                                   'bound': bound, 'units': 'arcsec' if pjw else 'pixel'})
        # (two sources / collinear sets admit a reflected similarity with the same zero residual: the
        #  matrix is then not determined by the data, only the landing is)
        unique = not (fitgeom in ('rscale', 'rshift') and n < 3)
        dm = float(np.max(np.abs(M - G.M))) if unique else 0.0
        ds = float(np.max(np.abs(s - G.t))) if unique else 0.0
        lever = float(np.max(np.abs(a_k))) + 1.0
        if dm * lever > max(bound, 1e-9 * lever) * 50 or ds > max(bound, 1e-9 * lever) * 50 * (1 + np.max(np.abs(G.M))):
            ctx.oracle_fail(case, {'what': 'reported matrix/shift differ from the truth', 'dmatrix': dm, 'dshift': ds,
                                   'bound': bound})
    # reported = applied
    res_meas = (r_k - landed)[:, fmask]
    w = None
    if wi is not None and wr is not None:
        w = wi * wr / (wi + wr)
    elif wi is not None:
        w = wi
    elif wr is not None:
        w = wr
    if w is None:
        rmse_meas = math.sqrt(float(np.mean(np.sum(res_meas ** 2, axis=0))))
    else:
        ww = w[fmask] / np.sum(w[fmask])
        rmse_meas = math.sqrt(float(np.sum(ww * np.sum(res_meas ** 2, axis=0))))
    if abs(rmse_meas - float(fi['rmse'])) > 2 * bound + 1e-9 * max(rmse_meas, 1e-30):
        ctx.oracle_fail(case, {'what': 'reported rmse differs from the residual measured through the corrected WCS',
                               'reported': float(fi['rmse']), 'measured': rmse_meas, 'bound': 2 * bound})
    fra, fdec = np.asarray(fi['fit_RA'], dtype=float), np.asarray(fi['fit_DEC'], dtype=float)
    nra, ndec = new.det_to_world(px[fmask], py[fmask])
    dra = (fra - np.asarray(nra) + 180.0) % 360.0 - 180.0
    e = float(np.max(np.hypot(dra * np.cos(np.deg2rad(fdec)), fdec - np.asarray(ndec)))) if fmask.any() else 0.0
    tol_deg = bound * np.rad2deg(corrsim.plane_unit_rad(plane)) * 2 + 1e-12
    if e > tol_deg:
        ctx.oracle_fail(case, {'what': 'fit_RA/fit_DEC are not the positions given by the corrected WCS',
                               'err_deg': e, 'tol_deg': tol_deg})

    # ---- model: corrector model fed with the reported fit ---------------------------------
    if not getattr(ctx, 'search_only', False):
        sim = corrsim.Sim(c0, px[:12], py[:12])
        fr = Aff(M, s)
        hist = prior + [('R', fr, ref) if use_ref else ('R', fr, cur.copy())]
        if not use_ref:
            hist = prior + [('S', fr)]
        line, _c = sim.line(hist)
        real_chart = sim.chart(*new.det_to_world(sim.px, sim.py))
        total = sum(corrsim.corr_size_units(h[1], rho) for h in hist if h[0] == 'S') + \
            (csize * corrsim.plane_unit_rad(plane) / unit_rad if use_ref else 0.0)
        if jw:
            cb = c02.GW_TOL * max(1.0, float(np.max(np.abs(real_chart))) / 1e3) * gscale * (2 if not use_ref else 20)
        else:
            cb = (c02.fits_base(c0, rho) + c02.fits_second_order(total, rho, unit_rad)) * (1 + len(hist))
        if use_ref:
            cb += c02.first_order(total, 1e-6, rho, unit_rad)
        lines.append(line)
        pend.append((case, sim, real_chart, cb))
        # the fit model on the tangent-plane coordinates: xy = reference, uv = image
        if not (fitgeom in ('rscale', 'rshift') and n < 3):
            from ..common import f2x, q2s, Fraction
            tiny = Fraction(*float(np.finfo(np.double).tiny).as_integer_ratio())
            wm = {0: 'n', 1: 'u', 2: 'x', 3: 'b'}[wmode]
            # what fit2ref actually fits: the reference positions as the catalog table holds them
            rxy = np.array(plane.world_to_tanp(np.asarray(refcat['RA']), np.asarray(refcat['DEC'])), dtype=float)
            toks = []
            for k in range(n):
                toks += [f2x(rxy[0][k]), f2x(rxy[1][k]), f2x(a_k[0][k]), f2x(a_k[1][k])]
            if wmode in (2, 3):
                toks += [f2x(v) for v in wr]
            if wmode in (1, 3):
                toks += [f2x(v) for v in wi]
            lines.append('iterfit F %s none 3 rmse 0 %s - %s %d %s' % (fitgeom, q2s(tiny), wm, n, ' '.join(toks)))
            pend.append((case, 'fit', M, s, float(np.max(np.abs(a_k))) + 1.0))


def separated_pixels(rng, nx, ny, n, dmin=40.0):
    """n pixel positions pairwise farther than dmin apart (so that matching is unambiguous)"""
    pts = []
    for _ in range(4000):
        if len(pts) == n:
            break
        q = (rng.uniform(0.06 * nx, 0.94 * nx), rng.uniform(0.06 * ny, 0.94 * ny))
        if all(math.hypot(q[0] - r[0], q[1] - r[1]) > dmin for r in pts):
            pts.append(q)
    a = np.array(pts)
    return a[:, 0], a[:, 1]


def multi_scenario(ctx):
    """several images with DIFFERENT tangent planes (pointing, orientation, scale, corrector type) aligned to
    ONE reference catalog in a single align_wcs call, each image with its own small affine error expressed
    in its own plane (the plane of its fit: ref_tpwcs=None).  Every image must land on the reference."""
    rng = ctx.rng
    from tweakwcs import align_wcs, XYXYMatch
    k = rng.choice([2, 2, 3])
    fitgeom = rng.choice(['shift', 'rshift', 'rscale', 'general'])
    base = scenes.rand_pointing(rng)
    ims, truth = [], []
    ras, decs = [], []
    for i in range(k):
        jw = rng.random() < 0.4
        # pointings 0.4 deg apart in declination (fields are far smaller): catalogs cannot mix
        dec_i = base[1] + (0.4 * i if base[1] < 0 else -0.4 * i)
        pt = (base[0], dec_i)
        c0, info = scenes.mk_jwst(rng, pointing=pt) if jw else scenes.mk_fits(rng, pointing=pt)
        unit = c0.tanp_center_pixel_scale if jw else 1.0
        nx, ny = scenes.image_size(c0)
        n = rng.choice([6, 10, 18])
        px, py = separated_pixels(rng, nx, ny, n)
        n = len(px)
        a = math.radians(rng.uniform(-0.01, 0.01))
        rot = np.array([[math.cos(a), -math.sin(a)], [math.sin(a), math.cos(a)]])
        t = np.array([rng.uniform(-0.8, 0.8), rng.uniform(-0.8, 0.8)]) * unit   # well inside the matching tolerance
        if fitgeom == 'shift':
            G = Aff(np.eye(2), t)
        elif fitgeom == 'rshift':
            G = Aff(rot, t)
        elif fitgeom == 'rscale':
            G = Aff((1 + rng.uniform(-1e-4, 1e-4)) * rot, t)
        else:
            G = Aff(rot @ np.array([[1 + rng.uniform(-1e-4, 1e-4), rng.uniform(-1e-4, 1e-4)],
                                    [0.0, 1 + rng.uniform(-1e-4, 1e-4)]]), t)
        plane = c0.copy()
        a_k = np.array(plane.world_to_tanp(*c0.det_to_world(px, py)), dtype=float)
        r_k = G(a_k)
        ra, dec = plane.tanp_to_world(r_k[0], r_k[1])
        ras += list(np.asarray(ra, dtype=float))
        decs += list(np.asarray(dec, dtype=float))
        new = c0.copy()
        new.meta['catalog'] = Table([px, py], names=['x', 'y'])
        new.meta['name'] = 'im%d' % i
        ims.append(new)
        truth.append((c0, info, jw, plane, px, py, r_k, G, unit))
    order = list(range(len(ras)))
    rng.shuffle(order)
    refcat = Table([np.array(ras)[order], np.array(decs)[order]], names=['RA', 'DEC'])
    expand = rng.random() < 0.3
    case = {'op': 'multi-image', 'kinds': [t[1]['kind'] for t in truth], 'infos': [t[1] for t in truth],
            'fitgeom': fitgeom, 'n': [len(t[4]) for t in truth], 'G': [[t[7].M.tolist(), t[7].t.tolist()] for t in truth],
            'expand_refcat': expand}
    ctx.case(case, nontrivial=True, branch='multi:%s:%s' % ('+'.join(sorted(set(case['kinds']))), fitgeom))
    try:
        align_wcs(ims, refcat=refcat, fitgeom=fitgeom, nclip=None, sigma=3.0, minobj=None, expand_refcat=expand,
                  match=XYXYMatch(searchrad=5.0, separation=0.1, tolerance=2.0, use2dhist=False))
    except Exception as e:
        ctx.oracle_fail(case, {'what': 'alignment raised', 'error': '%s: %s' % (type(e).__name__, str(e)[:200])})
        return
    for i, (new, (c0, info, jw, plane, px, py, r_k, G, unit)) in enumerate(zip(ims, truth)):
        fi = new.meta.get('fit_info', {})
        if fi.get('status') != 'SUCCESS':
            ctx.oracle_fail(case, {'what': 'status of image %d is not SUCCESS' % i, 'status': fi.get('status')})
            continue
        if int(fi.get('nmatches', -1)) != len(px):
            ctx.oracle_fail(case, {'what': 'image %d: not every source was matched with its reference source' % i,
                                   'nmatches': fi.get('nmatches'), 'sources': len(px)})
            continue
        unit_rad = corrsim.plane_unit_rad(c0)
        rho = corrsim.field_radius_units(c0)
        csize = corrsim.corr_size_units(G, rho)
        if jw:
            bound = 1e-7 * max(1.0, csize * unit_rad * corrsim.RAD2ARCSEC / 20.0)
        else:
            bound = c02.fits_base(c0, rho) + c02.fits_second_order(csize, rho, unit_rad)
        landed = np.array(plane.world_to_tanp(*new.det_to_world(px, py)), dtype=float)
        err = float(np.max(np.hypot(*(landed - r_k))))
        if not np.isfinite(err) or err > bound:
            ctx.oracle_fail(case, {'what': 'multi-image alignment: sources of image %d do not land on their '
                                           'reference positions' % i, 'max_err': err, 'bound': bound,
                                   'units': 'arcsec' if jw else 'pixel', 'reported_rmse': float(fi.get('rmse', -1))})


def run(ctx):
    lines, pend = [], []
    for _ in range(ctx.n(12, 250)):
        multi_scenario(ctx)
    for _ in range(ctx.n(60, 1500)):
        scenario(ctx, lines, pend)
    if lines:
        outs = ctx.driver(lines)
        for out, item in zip(outs, pend):
            if item[1] == 'fit':
                from ..common import x2f
                case, _tag, M, sh, lever = item
                t = out.split()
                if t[0] != 'ok':
                    ctx.disagree(case, {'op': 'iterfit', 'model': out[:100], 'impl': 'SUCCESS'})
                    continue
                mm = np.array([x2f(v) for v in t[1:5]]).reshape(2, 2)
                ms = np.array([x2f(t[-2]), x2f(t[-1])])
                dm = float(np.max(np.abs(mm - M)))
                ds = float(np.max(np.abs(ms - sh)))
                # two-source 'general'-like ill-conditioning does not occur here (non-degenerate sets)
                if dm > 1e-8 * max(1.0, float(np.max(np.abs(M)))) or ds > 1e-8 * lever * max(1.0, float(np.max(np.abs(M)))):
                    ctx.disagree(case, {'op': 'iterfit', 'what': 'reported matrix/shift differ from the fit model '
                                        'on the tangent-plane coordinates', 'dmatrix': dm, 'dshift': ds})
                continue
            case, sim, real_chart, cb = item
            res = sim.parse(out)
            if res is None:
                ctx.disagree(case, {'op': 'gcorr' if sim.jwst else 'fcorr', 'model': out[:100]})
                continue
            d = float(np.max(np.hypot(*(res['sky_chart'] - real_chart))))
            if not np.isfinite(d) or d > cb:
                ctx.disagree(case, {'op': 'gcorr' if sim.jwst else 'fcorr', 'max_diff': d, 'bound': cb})


REPLAY_BY_RERUN = True
