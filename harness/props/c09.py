"""
C09 -- zero-weight sources never influence a fit; weights reach the right sources.

Three streams:

A. *zero / negative weights.*  Every pair whose weight (in either vector) is <= 0 gets huge finite
   coordinates (+-1e12) in BOTH arrays; the whole history nclip = 0..8 of the real
   `iter_linear_fit` must not change (matrix, shift, centre, rmse, mae, std, residual array,
   eff_nclip, fitmask: compared to 1e-12 relative, and counted when bit-identical) and `fitmask`
   must be False on those pairs.  Correspondence: the Lean model (`iterfit F`) is run on both
   inputs; its two answers must be identical strings and agree with the code.
B. *harmonic combination.*  A call with both weight vectors against calls with the single
   explicit vector w = wxy*wuv/(wxy+wuv) (0 where either is <= 0), passed as `wxy` and as `wuv`.
C. *weight columns through grouping and matching.*  Groups of 1-3 images (one may have an empty
   catalog) with distinctive 'weight' columns, a reference catalog with (or without) weights,
   matched in shuffled order through the real `WCSGroupCatalog.match2ref` / `fit2ref`; compared
   with a direct `iter_linear_fit` call on the pairs built by hand with explicit harmonic weights.
   Correspondence: the arrays `fit2ref` hands to `iter_linear_fit` are captured (by wrapping
   `wcsimage.iter_linear_fit` from the harness side) and compared bit for bit with the model's
   `createGroupCatalog` + `fit2refArgs` (op `pairargs`); the model's `iterfit` on those arrays is
   compared with the returned fit (shift re-centred to (0,0)).
"""
import logging
import math
import warnings

import numpy as np

from ..common import f2x, x2f, close
from . import c07 as C7

ID = 'C09'
RULE = ('A: random clipping problems (as in C07) with at least one non-positive weight, original vs '
        'corrupted (1e12) coordinates of the non-positively weighted pairs, full history nclip=0..8; '
        'B: both weight vectors vs the explicit harmonic vector (as wxy and as wuv); C: groups of 1-3 '
        'images with distinctive weight columns matched in shuffled order through WCSGroupCatalog.fit2ref '
        'vs a direct call with hand-built pairs and harmonic weights.  A case is non-trivial when at least '
        'two pairs have non-positive weight (A), both vectors contain a non-positive entry or clipping '
        'is effective (B), the group has >= 2 images or the match order is not the identity (C)')
ASSUMPTIONS = [
    'theorems: zero_weight_irrelevant for every single-shot fitter/metric/scalar type; harmonic and '
    'harmonic_explicit over any linearly ordered field (real arithmetic: the explicit harmonic vector '
    'is rounded to double before it is passed, the code combines in long double; compared to 1e-9)',
    'corrupted coordinates are huge but finite; NaN/inf are not modelled',
    'astropy.table.vstack and numpy integer-array indexing are modelled as list concatenation and '
    'list indexing; the matcher is replaced by a ground-truth matcher that returns shuffled index arrays',
    'sky <-> tangent-plane transforms are taken from the library (the same functions the code calls)',
]

BIG = 1e12
logging.getLogger('tweakwcs').setLevel(logging.CRITICAL)
warnings.filterwarnings('ignore')


# ---------------------------------------------------------------------------------------------
def force_nonpositive(rng, cfg):
    """make sure the configuration has weights and at least one non-positive one"""
    n = len(cfg['xy'])
    if cfg['wxy'] is None and cfg['wuv'] is None:
        which = rng.choice(['wxy', 'wuv', 'both'])
        if which in ('wxy', 'both'):
            cfg['wxy'] = C7.gen_weights(rng, n)
        if which in ('wuv', 'both'):
            cfg['wuv'] = C7.gen_weights(rng, n)
    cfg['wmode'] = 'both' if (cfg['wxy'] is not None and cfg['wuv'] is not None) else \
        ('wxy' if cfg['wxy'] is not None else 'wuv')
    wm = C7.wmask_of(cfg)
    k = rng.randint(1, max(1, n // 4))
    if np.count_nonzero(~wm) < k:
        for i in rng.sample(range(n), k):
            key = rng.choice([kk for kk in ('wxy', 'wuv') if cfg[kk] is not None])
            cfg[key][i] = rng.choice([0.0, 0.0, -1.0, -rng.uniform(0.01, 5.0)])
    return cfg


def corrupt(rng, cfg):
    wm = C7.wmask_of(cfg)
    c2 = dict(cfg)
    xy = [list(p) for p in cfg['xy']]
    uv = [list(p) for p in cfg['uv']]
    for i in range(len(xy)):
        if not wm[i]:
            kind = rng.random()
            if kind < 0.6:
                xy[i] = [rng.choice([-1, 1]) * BIG * rng.uniform(0.5, 1), rng.choice([-1, 1]) * BIG * rng.uniform(0.5, 1)]
                uv[i] = [rng.choice([-1, 1]) * BIG * rng.uniform(0.5, 1), rng.choice([-1, 1]) * BIG * rng.uniform(0.5, 1)]
            elif kind < 0.8:
                xy[i] = [BIG, -BIG]                    # only one of the two arrays
            else:
                uv[i] = [-BIG, BIG * 0.75]
    c2['xy'] = xy
    c2['uv'] = uv
    c2['family'] = 'corrupted'
    return c2


def same_result(a, b, scale):
    """(equal within 1e-12, bit-identical) for two returned fit dictionaries"""
    if not np.array_equal(a['fitmask'], b['fitmask']) or a['eff_nclip'] != b['eff_nclip']:
        return False, False, 'fitmask / eff_nclip'
    bit = True
    for key, sc in (('matrix', 1.0), ('shift', scale), ('center', scale), ('resids', scale)):
        x = np.asarray(a[key], dtype=float)
        y = np.asarray(b[key], dtype=float)
        if x.shape != y.shape:
            return False, False, key
        if not np.array_equal(x, y):
            bit = False
            if not np.allclose(x, y, rtol=1e-12, atol=1e-12 * sc):
                return False, False, key
    for key in ('rmse', 'mae', 'std'):
        if a[key] != b[key]:
            bit = False
            if not close(a[key], b[key], rtol=1e-12, atol=1e-14 * scale):
                return False, False, key
    return True, bit, None


def corpus_a():
    """hand-built: the example of Proofs/C09.lean; every pair but minobj has zero weight"""
    base = {'family': 'zero-weight', 'center': None, 'sigma': 2.0, 'stat': 'rmse', 'accum': False}
    c1 = dict(base, fitgeom='shift', xy=[[1.0, 0.0], [-1.0, 0.0], [0.0, 1.0], [5.0, 5.0]],
              uv=[[0.0, 0.0]] * 4, wxy=[1.0, 1.0, 2.0, 0.0], wuv=None, wmode='wxy')
    c1c = dict(c1, xy=[[1.0, 0.0], [-1.0, 0.0], [0.0, 1.0], [1e12, -7.0]],
               uv=[[0.0, 0.0], [0.0, 0.0], [0.0, 0.0], [3.0, 4.0]], family='corrupted')
    c2 = dict(base, fitgeom='general', xy=[[0.0, 0.0], [1.0, 0.1], [0.0, 1.0], [5.0, 5.0], [9.0, 1.0]],
              uv=[[0.0, 0.0], [1.0, 0.0], [0.0, 1.0], [1.0, 1.0], [2.0, 3.0]], wxy=[1.0, 1.0, 1.0, 0.0, -1.0],
              wuv=[2.0, 2.0, 2.0, 2.0, 2.0], wmode='both')
    c2c = dict(c2, xy=[[0.0, 0.0], [1.0, 0.1], [0.0, 1.0], [-1e12, 1e12], [1e12, 1e12]],
               uv=[[0.0, 0.0], [1.0, 0.0], [0.0, 1.0], [1e12, -1e12], [2.0, 3.0]], family='corrupted')
    return [(c1, c1c), (c2, c2c)]


def stream_a(ctx, lines, pending):
    rng = ctx.rng
    todo = corpus_a()
    for _ in range(ctx.n(250, 8000)):
        cfg = force_nonpositive(rng, C7.gen_case(rng))
        cfg['family'] = 'zero-weight'
        todo.append((cfg, corrupt(rng, cfg)))
    for cfg, c2 in todo:
        wm = C7.wmask_of(cfg)
        nbad = int(np.count_nonzero(~wm))
        h1 = [C7.impl_call(cfg, k) for k in C7.NCLIPS]
        h2 = [C7.impl_call(c2, k) for k in C7.NCLIPS]
        case = dict(c2)
        case['original_xy'] = cfg['xy']
        case['original_uv'] = cfg['uv']
        ctx.case(case, nontrivial=nbad >= 2, branch='A:zero-weight')
        ctx.evaluations += 2 * len(C7.NCLIPS) - 1
        ctx.impl_traces += 2 * len(C7.NCLIPS) - 1
        ctx.branch('A:wmode:' + cfg['wmode'])
        xy = np.array(cfg['xy'], dtype=float)
        scale = float(max(1.0, np.max(np.abs(xy[wm])) if wm.any() else 1.0))
        for k, (a, b) in enumerate(zip(h1, h2)):
            if a[0] != b[0] or (a[0] == 'err' and a[1] != b[1]):
                ctx.oracle_fail(case, {'what': 'corrupting non-positively weighted pairs changed the outcome',
                                       'nclip': k, 'original': a[1] if a[0] == 'err' else 'ok',
                                       'corrupted': b[1] if b[0] == 'err' else 'ok'})
                break
            if a[0] == 'err':
                ctx.branch('A:both-raise:' + a[1])
                continue
            ok, bit, key = same_result(a[1], b[1], scale)
            if not ok:
                ctx.oracle_fail(case, {'what': 'corrupting non-positively weighted pairs changed %s' % key,
                                       'nclip': k,
                                       'original': (np.asarray(a[1][key], dtype=float).ravel()[:8].tolist()
                                                    if key in a[1] else [np.asarray(a[1]['fitmask']).astype(int).tolist(),
                                                                         a[1].get('eff_nclip')]),
                                       'corrupted': (np.asarray(b[1][key], dtype=float).ravel()[:8].tolist()
                                                     if key in b[1] else [np.asarray(b[1]['fitmask']).astype(int).tolist(),
                                                                          b[1].get('eff_nclip')])})
                break
            ctx.branch('A:bit-identical' if bit else 'A:equal-1e-12')
            if np.any(np.asarray(b[1]['fitmask'], dtype=bool) & ~wm):
                ctx.oracle_fail(case, {'what': 'fitmask is True on a pair with non-positive weight', 'nclip': k})
                break
        # model on both inputs; near-tie bookkeeping from the C07 oracle on the original history
        near = C7.oracle_history(ctx, case, cfg, h1)
        s1 = len(lines)
        for k in C7.NCLIPS:
            lines.append(C7.model_line(cfg, k, 'F'))
        s2 = len(lines)
        for k in C7.NCLIPS:
            lines.append(C7.model_line(c2, k, 'F'))
        pending.append(('A', case, cfg, c2, h2, s1, s2, near))


def harmonic_vec(wx, wu):
    wx = np.asarray(wx, dtype=np.longdouble)
    wu = np.asarray(wu, dtype=np.longdouble)
    w = np.zeros(len(wx), dtype=np.longdouble)
    m = (wx > 0) & (wu > 0)
    w[m] = 1 / (1 / wx[m] + 1 / wu[m])
    return [float(v) for v in w]


def stream_b(ctx, lines, pending):
    rng = ctx.rng
    for _ in range(ctx.n(150, 5000)):
        cfg = C7.gen_case(rng)
        n = len(cfg['xy'])
        cfg['wxy'] = C7.gen_weights(rng, n)
        cfg['wuv'] = C7.gen_weights(rng, n)
        cfg['wmode'] = 'both'
        cfg['family'] = 'harmonic'
        if rng.random() < 0.25:
            # integer-valued weights handed over in integer-typed arrays (one side or both): the harmonic
            # combination is not an integer
            cfg['wxy'] = [float(rng.choice([0, 1, 1, 2, 3, 5, 8])) for _ in range(n)]
            cfg['wuv'] = [float(rng.choice([0, 1, 2, 2, 3, 4, 7])) for _ in range(n)]
            cfg['wint'] = rng.choice(['wxy', 'wuv', 'both'])
            cfg['family'] = 'harmonic-int'
        w = harmonic_vec(cfg['wxy'], cfg['wuv'])
        hist = [C7.impl_call(cfg, k) for k in C7.NCLIPS]
        case = dict(cfg)
        both_bad = any(v <= 0 for v in cfg['wxy']) and any(v <= 0 for v in cfg['wuv'])
        effective = any(h[0] == 'ok' and h[1]['eff_nclip'] > 0 for h in hist)
        ctx.case(case, nontrivial=bool(both_bad or effective), branch='B:harmonic')
        near = C7.oracle_history(ctx, case, cfg, hist)
        wm = C7.wmask_of(cfg)
        xy = np.array(cfg['xy'], dtype=float)
        scale = float(max(1.0, np.max(np.abs(xy[wm])) if wm.any() else 1.0))
        for side in ('wxy', 'wuv'):
            ce = dict(cfg)
            ce['wxy'] = w if side == 'wxy' else None
            ce['wuv'] = w if side == 'wuv' else None
            ce['wmode'] = side
            ce['family'] = 'harmonic-explicit'
            ce['wint'] = None
            he = [C7.impl_call(ce, k) for k in C7.NCLIPS]
            ctx.evaluations += len(C7.NCLIPS)
            ctx.impl_traces += len(C7.NCLIPS)
            for k, (a, b) in enumerate(zip(hist, he)):
                if near is not None and k > near:
                    ctx.near_tie()
                    continue
                if a[0] != b[0] or (a[0] == 'err' and a[1] != b[1]):
                    ctx.oracle_fail(case, {'what': 'both weight vectors and the explicit harmonic vector (%s) '
                                                   'give different outcomes' % side, 'nclip': k,
                                           'both': a[1] if a[0] == 'err' else 'ok',
                                           'explicit': b[1] if b[0] == 'err' else 'ok'})
                    break
                if a[0] == 'err':
                    continue
                fa, fb = a[1], b[1]
                if C7.bits(fa['fitmask']).count('1') == C7.MINOBJ[cfg['fitgeom']] and cfg['fitgeom'] != 'shift':
                    ctx.near_tie(len(hist) - k)
                    break
                bad = None
                if not np.array_equal(fa['fitmask'], fb['fitmask']) or fa['eff_nclip'] != fb['eff_nclip']:
                    bad = 'fitmask / eff_nclip'
                elif not np.allclose(fa['matrix'], fb['matrix'], rtol=0, atol=1e-9):
                    bad = 'matrix'
                elif not np.allclose(fa['shift'], fb['shift'], rtol=0, atol=1e-9 * scale):
                    bad = 'shift'
                elif not all(close(fa[s], fb[s], rtol=1e-9, atol=1e-11 * scale) for s in ('rmse', 'mae', 'std')):
                    bad = 'statistics'
                if bad:
                    ctx.oracle_fail(case, {'what': 'both weight vectors vs explicit harmonic vector (%s): %s differ'
                                                   % (side, bad), 'nclip': k,
                                           'both': [fa['matrix'].tolist(), fa['shift'].tolist(), fa['rmse']],
                                           'explicit': [fb['matrix'].tolist(), fb['shift'].tolist(), fb['rmse']]})
                    break
        s1 = len(lines)
        for k in C7.NCLIPS:
            lines.append(C7.model_line(cfg, k, 'F'))
        pending.append(('B', case, cfg, None, hist, s1, None, near))


# ---------------------------------------------------------------------------------------------
# stream C: groups through the real WCSGroupCatalog / fit2ref
# ---------------------------------------------------------------------------------------------
def mkwcs(crpix, rot, scale=1e-5, crval=(82.0, 12.0)):
    from astropy import wcs as fitswcs
    from tweakwcs.linearfit import build_fit_matrix
    w = fitswcs.WCS(naxis=2)
    w.wcs.cd = build_fit_matrix((rot, rot), scale)
    w.wcs.crval = list(crval)
    w.wcs.crpix = list(crpix)
    w.wcs.ctype = ['RA---TAN', 'DEC--TAN']
    w.pixel_shape = [1024, 1024]
    w.pixel_bounds = ((-0.5, 1023.5), (-0.5, 1023.5))
    w.wcs.set()
    return w


def gen_group(rng):
    """specification of one group case (plain python data, replayable)"""
    nim = rng.choice([1, 1, 2, 2, 3])
    images = []
    for i in range(nim):
        n = rng.randint(3, 12)
        if nim > 1 and rng.random() < 0.15:
            n = 0
        images.append({'crpix': [512.0 - 350.0 * i + rng.uniform(-20, 20), 512.0 + rng.uniform(-50, 50)],
                       'rot': 30.0 + rng.uniform(-3, 3),
                       'x': [rng.uniform(0, 1000) for _ in range(n)],
                       'y': [rng.uniform(0, 1000) for _ in range(n)],
                       # distinctive weights: two decades, unique per (image, source)
                       'w': [10.0 ** rng.uniform(-1, 1) * (1 + i) for _ in range(n)]})
    if all(len(im['x']) == 0 for im in images):
        images[0]['x'] = [rng.uniform(0, 1000) for _ in range(5)]
        images[0]['y'] = [rng.uniform(0, 1000) for _ in range(5)]
        images[0]['w'] = [10.0 ** rng.uniform(-1, 1) for _ in range(5)]
    im_weights = rng.random() < 0.75
    ref_weights = rng.random() < 0.6
    if not im_weights and not ref_weights and rng.random() < 0.7:
        im_weights = True
    for im in images:
        for j in range(len(im['w'])):
            u = rng.random()
            if u < 0.08:
                im['w'][j] = 0.0
            elif u < 0.1:
                im['w'][j] = -1.0
    total = sum(len(im['x']) for im in images)
    spec = {'images': images, 'im_weights': im_weights, 'ref_weights': ref_weights,
            'fitgeom': rng.choice(C7.GEOMS), 'nclip': rng.choice([0, 1, 2, 3, 5]),
            'sigma': rng.choice(C7.SIGMAS), 'stat': rng.choice(C7.STATS), 'accum': rng.random() < 0.5,
            # sky perturbation of the reference positions in pixels (noise, and a few outliers)
            'noise': [[rng.gauss(0, 0.1), rng.gauss(0, 0.1)] for _ in range(total)],
            'outliers': {}, 'extra_ref': rng.randint(0, 4), 'mixed': False}
    for t in range(total):
        if rng.random() < 0.12:
            spec['outliers'][str(t)] = [rng.uniform(-8, 8), rng.uniform(-8, 8)]
    # reference catalog order and the matched pairs, both shuffled
    nref = total + spec['extra_ref']
    order = list(range(nref))
    rng.shuffle(order)
    spec['ref_order'] = order                      # ref row r holds "true source" order[r]
    spec['ref_w'] = [100.0 * 10.0 ** rng.uniform(-1, 1) for _ in range(nref)]
    for r in range(nref):
        if rng.random() < 0.06:
            spec['ref_w'][r] = 0.0
    if rng.random() < 0.25:
        # integer reference weights in an integer-typed column
        spec['ref_w'] = [float(round(v)) for v in spec['ref_w']]
        spec['ref_w_int'] = True
    pairs = [t for t in range(total) if rng.random() < 0.85]
    if len(pairs) < 4:
        pairs = list(range(total))
    rng.shuffle(pairs)
    spec['pairs'] = pairs                          # true-source ids, in the order the matcher reports them
    if nim > 1 and rng.random() < 0.06:
        spec['mixed'] = True                       # one image without a weight column: KeyError expected
    return spec


def run_group(ctx, spec, lines, pending):
    from astropy.table import Table
    from tweakwcs import FITSWCSCorrector, wcsimage
    from tweakwcs.wcsimage import RefCatalog, WCSImageCatalog, WCSGroupCatalog
    from tweakwcs import linearfit
    images = spec['images']
    tp = FITSWCSCorrector(mkwcs((500.0, 500.0), 33.0))
    imcats = []
    true_sky = []          # per true source t: (ra, dec)
    src_of = []            # t -> (image index, j)
    uv_true = []           # t -> tangent-plane position of the image source (hand computed)
    for i, im in enumerate(images):
        corr = FITSWCSCorrector(mkwcs(im['crpix'], im['rot']))
        n = len(im['x'])
        cols = [np.array(im['x'], dtype=float), np.array(im['y'], dtype=float)]
        names = ['x', 'y']
        drop_w = spec['mixed'] and i == len(images) - 1 and n > 0
        if spec['im_weights'] and not drop_w:
            cols.append(np.array(im['w'], dtype=float))
            names.append('weight')
        elif spec['mixed'] and not spec['im_weights'] and i == 0 and n > 0:
            cols.append(np.array(im['w'], dtype=float))
            names.append('weight')
        imcats.append(WCSImageCatalog(Table(cols, names=names), corr, name='im%d' % i))
        if n:
            ra, dec = corr.det_to_world(cols[0], cols[1])
            tx, ty = tp.world_to_tanp(ra, dec)
            for j in range(n):
                true_sky.append((float(ra[j]), float(dec[j])))
                src_of.append((i, j))
                uv_true.append((float(tx[j]), float(ty[j])))
    total = len(src_of)
    case = {'op': 'group', 'spec': spec}
    nontrivial = sum(1 for im in images if len(im['x'])) >= 2 or spec['pairs'] != sorted(spec['pairs'])
    ctx.case(case, nontrivial=nontrivial, branch='C:group:%d-images' % len(images))
    has_w = [('weight' in ic.catalog.colnames) for ic in imcats if len(ic.catalog)]
    try:
        g = WCSGroupCatalog(imcats, name='grp')
    except KeyError as e:
        if len(set(has_w)) > 1:
            ctx.branch('C:mixed-weights-refused')
            specs = ' '.join('%d %d' % (len(im['x']), int('weight' in ic.catalog.colnames))
                             for im, ic in zip(images, imcats))
            nums = []
            for im, ic in zip(images, imcats):
                for x, y in zip(im['x'], im['y']):
                    nums += [f2x(x), f2x(y)]
                if 'weight' in ic.catalog.colnames:
                    nums += [f2x(v) for v in im['w']]
            lines.append('pairargs F 0 0 %d %s 0 | %s |' % (len(images), specs, ' '.join(nums)))
            pending.append(('Cmixed', case, None, None, None, len(lines) - 1, None, None))
        else:
            ctx.oracle_fail(case, {'what': 'WCSGroupCatalog raised KeyError for consistent catalogs', 'exc': repr(e)[:100]})
        return
    if len(set(has_w)) > 1:
        ctx.oracle_fail(case, {'what': 'catalogs with and without weight column were combined'})
        return
    im_has_w = bool(has_w and has_w[0])
    if ('weight' in g.catalog.colnames) != im_has_w:
        ctx.oracle_fail(case, {'what': 'group catalog weight column present/absent against its images'})
        return
    # reference catalog: perturbed true positions (in tangent-plane pixels) + unmatched extras, shuffled
    nref = total + spec['extra_ref']
    ref_tp = []
    for s in spec['ref_order']:
        if s < total:
            dx, dy = spec['noise'][s]
            if str(s) in spec['outliers']:
                dx += spec['outliers'][str(s)][0]
                dy += spec['outliers'][str(s)][1]
            ref_tp.append((uv_true[s][0] + dx, uv_true[s][1] + dy))
        else:
            ref_tp.append((2000.0 + 37.0 * s, -1500.0 - 11.0 * s))
    rra, rdec = tp.tanp_to_world(np.array([p[0] for p in ref_tp]), np.array([p[1] for p in ref_tp]))
    cols = [np.asarray(rra, dtype=float), np.asarray(rdec, dtype=float)]
    names = ['RA', 'DEC']
    if spec['ref_weights']:
        rw = np.array(spec['ref_w'][:nref], dtype=float)
        if spec.get('ref_w_int'):
            rw = rw.astype(np.int64)      # an integer-typed weight column (the values are integers already)
        cols.append(rw)
        names.append('weight')
    ref = RefCatalog(Table(cols, names=names), name='ref')
    ref.calc_tanp_xy(tp)
    g.calc_tanp_xy(tp)
    xy_ref = np.array(tp.world_to_tanp(cols[0], cols[1]), dtype=float).T        # hand computed
    row_of = {s: r for r, s in enumerate(spec['ref_order'])}

    def matcher(refcat, imcat, tp_pscale=1.0, tp_units=None):
        """ground-truth matcher: finds the rows by position, reports the pairs in shuffled order"""
        ri, ii = [], []
        rx, ry = np.asarray(refcat['TPx']), np.asarray(refcat['TPy'])
        ix, iy = np.asarray(imcat['TPx']), np.asarray(imcat['TPy'])
        for t in spec['pairs']:
            r = row_of[t]
            ri.append(int(np.argmin(np.hypot(rx - xy_ref[r][0], ry - xy_ref[r][1]))))
            ii.append(int(np.argmin(np.hypot(ix - uv_true[t][0], iy - uv_true[t][1]))))
        return np.array(ri, dtype=int), np.array(ii, dtype=int)

    cap = {}
    orig = wcsimage.iter_linear_fit

    def spy(xy, uv, wxy=None, wuv=None, **kw):
        cap['xy'] = np.array(xy, dtype=float)
        cap['uv'] = np.array(uv, dtype=float)
        cap['wxy'] = None if wxy is None else np.array(wxy, dtype=float)
        cap['wuv'] = None if wuv is None else np.array(wuv, dtype=float)
        cap['kw'] = dict(kw)
        return orig(xy, uv, wxy, wuv, **kw)

    sigma = (spec['sigma'], spec['stat'])
    wcsimage.iter_linear_fit = spy
    try:
        nm, mref, minp = g.match2ref(ref, match=matcher)
        try:
            fit = g.fit2ref(ref, tp, fitgeom=spec['fitgeom'], nclip=spec['nclip'], sigma=sigma,
                            clip_accum=spec['accum'])
            res = ('ok', fit)
        except Exception as e:  # noqa
            res = ('err', C7.exc_kind(e))
    finally:
        wcsimage.iter_linear_fit = orig
    # ---- direct call on hand-built pairs with explicit harmonic weights
    pxy = np.array([xy_ref[row_of[t]] for t in spec['pairs']], dtype=float)
    puv = np.array([uv_true[t] for t in spec['pairs']], dtype=float)
    wim = None
    if im_has_w:
        wim = [images[src_of[t][0]]['w'][src_of[t][1]] for t in spec['pairs']]
    wrf = None
    if spec['ref_weights']:
        wrf = [spec['ref_w'][row_of[t]] for t in spec['pairs']]
    if wim is not None and wrf is not None:
        wexp = harmonic_vec(wrf, wim)
    elif wim is not None:
        wexp = [float(v) for v in wim]
    elif wrf is not None:
        wexp = [float(v) for v in wrf]
    else:
        wexp = None
    dcfg = {'family': 'group-direct', 'fitgeom': spec['fitgeom'], 'xy': pxy.tolist(), 'uv': puv.tolist(),
            'wxy': wexp, 'wuv': None, 'center': None, 'sigma': spec['sigma'], 'stat': spec['stat'],
            'accum': spec['accum'], 'wmode': 'none' if wexp is None else 'wxy'}
    dhist = [C7.impl_call(dcfg, k) for k in C7.NCLIPS]
    ctx.evaluations += len(C7.NCLIPS)
    ctx.impl_traces += len(C7.NCLIPS)
    near = C7.oracle_history(ctx, case, dcfg, dhist) if all(h[0] == 'ok' for h in dhist) else None
    d = dhist[spec['nclip']]
    undecided = near is not None and spec['nclip'] > near
    if undecided:
        ctx.near_tie()
    elif res[0] != d[0] or (res[0] == 'err' and res[1] != d[1]):
        ctx.oracle_fail(case, {'what': 'fit2ref and the direct call on the same pairs end differently',
                               'fit2ref': res[1] if res[0] == 'err' else 'ok',
                               'direct': d[1] if d[0] == 'err' else 'ok'})
    elif res[0] == 'ok':
        f, df = res[1], d[1]
        scale = float(max(1.0, np.max(np.abs(pxy))))
        cd = np.asarray(df['center_ld'])
        eshift = np.asarray(df['shift_ld'] + cd - np.dot(cd, df['matrix_ld'].T), dtype=float)
        wm = C7.wmask_of(dcfg)
        interp = np.count_nonzero(df['fitmask']) == C7.MINOBJ[spec['fitgeom']] and spec['fitgeom'] != 'shift'
        bad = None
        if not np.array_equal(f['fitmask'], df['fitmask']) or f['eff_nclip'] != df['eff_nclip']:
            bad = 'fitmask / eff_nclip'
        elif np.any(np.asarray(f['fitmask'], dtype=bool) & ~wm):
            bad = 'fitmask True on a non-positively weighted pair'
        elif interp:
            ctx.near_tie()
        elif not np.allclose(f['matrix'], df['matrix'], rtol=0, atol=1e-9):
            bad = 'matrix'
        elif not np.allclose(f['shift'], eshift, rtol=0, atol=1e-9 * scale):
            bad = 'shift (re-centred to (0,0))'
        elif not all(close(f[s], df[s], rtol=1e-9, atol=1e-11 * scale) for s in ('rmse', 'mae', 'std')):
            bad = 'statistics'
        if bad:
            ctx.oracle_fail(case, {'what': 'weights / pairs did not reach the fit: %s differs from the direct '
                                           'call with hand-built pairs and harmonic weights' % bad,
                                   'fit2ref': [np.asarray(f['matrix']).tolist(), np.asarray(f['shift']).tolist(),
                                               f['rmse'], C7.bits(f['fitmask'])],
                                   'direct': [np.asarray(df['matrix']).tolist(), eshift.tolist(), df['rmse'],
                                              C7.bits(df['fitmask'])]})
    # ---- what fit2ref handed to iter_linear_fit: pair k <-> (reference row, image source)
    if 'xy' in cap:
        exp_wxy = None if wrf is None else np.array(wrf, dtype=float)
        exp_wuv = None if wim is None else np.array(wim, dtype=float)
        def same_vec(a, b):
            return (a is None) == (b is None) and (a is None or np.array_equal(a, b))

        # the two weight vectors enter the fit symmetrically (harmonic combination), so a rewrite
        # that hands them over in the other order keeps the property: accepted
        okw = ((same_vec(cap['wxy'], exp_wxy) and same_vec(cap['wuv'], exp_wuv)) or
               (same_vec(cap['wxy'], exp_wuv) and same_vec(cap['wuv'], exp_wxy)))
        okc = (np.array_equal(cap['xy'], pxy) and np.array_equal(cap['uv'], puv) and okw and
               cap['kw'].get('center') is None)
        if not okc:
            ctx.oracle_fail(case, {'what': 'arrays handed to iter_linear_fit are not (reference position, image '
                                           'position, reference weight, image weight) of the matched pairs',
                                   'wxy': None if cap['wxy'] is None else cap['wxy'].tolist(),
                                   'expected_wxy': None if exp_wxy is None else exp_wxy.tolist(),
                                   'wuv': None if cap['wuv'] is None else cap['wuv'].tolist(),
                                   'expected_wuv': None if exp_wuv is None else exp_wuv.tolist()})
        # model: stack the image catalogs, index with the arrays the matcher returned
        specs = []
        nums = []
        for x, y in ref_tp_pairs(ref):
            nums += [f2x(x), f2x(y)]
        if spec['ref_weights']:
            nums += [f2x(v) for v in np.asarray(ref.catalog['weight'], dtype=float)]
        for ic in imcats:
            n = len(ic.catalog)
            hw = 'weight' in ic.catalog.colnames
            specs.append('%d %d' % (n, int(hw)))
            if n:
                ra, dec = ic.det_to_world(np.asarray(ic.catalog['x']), np.asarray(ic.catalog['y']))
                tx, ty = tp.world_to_tanp(ra, dec)
                for a, b in zip(np.asarray(tx, dtype=float), np.asarray(ty, dtype=float)):
                    nums += [f2x(a), f2x(b)]
                if hw:
                    nums += [f2x(v) for v in np.asarray(ic.catalog['weight'], dtype=float)]
        lines.append('pairargs F %d %d %d %s %d | %s | %s %s'
                     % (int(spec['ref_weights']), nref, len(imcats), ' '.join(specs), len(mref),
                        ' '.join(nums), ' '.join(str(int(v)) for v in mref), ' '.join(str(int(v)) for v in minp)))
        s1 = len(lines) - 1
        # and the model of iter_linear_fit on the captured arrays
        mcfg = {'family': 'group-captured', 'fitgeom': spec['fitgeom'], 'xy': cap['xy'].tolist(),
                'uv': cap['uv'].tolist(), 'wxy': None if cap['wxy'] is None else cap['wxy'].tolist(),
                'wuv': None if cap['wuv'] is None else cap['wuv'].tolist(), 'center': None,
                'sigma': spec['sigma'], 'stat': spec['stat'], 'accum': spec['accum'], 'wmode': 'x'}
        lines.append(C7.model_line(mcfg, spec['nclip'], 'F'))
        pending.append(('C', case, cap, res, undecided, s1, len(lines) - 1, None))


def ref_tp_pairs(ref):
    return zip(np.asarray(ref.catalog['TPx'], dtype=float), np.asarray(ref.catalog['TPy'], dtype=float))


# ---------------------------------------------------------------------------------------------
def finish(ctx, lines, pending):
    outs = ctx.driver(lines)
    n9 = len(C7.NCLIPS)
    for kind, case, a, b, c, s1, s2, near in pending:
        if kind == 'A':
            cfg, c2, h2 = a, b, c
            o1 = outs[s1:s1 + n9]
            o2 = outs[s2:s2 + n9]
            if o1 != o2:
                k = next(i for i in range(n9) if o1[i] != o2[i])
                ctx.disagree(case, {'op': 'iterfit', 'what': 'the model itself is sensitive to the coordinates of '
                                                           'non-positively weighted pairs', 'nclip': k,
                                    'original': o1[k][:200], 'corrupted': o2[k][:200]})
            C7.compare_history(ctx, case, c2, h2, o2, 'F', near)
        elif kind == 'B':
            C7.compare_history(ctx, case, a, c, outs[s1:s1 + n9], 'F', near)
        elif kind == 'Cmixed':
            if outs[s1].split()[:2] != ['err', 'mixedWeights']:
                ctx.disagree(case, {'op': 'pairargs', 'model': outs[s1][:100], 'impl': 'KeyError'})
        elif kind == 'C':
            cap, res, undecided = a, b, c
            t = outs[s1].split()
            if t[0] != 'ok':
                ctx.disagree(case, {'op': 'pairargs', 'model': outs[s1][:100], 'impl': 'arrays'})
                continue
            n = int(t[1])
            hx, hu = int(t[2]), int(t[3])
            vals = [x2f(s) for s in t[4:]]
            def enc(wa, wb):
                e = list(cap['xy'].ravel()) + list(cap['uv'].ravel())
                if wa is not None:
                    e += list(wa)
                if wb is not None:
                    e += list(wb)
                return e

            same = False
            exp = enc(cap['wxy'], cap['wuv'])
            for wa, wb in ((cap['wxy'], cap['wuv']), (cap['wuv'], cap['wxy'])):   # weight order: see above
                e = enc(wa, wb)
                if (n == len(cap['xy']) and hx == int(wa is not None) and hu == int(wb is not None)
                        and len(vals) == len(e) and all(f2x(p) == f2x(q) for p, q in zip(vals, e))):
                    same = True
            if not same:
                ctx.disagree(case, {'op': 'pairargs', 'what': 'arrays handed to iter_linear_fit', 'model': vals[:40],
                                    'impl': [float(v) for v in exp[:40]]})
                continue
            if undecided:
                continue
            kindm, val = C7.parse_model(outs[s2], 'F')
            if kindm == 'bad':
                ctx.disagree(case, {'op': 'iterfit', 'model': outs[s2][:100]})
            elif kindm == 'err' or res[0] == 'err':
                mk = val if kindm == 'err' else 'ok'
                ik = res[1] if res[0] == 'err' else 'ok'
                if mk != ik:
                    # `singular` on one side only: a near-tie only when the collinearity guard of
                    # fit_general was decided by rounding (exact guard quantity in the band, C7)
                    c7cfg = {'fitgeom': case['spec']['fitgeom'], 'uv': np.asarray(cap['uv'], dtype=float).tolist(),
                             'xy': np.asarray(cap['xy'], dtype=float).tolist(),
                             'wxy': None if cap['wxy'] is None else [float(v) for v in cap['wxy']],
                             'wuv': None if cap['wuv'] is None else [float(v) for v in cap['wuv']]}
                    if 'singular' in (mk, ik) and C7.singular_mismatch_is_tie(c7cfg, res, kindm, val, 'F'):
                        ctx.near_tie()
                    else:
                        ctx.disagree(case, {'op': 'iterfit', 'model': mk, 'impl': ik})
            else:
                f = res[1]
                spec = case['spec']
                scale = float(max(1.0, np.max(np.abs(cap['xy']))))
                if C7.bits(f['fitmask']) != val['mask'] or int(f['eff_nclip']) != val['eff']:
                    ctx.disagree(case, {'op': 'iterfit', 'what': 'fitmask / eff_nclip of fit2ref',
                                        'model_mask': val['mask'], 'impl_mask': C7.bits(f['fitmask'])})
                elif val['mask'].count('1') == C7.MINOBJ[spec['fitgeom']] and spec['fitgeom'] != 'shift':
                    ctx.near_tie()
                elif not (all(abs(p - q) <= 1e-9 for p, q in zip(val['matrix'], np.asarray(f['matrix']).ravel()))
                          and all(abs(p - q) <= 1e-9 * scale for p, q in zip(val['eshift'], f['shift']))
                          and close(val['rmse'], f['rmse'], rtol=1e-9, atol=1e-11 * scale)):
                    ctx.disagree(case, {'op': 'iterfit', 'what': 'fit2ref parameters (shift re-centred)',
                                        'model': val, 'impl': [np.asarray(f['matrix']).tolist(),
                                                               np.asarray(f['shift']).tolist(), f['rmse']]})


def both_weights_expand_probes(ctx, count):
    """images AND reference catalog carry weights and the reference catalog is expanded: every row appended to the
    reference catalog keeps the weight of the image source it came from (a real, unmasked number), the original rows
    keep theirs - so that a later image matched to an appended source is weighted with it"""
    from astropy.table import Table
    from tweakwcs import align_wcs, XYXYMatch
    from .. import alignsim
    rng = ctx.rng
    for it in range(count):
        seed = rng.getrandbits(32)
        scene = alignsim.Scene(np.random.default_rng(seed))
        npr = np.random.default_rng(seed + 1)
        ims, ids, wts = [], [], []
        for slot, origin in enumerate([(0, 0), (300, 100), (100, 350)]):
            c, sid = scene.make_image(slot, origin, 'good', None, err=(rng.uniform(-2, 2), rng.uniform(-2, 2)))
            w = npr.uniform(0.5, 2.0, len(sid))
            c.meta['catalog']['weight'] = w
            ims.append(c)
            ids.append(list(sid))
            wts.append(w)
        ref_ids = alignsim.ref_sources(scene, 'centre')
        sky = scene.sky_of(ref_ids)
        wref = npr.uniform(0.5, 2.0, len(ref_ids))
        ref = Table([sky[:, 0], sky[:, 1], wref], names=('RA', 'DEC', 'weight'))
        case = {'op': 'expand-with-weights', 'scene_seed': seed}
        ctx.case(case, nontrivial=True, branch='expand-with-weights')
        try:
            out = align_wcs(ims, refcat=ref, expand_refcat=True, enforce_user_order=True, fitgeom='rscale',
                            match=XYXYMatch(searchrad=5, separation=0.5, tolerance=2.0))
        except Exception as e:   # noqa
            ctx.oracle_fail(case, {'what': 'align_wcs raised', 'exception': '%s: %s' % (type(e).__name__, str(e)[:100])})
            continue
        if any(c.meta.get('fit_info', {}).get('status') != 'SUCCESS' for c in ims):
            ctx.branch('expand-with-weights:not-all-success-skipped')
            continue
        if 'weight' not in out.colnames:
            ctx.oracle_fail(case, {'what': "the expanded reference catalog lost its 'weight' column"})
            continue
        wcol = out['weight']
        mask = np.zeros(len(out), dtype=bool) if not hasattr(wcol, 'mask') else np.array(wcol.mask, dtype=bool)
        wout = np.asarray(wcol, dtype=float)
        n0 = len(ref_ids)
        if mask[:n0].any() or not np.array_equal(wout[:n0], wref):
            ctx.oracle_fail(case, {'what': 'the weights of the original reference rows changed'})
            continue
        spec = {'images': [((0, 0), 'good', None), ((300, 100), 'good', None), ((100, 350), 'good', None)]}
        rows = alignsim.map_rows(scene, spec, out, {})
        src_w = {}
        for sid, w in zip(ids, wts):
            for s_, w_ in zip(sid, w):
                src_w.setdefault(s_, []).append(float(w_))
        bad = 0
        for j in range(n0, len(out)):
            s_ = rows[j][0]
            if rows[j][3] > 1.0:
                continue
            cands = src_w.get(s_, [])
            if mask[j] or not any(abs(wout[j] - w_) <= 1e-12 * w_ for w_ in cands):
                bad += 1
                first = (j, float(wout[j]), bool(mask[j]), cands[:3])
        if bad:
            ctx.oracle_fail(case, {'what': 'a source appended to the weighted reference catalog does not carry the weight '
                                           'of the image source it came from', 'rows': bad, 'first': first})


def run(ctx):
    C7._lf()
    lines, pending = [], []
    stream_a(ctx, lines, pending)
    stream_b(ctx, lines, pending)
    for _ in range(ctx.n(150, 3000)):
        run_group(ctx, gen_group(ctx.rng), lines, pending)
    finish(ctx, lines, pending)
    # open finding F28: weights after an expansion of the reference catalog (fixed probe; model TW.GC.outerWeight,
    # theorem expand_weight_outer_join in Proofs/C11.lean)
    from . import c11_groupcat
    import logging
    logging.disable(logging.CRITICAL)
    try:
        c11_groupcat.weight_expand_probe(ctx)
        both_weights_expand_probes(ctx, ctx.n(2, 20))
    finally:
        logging.disable(logging.NOTSET)


def replay(ctx, payload):
    fi = payload.get('failing_input') or (payload.get('correspondence') or [None])[0]
    if not fi:
        print('nothing to replay: %s' % payload.get('broken'))
        return 1
    case = fi['case']
    C7._lf()
    lines, pending = [], []
    if case.get('op') == 'group':
        run_group(ctx, case['spec'], lines, pending)
    elif 'original_xy' in case:
        c2 = {k: v for k, v in case.items() if k not in ('original_xy', 'original_uv')}
        cfg = dict(c2)
        cfg['xy'] = case['original_xy']
        cfg['uv'] = case['original_uv']
        h1 = [C7.impl_call(cfg, k) for k in C7.NCLIPS]
        h2 = [C7.impl_call(c2, k) for k in C7.NCLIPS]
        wm = C7.wmask_of(cfg)
        xy = np.array(cfg['xy'], dtype=float)
        scale = float(max(1.0, np.max(np.abs(xy[wm])) if wm.any() else 1.0))
        for k, (a, b) in enumerate(zip(h1, h2)):
            if a[0] != b[0]:
                ctx.oracle_fail(case, {'what': 'outcome changed', 'nclip': k})
            elif a[0] == 'ok':
                ok, bit, key = same_result(a[1], b[1], scale)
                if not ok:
                    ctx.oracle_fail(case, {'what': 'corrupting non-positively weighted pairs changed %s' % key,
                                           'nclip': k})
                if np.any(np.asarray(b[1]['fitmask'], dtype=bool) & ~wm):
                    ctx.oracle_fail(case, {'what': 'fitmask is True on a pair with non-positive weight', 'nclip': k})
    else:
        cfg = dict(case)
        hist = [C7.impl_call(cfg, k) for k in C7.NCLIPS]
        near = C7.oracle_history(ctx, case, cfg, hist)
        s1 = len(lines)
        for k in C7.NCLIPS:
            lines.append(C7.model_line(cfg, k, 'F'))
        pending.append(('B', case, cfg, None, hist, s1, None, near))
    finish(ctx, lines, pending)
    bad = ctx.oracle_failures + ctx.disagreements
    for b in bad:
        print('STILL FAILS:', b['detail'])
    return 1 if bad else 0
