"""
C15 -- overlap-driven ordering picks the largest overlap and reports its true area.

Correspondence (exact): `tweakwcs.imalign._max_overlap_pair` / `_max_overlap_image` (and through
them `overlap_matrix`) driven with stub footprints whose `_guarded_intersection_area` answers from
an arbitrary table of small integers / dyadic rationals (exact as doubles), against the Lean model
`TW.maxOverlapPair` / `TW.maxOverlapImage` on exact rationals (ops `pair Q`, `nextimage Q`); the
group-formation loop of `align_wcs` against `TW.formGroups` (op `groups`); and the ordering calls
made by real `align_wcs` runs (real spherical areas, op `pair F` / `nextimage F`).

Oracle (independent of the model): brute-force arg-max over the off-diagonal of the overlap matrix,
area of exactly the returned pair, totals, removal of exactly the returned images, remainder
sorted by non-increasing overlap with the reference; with user order enforced the first two /
the first image in list order; groups aligned in order of first appearance of a member.
"""
import itertools

import numpy as np

from ..common import Fraction, q2s, s2q, f2x, x2f, to_fraction

ID = 'C15'
RULE = ('work lists of 0..6 stub footprints over symmetric overlap tables with small-integer / dyadic '
        'entries (random, many exact ties, all-zero, nested/disjoint patterns, malformed-polygon flags, '
        'deliberately asymmetric raw tables), every permutation of the list, both enforce_user_order '
        'values; next-image lists of 0..6 areas; group-id assignments of 1..6 images; real align_wcs '
        'runs of 3..6 FITS images with group ids.  A case is non-trivial when it reaches the matrix '
        'branch (n >= 3, order not enforced), the arg-max scan (next image, n >= 2, not enforced), '
        'has at least one repeated group id, or is a real align_wcs run; distinct = distinct canonical input')
ASSUMPTIONS = [
    'overlap areas enter the model as data (the values returned by _guarded_intersection_area); '
    'spherical_geometry itself is not modelled',
    'np.argsort on exactly equal overlaps is platform dependent (SIMD sort dispatch): the model uses '
    'a stable ascending sort reversed; among exactly equal overlaps only the VALUES are compared',
    'the choice among several pairs attaining the maximum overlap, and of the reference when both '
    'totals are equal, is not constrained by the property: compared as values only',
    'NaN areas are outside the model',
]


# ---------------------------------------------------------------------------
# stubs
# ---------------------------------------------------------------------------
class Stub:
    """footprint whose guarded intersection area with another stub is read from a table"""
    __slots__ = ('k', 'M', 'F')

    def __init__(self, k, M, F):
        self.k = k
        self.M = M
        self.F = F

    def _guarded_intersection_area(self, other):
        return float(self.M[self.k][other.k]), int(self.F[self.k][other.k])

    def __repr__(self):
        return 'S%d' % self.k


class RefStub:
    __slots__ = ('A', 'F')

    def __init__(self, A, F):
        self.A = A
        self.F = F

    def _guarded_intersection_area(self, im):
        return float(self.A[im.k]), int(self.F[im.k])

    def intersection_area(self, im):
        return float(self.A[im.k])


class WarnCounter:
    """counts the 'MalformedPolygonError' warnings of tweakwcs.imalign"""

    def __init__(self):
        import logging

        class H(logging.Handler):
            def __init__(s):
                super().__init__()
                s.count = 0

            def emit(s, r):
                try:
                    if 'MalformedPolygonError' in r.getMessage():
                        s.count += 1
                except Exception:
                    pass
        self.logging = logging
        self.h = H()
        self.lg = logging.getLogger('tweakwcs.imalign')

    def __enter__(self):
        self.old_disable = self.logging.root.manager.disable
        self.logging.disable(self.logging.NOTSET)
        self.old_prop = self.lg.propagate
        self.lg.propagate = False
        self.lg.addHandler(self.h)
        return self.h

    def __exit__(self, *a):
        self.lg.removeHandler(self.h)
        self.lg.propagate = self.old_prop
        self.logging.disable(self.old_disable)


# ---------------------------------------------------------------------------
# generators
# ---------------------------------------------------------------------------
def sym_matrix(rng, n, fam):
    """symmetric table with zero diagonal, entries exactly representable"""
    M = [[0.0] * n for _ in range(n)]
    for i in range(n):
        for j in range(i + 1, n):
            if fam == 'ints':
                v = float(rng.randint(0, 12))
            elif fam == 'ties':
                v = float(rng.choice([0, 0, 1, 1, 2, 3]))
            elif fam == 'dyadic':
                v = rng.randint(0, 64) / 8.0
            elif fam == 'distinct':
                v = None
            elif fam == 'sparse':
                v = float(rng.choice([0, 0, 0, 0, 5, 7, 7]))
            elif fam == 'nested':
                # a chain of nested footprints: overlap = area of the smaller one
                v = float(min(i, j) + 1)
            elif fam == 'zero':
                v = 0.0
            else:
                raise ValueError(fam)
            M[i][j] = M[j][i] = v
    if fam == 'distinct':
        vals = rng.sample(range(1, 64), n * (n - 1) // 2)
        it = iter(vals)
        for i in range(n):
            for j in range(i + 1, n):
                M[i][j] = M[j][i] = next(it) / 4.0
    return M


def zeros(n):
    return [[0] * n for _ in range(n)]


FAMILIES = ['ints', 'ties', 'dyadic', 'distinct', 'sparse', 'nested', 'zero']


# ---------------------------------------------------------------------------
# _max_overlap_pair
# ---------------------------------------------------------------------------
def raw_tables(M, F, perm):
    n = len(perm)
    raw = [[M[perm[p]][perm[q]] for q in range(n)] for p in range(n)]
    rawf = [[F[perm[p]][perm[q]] for q in range(n)] for p in range(n)]
    return raw, rawf


def eff_matrix(raw):
    """the overlap matrix as overlap_matrix defines it (one call per pair p < q, mirrored)"""
    n = len(raw)
    return [[0.0 if p == q else float(raw[min(p, q)][max(p, q)]) for q in range(n)] for p in range(n)]


def pair_case(ctx, fam, M, F, perm, enforce, lines, pending, imalign, warn):
    n = len(perm)
    ims = [Stub(k, M, F) for k in perm]
    work = list(ims)
    warn.count = 0
    try:
        res = imalign._max_overlap_pair(work, enforce)
        exc = None
    except Exception as e:   # noqa
        res = None
        exc = '%s: %s' % (type(e).__name__, str(e)[:80])
    pos = {id(s): p for p, s in enumerate(ims)}
    raw, rawf = raw_tables(M, F, perm)
    case = {'op': 'pair', 'family': fam, 'enforce': bool(enforce), 'perm': list(perm), 'M': M}
    if any(any(r) for r in F):
        case['F'] = F
    matrix_branch = n >= 3 and not enforce
    ctx.case(case, nontrivial=matrix_branch,
             branch='pair:%s:n=%d:%s' % ('user-order' if (enforce or n <= 2) else 'matrix', n, fam))
    if exc is not None:
        ctx.oracle_fail(case, {'what': '_max_overlap_pair raised', 'exception': exc})
        return
    if not (isinstance(res, tuple) and len(res) == 3):
        ctx.oracle_fail(case, {'what': '_max_overlap_pair did not return a 3-tuple', 'got': repr(res)[:80]})
        return
    im1, im2, area = res
    impl = {'ref': pos.get(id(im1)) if im1 is not None else None,
            'im': pos.get(id(im2)) if im2 is not None else None,
            'area': None if area is None else float(area),
            'rest': [pos.get(id(o)) for o in work], 'warn': warn.count > 0}
    pair_oracle(ctx, case, n, enforce, raw, impl, im1, im2)
    if not any(any(r) for r in F):
        # the deprecated public twin (same algorithm without the area) must make the same choice
        import warnings
        work2 = list(ims)
        try:
            with warnings.catch_warnings():
                warnings.simplefilter('ignore')
                r2 = imalign.max_overlap_pair(work2, enforce)
            pub = (pos.get(id(r2[0])) if r2[0] is not None else None,
                   pos.get(id(r2[1])) if r2[1] is not None else None, [pos.get(id(o)) for o in work2])
        except Exception as e:   # noqa
            pub = 'raised %s' % type(e).__name__
        ctx.branch('pair:deprecated-public-twin')
        if pub != (impl['ref'], impl['im'], impl['rest']):
            ctx.oracle_fail(case, {'what': 'the deprecated public max_overlap_pair does not select what '
                                           '_max_overlap_pair selects on the same list', 'public': pub,
                                   'private': [impl['ref'], impl['im'], impl['rest']]})
    flat = [to_fraction(x) for r in raw for x in r]
    line = 'pair Q %d %d %s' % (1 if enforce else 0, n, ' '.join(q2s(x) for x in flat))
    if n:
        line += ' ' + ' '.join(str(int(x)) for r in rawf for x in r)
    lines.append(line.strip())
    pending.append(('pair', case, n, enforce, raw, impl))


def pair_oracle(ctx, case, n, enforce, raw, impl, im1, im2):
    """the property stated directly on what the implementation returned"""
    eff = eff_matrix(raw)
    ref, im, area, rest = impl['ref'], impl['im'], impl['area'], impl['rest']
    if n < 2:
        return      # the property speaks about lists of at least two images
    if (im1 is not None and ref is None) or (im2 is not None and im is None) or None in rest:
        ctx.oracle_fail(case, {'what': 'an object that is not a member of the work list was returned / left'})
        return
    if ref is None or im is None or ref == im:
        ctx.oracle_fail(case, {'what': 'no pair of two different images returned', 'ref': ref, 'im': im})
        return
    if area is None or area != eff[ref][im]:
        ctx.oracle_fail(case, {'what': 'reported area is not the overlap of the returned pair',
                               'reported': area, 'true': eff[ref][im], 'ref': ref, 'im': im})
    others = [p for p in range(n) if p not in (ref, im)]
    if sorted(rest) != others:
        ctx.oracle_fail(case, {'what': 'work list is not exactly the images that were not returned',
                               'rest': rest, 'expected_set': others})
        return
    if enforce or n == 2:
        if (ref, im) != (0, 1):
            ctx.oracle_fail(case, {'what': 'user order: the first two images were not returned in list order',
                                   'ref': ref, 'im': im})
        if rest != others:
            ctx.oracle_fail(case, {'what': 'user order: remaining images were reordered', 'rest': rest})
        return
    mx = max(eff[a][b] for a in range(n) for b in range(n) if a != b)
    if eff[ref][im] != mx:
        ctx.oracle_fail(case, {'what': 'returned pair does not have the largest overlap',
                               'pair_overlap': eff[ref][im], 'largest': mx, 'ref': ref, 'im': im})
    tot = [sum(Fraction(x) for x in eff[a]) for a in range(n)]
    if tot[ref] < tot[im]:
        ctx.oracle_fail(case, {'what': 'reference has the smaller total overlap', 'ref_total': float(tot[ref]),
                               'other_total': float(tot[im])})
    vals = [eff[ref][w] for w in rest]
    if any(vals[k] < vals[k + 1] for k in range(len(vals) - 1)):
        ctx.oracle_fail(case, {'what': 'remaining images are not ordered by non-increasing overlap with '
                                       'the reference', 'overlaps': vals, 'rest': rest, 'ref': ref})


def parse_pair(out):
    toks = out.split()
    if not toks or toks[0] != 'ok':
        return None
    warn = None
    if '|' in toks:
        k = toks.index('|')
        warn = toks[k + 2] == '1'
        toks = toks[:k]
    ref = None if toks[1] == 'none' else int(toks[1])
    im = None if toks[2] == 'none' else int(toks[2])
    area = None if toks[3] == 'none' else toks[3]
    return {'ref': ref, 'im': im, 'area': area, 'rest': [int(t) for t in toks[4:]], 'warn': warn}


def compare_pair(ctx, out, case, n, enforce, raw, impl, mode='Q'):
    mod = parse_pair(out)
    if mod is None:
        ctx.disagree(case, {'op': 'pair', 'model': out[:120], 'impl': impl})
        return
    marea = None if mod['area'] is None else (float(s2q(mod['area'])) if mode == 'Q' else x2f(mod['area']))
    exact = (mod['ref'], mod['im'], marea, mod['rest']) == (impl['ref'], impl['im'], impl['area'], impl['rest'])
    ctx.branch('pair:identical-to-model' if exact else 'pair:differs-only-in-unconstrained-ties')
    if exact:
        return

    def bad(what):
        ctx.disagree(case, {'op': 'pair', 'what': what, 'model': out[:160], 'impl': impl})
    if n < 3 or enforce:
        bad('user-order / short-list branch must agree exactly')
        return
    if impl['ref'] is None or impl['im'] is None or None in impl['rest']:
        bad('implementation returned no pair')
        return
    eff = eff_matrix(raw)
    mx = max(eff[a][b] for a in range(n) for b in range(n) if a != b)
    maxpairs = [(a, b) for a in range(n) for b in range(a + 1, n) if eff[a][b] == mx]
    if marea != impl['area']:
        bad('area')
        return
    if len(maxpairs) == 1:
        if {mod['ref'], mod['im']} != {impl['ref'], impl['im']}:
            bad('pair')
            return
        a, b = maxpairs[0]
        if sum(map(Fraction, eff[a])) != sum(map(Fraction, eff[b])) and mod['ref'] != impl['ref']:
            bad('reference')
            return
    if (mod['ref'], mod['im']) == (impl['ref'], impl['im']):
        r = impl['ref']
        vi = [eff[r][w] for w in impl['rest']]
        vm = [eff[r][w] for w in mod['rest']]
        if vi != vm:
            bad('remaining images (overlap values with the reference)')
            return
        if len(set(vi)) == len(vi) and impl['rest'] != mod['rest']:
            bad('remaining images')
            return
    elif sorted(impl['rest']) != sorted(p for p in range(n) if p not in (impl['ref'], impl['im'])):
        bad('remaining images (set)')


# ---------------------------------------------------------------------------
# _max_overlap_image
# ---------------------------------------------------------------------------
def next_case(ctx, fam, A, F, enforce, lines, pending, imalign, warn):
    n = len(A)
    ims = [Stub(k, None, None) for k in range(n)]
    work = list(ims)
    ref = RefStub(A, F)
    warn.count = 0
    try:
        res = imalign._max_overlap_image(ref, work, enforce)
        exc = None
    except Exception as e:   # noqa
        res = None
        exc = '%s: %s' % (type(e).__name__, str(e)[:80])
    case = {'op': 'nextimage', 'family': fam, 'enforce': bool(enforce), 'areas': A}
    if any(F):
        case['F'] = F
    ctx.case(case, nontrivial=(n >= 2 and not enforce),
             branch='next:%s:n=%d' % ('user-order' if enforce else 'argmax', n))
    if exc is not None:
        ctx.oracle_fail(case, {'what': '_max_overlap_image raised', 'exception': exc})
        return
    if not (isinstance(res, tuple) and len(res) == 2):
        ctx.oracle_fail(case, {'what': '_max_overlap_image did not return a pair', 'got': repr(res)[:80]})
        return
    im, area = res
    pos = {id(s): p for p, s in enumerate(ims)}
    impl = {'idx': None if im is None else pos.get(id(im)), 'area': None if area is None else float(area),
            'rest': [pos.get(id(o)) for o in work], 'warn': warn.count > 0}
    if not any(F):
        import warnings
        work2 = list(ims)
        try:
            with warnings.catch_warnings():
                warnings.simplefilter('ignore')
                r2 = imalign.max_overlap_image(ref, work2, enforce)
            pub = (None if r2 is None else pos.get(id(r2)), [pos.get(id(o)) for o in work2])
        except Exception as e:   # noqa
            pub = 'raised %s' % type(e).__name__
        ctx.branch('next:deprecated-public-twin')
        if pub != (impl['idx'], impl['rest']):
            ctx.oracle_fail(case, {'what': 'the deprecated public max_overlap_image does not select what '
                                           '_max_overlap_image selects on the same list', 'public': pub,
                                   'private': [impl['idx'], impl['rest']]})
    # oracle
    if n == 0:
        if im is not None or area is not None:
            ctx.oracle_fail(case, {'what': 'empty work list: something was returned'})
    else:
        k = impl['idx']
        if k is None:
            ctx.oracle_fail(case, {'what': 'no member of the work list returned'})
        else:
            if impl['area'] is None or impl['area'] != float(A[k]):
                ctx.oracle_fail(case, {'what': 'reported area is not the overlap of the returned image with '
                                               'the reference', 'reported': impl['area'], 'true': float(A[k]),
                                       'idx': k})
            if impl['rest'] != [p for p in range(n) if p != k]:
                ctx.oracle_fail(case, {'what': 'work list is not the input list with exactly the returned image '
                                               'removed', 'rest': impl['rest'], 'idx': k})
            if enforce:
                if k != 0:
                    ctx.oracle_fail(case, {'what': 'user order: the first image was not returned', 'idx': k})
            elif float(A[k]) != max(float(a) for a in A):
                ctx.oracle_fail(case, {'what': 'returned image does not have the largest overlap with the '
                                               'reference', 'idx': k, 'overlap': float(A[k]),
                                       'largest': max(float(a) for a in A)})
    line = 'nextimage Q %d %d %s' % (1 if enforce else 0, n, ' '.join(q2s(to_fraction(a)) for a in A))
    if n:
        line += ' ' + ' '.join(str(int(f)) for f in F)
    lines.append(line.strip())
    pending.append(('next', case, n, enforce, A, impl))


def parse_next(out):
    toks = out.split()
    if not toks or toks[0] != 'ok':
        return None
    if '|' in toks:
        toks = toks[:toks.index('|')]
    if toks[1] == 'none':
        return {'idx': None, 'area': None, 'rest': []}
    return {'idx': int(toks[1]), 'area': toks[2], 'rest': [int(t) for t in toks[3:]]}


def compare_next(ctx, out, case, n, enforce, A, impl, mode='Q'):
    mod = parse_next(out)
    if mod is None:
        ctx.disagree(case, {'op': 'nextimage', 'model': out[:120], 'impl': impl})
        return
    marea = None if mod['area'] is None else (float(s2q(mod['area'])) if mode == 'Q' else x2f(mod['area']))
    exact = (mod['idx'], marea, mod['rest']) == (impl['idx'], impl['area'], impl['rest'])
    ctx.branch('next:identical-to-model' if exact else 'next:differs-only-in-unconstrained-ties')
    if exact:
        return

    def bad(what):
        ctx.disagree(case, {'op': 'nextimage', 'what': what, 'model': out[:160], 'impl': impl})
    if n == 0 or enforce or impl['idx'] is None:
        bad('user-order / empty branch must agree exactly')
        return
    if marea != impl['area']:
        bad('area')
        return
    mx = max(float(a) for a in A)
    if sum(1 for a in A if float(a) == mx) == 1:
        bad('image')
        return
    if impl['rest'] != [p for p in range(n) if p != impl['idx']]:
        bad('remaining images')


# ---------------------------------------------------------------------------
# group formation and real align_wcs runs
# ---------------------------------------------------------------------------
ORIGINS = [(0, 0), (400, 100), (-300, 350), (700, 600), (250, -400), (1100, 0), (0, 1100), (-1100, 50),
           (1500, 1200), (-500, -900), (900, -700)]


def expected_groups(gids):
    """oracle: groups in order of first appearance of a member (ungrouped image = own group)"""
    out = []
    seen = {}
    for k, g in enumerate(gids):
        if g is None:
            out.append([k])
        elif g in seen:
            out[seen[g]].append(k)
        else:
            seen[g] = len(out)
            out.append([k])
    return out


def pick_origins(rng, gids):
    """members of one group must not overlap each other (chips of one exposure do not)"""
    used = {}
    origins = []
    for g in gids:
        o = None
        for _ in range(60):
            o = rng.choice(ORIGINS)
            if o in origins:
                continue
            if g is None or all(abs(o[0] - q[0]) >= 1024 or abs(o[1] - q[1]) >= 1024 for q in used.get(g, [])):
                break
        else:
            return None
        used.setdefault(g, []).append(o)
        origins.append(o)
    return origins


def real_run(ctx, scene, gids, origins, use_ref, expand, enforce, lines, pending, scene_seed=None):
    """one real align_wcs run (all catalogs good, fitgeom='shift'); every ordering call it makes is
    replayed through the model with the areas the real footprints produced"""
    from astropy.table import Table
    from tweakwcs import align_wcs, XYXYMatch
    from .. import alignsim
    n = len(gids)
    ims = []
    for k, (g, o) in enumerate(zip(gids, origins)):
        c, _ids = scene.make_image(k, o, 'good', g, err=(ctx.rng.uniform(-1.5, 1.5), ctx.rng.uniform(-1.5, 1.5)))
        ims.append(c)
    refcat = None
    if use_ref:
        ref_ids = [k for k in scene.ids if 100 <= scene.G[k][0] <= 700 and 100 <= scene.G[k][1] <= 700]
        rd = scene.sky_of(ref_ids)
        refcat = Table([rd[:, 0], rd[:, 1]], names=('RA', 'DEC'))
    case = {'op': 'align_wcs-order', 'scene_seed': scene_seed, 'gids': gids, 'origins': origins,
            'refcat': bool(use_ref),
            'expand_refcat': bool(expand), 'enforce_user_order': bool(enforce)}
    ctx.case(case, nontrivial=True, branch='real:%s:%s' % ('user-order' if (enforce or not expand) else 'overlap',
                                                          'refcat' if use_ref else 'noref'))
    with alignsim.observe() as obs:
        try:
            align_wcs(ims, refcat=refcat, expand_refcat=expand, enforce_user_order=enforce, fitgeom='shift',
                      match=XYXYMatch(searchrad=5, separation=0.5, tolerance=2.0))
            exc = None
        except Exception as e:   # noqa
            exc = '%s: %s' % (type(e).__name__, str(e)[:80])
    if exc is not None:
        ctx.oracle_fail(case, {'what': 'align_wcs raised on a valid mosaic', 'exception': exc})
        return
    groups = expected_groups(gids)
    names = [['im%d' % k for k in g] for g in groups]
    status = [c.meta.get('fit_info', {}).get('status') for c in ims]
    recs = obs.aligning_records()
    if len(recs) != len(obs.aligned):
        ctx.oracle_fail(case, {'what': "number of 'Aligning image catalog' records differs from the number of "
                                       "groups passed to align_to_ref", 'records': len(recs),
                               'aligned': len(obs.aligned)})
    # "the current reference footprint": after every expansion it is the footprint of the catalog's rows
    for b in alignsim.stale_footprints(obs):
        ctx.oracle_fail(case, dict({'what': 'after expand_catalog the footprint of the reference catalog (which '
                                            'decides the next overlap) is not the footprint of its rows'}, **b))
        break
    for b in alignsim.misplaced_footprints(obs):
        ctx.oracle_fail(case, dict({'what': 'the reference footprint used for the overlap ordering does not contain '
                                            'the centroid of its own sources'}, **b))
        break
    # every group is processed exactly once (aligned, or taken as the reference)
    refgroups = [g for g in names if all(status[int(m[2:])] == 'REFERENCE' for m in g)]
    processed = obs.aligned + (refgroups if not use_ref else [])
    if sorted(map(tuple, processed)) != sorted(map(tuple, names)):
        ctx.oracle_fail(case, {'what': 'groups processed by align_wcs are not exactly the groups of the input',
                               'processed': processed, 'expected': names})
        return
    # the log records name the groups in the same order
    for rec, g in zip(recs, obs.aligned):
        gid = gids[int(g[0][2:])]
        if ("'GROUP ID: %s'" % gid) not in rec:
            ctx.oracle_fail(case, {'what': "'Aligning image catalog' record does not name the group being "
                                           "aligned", 'record': rec, 'group': g})
    if enforce or not expand:
        # user order: groups in order of first appearance of a member
        want = names if use_ref else names[1:]
        if obs.aligned != want or (not use_ref and refgroups != [names[0]]):
            ctx.oracle_fail(case, {'what': 'user order enforced: groups were not taken in the order of first '
                                           'appearance of a member', 'aligned': obs.aligned, 'expected': want,
                                   'reference': refgroups})
    # replay of every ordering call through the model
    for oc in obs.order_calls:
        m = oc['n']
        if oc['names'] != names[len(names) - m:] and oc['fn'] == 'pair':
            ctx.oracle_fail(case, {'what': 'work list handed to _max_overlap_pair is not the list of groups in '
                                           'order of first appearance', 'got': oc['names'], 'expected': names})
        sub = dict(case)
        sub['call'] = {k: oc[k] for k in ('fn', 'enforce', 'n', 'calls', 'ret', 'rest')}
        if oc['fn'] == 'pair':
            raw = [[0.0] * m for _ in range(m)]
            rawf = [[0] * m for _ in range(m)]
            for p, q, ar, nf in oc['calls']:
                if p is None or q is None:
                    continue
                raw[p][q] = ar
                rawf[p][q] = nf
            if oc['enforce'] or m == 2:
                # the single call is made after the pops: it is always (first, second)
                raw = [[0.0] * m for _ in range(m)]
                if oc['calls'] and m >= 2:
                    raw[0][1] = oc['calls'][0][2]
            impl = {'ref': oc['ret'][0], 'im': oc['ret'][1], 'area': oc['ret'][2], 'rest': oc['rest'],
                    'warn': None}
            if m >= 3 and not oc['enforce']:
                vals = sorted((raw[p][q] for p in range(m) for q in range(p + 1, m)), reverse=True)
                rows = sorted(sum(eff_matrix(raw)[p]) for p in range(m))
                if (len(vals) > 1 and abs(vals[0] - vals[1]) <= 1e-6 * abs(vals[0])) or \
                        any(abs(a - b) <= 1e-6 * max(abs(a), abs(b), 1e-300) for a, b in zip(rows, rows[1:])):
                    ctx.near_tie()
                    continue
            line = 'pair F %d %d %s' % (1 if oc['enforce'] else 0, m,
                                        ' '.join(f2x(x) for r in raw for x in r))
            lines.append(line.strip())
            pending.append(('pairF', sub, m, oc['enforce'], raw, impl))
        else:
            A = [0.0] * m
            for p, ar, nf in oc['calls']:
                if p is not None:
                    A[p] = ar
            if oc['enforce'] and m:
                A = [0.0] * m
                A[0] = oc['calls'][0][1] if oc['calls'] else 0.0
            impl = {'idx': oc['ret'][0], 'area': oc['ret'][1], 'rest': oc['rest'], 'warn': None}
            if m >= 2 and not oc['enforce']:
                vals = sorted(A, reverse=True)
                if abs(vals[0] - vals[1]) <= 1e-6 * abs(vals[0]):
                    ctx.near_tie()
                    continue
            line = 'nextimage F %d %d %s' % (1 if oc['enforce'] else 0, m, ' '.join(f2x(x) for x in A))
            lines.append(line.strip())
            pending.append(('nextF', sub, m, oc['enforce'], A, impl))


def group_case(ctx, gids, lines, pending):
    case = {'op': 'groups', 'gids': gids}
    ctx.case(case, nontrivial=len([g for g in gids if g is not None]) > len(set(g for g in gids if g is not None)),
             branch='groups:n=%d' % len(gids), impl=False)
    lines.append(('groups ' + ' '.join('-' if g is None else str(g) for g in gids)).strip())
    pending.append(('groups', case, gids))


def compare_groups(ctx, out, case, gids):
    toks = out.split()
    if not toks or toks[0] != 'ok':
        ctx.disagree(case, {'op': 'groups', 'model': out[:120]})
        return
    got = [[int(x) for x in t.split(',')] for t in toks[1:]]
    if got != expected_groups(gids):
        ctx.disagree(case, {'op': 'groups', 'model': got, 'expected': expected_groups(gids)})


# ---------------------------------------------------------------------------
CORPUS_PAIR = [
    # the F4 witness of the design phase (area read after `j -= 1`)
    ('corpus', [[0, 5, 1, 2], [5, 0, 3, 0], [1, 3, 0, 9], [2, 0, 9, 0]]),
    ('corpus', [[0, 5, 3], [5, 0, 1], [3, 1, 0]]),
    # all zero: the arg-max is the diagonal element (0, 0)
    ('corpus', [[0, 0, 0], [0, 0, 0], [0, 0, 0]]),
    ('corpus', [[0, 0, 0, 0], [0, 0, 0, 0], [0, 0, 0, 0], [0, 0, 0, 0]]),
    # every overlap equal
    ('corpus', [[0, 2, 2, 2], [2, 0, 2, 2], [2, 2, 0, 2], [2, 2, 2, 0]]),
    # maximum in the last row only
    ('corpus', [[0, 0, 0, 1], [0, 0, 0, 2], [0, 0, 0, 7], [1, 2, 7, 0]]),
    # equal totals
    ('corpus', [[0, 4, 1, 0], [4, 0, 0, 1], [1, 0, 0, 0], [0, 1, 0, 0]]),
]


def run_pairs(ctx, lines, pending, imalign, warn):
    rng = ctx.rng
    for fam, M in CORPUS_PAIR:
        n = len(M)
        Mf = [[float(x) for x in r] for r in M]
        for perm in itertools.permutations(range(n)):
            for enforce in (False, True):
                pair_case(ctx, fam, Mf, zeros(n), perm, enforce, lines, pending, imalign, warn)
    for n in (0, 1):
        for enforce in (False, True):
            pair_case(ctx, 'short', [[0.0] * n for _ in range(n)], zeros(n), tuple(range(n)), enforce,
                      lines, pending, imalign, warn)
    # all permutations of random matrices of every size
    for n in range(2, 7):
        reps = ctx.n(1, 20)
        for rep in range(reps):
            fam = rng.choice(['ints', 'ties', 'dyadic', 'distinct', 'sparse']) if rep else 'ints'
            M = sym_matrix(rng, n, fam)
            for perm in itertools.permutations(range(n)):
                for enforce in (False, True):
                    pair_case(ctx, fam, M, zeros(n), perm, enforce, lines, pending, imalign, warn)
    # random matrices in random order
    for _ in range(ctx.n(600, 6000)):
        n = rng.choice([2, 3, 3, 4, 4, 5, 5, 6, 6])
        fam = rng.choice(FAMILIES)
        M = sym_matrix(rng, n, fam)
        perm = list(range(n))
        rng.shuffle(perm)
        pair_case(ctx, fam, M, zeros(n), tuple(perm), rng.random() < 0.25, lines, pending, imalign, warn)
    # malformed polygons: the guarded call reports a failure count and a (possibly zero) area
    for _ in range(ctx.n(100, 1000)):
        n = rng.choice([2, 3, 4, 5, 6])
        M = sym_matrix(rng, n, rng.choice(['ints', 'ties']))
        F = zeros(n)
        for _k in range(rng.randint(0, 2)):
            i, j = rng.randrange(n), rng.randrange(n)
            if i != j:
                F[i][j] = F[j][i] = rng.randint(1, 2)
                if rng.random() < 0.7:
                    M[i][j] = M[j][i] = 0.0
        perm = list(range(n))
        rng.shuffle(perm)
        pair_case(ctx, 'malformed', M, F, tuple(perm), rng.random() < 0.25, lines, pending, imalign, warn)
    # raw tables that are not symmetric: overlap_matrix evaluates only p < q
    for _ in range(ctx.n(60, 600)):
        n = rng.choice([2, 3, 4, 5])
        M = [[0.0 if i == j else float(rng.randint(0, 6)) for j in range(n)] for i in range(n)]
        perm = list(range(n))
        rng.shuffle(perm)
        pair_case(ctx, 'asymmetric-raw', M, zeros(n), tuple(perm), rng.random() < 0.25, lines, pending,
                  imalign, warn)
    if ctx.tier == 'thorough' and not ctx.search_only:
        # every symmetric matrix with entries in 0..3 of order <= 4 (every permutation of such a
        # matrix is again in the set)
        for n in (2, 3, 4):
            cells = [(i, j) for i in range(n) for j in range(i + 1, n)]
            for vals in itertools.product(range(4), repeat=len(cells)):
                M = [[0.0] * n for _ in range(n)]
                for (i, j), v in zip(cells, vals):
                    M[i][j] = M[j][i] = float(v)
                for enforce in (False, True):
                    pair_case(ctx, 'all-0..3', M, zeros(n), tuple(range(n)), enforce, lines, pending,
                              imalign, warn)
        ctx.exhaustive = True


def run_next(ctx, lines, pending, imalign, warn):
    rng = ctx.rng
    for A in ([], [3.0], [0.0, 0.0], [1.0, 2.0, 2.0], [2.0, 2.0, 1.0], [0.0, 0.0, 0.0, 5.0], [4.0, 1.0, 4.0]):
        for enforce in (False, True):
            next_case(ctx, 'corpus', A, [0] * len(A), enforce, lines, pending, imalign, warn)
    for _ in range(ctx.n(400, 4000)):
        n = rng.choice([1, 2, 3, 4, 5, 6])
        fam = rng.choice(['ints', 'ties', 'dyadic', 'zero'])
        A = [{'ints': lambda: float(rng.randint(0, 12)), 'ties': lambda: float(rng.choice([0, 1, 1, 2, 2])),
              'dyadic': lambda: rng.randint(0, 64) / 8.0, 'zero': lambda: 0.0}[fam]() for _ in range(n)]
        F = [0] * n
        if rng.random() < 0.2:
            k = rng.randrange(n)
            F[k] = rng.randint(1, 3)
            if rng.random() < 0.7:
                A[k] = 0.0
        next_case(ctx, fam, A, F, rng.random() < 0.3, lines, pending, imalign, warn)
    if ctx.tier == 'thorough' and not ctx.search_only:
        for n in range(1, 6):
            for vals in itertools.product(range(4), repeat=n):
                for enforce in (False, True):
                    next_case(ctx, 'all-0..3', [float(v) for v in vals], [0] * n, enforce, lines, pending,
                              imalign, warn)


def run_groups(ctx, lines, pending):
    rng = ctx.rng
    for gids in ([], [None], [1], [None, 1, None, 1, 2], [1, None, 2, None, 1], [2, 2, 2], [None, None]):
        group_case(ctx, gids, lines, pending)
    if ctx.tier == 'thorough':
        for n in range(1, 6):
            for gids in itertools.product([None, 1, 2, 3], repeat=n):
                group_case(ctx, list(gids), lines, pending)
    else:
        for n in range(1, 5):
            for gids in itertools.product([None, 1, 2], repeat=n):
                group_case(ctx, list(gids), lines, pending)
    for _ in range(ctx.n(100, 500)):
        n = rng.randint(1, 8)
        group_case(ctx, [rng.choice([None, None, 1, 2, 3, 7]) for _ in range(n)], lines, pending)


E15_SCENARIOS = [
    ([None, 1, None, 1, 2], True),
    ([1, None, 2, None, 1], False),
]


def run_real(ctx, lines, pending):
    from .. import alignsim
    rng = ctx.rng
    scene_seed = rng.getrandbits(32)
    scene = alignsim.Scene(np.random.default_rng(scene_seed))
    todo = []
    for gids, use_ref in E15_SCENARIOS:
        todo.append((gids, use_ref, False, True))
        todo.append((gids, use_ref, True, True))
        todo.append((gids, use_ref, True, False))
        # a static reference catalog (expand_refcat off) is aligned in user order whatever enforce_user_order says
        todo.append((gids, use_ref, False, False))
    for _ in range(ctx.n(8, 60)):
        n = rng.randint(3, 6)
        gids = [rng.choice([None, None, 1, 2]) for _ in range(n)]
        # without a reference catalog at least two groups are needed (else NotEnoughCatalogs, C13)
        use_ref = rng.random() < 0.5 or len(expected_groups(gids)) < 2
        todo.append((gids, use_ref, rng.random() < 0.7, rng.random() < 0.4))
    # every third real run on a mosaic that straddles RA = 0 / 360
    wrap_seed, wrap_scene = alignsim.scene_with(rng, alignsim.WRAP_POINTS)
    for k, (gids, use_ref, expand, enforce) in enumerate(todo):
        origins = pick_origins(rng, gids)
        if origins is None:
            continue
        sc, sd = (wrap_scene, wrap_seed) if k % 3 == 1 else (scene, scene_seed)
        real_run(ctx, sc, gids, origins, use_ref, expand, enforce, lines, pending, sd)
    # fixed mosaics whose largest overlap is NOT between the first two groups of the list: with a static reference
    # catalog (expand_refcat off) the first group is the reference all the same, with expansion the overlap decides
    for gids, origins in (([None, None, None], [(0, 0), (600, 0), (650, 50)]),
                          ([None, None, None, None], [(0, 0), (700, 0), (0, 700), (60, 740)]),
                          ([1, None, None, 1], [(0, 0), (500, 600), (560, 640), (0, 1100)])):
        for expand, enforce in ((False, False), (True, False), (False, True)):
            real_run(ctx, scene, gids, origins, False, expand, enforce, lines, pending, scene_seed)


def compare_all(ctx, outs, pending):
    for out, item in zip(outs, pending):
        kind = item[0]
        if kind == 'pair':
            compare_pair(ctx, out, *item[1:])
        elif kind == 'pairF':
            compare_pair(ctx, out, *item[1:], mode='F')
        elif kind == 'next':
            compare_next(ctx, out, *item[1:])
        elif kind == 'nextF':
            compare_next(ctx, out, *item[1:], mode='F')
        else:
            compare_groups(ctx, out, *item[1:])


def guarded_area_checks(ctx):
    """the real `_guarded_intersection_area` / `intersection_area` of image catalogs, groups (1..3
    members, members at different places) and reference catalogs against an INDEPENDENT evaluation:
    the documented semantics is the sum, over the members of both operands, of the areas of the
    pairwise polygon intersections (computed here directly with spherical_geometry)"""
    import math
    from astropy.table import Table
    from tweakwcs.wcsimage import WCSImageCatalog, WCSGroupCatalog, RefCatalog
    from .. import alignsim
    rng = ctx.rng
    nprng = np.random.default_rng(rng.getrandbits(32))

    def parea(p, q):
        a = abs(p.intersection(q).area())
        return min(a, 4 * math.pi - a)

    def members(o):
        if isinstance(o, WCSGroupCatalog):
            return [m.polygon for m in o]
        return [o.polygon]

    for _ in range(ctx.n(4, 100)):
        scene = alignsim.Scene(nprng)
        objs = []
        for k in range(rng.randint(3, 5)):
            origin = (rng.choice([0, 300, 600, 900, 1500, 2400]), rng.choice([0, 250, 500, 1400]))
            c, _ids = scene.make_image(k, origin, 'good', None, err=(0.0, 0.0))
            objs.append(WCSImageCatalog(c.meta['catalog'], c, name='im%d' % k))
        singles = list(objs)
        groups = []
        for _g in range(rng.randint(1, 2)):
            mem = rng.sample(singles, rng.randint(1, min(3, len(singles))))
            groups.append(WCSGroupCatalog(mem, name='g'))
        ref_ids = [k for k in scene.ids if 0 <= scene.G[k][0] <= rng.choice([500, 900]) and
                   0 <= scene.G[k][1] <= rng.choice([500, 900])]
        refs = []
        if len(ref_ids) >= 3:
            rd = scene.sky_of(ref_ids)
            refs.append(RefCatalog(Table([rd[:, 0], rd[:, 1]], names=('RA', 'DEC'))))
        if refs and len(scene.ids) > len(ref_ids) + 3:
            # grow the reference catalog by the remaining sources: its footprint (hence every later
            # overlap) must follow its rows
            r2 = RefCatalog(Table([rd[:, 0], rd[:, 1]], names=('RA', 'DEC')))
            rest = [k for k in scene.ids if k not in set(ref_ids)]
            rd2 = scene.sky_of(rest)
            r2.expand_catalog(Table([rd2[:, 0], rd2[:, 1]], names=('RA', 'DEC')))
            n2, a2, f2 = alignsim.footprint_after_expansion(r2)
            case = {'op': 'expanded-footprint', 'rows': n2}
            ctx.case(dict(case, area=a2, fresh=f2), nontrivial=True, branch='guarded:expanded-footprint')
            if abs(a2 - f2) > 1e-3 * max(a2, f2):
                ctx.oracle_fail(case, {'what': 'after expand_catalog the footprint of the reference catalog is not '
                                               'the footprint of its rows', 'area': a2, 'area_fresh': f2})
            refs.append(r2)
        pool = [('image', o) for o in singles] + [('group%d' % len(list(g)), g) for g in groups] + \
               [('refcat', r) for r in refs]
        for (ka, a) in pool:
            for (kb, b) in pool:
                if a is b:
                    continue
                case = {'op': 'guarded-area', 'a': ka, 'b': kb}
                try:
                    got, nf = a._guarded_intersection_area(b)
                except Exception as e:   # noqa
                    ctx.case(case, nontrivial=True, branch='guarded:%s:%s' % (ka, kb))
                    ctx.oracle_fail(case, {'what': '_guarded_intersection_area raised', 'exc': repr(e)[:200]})
                    continue
                want = sum(parea(p, q) for p in members(a) for q in members(b))
                ctx.case(dict(case, want=want, got=float(got)), nontrivial=want > 0,
                         branch='guarded:%s:%s' % (ka, kb))
                if nf:
                    ctx.near_tie()
                    continue
                if abs(float(got) - want) > 2e-3 * max(abs(want), abs(float(got))) + 5e-15:
                    ctx.oracle_fail(case, {'what': 'guarded intersection area differs from the sum of the pairwise '
                                                   'polygon intersections of the members', 'got': float(got),
                                           'want': want, 'members_a': len(members(a)), 'members_b': len(members(b))})
                    continue
                # the unguarded twin (used by the deprecated public max_overlap_pair / max_overlap_image) has the same
                # documented semantics; it may refuse a pair (spherical_geometry), it must not report another area
                try:
                    plain = float(a.intersection_area(b))
                except Exception:   # noqa
                    ctx.branch('guarded:plain-refused')
                    continue
                if abs(plain - want) > 2e-3 * max(abs(want), abs(plain)) + 5e-15 + 1e-4 * min(abs(x.polygon.area()) for x in (a, b)):
                    ctx.oracle_fail(dict(case, op='plain-area'),
                                    {'what': 'intersection_area differs from the sum of the pairwise polygon intersections '
                                             'of the members (and from _guarded_intersection_area)', 'got': plain,
                                     'want': want, 'members_a': len(members(a)), 'members_b': len(members(b))})


def run(ctx):
    guarded_area_checks(ctx)
    from tweakwcs import imalign
    lines, pending = [], []
    with WarnCounter() as warn:
        run_pairs(ctx, lines, pending, imalign, warn)
        run_next(ctx, lines, pending, imalign, warn)
    run_groups(ctx, lines, pending)
    run_real(ctx, lines, pending)
    outs = ctx.driver(lines)
    compare_all(ctx, outs, pending)


def replay(ctx, payload):
    from tweakwcs import imalign
    fi = payload.get('failing_input') or (payload.get('correspondence') or [None])[0]
    if not fi:
        print('nothing to replay: %s' % payload.get('broken'))
        return 1
    case = fi['case']
    lines, pending = [], []
    op = case.get('op')
    with WarnCounter() as warn:
        if op == 'pair':
            M = [[float(x) for x in r] for r in case['M']]
            n = len(M)
            F = case.get('F') or zeros(n)
            pair_case(ctx, case.get('family', 'replay'), M, F, tuple(case['perm']), case['enforce'], lines,
                      pending, imalign, warn)
        elif op == 'nextimage':
            A = [float(x) for x in case['areas']]
            next_case(ctx, case.get('family', 'replay'), A, case.get('F') or [0] * len(A), case['enforce'],
                      lines, pending, imalign, warn)
        elif op == 'groups':
            group_case(ctx, case['gids'], lines, pending)
    if op == 'align_wcs-order':
        from .. import alignsim
        seed = case.get('scene_seed')
        scene = alignsim.Scene(np.random.default_rng(ctx.rng.getrandbits(32) if seed is None else seed))
        real_run(ctx, scene, case['gids'], [tuple(o) for o in case['origins']], case['refcat'],
                 case['expand_refcat'], case['enforce_user_order'], lines, pending, seed)
    compare_all(ctx, ctx.driver(lines), pending)
    bad = ctx.oracle_failures + ctx.disagreements
    for b in bad:
        print('STILL FAILS:', b['detail'])
    return 1 if bad else 0
