"""
C02 -- set_correction applies exactly the requested affine map in the tangent plane.

Scenario: a real corrector (FITS CD / PC / SIP, mock JWST gWCS with or without velocity-aberration
frame) with a prior history of 0..2 corrections (live or re-wrapped), then one set_correction
(matrix, shift[, ref_tpwcs]).
Oracle (on the implementation, independent of the model): old.world_to_tanp(new.det_to_world(p)) =
matrix * old.det_to_tanp(p) + shift at probe pixels (in the reference plane when ref_tpwcs is
given), within: rounding for gWCS in its own plane; exact at the reference pixel and the
second-order reprojection bound elsewhere for FITS; the first-order plane-to-plane bound with a
reference plane at a different tangent point.
Correspondence: the Lean models GCorr / FCorr (ops gcorr / fcorr) predict the chart position of
every probe after the whole history.
"""
import numpy as np

from .. import scenes, corrsim
from ..scenes import Aff

ID = 'C02'
RULE = ('corrector kind x prior history (0..2 corrections, live/re-wrapped) x correction (matrix up to +-30 deg, '
        '+-20 %, shift up to 300 px; small and large) x reference plane (none / FITS / gWCS at offset tangent '
        'points, rotated, scaled); 10 probe pixels each; non-trivial = prior history non-empty or a reference '
        'plane is used or the matrix is not the identity; distinct = distinct scenario parameters')
ASSUMPTIONS = [
    'gWCS theorems hold for arbitrary bijective pipeline pieces D, U, R (every geometry); the harness expresses '
    'sky positions in the chart world_to_tanp of the uncorrected corrector (trusted as a fixed bijection)',
    'FITS and plane-to-plane conjugation: flat-sky idealisation in the theorems; the gnomonic curvature is the '
    'second-order (own plane) / first-order (reference plane at another tangent point) remainder the property '
    'allows, checked against the bounds below',
    'floating-point rounding is outside the model',
]

GW_TOL = 5e-8          # arcsec, gWCS in its own plane ("rounding error"; the property allows 1e-7)
FITS_BASE = 2e-6       # pixel (tolerance=1e-6 of the iterative all_world2pix and rounding)


def fits_base(c0, rho):
    """rounding floor of a FITS correction: sky coordinates are doubles in degrees, so one pixel
    position carries ~eps*360/scale pixels of rounding, amplified over the field by the numerical
    Jacobian of _linearize"""
    scale_deg = np.rad2deg(corrsim.plane_unit_rad(c0))
    return FITS_BASE + 2.2e-16 * 360.0 / scale_deg * rho


def fits_second_order(delta_units, rho_units, unit_rad):
    """10 (|d| rho^2 + |d|^2 rho) / pixscale, everything in plane units"""
    d = delta_units * unit_rad
    r = rho_units * unit_rad
    return 10.0 * (d * r * r + d * d * r) / unit_rad


def first_order(corr_units, sep_rad, rho_units, unit_rad):
    r = rho_units * unit_rad
    return 10.0 * corr_units * (sep_rad + r) * (r + sep_rad)


def gen_corr(rng, unit, big):
    if big:
        f = scenes.rand_affine(rng, kind=rng.choice(['general', 'rscale', 'rshift', 'shift']),
                               max_rot=30.0, max_dscale=0.2, max_shift=300.0 * unit)
    else:
        f = scenes.rand_affine(rng, kind=rng.choice(['general', 'rscale', 'rshift', 'shift']),
                               max_rot=0.05, max_dscale=0.001, max_shift=3.0 * unit)
    return f


def gen_ref(rng, c0, info):
    """reference plane: equal / rotated / scaled / offset; FITS or gWCS"""
    ra, dec = info['crval']
    off = rng.choice([0.0, 0.0005, 0.002, 0.01])
    pointing = (ra, max(-89.0, min(89.0, dec + off * rng.choice([-1, 1]))))
    if rng.random() < 0.5:
        ref, rinfo = scenes.mk_fits(rng, kind=rng.choice(['cd', 'pc']), pointing=pointing)
    else:
        ref, rinfo = scenes.mk_jwst(rng, pointing=pointing)
    return ref, rinfo


def scenario(ctx, lines, pend):
    rng = ctx.rng
    jw = rng.random() < 0.5
    c0, info = scenes.mk_jwst(rng) if jw else scenes.mk_fits(rng)
    px, py = scenes.probe_pixels(rng, c0, 9)
    if not jw:
        cp = np.array(c0.wcs.wcs.crpix) - 1.0
        px = np.append(px, cp[0])
        py = np.append(py, cp[1])
    else:
        px = np.append(px, 512.0)
        py = np.append(py, 512.0)
    sim = corrsim.Sim(c0, px, py)
    unit = c0.tanp_center_pixel_scale if jw else 1.0      # plane units per pixel
    unit_rad = corrsim.plane_unit_rad(c0)
    rho = corrsim.field_radius_units(c0)
    fb = fits_base(c0, rho) if not jw else 0.0
    nprior = rng.choice([0, 0, 1, 1, 2])
    prior = []
    for _ in range(nprior):
        prior.append(('S', gen_corr(rng, unit, big=rng.random() < 0.3)))
        if rng.random() < 0.4:
            prior.append(('W',))
        if rng.random() < 0.2:
            prior.append(('C',))
    big = rng.random() < 0.5
    f = gen_corr(rng, unit, big)
    use_ref = rng.random() < 0.4
    ref = rinfo = None
    if use_ref:
        ref, rinfo = gen_ref(rng, c0, info)
        if not scenes.is_jwst(ref) or True:
            # (matrix, shift) are expressed in the reference plane's units
            runit = ref.tanp_center_pixel_scale if scenes.is_jwst(ref) else 1.0
            f = gen_corr(rng, runit, big)
    op = ('R', f, ref) if use_ref else ('S', f)
    case = {'kind': info['kind'], 'info': info, 'prior': [p[0] for p in prior], 'op': op[0],
            'matrix': f.M.tolist(), 'shift': f.t.tolist(), 'ref': rinfo, 'big': big,
            'probes': [px.tolist(), py.tolist()]}
    nontrivial = bool(prior) or use_ref or not np.allclose(f.M, np.eye(2))
    ctx.case(case, nontrivial=nontrivial,
             branch='%s:%s:%s' % (info['kind'], op[0], 'prior%d' % nprior))

    # ---- implementation -------------------------------------------------
    old, _ = corrsim.apply_real(c0, prior)
    old_snapshot = old.copy()
    new = old.copy()
    if prior and rng.random() < 0.35:
        # trying several candidate corrections from the same corrected WCS: another corrector built
        # from that WCS is corrected first; the WCS and the tested correction must not be affected
        ctx.branch('interfering-wrapper')
        other = scenes.rewrap(old)
        fo = gen_corr(rng, unit, rng.random() < 0.5)
        other.set_correction(fo.M.tolist(), fo.t.tolist())
        new = scenes.rewrap(old)
    if use_ref:
        new.set_correction(f.M.tolist(), f.t.tolist(), ref_tpwcs=ref)
        plane = ref
    else:
        new.set_correction(f.M.tolist(), f.t.tolist())
        plane = old_snapshot
    lhs = np.array(plane.world_to_tanp(*new.det_to_world(px, py)), dtype=float)
    if use_ref:
        rhs = f(np.array(ref.world_to_tanp(*old_snapshot.det_to_world(px, py)), dtype=float))
    else:
        rhs = f(np.array(old_snapshot.det_to_tanp(px, py), dtype=float))
    err = np.hypot(*(lhs - rhs))

    # ---- bounds -----------------------------------------------------------
    if use_ref:
        punit = corrsim.plane_unit_rad(ref)
        prho = rho * unit_rad / punit
        sep = corrsim.sky_sep_rad(ref, old_snapshot)
        csize = corrsim.corr_size_units(f, prho)
        base = GW_TOL if scenes.is_jwst(ref) else FITS_BASE
        if not jw:
            base += fb * unit_rad / punit
        bound = base + first_order(csize, sep, prho, punit)
        if not jw:
            bound += fits_second_order(csize, prho, punit)
    else:
        csize = corrsim.corr_size_units(f, rho)
        if jw:
            bound = GW_TOL * max(1.0, float(np.max(np.abs(rhs))) / 1e3)
        else:
            bound = fb + fits_second_order(csize, rho, unit_rad)
    worst = float(np.max(err))
    if not np.isfinite(worst) or worst > bound:
        ctx.oracle_fail(case, {'what': 'old.world_to_tanp(new.det_to_world(p)) != matrix*old.det_to_tanp(p)+shift',
                               'max_err': worst, 'bound': bound, 'plane': 'ref' if use_ref else 'own',
                               'units': 'arcsec' if scenes.is_jwst(plane) else 'pixel'})
    if not jw and not use_ref:
        # exact at the reference pixel
        e0 = float(err[-1])
        if e0 > fb:
            ctx.oracle_fail(case, {'what': 'FITS: identity not exact at the reference pixel', 'err': e0})

    # ---- model -------------------------------------------------------------
    if not getattr(ctx, 'search_only', False):
        hist = prior + [op]
        line, cfinal = sim.line(hist)
        real_chart = sim.chart(*new.det_to_world(px, py))
        # total bound in the chart of c0
        total = 0.0
        for h in hist:
            if h[0] in ('S', 'R'):
                total += corrsim.corr_size_units(h[1], rho) if h[0] == 'S' else \
                    corrsim.corr_size_units(h[1], rho * unit_rad / corrsim.plane_unit_rad(h[2])) * \
                    corrsim.plane_unit_rad(h[2]) / unit_rad
        if jw:
            cb = GW_TOL * max(1.0, float(np.max(np.abs(real_chart))) / 1e3)
        else:
            cb = fb * (1 + len(hist)) + fits_second_order(total, rho, unit_rad) * (1 + len(hist))
        if use_ref:
            sep = corrsim.sky_sep_rad(ref, c0)
            cb += first_order(total, sep, rho, unit_rad)
        lines.append(line)
        pend.append((case, sim, real_chart, cb, new))


def run(ctx):
    lines, pend = [], []
    for _ in range(ctx.n(50, 1200)):
        scenario(ctx, lines, pend)
    if lines:
        outs = ctx.driver(lines)
        for out, (case, sim, real_chart, cb, new) in zip(outs, pend):
            res = sim.parse(out)
            if res is None:
                ctx.disagree(case, {'op': 'gcorr' if sim.jwst else 'fcorr', 'model': out[:100]})
                continue
            d = float(np.max(np.hypot(*(res['sky_chart'] - real_chart))))
            if not np.isfinite(d) or d > cb:
                ctx.disagree(case, {'op': 'gcorr' if sim.jwst else 'fcorr', 'max_diff': d, 'bound': cb,
                                    'model': res['sky_chart'].tolist(), 'impl': real_chart.tolist()})
            if sim.jwst:
                dt = np.array(new.det_to_tanp(sim.px, sim.py), dtype=float)
                d2 = float(np.max(np.hypot(*(res['det_to_tanp'] - dt))))
                if d2 > cb:
                    ctx.disagree(case, {'op': 'gcorr', 'what': 'det_to_tanp', 'max_diff': d2, 'bound': cb})
                if list(new.wcs.available_frames) != res['frames']:
                    ctx.disagree(case, {'op': 'gcorr', 'what': 'frames', 'model': res['frames'],
                                        'impl': list(new.wcs.available_frames)})


REPLAY_BY_RERUN = True
