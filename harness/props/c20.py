"""
C20 -- tangent-plane pixel scale equals the local scale of the detector -> plane map.

Oracle: tanp_pixel_scale(x, y) of real correctors (FITS CD/PC/SIP, mock gWCS) in states reached by
0..2 corrections against sqrt|det J| of a central finite-difference Jacobian of the real
det_to_tanp; tanp_center_pixel_scale is that value at the detector position of the tangent point
(crpix - 1 for FITS, tanp_to_det(0, 0) for gWCS); units (pixels ~ 1 for undistorted FITS, arcsec
for gWCS); after a correction with matrix M the gWCS value is multiplied by sqrt|det M| and the FITS
value is unchanged.
Correspondence: the model's shoelace sum (op `shoelace`) on the images of the four pixel corners
(taken from the real det_to_tanp) gives tanp_pixel_scale = sqrt(|S| / 2).
"""
import math

import numpy as np

from .. import scenes, corrsim
from ..common import f2x, x2f
from . import c02

ID = 'C20'
RULE = ('corrector kind x history of 0..2 corrections (incl. anisotropic/rescaling matrices, re-wrapping) x detector '
        'position; non-trivial = distorted (SIP) corrector or non-empty history; distinct = distinct scenario')
ASSUMPTIONS = [
    'shoelace area = |det J| is proved for maps with arbitrary linear and quadratic terms about the pixel centre; '
    'higher-order distortion terms contribute below the 1e-7 relative tolerance used here',
    'square root and floating-point rounding are outside the theorems (sqrt over the reals)',
]


def fd_scale(c, x, y, h=0.5):
    xs = np.array([x + h, x - h, x, x])
    ys = np.array([y, y, y + h, y - h])
    tx, ty = c.det_to_tanp(xs, ys)
    j = np.array([[(tx[0] - tx[1]) / (2 * h), (tx[2] - tx[3]) / (2 * h)],
                  [(ty[0] - ty[1]) / (2 * h), (ty[2] - ty[3]) / (2 * h)]])
    return math.sqrt(abs(np.linalg.det(j)))


def run(ctx):
    rng = ctx.rng
    lines, pend = [], []
    for _ in range(ctx.n(120, 3000)):
        jw = rng.random() < 0.5
        if not jw and rng.random() < 0.12:
            # the reference pixel of a mosaic chip may lie outside the image: the centre scale is still the scale AT
            # the tangent point (with a distortion the scale in the middle of the chip is another number)
            sx, sy = rng.choice([(-0.4, 0.5), (1.4, 0.5), (0.5, -0.3), (1.2, 1.3), (-0.2, -0.2)])
            shp = (1024, 1024)
            c0, info = scenes.mk_fits(rng, kind=rng.choice(['siplin', 'siplin', 'cd']), shape=shp,
                                      crpix=[sx * shp[0], sy * shp[1]])
            info = dict(info, crpix_outside=True)
        else:
            c0, info = scenes.mk_jwst(rng) if jw else scenes.mk_fits(rng)
        unit = c0.tanp_center_pixel_scale if jw else 1.0
        hist = []
        for _k in range(rng.choice([0, 0, 1, 2])):
            f = c02.gen_corr(rng, unit, big=rng.random() < 0.6)
            if rng.random() < 0.5:
                # an explicitly rescaling / anisotropic matrix
                f = scenes.Aff(np.diag([rng.uniform(0.7, 1.4), rng.uniform(0.7, 1.4)]) @ f.M, f.t)
            hist.append(('S', f))
            if rng.random() < 0.3:
                hist.append(('W',))
        # the centre scale is read at every stage of the history (as match2ref does), so a value
        # cached at one stage would be seen at the next
        c = c0.copy()
        _ = c.tanp_center_pixel_scale
        for h in hist:
            if h[0] == 'S':
                c.set_correction(h[1].M.tolist(), h[1].t.tolist())
            elif h[0] == 'W':
                c = scenes.rewrap(c)
            if rng.random() < 0.7:
                _ = c.tanp_center_pixel_scale
            if rng.random() < 0.3:
                c = c.copy()
        nx, ny = scenes.image_size(c0)
        x, y = rng.uniform(1, nx - 2), rng.uniform(1, ny - 2)
        case = {'kind': info['kind'], 'info': info, 'history': [h[0] for h in hist],
                'corrs': [[h[1].M.tolist(), h[1].t.tolist()] for h in hist if h[0] == 'S'], 'x': x, 'y': y}
        ctx.case(case, nontrivial=bool(hist) or info['kind'] in ('sip', 'siplin'), branch=info['kind'] + ':h%d' % len(hist))
        if info['kind'] == 'lut':
            # bilinear look-up tables are only piecewise smooth: at a probe pixel that straddles a cell edge of
            # the 9x9 tables "the local scale" is not defined to 1e-7 (inside a cell the pixel area and the
            # derivative agree exactly), so the probe is moved to the middle of its cell
            cw, ch = (nx - 1) / 8.0, (ny - 1) / 8.0
            x = (math.floor(x / cw) + rng.uniform(0.2, 0.8)) * cw
            y = (math.floor(y / ch) + rng.uniform(0.2, 0.8)) * ch
            case['x'], case['y'] = x, y
        ps = c.tanp_pixel_scale(x, y)
        ref = fd_scale(c, x, y)
        if not (abs(ps - ref) <= 1e-7 * ref):
            ctx.oracle_fail(case, {'what': 'tanp_pixel_scale != sqrt|det J| of det_to_tanp', 'got': ps, 'want': ref})
        # pixel positions are often integers (python int, numpy integer): the same value as for the equal floats,
        # also at the first pixel
        if info['kind'] != 'lut' and rng.random() < 0.3:
            ix_, iy_ = rng.choice([(0, 0), (0, int(y)), (int(x), 0), (int(x), int(y))])
            ityp = rng.choice([int, np.int64, np.int32])
            pi_ = c.tanp_pixel_scale(ityp(ix_), ityp(iy_))
            pf_ = c.tanp_pixel_scale(float(ix_), float(iy_))
            ctx.branch('integer-position')
            if not (abs(pi_ - pf_) <= 1e-12 * pf_):
                ctx.oracle_fail(dict(case, x=ix_, y=iy_), {'what': 'tanp_pixel_scale of an integer-typed position differs '
                                                           'from the value at the equal float position', 'int': pi_,
                                                           'float': pf_, 'type': ityp.__name__})
        # centre
        if jw:
            # the detector position of the tangent point, found with the FORWARD map only (Newton)
            cx, cy = 512.0, 512.0
            for _it in range(60):
                f = np.array(c.det_to_tanp(cx, cy), dtype=float).ravel()
                hh = 0.5
                xs4 = np.array([cx + hh, cx - hh, cx, cx])
                ys4 = np.array([cy, cy, cy + hh, cy - hh])
                tu, tv = c.det_to_tanp(xs4, ys4)
                jm = np.array([[(tu[0] - tu[1]) / (2 * hh), (tu[2] - tu[3]) / (2 * hh)],
                               [(tv[0] - tv[1]) / (2 * hh), (tv[2] - tv[3]) / (2 * hh)]])
                step = np.linalg.solve(jm, f)
                cx, cy = cx - step[0], cy - step[1]
                if max(abs(step[0]), abs(step[1])) < 1e-10:
                    break
            ix, iy = c.tanp_to_det(0.0, 0.0)
            ix, iy = float(np.asarray(ix).ravel()[0]), float(np.asarray(iy).ravel()[0])
            if math.hypot(ix - cx, iy - cy) > 1e-6:
                ctx.oracle_fail(case, {'what': 'tanp_to_det(0, 0) is not the detector position whose tangent-plane '
                                               'coordinates are (0, 0)', 'tanp_to_det': [ix, iy], 'solved': [cx, cy]})
        else:
            cx, cy = (np.array(c.wcs.wcs.crpix) - 1.0).tolist()
            # the tangent point: world_to_tanp(crval) is crpix - 1 and det_to_tanp of that pixel as well
        cps = c.tanp_center_pixel_scale
        cref = fd_scale(c, cx, cy)
        if not (abs(cps - cref) <= 1e-7 * cref):
            ctx.oracle_fail(case, {'what': 'tanp_center_pixel_scale != scale at the detector position of the '
                                           'tangent point', 'got': cps, 'want': cref, 'at': [cx, cy]})
        # units
        if not jw and info['kind'] in ('cd', 'pc'):
            if abs(cps - 1.0) > 1e-9:
                ctx.oracle_fail(case, {'what': 'FITS undistorted: centre scale is not 1 pixel', 'got': cps})
        if jw:
            # arcsec per pixel of the underlying WCS times sqrt|det of accumulated correction|
            detm = 1.0
            for h in hist:
                if h[0] == 'S':
                    detm *= abs(np.linalg.det(h[1].M))
            want = c0.tanp_center_pixel_scale * math.sqrt(detm)
            # (compare at the same detector position)
            p0 = c0.tanp_pixel_scale(x, y) * math.sqrt(detm)
            if not abs(ps - p0) <= 1e-7 * p0:
                ctx.oracle_fail(case, {'what': 'gWCS scale does not follow the correction by sqrt|det M|',
                                       'got': ps, 'want': p0})
            sc_as = info['scale_arcsec']
            if not (0.5 * sc_as < c0.tanp_center_pixel_scale < 2.0 * sc_as):
                ctx.oracle_fail(case, {'what': 'gWCS scale is not in arcsec', 'got': c0.tanp_center_pixel_scale,
                                       'pixel_arcsec': sc_as})
        else:
            p0 = c0.tanp_pixel_scale(x, y)
            if not abs(ps - p0) <= 1e-9 * p0:
                ctx.oracle_fail(case, {'what': 'FITS scale changed with the correction history', 'got': ps,
                                       'want': p0})
        # model
        xs = np.array([x - 0.5, x - 0.5, x + 0.5, x + 0.5])
        ys = np.array([y - 0.5, y + 0.5, y + 0.5, y - 0.5])
        tx, ty = c.det_to_tanp(xs, ys)
        toks = []
        for k in range(4):
            toks += [f2x(tx[k]), f2x(ty[k])]
        lines.append('shoelace F ' + ' '.join(toks))
        pend.append((case, ps))
    outs = ctx.driver(lines)
    for out, (case, ps) in zip(outs, pend):
        t = out.split()
        if t[0] != 'ok':
            ctx.disagree(case, {'op': 'shoelace', 'model': out[:80]})
            continue
        m = math.sqrt(0.5 * abs(x2f(t[1])))
        if not abs(m - ps) <= 1e-10 * max(ps, 1e-300):
            ctx.disagree(case, {'op': 'shoelace', 'model': m, 'impl': ps})


REPLAY_BY_RERUN = True
