"""
C16 -- footprints contain their sources; convex hulls are convex, CCW and minimal.

Correspondence
  * tweakwcs.wcsimage.convex_hull(x, y, wcs=None|identity, min_separation=...) against the Lean model
    `TW.convexHull` (op `hull Q`: exact rationals for integer / dyadic point sets; op `hull F`: IEEE
    doubles, bit-exact, for random reals), including the ValueError for a negative separation and the
    executable convexity checker `isStrictlyConvexCCW` (proved sound, `checker_sound`) evaluated by the
    driver on every case;
  * the calls of convex_hull made by real WCSImageCatalog / WCSGroupCatalog(approximate) / RefCatalog
    objects (recorded from the harness side) against the model, and the polygon that
    RefCatalog._calc_cat_convex_hull builds in its ad-hoc tangent plane against `TW.refFootprint`
    (op `smallbox F`).
Oracle (independent of the model): exact Fraction half-plane tests, strict left turns, vertices are
input points, start/closing vertex is the lexicographic minimum, extreme points by brute force,
the min_separation clause itself (result is a sub-sequence of the unmerged hull with the same first/closing vertex, no two consecutive vertices within the separation, nothing removed needlessly, removed vertices near a kept one); for sky objects: every source inside
the polygon (or within a rounding margin of its boundary), polygon area against the area of an
independently computed hull (scipy/qhull in a gnomonic chart), size of the 1- and 2-source boxes,
intersection areas symmetric and bounded by both footprints.
"""
import math
import random

import numpy as np

from ..common import Fraction, q2s, f2x, x2f, s2q, to_fraction

ID = 'C16'
RULE = ('point sets from 10 families (tiny 0..3 points, random small integers with duplicates, lattices, '
        'collinear runs, dyadic, integer circles, near-coincident vertices, random reals, real clusters, '
        'hand-built corpus) x min_separation in {None, 0, small, large, negative} x input kind '
        '{list, ndarray, wcs callable}; sky scenes of three image catalogs (two adjacent ones forming a '
        'group, one overlapping both), groups with bb_policy exact/0/auto, reference catalogs of 1, 2, 3 '
        'and all sources at 14+ sky locations incl. RA 0/360 wrap and |dec| up to 85 deg. A hull case is '
        'non-trivial when it has >= 3 distinct points and (duplicates or a collinear triple or a merged '
        'vertex) or expects an error; every sky object is non-trivial; distinct = distinct canonical input. '
        'Whole-image (chip) footprints (c16_chipborder.py): correctors {FITS pixel_shape 1x1..4096x2048, FITS '
        'pixel_bounds integer/non-integer/narrower than a pixel, FITS without bounding box, mock JWST with several '
        'bounding boxes and without} x catalogs of 0..5 sources (integer, k+0.5, zero, large, dyadic, random, negative) '
        'x stepsize {None, positive, 0, negative} x {calc_bounding_polygon, _calc_chip_bounding_polygon}; sources of '
        'correctors WITH a bounding box are placed anywhere in the closed box: pixel-centre range, outer half-pixel '
        'band, exactly on the edges of the box and of the shrunk box, one ulp beside them, and (one catalog in seven) '
        'outside the box (counters chip:bb-coordinate:*); a chip case is '
        'non-trivial when the catalog is not empty and the rectangle is non-degenerate, or an exception is expected')
ASSUMPTIONS = [
    'theorems are over an arbitrary linearly ordered field (sqrt parts over the reals); double rounding is '
    'outside the model (the Float runs of the model use the same IEEE operations in the same order and '
    'are compared bit-exactly; near-degenerate disagreements would be counted as near-ties)',
    'spherical polygons (spherical_geometry: from_radec, multi_union, intersection, area, contains_radec) '
    'are NOT modelled: the containment / area / symmetry clauses about sky footprints are decided by the '
    'oracle only',
    'sky <-> plane maps (astropy.wcs, the ad-hoc rotation of RefCatalog) are used as fixed charts; the '
    'tangent-plane polygon of RefCatalog is read back through the rotation matrix recorded from the code',
    'NaN / infinite coordinates are outside the model',
    'chip footprint: the model ends where the pixel border is handed to det_to_world; sources outside a gWCS '
    'bounding box are generated only in catalogs of at most two sources (no sky coordinates there); spherical '
    'containment is not tested for footprints narrower than 1.5e-7 rad (spherical_geometry cannot decide it)',
]

ARCSEC = math.pi / 180.0 / 3600.0
MARGIN = 1e-10            # rad: a source this close to the polygon boundary counts as contained
AREA_RTOL = 2e-3          # spherical_geometry areas of ~1e-8 sr polygons carry ~1e-7..1e-5 relative noise
AREA_ATOL = 5e-15         # sr


# ---------------------------------------------------------------------------
# exact planar geometry (oracle side; shares nothing with the model)
# ---------------------------------------------------------------------------
def crossf(o, a, b):
    return (a[0] - o[0]) * (b[1] - o[1]) - (a[1] - o[1]) * (b[0] - o[0])


def all_collinear(P):
    P = list(P)
    if len(P) < 3:
        return True
    a = P[0]
    b = next((p for p in P if p != a), None)
    if b is None:
        return True
    return all(crossf(a, b, c) == 0 for c in P)


def on_segment(v, a, b):
    return crossf(a, b, v) == 0 and ((v[0] - a[0]) * (v[0] - b[0]) + (v[1] - a[1]) * (v[1] - b[1])) <= 0


def in_triangle(v, a, b, c):
    t = crossf(a, b, c)
    if t == 0:
        return False
    d1, d2, d3 = crossf(a, b, v), crossf(b, c, v), crossf(c, a, v)
    return (d1 >= 0 and d2 >= 0 and d3 >= 0) if t > 0 else (d1 <= 0 and d2 <= 0 and d3 <= 0)


def extreme_points(D):
    """brute force: points of the distinct set D that are not convex combinations of the others"""
    D = list(D)
    out = set()
    for v in D:
        oth = [p for p in D if p != v]
        bad = False
        for i in range(len(oth)):
            for j in range(i + 1, len(oth)):
                if on_segment(v, oth[i], oth[j]):
                    bad = True
                    break
                for k in range(j + 1, len(oth)):
                    if in_triangle(v, oth[i], oth[j], oth[k]):
                        bad = True
                        break
                if bad:
                    break
            if bad:
                break
        if not bad:
            out.add(v)
    return out


def close_cheb(a, b, sep):
    return abs(a[0] - b[0]) <= sep and abs(a[1] - b[1]) <= sep


def is_subsequence(h, h0):
    it = iter(h0)
    return all(any(v == w for w in it) for v in h)


def merge_property(H0, H, sep):
    """the property clause itself, on the unmerged hull H0 and the result H for the separation `sep`
    (exact numbers): consecutive vertices closer than min_separation are merged.  List of failures.
      * H is a sub-sequence of H0 that starts and closes at the same (lexicographically smallest) vertex;
      * no two consecutive vertices of H are within `sep` in both coordinates, unless H is the degenerate
        [v0, v0] (everything merged into the first vertex);
      * nothing is removed when no two consecutive vertices of H0 are within `sep`;
      * a removed vertex is within `sep` of a kept vertex, or (when the vertex it was merged into was itself
        merged into the first vertex) within 2*sep of the first vertex."""
    bad = []
    if len(H0) < 3:
        return bad if list(H) == list(H0) else ['separation loop changed a hull of fewer than 3 entries']
    if len(H) < 2 or H[0] != H0[0] or H[-1] != H0[-1]:
        return ['merging removed the first or the closing vertex']
    if not is_subsequence(H, H0):
        bad.append('the merged hull is not a sub-sequence of the unmerged hull')
    if not (len(H) == 2 and H[0] == H[1]):
        for i in range(len(H) - 1):
            if close_cheb(H[i], H[i + 1], sep):
                bad.append('consecutive vertices %d and %d of the result are within min_separation' % (i, i + 1))
                break
    if not any(close_cheb(H0[i], H0[i + 1], sep) for i in range(len(H0) - 1)) and list(H) != list(H0):
        bad.append('a vertex was removed although no two consecutive vertices are within min_separation')
    kept = set(H)
    for v in H0:
        if v in kept or any(close_cheb(v, w, sep) for w in kept) or close_cheb(v, H0[0], 2 * sep):
            continue
        bad.append('a removed vertex is neither within min_separation of a kept vertex nor within twice that '
                   'of the first vertex')
        break
    return bad


def oracle_raw_hull(P, H):
    """property of the unmerged hull H (list of exact points) of the input points P; list of failures"""
    bad = []
    D = sorted(set(P))
    if len(D) == 0:
        if H:
            bad.append('non-empty hull of no points')
        return bad
    if len(D) == 1:
        if H != [D[0]]:
            bad.append('one distinct point must give exactly that point')
        return bad
    if len(H) < 3:
        return ['hull of >= 2 distinct points has fewer than 3 entries']
    if any(v not in set(D) for v in H):
        bad.append('a vertex is not an input point')
    if H[0] != D[0] or H[-1] != D[0]:
        bad.append('hull does not start and close at the lexicographically smallest point')
    body = H[:-1]
    if len(set(body)) != len(body):
        bad.append('repeated vertex')
    for i in range(len(H) - 1):
        a, b = H[i], H[i + 1]
        if any(crossf(a, b, q) < 0 for q in D):
            bad.append('an input point is strictly to the right of edge %d' % i)
            break
    if all_collinear(D):
        if H != [D[0], D[-1], D[0]]:
            bad.append('collinear input must give [min, max, min]')
    else:
        ext = H + [H[1]]
        for i in range(len(ext) - 2):
            if crossf(ext[i], ext[i + 1], ext[i + 2]) <= 0:
                bad.append('triple %d is not a strict left turn' % i)
                break
    if len(D) <= 11:
        ex = extreme_points(D)
        if set(body) != ex:
            bad.append('vertex set differs from the brute-force extreme points (minimality/completeness)')
    return bad


# ---------------------------------------------------------------------------
# generators of point sets
# ---------------------------------------------------------------------------
def gen_points(rng):
    fam = rng.choice(['tiny', 'randint', 'randint', 'lattice', 'collinear', 'dyadic', 'circle',
                      'nearcoin', 'nearcoin', 'real', 'real', 'realcluster'])
    if fam == 'tiny':
        n = rng.randint(0, 3)
        pts = [(float(rng.randint(-2, 2)), float(rng.randint(-2, 2))) for _ in range(n)]
    elif fam == 'randint':
        n = rng.randint(3, 14)
        r = rng.choice([2, 3, 6])
        pts = [(float(rng.randint(-r, r)), float(rng.randint(-r, r))) for _ in range(n)]
    elif fam == 'lattice':
        k = rng.randint(2, 4)
        ox, oy = rng.randint(-3, 3), rng.randint(-3, 3)
        sx, sy = rng.choice([1, 2, 0.5]), rng.choice([1, 2, 0.5])
        pts = [(ox + sx * i, oy + sy * j) for i in range(k) for j in range(k)]
        rng.shuffle(pts)
        pts = pts[:rng.randint(max(1, len(pts) - 3), len(pts))] + pts[:rng.randint(0, 2)]
    elif fam == 'collinear':
        d = rng.choice([(1, 0), (0, 1), (1, 1), (1, -1), (2, 1), (-1, 3)])
        o = (rng.randint(-3, 3), rng.randint(-3, 3))
        ts = [rng.randint(-4, 4) for _ in range(rng.randint(2, 7))]
        pts = [(float(o[0] + t * d[0]), float(o[1] + t * d[1])) for t in ts]
        if rng.random() < 0.4:
            pts.append((float(rng.randint(-6, 6)), float(rng.randint(-6, 6))))
            rng.shuffle(pts)
    elif fam == 'dyadic':
        n = rng.randint(3, 12)
        pts = [(rng.randint(-40, 40) / 8.0, rng.randint(-40, 40) / 8.0) for _ in range(n)]
    elif fam == 'circle':
        r = rng.choice([5, 10, 13, 25])
        pts = [(float(x), float(y)) for x in range(-r, r + 1) for y in range(-r, r + 1) if x * x + y * y == r * r * 1]
        pts += [(float(rng.randint(-r // 2, r // 2)), float(rng.randint(-r // 2, r // 2))) for _ in range(3)]
        rng.shuffle(pts)
    elif fam == 'nearcoin':
        base = [(0.0, 0.0), (8.0, 0.0), (10.0, 4.0), (8.0, 8.0), (0.0, 8.0), (-2.0, 4.0)]
        rng.shuffle(base)
        base = base[:rng.randint(3, 6)]
        eps = rng.choice([1 / 1024.0, 1 / 64.0, 0.25])
        pts = list(base)
        for (x, y) in base:
            for _ in range(rng.randint(0, 2)):
                pts.append((x + eps * rng.randint(-2, 2), y + eps * rng.randint(-2, 2)))
        rng.shuffle(pts)
    elif fam == 'real':
        n = rng.randint(3, 40)
        sc = rng.choice([1.0, 1000.0, 1e-5])
        pts = [(rng.uniform(-sc, sc), rng.uniform(-sc, sc)) for _ in range(n)]
    else:  # realcluster
        cs = [(rng.uniform(-10, 10), rng.uniform(-10, 10)) for _ in range(rng.randint(3, 6))]
        e = rng.choice([1e-12, 1e-9, 1e-3])
        pts = [(cx + e * rng.uniform(-1, 1), cy + e * rng.uniform(-1, 1)) for (cx, cy) in cs for _ in range(rng.randint(1, 3))]
    if fam in ('real', 'realcluster'):
        sep = rng.choice([None, None, 0.0, 1e-11, 2e-9, 1e-3, 0.5])
    else:
        sep = rng.choice([None, None, None, 0.0, 1 / 1024.0, 1 / 32.0, 0.5, 1.0, 2.0, -1.0])
    kind = rng.choice(['list', 'list', 'ndarray', 'wcs'])
    return fam, pts, sep, kind


CORPUS = [
    ('corpus', [], None, 'list'),
    ('corpus', [], None, 'ndarray'),
    ('corpus', [(123.0, 456.0)], None, 'list'),
    ('corpus', [(1.0, 1.0), (1.0, 1.0), (1.0, 1.0)], 0.5, 'ndarray'),
    ('corpus', [(0.0, 0.0), (2.0, 2.0)], None, 'list'),
    ('corpus', [(0.0, 0.0), (2.0, 2.0), (1.0, 1.0), (3.0, 3.0)], None, 'list'),
    # the suite's square with interior points
    ('corpus', [(0.0, 0.0), (0.0, 10.0), (10.0, 10.0), (10.0, 0.0), (3.0, 5.0), (6.0, 1.0), (7.0, 8.0)], None, 'list'),
    # the junctions: collinear points on the vertical sides through the lexicographic min and max
    ('corpus', [(0.0, 0.0), (0.0, 1.0), (0.0, 2.0), (2.0, 0.0), (2.0, 1.0), (2.0, 2.0), (1.0, 1.0)], None, 'wcs'),
    ('corpus', [(0.0, 0.0), (1.0, 0.0), (0.0, 1.0)], 1.0, 'list'),          # everything merged: [p0, p0]
    ('corpus', [(0.0, 0.0), (4.0, 0.0), (4.25, 0.25), (4.0, 4.0), (0.0, 4.0)], 0.5, 'list'),
    ('corpus', [(0.0, 0.0), (4.0, 0.0), (4.0, 4.0), (0.0, 4.0), (0.0, 3.75)], 0.5, 'list'),  # neighbour of the closing vertex
    ('corpus', [(0.0, 0.0), (1.0, 0.0), (0.0, 1.0)], -1.0, 'list'),
    ('corpus', [(0.0, 0.0), (-0.0, 0.0), (1.0, 0.0), (0.0, 1.0)], None, 'ndarray'),
]


# ---------------------------------------------------------------------------
# convex_hull: implementation runner, correspondence, oracle
# ---------------------------------------------------------------------------
def impl_hull(pts, sep, kind):
    from tweakwcs.wcsimage import convex_hull
    x = [p[0] for p in pts]
    y = [p[1] for p in pts]
    if kind == 'ndarray':
        x, y = np.array(x, dtype=np.double), np.array(y, dtype=np.double)
    wcs = None
    if kind == 'wcs':
        def wcs(a, b):
            return np.array(a, dtype=np.double), np.array(b, dtype=np.double)
    try:
        hx, hy = convex_hull(x, y, wcs=wcs, min_separation=sep)
    except ValueError:
        return ('err', 'ValueError')
    isarr = isinstance(hx, np.ndarray)
    if kind == 'ndarray' and not isarr:
        return ('badtype', type(hx).__name__)
    return ('ok', [(float(a), float(b)) for a, b in zip(hx, hy)])


def hull_case(ctx, fam, pts, sep, kind, lines, pending):
    exact = fam not in ('real', 'realcluster')
    case = {'op': 'hull', 'family': fam, 'points': [list(p) for p in pts], 'min_separation': sep, 'kind': kind}
    P = [(to_fraction(a), to_fraction(b)) for a, b in pts]
    D = sorted(set(P))
    res = impl_hull(pts, sep, kind)
    res0 = impl_hull(pts, None, 'list')
    merged_something = False
    # ---- oracle on the implementation -----------------------------------
    if sep is not None and sep < 0:
        if res[0] != 'err':
            ctx.oracle_fail(case, {'what': 'negative min_separation did not raise ValueError', 'got': res[0]})
    elif res[0] != 'ok':
        ctx.oracle_fail(case, {'what': 'convex_hull failed', 'got': list(res)})
    if res0[0] != 'ok':
        ctx.oracle_fail(case, {'what': 'convex_hull(min_separation=None) failed', 'got': list(res0)})
    else:
        H0 = [(to_fraction(a), to_fraction(b)) for a, b in res0[1]]
        if exact:
            for b in oracle_raw_hull(P, H0):
                ctx.oracle_fail(case, {'what': b, 'hull': res0[1]})
        else:
            # doubles: the exact tests would flag legitimate rounding; test with a margin
            for b in oracle_float_hull(pts, res0[1]):
                ctx.oracle_fail(case, {'what': b, 'hull': res0[1]})
        if res[0] == 'ok' and sep is not None:
            H = [(to_fraction(a), to_fraction(b)) for a, b in res[1]]
            merged_something = len(H) != len(H0)
            for bmsg in merge_property(H0, H, to_fraction(sep)):
                ctx.oracle_fail(case, {'what': 'min_separation: ' + bmsg, 'got': res[1], 'unmerged': res0[1]})
        elif res[0] == 'ok' and sep is None and res[1] != res0[1]:
            ctx.oracle_fail(case, {'what': 'result depends on the container type of the input',
                                   'got': res[1], 'list-input': res0[1]})
    nontrivial = (len(D) >= 3 and (len(D) < len(P) or has_collinear_triple(D) or merged_something)) or \
                 (sep is not None and sep < 0)
    ctx.case(case, nontrivial=nontrivial, branch='family:' + fam)
    ctx.branch('sep:' + ('none' if sep is None else 'neg' if sep < 0 else 'zero' if sep == 0 else 'pos'))
    ctx.branch('kind:' + kind)
    if merged_something:
        ctx.branch('merge:removed-vertex')
    if len(D) >= 2 and all_collinear(D):
        ctx.branch('shape:collinear')
    # ---- model --------------------------------------------------------------
    mode = 'Q' if exact else 'F'
    seps = 'none' if sep is None else (q2s(to_fraction(sep)) if exact else f2x(sep))
    nums = ' '.join((q2s(a) + ' ' + q2s(b)) for a, b in P) if exact else \
        ' '.join(f2x(a) + ' ' + f2x(b) for a, b in pts)
    lines.append(('hull %s %s %d %s' % (mode, seps, len(pts), nums)).strip())
    pending.append(('hull', case, mode, res, D, sep))


def has_collinear_triple(D):
    n = len(D)
    if n > 14:
        return False
    for i in range(n):
        for j in range(i + 1, n):
            for k in range(j + 1, n):
                if crossf(D[i], D[j], D[k]) == 0:
                    return True
    return False


def oracle_float_hull(pts, H):
    """hull of doubles: checked against qhull (scipy) and by half-plane tests with a rounding margin"""
    bad = []
    D = sorted(set(pts))
    if len(D) < 3:
        return bad
    if len(H) < 3 or H[0] != H[-1] or H[0] != D[0]:
        return ['hull does not start and close at the lexicographically smallest point']
    if any(v not in set(D) for v in H):
        bad.append('a vertex is not an input point')
    scale = max(max(abs(a), abs(b)) for a, b in D) or 1.0
    ext = max(max(a for a, _ in D) - min(a for a, _ in D), max(b for _, b in D) - min(b for _, b in D)) or 1.0
    tol = 64 * np.finfo(float).eps * scale * ext
    for i in range(len(H) - 1):
        a, b = H[i], H[i + 1]
        worst = min(crossf(a, b, q) for q in D)
        if worst < -tol:
            bad.append('an input point is to the right of edge %d by more than rounding (cross=%g)' % (i, worst))
            break
    # exact orientation of consecutive triples (Fractions): never a right turn
    HF = [(to_fraction(a), to_fraction(b)) for a, b in H]
    extl = HF + [HF[1]]
    for i in range(len(extl) - 2):
        c = crossf(extl[i], extl[i + 1], extl[i + 2])
        if c < 0 and float(c) < -tol:
            bad.append('triple %d turns right' % i)
            break
    try:
        from scipy.spatial import ConvexHull
        arr = np.array(D)
        qh = ConvexHull(arr)
        qv = set(map(tuple, arr[qh.vertices]))
        hv = set(H[:-1])
        # vertices may differ only by points within rounding of an edge
        for v in qv.symmetric_difference(hv):
            d = min(abs(crossf(H[i], H[i + 1], v)) for i in range(len(H) - 1))
            if d > tol:
                bad.append('vertex set differs from qhull at %r (distance measure %g)' % (v, d))
                break
    except Exception:
        pass
    return bad


def compare_hulls(ctx, outs, pending):
    for out, item in zip(outs, pending):
        if item[0] != 'hull':
            continue
        _, case, mode, res, D, sep = item
        toks = out.split()
        if toks[:1] == ['err']:
            ctx.branch('model:err')
            if res[0] != 'err':
                ctx.disagree(case, {'op': 'hull', 'model': out, 'impl': 'returned a hull'})
            continue
        if toks[:1] != ['ok']:
            ctx.disagree(case, {'op': 'hull', 'model': out[:100]})
            continue
        if res[0] != 'ok':
            ctx.disagree(case, {'op': 'hull', 'model': 'hull', 'impl': list(res)})
            continue
        flag, k = toks[1], int(toks[2])
        vals = toks[3:]
        if mode == 'Q':
            mh = [(s2q(vals[2 * i]), s2q(vals[2 * i + 1])) for i in range(k)]
            ih = [(to_fraction(a), to_fraction(b)) for a, b in res[1]]
        else:
            mh = [(x2f(vals[2 * i]), x2f(vals[2 * i + 1])) for i in range(k)]
            ih = [(a, b) for a, b in res[1]]
        if mh != ih:
            if mode == 'F' and near_degenerate(case['points']):
                ctx.near_tie()
                continue
            ctx.disagree(case, {'op': 'hull', 'mode': mode, 'model': [[float(a), float(b)] for a, b in mh],
                                'impl': res[1]})
            continue
        # the proved checker, evaluated by the model on its own output: must be 1 whenever the theorem
        # hull_ccw_strict applies (no merging, input not collinear); exact arithmetic only
        if mode == 'Q' and sep is None and len(D) >= 3 and not all_collinear(D) and flag != '1':
            ctx.disagree(case, {'op': 'hull', 'what': 'isStrictlyConvexCCW is false on a non-collinear raw hull',
                                'model': out[:100]})
        ctx.branch('ccw-flag:' + flag)


def near_degenerate(pts):
    D = sorted(set(map(tuple, pts)))
    if len(D) > 45:
        return True
    F = [(to_fraction(a), to_fraction(b)) for a, b in D]
    scale = max(max(abs(a), abs(b)) for a, b in D) or 1.0
    for i in range(len(F)):
        for j in range(i + 1, len(F)):
            for k in range(j + 1, len(F)):
                if abs(float(crossf(F[i], F[j], F[k]))) < 1e-9 * scale * scale:
                    return True
    return False


# ---------------------------------------------------------------------------
# sky objects
# ---------------------------------------------------------------------------
def s2c(ra, dec):
    ra = np.deg2rad(np.asarray(ra, dtype=float))
    dec = np.deg2rad(np.asarray(dec, dtype=float))
    return np.stack([np.cos(dec) * np.cos(ra), np.cos(dec) * np.sin(ra), np.sin(dec)], axis=-1)


def angsep(u, v):
    return 2.0 * math.asin(min(1.0, 0.5 * float(np.linalg.norm(np.asarray(u) - np.asarray(v)))))


def dist_to_arc(p, a, b):
    n = np.cross(a, b)
    nn = np.linalg.norm(n)
    if nn < 1e-300:
        return angsep(p, a)
    n = n / nn
    s = float(np.dot(p, n))
    q = p - s * n
    qn = np.linalg.norm(q)
    if qn > 0:
        q = q / qn
        if np.dot(np.cross(a, q), n) >= 0 and np.dot(np.cross(q, b), n) >= 0:
            return abs(math.asin(max(-1.0, min(1.0, s))))
    return min(angsep(p, a), angsep(p, b))


def boundary_distance(poly, ra, dec):
    p = s2c(ra, dec)
    d = float('inf')
    for pts in poly.points:
        pts = np.asarray(pts, dtype=float)
        for i in range(len(pts) - 1):
            d = min(d, dist_to_arc(p, pts[i], pts[i + 1]))
    return d


def contained(poly, ra, dec, margin=MARGIN):
    try:
        c = bool(poly.contains_radec(ra, dec))
    except Exception:
        c = False
    if c:
        return True, 0.0
    d = boundary_distance(poly, ra, dec)
    return d <= margin, d


def gnomonic(vecs, center):
    """own gnomonic chart about the unit vector `center`"""
    c = center / np.linalg.norm(center)
    e = np.cross([0.0, 0.0, 1.0], c)
    if np.linalg.norm(e) < 1e-12:
        e = np.array([1.0, 0.0, 0.0])
    e = e / np.linalg.norm(e)
    nrt = np.cross(c, e)
    w = vecs @ c
    return np.stack([(vecs @ e) / w, (vecs @ nrt) / w], axis=-1)


def hull_area_oracle(ra, dec):
    """area (sr) of the spherical convex hull of the sources: qhull in a gnomonic chart about their mean
    (great circles are straight lines there), area by spherical_geometry on those vertices; None when the
    sources are (nearly) collinear"""
    from scipy.spatial import ConvexHull
    from spherical_geometry.polygon import SphericalPolygon
    v = s2c(ra, dec)
    c = v.mean(axis=0)
    xy = gnomonic(v, c)
    try:
        qh = ConvexHull(xy)
    except Exception:
        return None
    idx = list(qh.vertices)
    hv = xy[idx]
    planar = 0.5 * abs(sum(hv[i][0] * hv[(i + 1) % len(hv)][1] - hv[(i + 1) % len(hv)][0] * hv[i][1]
                           for i in range(len(hv))))
    ext = float(np.max(np.linalg.norm(xy - xy.mean(axis=0), axis=1)))
    if planar < 1e-4 * ext * ext:
        return None
    idx = idx + [idx[0]]
    r = np.asarray(ra, dtype=float)[idx]
    d = np.asarray(dec, dtype=float)[idx]
    cr = math.degrees(math.atan2(c[1], c[0]))
    cd = math.degrees(math.asin(c[2] / np.linalg.norm(c)))
    try:
        a = abs(SphericalPolygon.from_radec(r, d, center=(cr, cd)).area())
    except Exception:
        return None
    # cross-check with the planar area (the chart is centred on the field: dOmega = dA (1+r^2)^(-3/2))
    if abs(a - planar) > 0.05 * planar + 1e-14:
        return None
    return a


def mkwcs(ra, dec, rot, scale, crpix, nx=1024, ny=1024, flip=False):
    from astropy import wcs as fitswcs
    from tweakwcs.linearfit import build_fit_matrix
    w = fitswcs.WCS(naxis=2)
    cd = build_fit_matrix(rot, scale)
    if flip:
        cd = cd @ np.array([[-1.0, 0.0], [0.0, 1.0]])
    w.wcs.cd = cd
    w.wcs.crval = [ra, dec]
    w.wcs.crpix = list(crpix)
    w.wcs.ctype = ['RA---TAN', 'DEC--TAN']
    w.pixel_shape = [nx, ny]
    w.wcs.set()
    return w


LOCATIONS = [
    (82.0, 12.0), (0.0005, 0.0), (359.9995, 10.0), (0.0, 85.0), (359.999, -85.0), (0.002, -60.0),
    (180.0, -85.0), (200.0, 60.0), (180.0, 0.0), (179.9995, 45.0), (90.0, 45.0), (270.0, -30.0),
    (10.0, 20.0), (300.0, -84.0), (123.456, -0.001), (45.0, 84.9),
]


class Recorder:
    """harness-side instrumentation: records the calls of convex_hull and of inv (the rotation of
    RefCatalog's ad-hoc tangent plane) made from tweakwcs.wcsimage"""

    def __init__(self):
        from tweakwcs import wcsimage
        self.mod = wcsimage
        self.calls = []
        self.rots = []

    def __enter__(self):
        mod = self.mod
        self.orig_hull = mod.convex_hull
        self.orig_inv = mod.inv

        def hull(x, y, wcs=None, min_separation=None):
            xs = np.array(x, dtype=np.double).copy()
            ys = np.array(y, dtype=np.double).copy()
            out = self.orig_hull(x, y, wcs=wcs, min_separation=min_separation)
            self.calls.append({'x': xs, 'y': ys, 'wcs': wcs, 'sep': min_separation,
                               'out': (np.array(out[0], dtype=np.double).copy(),
                                       np.array(out[1], dtype=np.double).copy())})
            return out

        def inv(m):
            self.rots.append(np.array(m, dtype=np.double).copy())
            return self.orig_inv(m)

        mod.convex_hull = hull
        mod.inv = inv
        return self

    def __exit__(self, *a):
        self.mod.convex_hull = self.orig_hull
        self.mod.inv = self.orig_inv
        return False

    def reset(self):
        self.calls = []
        self.rots = []


def hull_line_F(x, y, sep):
    nums = ' '.join(f2x(a) + ' ' + f2x(b) for a, b in zip(x, y))
    return ('hull F %s %d %s' % ('none' if sep is None else f2x(sep), len(x), nums)).strip()


def radec_close(r1, d1, r2, d2, tol_rad):
    return angsep(s2c(r1, d1), s2c(r2, d2)) <= tol_rad


def check_polygon_sources(ctx, case, name, poly, ra, dec, strict=False):
    for r, d in zip(ra, dec):
        ok, dist = contained(poly, float(r), float(d), 0.0 if strict else MARGIN)
        if not ok:
            ctx.oracle_fail(case, {'what': '%s: source (%.10f, %.10f) is outside the footprint' % (name, r, d),
                                   'distance_to_boundary_rad': dist})
            return False
    return True


def check_area_vs_hull(ctx, case, name, poly, ra, dec):
    a = abs(poly.area())
    h = hull_area_oracle(ra, dec)
    if h is None:
        ctx.branch('area:hull-degenerate-skipped')
        return
    if abs(a - h) > AREA_RTOL * h + AREA_ATOL:
        ctx.oracle_fail(case, {'what': '%s: footprint area differs from the area of the hull of its sources' % name,
                               'footprint_sr': a, 'hull_sr': h})


def image_case(ctx, rec, loc, geom, crpix, n, npr, lines, pending, tag):
    """one WCSImageCatalog with n random sources"""
    x = npr.uniform(5, 1018, n)
    y = npr.uniform(5, 1018, n)
    return image_from(ctx, rec, loc, geom, crpix, x, y, lines, pending, tag)


def image_from(ctx, rec, loc, geom, crpix, x, y, lines, pending, tag):
    from astropy.table import Table
    from tweakwcs.correctors import FITSWCSCorrector
    from tweakwcs.wcsimage import WCSImageCatalog
    x = np.asarray(x, dtype=float)
    y = np.asarray(y, dtype=float)
    n = len(x)
    w = mkwcs(loc[0], loc[1], geom['rot'], geom['scale'], crpix, flip=geom['flip'])
    case = {'op': 'image', 'loc': list(loc), 'geom': geom, 'crpix': list(crpix), 'x': x.tolist(), 'y': y.tolist()}
    rec.reset()
    try:
        im = WCSImageCatalog(Table([x, y], names=('x', 'y')), FITSWCSCorrector(w), name=tag)
    except Exception as e:
        ctx.case(case, nontrivial=True, branch='image:n=%s' % (n if n < 4 else '4+'))
        ctx.oracle_fail(case, {'what': 'WCSImageCatalog could not be built', 'exc': repr(e)[:200]})
        return None
    ctx.case(case, nontrivial=True, branch='image:n=%s' % (n if n < 4 else '4+'))
    ra, dec = im.det_to_world(x, y)
    ra = np.asarray(ra, dtype=float)
    dec = np.asarray(dec, dtype=float)
    check_polygon_sources(ctx, case, 'image catalog', im.polygon, ra, dec)
    if n >= 3:
        check_area_vs_hull(ctx, case, 'image catalog', im.polygon, ra, dec)
        if len(rec.calls) != 1:
            ctx.oracle_fail(case, {'what': 'image catalog with %d sources did not call convex_hull once' % n})
        else:
            c = rec.calls[0]
            lines.append(hull_line_F(c['x'], c['y'], c['sep']))
            pending.append(('imhull', case, c, im))
    else:
        if rec.calls:
            ctx.oracle_fail(case, {'what': 'image catalog with %d sources used a hull' % n})
    return {'obj': im, 'ra': ra, 'dec': dec, 'case': case, 'n': n}


def close_double_image_cases(ctx, rec, count, lines, pending):
    """image catalogs whose extreme sources have a companion less than a pixel away (close doubles at the hull
    vertices; seeded change C16-r5m1: a min_separation of the order of a pixel merges such vertices away and leaves
    a source outside its own catalog footprint)"""
    rng = ctx.rng
    for k in range(count):
        npr = np.random.default_rng(rng.getrandbits(32))
        loc = rng.choice(LOCATIONS)
        geom = {'rot': rng.uniform(0, 360), 'scale': rng.choice([1e-5, 3e-5, 2e-6]), 'flip': rng.random() < 0.3}
        n = rng.choice([3, 4, 6, 12])
        x = npr.uniform(50, 970, n)
        y = npr.uniform(50, 970, n)
        ext = sorted({int(np.argmax(x)), int(np.argmin(x)), int(np.argmax(y)), int(np.argmin(y)),
                      int(np.argmax(x + y)), int(np.argmin(x + y))})
        rng.shuffle(ext)
        ext = ext[:rng.choice([1, 2, 4])]
        r = rng.choice([0.95, 0.6, 0.2, 0.01])
        dx = npr.uniform(-r, r, len(ext))
        dy = npr.uniform(-r, r, len(ext))
        x = np.concatenate([x, x[ext] + dx])
        y = np.concatenate([y, y[ext] + dy])
        ctx.branch('image:close-double')
        image_from(ctx, rec, loc, geom, (512.0, 512.0), x, y, lines, pending, 'D%d' % k)


def thin_image_cases(ctx, count):
    """image catalogs whose sources lie within a fraction of a pixel of a straight line (finding F27, repaired in
    /repo: the hull of such a catalog is a sliver that spherical_geometry cannot orient; the image catalog then
    had a degenerate footprint that contained nothing and WCSGroupCatalog / align_wcs raised 'No valid polygons
    provided').  Required: the catalog and a group built on it can be constructed, the footprint is a usable
    (orientable) polygon, and when the footprint is the whole image it contains every source."""
    from astropy.table import Table
    from tweakwcs.correctors import FITSWCSCorrector
    from tweakwcs.wcsimage import WCSImageCatalog, WCSGroupCatalog
    rng = ctx.rng
    for it in range(count):
        npr = np.random.default_rng(rng.getrandbits(32))
        loc = rng.choice(LOCATIONS)
        scale = rng.choice([1.5e-5, 8e-6, 3e-5, 1e-4])
        geom = {'rot': rng.uniform(0, 360), 'scale': scale, 'flip': rng.random() < 0.3}
        scatter = rng.choice([0.0, 1e-9, 1e-6, 1e-3, 0.03, 0.1, 0.3, 1.0])
        n = rng.choice([3, 4, 5, 6, 9])
        ang = math.radians(rng.choice([0.0, 90.0, 45.0, rng.uniform(0, 180), rng.uniform(0, 180)]))
        t = np.sort(npr.uniform(-420, 420, n))
        x = 512.3 + t * math.cos(ang) + (npr.normal(0, scatter, n) if scatter else 0.0)
        y = 480.7 + t * math.sin(ang) + (npr.normal(0, scatter, n) if scatter else 0.0)
        x = np.clip(x, 2.0, 1021.0)
        y = np.clip(y, 2.0, 1021.0)
        case = {'op': 'thin-image', 'loc': list(loc), 'geom': geom, 'scatter': scatter, 'x': x.tolist(), 'y': y.tolist()}
        ctx.case(case, nontrivial=True, branch='thin-image:scatter=%g' % scatter)
        try:
            im = WCSImageCatalog(Table([x, y], names=('x', 'y')),
                                 FITSWCSCorrector(mkwcs(loc[0], loc[1], geom['rot'], scale, (512.0, 512.0),
                                                        flip=geom['flip'])), name='thin')
            other = WCSImageCatalog(Table([npr.uniform(100, 900, 7), npr.uniform(100, 900, 7)], names=('x', 'y')),
                                    FITSWCSCorrector(mkwcs(loc[0], loc[1], geom['rot'], scale, (300.0, 512.0),
                                                           flip=geom['flip'])), name='other')
            WCSGroupCatalog(im)
            g2 = WCSGroupCatalog([im, other])
            g2._guarded_intersection_area(im)
            im._guarded_intersection_area(other)
        except Exception as e:
            ctx.oracle_fail(case, {'what': 'an image catalog with (almost) collinear sources, or a group containing '
                                   'it, could not be built or intersected', 'exc': repr(e)[:200]})
            continue
        if im.polygon.is_clockwise() is None:
            ctx.oracle_fail(case, {'what': 'the footprint of an image catalog with (almost) collinear sources is a '
                                   'degenerate polygon (contains nothing, cannot be combined)'})
            continue
        whole = len(im.bb_radec[0]) == len(im.img_bounding_ra) and \
            np.array_equal(np.asarray(im.bb_radec[0]), np.asarray(im.img_bounding_ra))
        ctx.branch('thin-image:footprint=%s' % ('whole-image' if whole else 'hull'))
        if whole:
            ra, dec = im.det_to_world(x, y)
            check_polygon_sources(ctx, case, 'image catalog (whole-image footprint)', im.polygon,
                                  np.asarray(ra, dtype=float), np.asarray(dec, dtype=float))


def group_case(ctx, rec, members, policy, lines, pending):
    from tweakwcs.wcsimage import WCSGroupCatalog
    case = {'op': 'group', 'bb_policy': policy, 'members': [m['case'] for m in members]}
    rec.reset()
    try:
        g = WCSGroupCatalog([m['obj'] for m in members], bb_policy=policy)
    except Exception as e:
        ctx.case(case, nontrivial=True, branch='group:%s' % policy)
        ctx.oracle_fail(case, {'what': 'WCSGroupCatalog could not be built', 'exc': repr(e)[:200]})
        return None
    approx = policy != 'exact' and (policy == 0 or (policy == 'auto' and len(members) > 50))
    ctx.case(case, nontrivial=True, branch='group:%s' % policy)
    ra = np.concatenate([m['ra'] for m in members])
    dec = np.concatenate([m['dec'] for m in members])
    check_polygon_sources(ctx, case, 'group (%s)' % policy, g.polygon, ra, dec)
    a = abs(g.polygon.area())
    if g.poly_area is None or abs(g.poly_area - a) > 1e-9 * a:
        ctx.oracle_fail(case, {'what': 'group poly_area is not the area of its polygon', 'poly_area': g.poly_area})
    if all(m['n'] >= 3 for m in members):
        h = hull_area_oracle(ra, dec)
        if h is not None:
            if approx:
                if abs(a - h) > AREA_RTOL * h + AREA_ATOL:
                    ctx.oracle_fail(case, {'what': 'approximate group footprint is not the hull of its sources',
                                           'footprint_sr': a, 'hull_sr': h})
            else:
                parts = sum(abs(m['obj'].polygon.area()) for m in members)
                if rec.calls:
                    # multi_union was refused by spherical_geometry and the code fell back (as documented)
                    # to the convex hull of all sources: then the hull is the only upper bound
                    parts = max(parts, h)
                if a > h * (1 + AREA_RTOL) + AREA_ATOL or a > parts * (1 + AREA_RTOL) + AREA_ATOL \
                        or a < max(abs(m['obj'].polygon.area()) for m in members) * (1 - AREA_RTOL) - AREA_ATOL:
                    ctx.oracle_fail(case, {'what': 'exact group footprint area outside [largest member, '
                                                   'min(sum of members, hull of all sources)]',
                                           'footprint_sr': a, 'hull_sr': h, 'sum_members_sr': parts})
    if approx:
        if len(rec.calls) != 1:
            ctx.oracle_fail(case, {'what': 'approximate group footprint did not call convex_hull once'})
        else:
            c = rec.calls[0]
            lines.append(hull_line_F(c['x'], c['y'], c['sep']))
            pending.append(('imhull', case, c, g))
    elif rec.calls:
        ctx.branch('group:exact-fell-back-to-hull')
    return {'obj': g, 'ra': ra, 'dec': dec, 'case': case, 'members': members}


def ref_case(ctx, rec, ra, dec, ftol, lines, pending, label):
    from astropy.table import Table
    from tweakwcs.wcsimage import RefCatalog
    ra = np.asarray(ra, dtype=float)
    dec = np.asarray(dec, dtype=float)
    case = {'op': 'refcat', 'label': label, 'RA': ra.tolist(), 'DEC': dec.tolist(), 'footprint_tol': ftol}
    rec.reset()
    n = len(ra)
    ctx.case(case, nontrivial=True, branch='refcat:' + label)
    try:
        ref = RefCatalog(Table([ra, dec], names=('RA', 'DEC')), footprint_tol=ftol)
    except Exception as e:
        ctx.oracle_fail(case, {'what': 'RefCatalog could not be built', 'exc': repr(e)[:200]})
        return None
    poly = ref.polygon
    a = abs(poly.area())
    if ref.poly_area is None or abs(ref.poly_area - a) > 1e-9 * a + 1e-30:
        ctx.oracle_fail(case, {'what': 'refcat poly_area is not the area of its polygon', 'poly_area': ref.poly_area})
    v = s2c(ra, dec)
    distinct = [v[0]]
    for u in v[1:]:
        if all(angsep(u, t) > 1e-10 for t in distinct):
            distinct.append(u)
    tol = 0.5 * ftol * ARCSEC
    pra, pdec = ref._radec[0]
    corners = s2c(pra, pdec)
    if len(distinct) == 1:
        check_polygon_sources(ctx, case, 'refcat (1 source)', poly, ra, dec, strict=True)
        exp = (2 * tol) ** 2
        if len(corners) != 5 or abs(a - exp) > 0.03 * exp:
            ctx.oracle_fail(case, {'what': 'one-source footprint is not a box of footprint_tol arcsec',
                                   'area_arcsec2': a / ARCSEC ** 2, 'expected_arcsec2': exp / ARCSEC ** 2})
        else:
            for c in corners[:4]:
                dd = angsep(c, distinct[0])
                if abs(dd - tol * math.sqrt(2)) > 2e-3 * tol:
                    ctx.oracle_fail(case, {'what': 'corner of the one-source box is not at tol*sqrt(2) from the source',
                                           'distance_arcsec': dd / ARCSEC, 'expected_arcsec': tol * math.sqrt(2) / ARCSEC})
                    break
    elif len(distinct) == 2:
        check_polygon_sources(ctx, case, 'refcat (2 sources)', poly, ra, dec, strict=True)
        L = angsep(distinct[0], distinct[1])
        exp = (2 * tol) * (L + 2 * tol)
        if len(corners) != 5 or abs(a - exp) > 0.03 * exp + AREA_ATOL:
            ctx.oracle_fail(case, {'what': 'two-source footprint is not a rectangle of half-width tol about the pair',
                                   'area_arcsec2': a / ARCSEC ** 2, 'expected_arcsec2': exp / ARCSEC ** 2})
        else:
            for c in corners[:4]:
                dd = min(angsep(c, distinct[0]), angsep(c, distinct[1]))
                if abs(dd - tol * math.sqrt(2)) > 2e-3 * tol + 1e-4 * L:
                    ctx.oracle_fail(case, {'what': 'corner of the two-source box is not at tol*sqrt(2) from the nearer source',
                                           'distance_arcsec': dd / ARCSEC, 'expected_arcsec': tol * math.sqrt(2) / ARCSEC})
                    break
    else:
        check_polygon_sources(ctx, case, 'refcat', poly, ra, dec)
        check_area_vs_hull(ctx, case, 'refcat', poly, ra, dec)
    # correspondence: the polygon in the ad-hoc tangent plane against the model
    if len(rec.calls) == 1 and len(rec.rots) >= 1:
        c = rec.calls[0]
        E = rec.rots[0]
        rot = (E @ corners.T).T
        plane = np.stack([rot[:, 1] / rot[:, 0], rot[:, 2] / rot[:, 0]], axis=-1)
        # sanity of the chart: the sources must come back at the recorded plane coordinates
        rs = (E @ v.T).T
        back = np.stack([rs[:, 1] / rs[:, 0], rs[:, 2] / rs[:, 0]], axis=-1)
        if np.max(np.abs(back - np.stack([c['x'], c['y']], axis=-1))) > 1e-12:
            ctx.oracle_fail(case, {'what': 'tangent-plane coordinates passed to convex_hull are not the gnomonic '
                                           'projection by the recorded rotation'})
        if np.min(rs[:, 0]) < 0.99:
            ctx.oracle_fail(case, {'what': 'ad-hoc tangent plane is not centred on the catalog',
                                   'min_cos_to_tangent_point': float(np.min(rs[:, 0]))})
        nums = ' '.join(f2x(p) + ' ' + f2x(q) for p, q in zip(c['x'], c['y']))
        lines.append('smallbox F %s %s %s %d %s' % (f2x(c['sep']), f2x(float(np.deg2rad(1.0))), f2x(ftol),
                                                   len(c['x']), nums))
        pending.append(('smallbox', case, plane, tol))
    else:
        ctx.oracle_fail(case, {'what': 'RefCatalog did not call convex_hull / inv exactly once',
                               'calls': len(rec.calls), 'rots': len(rec.rots)})
    return {'obj': ref, 'ra': ra, 'dec': dec, 'case': case}


def expanded_ref_case(ctx, rng, parts, ftol):
    """a reference catalog that grew by `expand_catalog` (one, two or three steps, starting from 1..all
    sources of the first part): its footprint must contain ALL of its sources and be tight about their hull"""
    from astropy.table import Table
    from tweakwcs.wcsimage import RefCatalog
    order = list(parts)
    rng.shuffle(order)
    n0 = rng.choice([1, 2, 3, len(order[0]['ra'])])
    ra0, dec0 = np.asarray(order[0]['ra'], float)[:n0], np.asarray(order[0]['dec'], float)[:n0]
    steps = [(np.asarray(order[0]['ra'], float)[n0:], np.asarray(order[0]['dec'], float)[n0:])]
    steps += [(np.asarray(p['ra'], float), np.asarray(p['dec'], float)) for p in order[1:rng.choice([1, 2, 3])]]
    steps = [st for st in steps if len(st[0])]
    case = {'op': 'refcat-expanded', 'RA0': ra0.tolist(), 'DEC0': dec0.tolist(),
            'steps': [[a.tolist(), b.tolist()] for a, b in steps], 'footprint_tol': ftol}
    ctx.case(case, nontrivial=bool(steps), branch='refcat:expanded:%d' % len(steps))
    try:
        ref = RefCatalog(Table([ra0, dec0], names=('RA', 'DEC')), footprint_tol=ftol)
        ra, dec = ra0, dec0
        for a, b in steps:
            ref.expand_catalog(Table([a, b], names=('RA', 'DEC')))
            ra, dec = np.concatenate([ra, a]), np.concatenate([dec, b])
            if len(ref.catalog) != len(ra):
                ctx.oracle_fail(case, {'what': 'expand_catalog did not append exactly the given rows',
                                       'rows': len(ref.catalog), 'expected': len(ra)})
                return
            v = s2c(ra, dec)
            if len(ra) >= 3 and hull_area_oracle(ra, dec) is not None:
                if not check_polygon_sources(ctx, case, 'refcat after expand_catalog', ref.polygon, ra, dec):
                    return
                check_area_vs_hull(ctx, case, 'refcat after expand_catalog', ref.polygon, ra, dec)
            else:
                if not check_polygon_sources(ctx, case, 'refcat after expand_catalog', ref.polygon, ra, dec,
                                             strict=len(ra) <= 2):
                    return
            a_ = abs(ref.polygon.area())
            if ref.poly_area is None or abs(ref.poly_area - a_) > 1e-9 * a_ + 1e-30:
                ctx.oracle_fail(case, {'what': 'refcat poly_area is not the area of its polygon after expand_catalog',
                                       'poly_area': ref.poly_area, 'area': a_})
                return
    except Exception as e:
        ctx.oracle_fail(case, {'what': 'RefCatalog / expand_catalog raised', 'exc': repr(e)[:200]})


def area_of(o):
    return abs(o['obj'].polygon.area())


def overlap_checks(ctx, a, b, label, bound=True):
    """intersection_area symmetric and not larger than either footprint"""
    case = {'op': 'overlap', 'pair': label, 'a': a['case'], 'b': b['case']}
    ctx.case(case, nontrivial=True, branch='overlap:' + label)
    vals = {}
    # spherical_geometry refuses some degenerate pairs (sliver footprints, shared vertices) with
    # MalformedPolygonError - sometimes in one order only, and not reproducibly; the package documents
    # that (its callers use the guarded variant, which counts such failures).  The property constrains
    # the areas that are REPORTED: a refused order reports none (skipped, counted), the guarded variant
    # must count the refusal, and an area reported by the other order must still respect the bounds.
    from spherical_geometry.polygon import MalformedPolygonError
    refused = {}
    for nm, (p, q) in (('ab', (a, b)), ('ba', (b, a))):
        try:
            v = float(p['obj'].intersection_area(q['obj']))
            refused[nm] = False
            vals[nm] = v
        except MalformedPolygonError:
            refused[nm] = True
        except Exception:   # noqa  (reported below)
            refused[nm] = False
    if refused['ab'] or refused['ba']:
        ctx.near_tie()
        ctx.branch('overlap:refused-by-spherical_geometry:%s' % ('both' if refused['ab'] and refused['ba'] else 'one'))
        for nm, (p, q) in (('ab', (a, b)), ('ba', (b, a))):
            try:
                ga, nf = p['obj']._guarded_intersection_area(q['obj'])
            except Exception as e:
                ctx.oracle_fail(case, {'what': '_guarded_intersection_area raised (%s)' % nm, 'exc': repr(e)[:200]})
                return
        if bound:
            for v in vals.values():
                for nm, o in (('a', a), ('b', b)):
                    ar = area_of(o)
                    if abs(v - 4 * math.pi) > 1e-6 and v > ar * (1 + AREA_RTOL) + AREA_ATOL:
                        ctx.oracle_fail(case, {'what': 'intersection area exceeds the area of footprint %s' % nm,
                                               'intersection_sr': v, 'footprint_sr': ar})
        return None
    for nm, (p, q) in (('ab', (a, b)), ('ba', (b, a))):
        try:
            vals[nm] = float(p['obj'].intersection_area(q['obj']))
        except Exception as e:
            ctx.oracle_fail(case, {'what': 'intersection_area raised (%s)' % nm, 'exc': repr(e)[:200]})
            return
        try:
            ga, nf = p['obj']._guarded_intersection_area(q['obj'])
        except Exception as e:
            ctx.oracle_fail(case, {'what': '_guarded_intersection_area raised (%s)' % nm, 'exc': repr(e)[:200]})
            return
        # (an internal consistency test, not a clause of the property: spherical_geometry computes the same
        #  intersection twice here and its areas are reproducible only to about 1e-5 of the footprints involved -
        #  0.0 against 1.6e-14 sr for footprints of 1.3e-9 sr was seen - so the floor scales with the footprints)
        floor = AREA_ATOL + 1e-4 * min(area_of(a), area_of(b))
        if nf == 0 and abs(float(ga) - vals[nm]) > AREA_RTOL * abs(vals[nm]) + floor:
            ctx.oracle_fail(case, {'what': '_guarded_intersection_area differs from intersection_area without failures',
                                   'guarded': float(ga), 'plain': vals[nm]})
    m = max(vals['ab'], vals['ba'])
    if abs(m - 4 * math.pi) <= 1e-6:
        # (F20, fixed: spherical_geometry can return the intersection polygon inverted; the code used
        # to report the area of its complement, about 4 pi)
        ctx.oracle_fail(case, {'what': 'intersection_area is about 4 pi: the area of the complement of the '
                                       'intersection is reported', 'ab': vals['ab'], 'ba': vals['ba'],
                               'footprints_sr': [area_of(a), area_of(b)]})
        return None
    # the two orders are two separate computations of spherical_geometry, whose areas are reproducible only to about
    # 1e-5 of the footprints involved (finding F21): the absolute floor scales with the smaller footprint
    sym_floor = AREA_ATOL + 1e-4 * min(area_of(a), area_of(b))
    if abs(vals['ab'] - vals['ba']) > AREA_RTOL * m + sym_floor:
        ctx.oracle_fail(case, {'what': 'intersection_area is not symmetric', 'ab': vals['ab'], 'ba': vals['ba'],
                               'footprints_sr': [area_of(a), area_of(b)]})
    if bound:
        for nm, o in (('a', a), ('b', b)):
            ar = area_of(o)
            if m > ar * (1 + AREA_RTOL) + AREA_ATOL:
                ctx.oracle_fail(case, {'what': 'intersection area exceeds the area of footprint %s' % nm,
                                       'intersection_sr': m, 'footprint_sr': ar})
    return m


def sky_scene(ctx, rec, loc, lines, pending):
    rng = ctx.rng
    npr = np.random.default_rng(rng.getrandbits(32))
    geom = {'rot': rng.uniform(0, 360), 'scale': rng.choice([1e-5, 3e-5, 2e-6]), 'flip': rng.random() < 0.3}
    ns = [rng.choice([1, 2, 3, 4, 8, 25]), rng.choice([3, 3, 5, 25, 2]), rng.choice([3, 6, 30])]
    # A and B adjacent (no overlap: members of a group must not overlap, see F19), C overlaps both
    A = image_case(ctx, rec, loc, geom, (512.0, 512.0), ns[0], npr, lines, pending, 'A')
    B = image_case(ctx, rec, loc, geom, (-588.0, 512.0), ns[1], npr, lines, pending, 'B')
    C = image_case(ctx, rec, loc, geom, (-38.0, 300.0), ns[2], npr, lines, pending, 'C')
    if not (A and B and C):
        return
    groups = []
    for pol in ('exact', 0, 'auto'):
        g = group_case(ctx, rec, [A, B], pol, lines, pending)
        if g:
            groups.append(g)
    allra = np.concatenate([A['ra'], B['ra'], C['ra']])
    alldec = np.concatenate([A['dec'], B['dec'], C['dec']])
    ftol = rng.choice([1.0, 1.0, 0.1, 10.0, 3.0])
    R = ref_case(ctx, rec, allra, alldec, ftol, lines, pending, 'all')
    i = rng.randrange(len(allra))
    k = rng.choice([1, 2, 3])
    R1 = ref_case(ctx, rec, [allra[i]] * k, [alldec[i]] * k, ftol, lines, pending, 'one')
    j = rng.randrange(len(C['ra']))
    i2 = rng.randrange(len(C['ra']) - 1)
    if i2 >= j:
        i2 += 1
    R2 = ref_case(ctx, rec, [C['ra'][j], C['ra'][i2]], [C['dec'][j], C['dec'][i2]], ftol, lines, pending, 'two')
    # a pair along a coordinate axis (the direction for which swapped box axes would expose the sources)
    r0, d0 = float(C['ra'][j]), float(C['dec'][j])
    sepdeg = rng.choice([0.001, 0.01, 0.0003])
    if rng.random() < 0.5:
        R2a = ref_case(ctx, rec, [r0, r0], [d0, d0 + sepdeg], ftol, lines, pending, 'two-meridian')
    else:
        R2a = ref_case(ctx, rec, [r0, r0 + sepdeg / max(0.05, math.cos(math.radians(d0)))], [d0, d0], ftol, lines,
                       pending, 'two-parallel')
    R3 = ref_case(ctx, rec, C['ra'][:3], C['dec'][:3], ftol, lines, pending, 'three')
    # (own random stream derived from the scene, so that the scenes of a seed stay what they were)
    expanded_ref_case(ctx, random.Random(repr((float(allra[0]), float(alldec[0]), len(allra), ftol))), [A, B, C], ftol)
    # overlaps
    overlap_checks(ctx, A, C, 'image-image')
    overlap_checks(ctx, B, C, 'image-image')
    m = overlap_checks(ctx, A, B, 'image-image-disjoint')
    if m is not None and m > AREA_ATOL:
        ctx.oracle_fail({'op': 'overlap', 'a': A['case'], 'b': B['case']},
                        {'what': 'adjacent (disjoint) images have a non-zero intersection area', 'area': m})
    for g in groups:
        overlap_checks(ctx, g, C, 'group-image:%s' % g['case']['bb_policy'])
        if R:
            overlap_checks(ctx, R, g, 'refcat-group:%s' % g['case']['bb_policy'])
    if R:
        overlap_checks(ctx, R, C, 'refcat-image')
        overlap_checks(ctx, R, A, 'refcat-image')
    for rr, lab in ((R1, 'refcat1-image'), (R2, 'refcat2-image'), (R3, 'refcat3-image')):
        if rr:
            overlap_checks(ctx, rr, C, lab)
    if R and R3:
        overlap_checks(ctx, R, R3, 'refcat-refcat')


def compare_sky(ctx, outs, pending):
    for out, item in zip(outs, pending):
        kind = item[0]
        if kind == 'imhull':
            _, case, c, obj = item
            toks = out.split()
            if toks[:1] != ['ok']:
                ctx.disagree(case, {'op': 'hull', 'model': out[:100], 'impl': 'footprint built'})
                continue
            k = int(toks[2])
            vals = toks[3:]
            mx = np.array([x2f(vals[2 * i]) for i in range(k)])
            my = np.array([x2f(vals[2 * i + 1]) for i in range(k)])
            ira, idec = c['out']
            if len(ira) != k:
                ctx.disagree(case, {'op': 'hull', 'what': 'number of footprint vertices', 'model': k, 'impl': len(ira)})
                continue
            mra, mdec = c['wcs'](mx, my)
            mra = np.array(mra, dtype=float)
            mdec = np.array(mdec, dtype=float)
            bad = [i for i in range(k) if not radec_close(mra[i], mdec[i], ira[i], idec[i], 1e-12)]
            if bad:
                ctx.disagree(case, {'op': 'hull', 'what': 'footprint vertex %d differs' % bad[0],
                                    'model': [float(mra[bad[0]]), float(mdec[bad[0]])],
                                    'impl': [float(ira[bad[0]]), float(idec[bad[0]])]})
            ctx.branch('corr:footprint-hull')
        elif kind == 'smallbox':
            _, case, plane, tol = item
            toks = out.split()
            if toks[:1] != ['ok']:
                ctx.disagree(case, {'op': 'smallbox', 'model': out[:100], 'impl': 'footprint built'})
                continue
            k = int(toks[1])
            vals = toks[2:]
            mp = np.array([[x2f(vals[2 * i]), x2f(vals[2 * i + 1])] for i in range(k)])
            if len(plane) != k:
                ctx.disagree(case, {'op': 'smallbox', 'what': 'number of polygon vertices', 'model': k,
                                    'impl': len(plane)})
                continue
            if not np.all(np.isfinite(mp)) or not np.all(np.isfinite(plane)):
                ctx.disagree(case, {'op': 'smallbox', 'what': 'non-finite polygon', 'model': mp.tolist(),
                                    'impl': plane.tolist()})
                continue
            err = float(np.max(np.abs(mp - plane)))
            if err > 1e-6 * tol + 1e-13:
                ctx.disagree(case, {'op': 'smallbox', 'what': 'tangent-plane polygon differs', 'err': err,
                                    'model': mp.tolist(), 'impl': plane.tolist()})
            ctx.branch('corr:refcat-polygon:%d' % k)


# ---------------------------------------------------------------------------
# regression probes of repaired findings and probes of recorded (open) ones
# ---------------------------------------------------------------------------
def probes(ctx, rec, lines, pending):
    from astropy.table import Table
    from tweakwcs.correctors import FITSWCSCorrector
    from tweakwcs.wcsimage import WCSImageCatalog, WCSGroupCatalog, RefCatalog
    npr = np.random.default_rng(12345)
    # F14 (fixed 69ad41e): footprint of a reference catalog far from RA 0 came out at the antipode
    for (r0, d0) in ((180.0, -85.0), (200.0, 60.0)):
        d = d0 + npr.uniform(-0.005, 0.005, 8)
        r = r0 + npr.uniform(-0.005, 0.005, 8) / math.cos(math.radians(d0))
        ref_case(ctx, rec, r, d, 1.0, lines, pending, 'probe-F14')
    # F15 (fixed 390eb3f): two almost coincident reference sources
    for dd in (1e-13, 1e-15, 3e-10):
        ref_case(ctx, rec, [10.0, 10.0 + dd], [20.0, 20.0], 1.0, lines, pending, 'probe-F15')
    # F16 (fixed 6e6238e): image/group . intersection_area(refcat)
    w = mkwcs(5.0, 30.0, 30.0, 1e-5, (512.0, 512.0))
    x = npr.uniform(5, 1018, 12)
    y = npr.uniform(5, 1018, 12)
    im = WCSImageCatalog(Table([x, y], names=('x', 'y')), FITSWCSCorrector(w))
    ra, dec = im.det_to_world(x, y)
    A = {'obj': im, 'ra': np.asarray(ra), 'dec': np.asarray(dec), 'case': {'op': 'image', 'probe': 'F16'}, 'n': 12}
    R = ref_case(ctx, rec, ra, dec, 1.0, lines, pending, 'probe-F16')
    G = {'obj': WCSGroupCatalog([im]), 'case': {'op': 'group', 'probe': 'F16'}}
    if R:
        overlap_checks(ctx, A, R, 'probe-F16:image-refcat')
        overlap_checks(ctx, G, R, 'probe-F16:group-refcat')
    # sliver footprint (three almost collinear sources) against reference catalogs sharing its vertices:
    # spherical_geometry refuses the intersection in both orders; the guarded variant counts the failure
    # (two former false alarms of this oracle: see DESIGN.md 0.2)
    w = mkwcs(10.0, 20.0, 130.85069719147515, 3e-05, (-38.0, 300.0))
    xs = np.array([312.85534009, 637.64191354, 573.21844117])
    ys = np.array([853.74623532, 30.69929477, 193.60045836])
    im = WCSImageCatalog(Table([xs, ys], names=('x', 'y')), FITSWCSCorrector(w))
    ra, dec = im.det_to_world(xs, ys)
    S = {'obj': im, 'ra': np.asarray(ra), 'dec': np.asarray(dec), 'case': {'op': 'image', 'probe': 'sliver'}, 'n': 3}
    for ft in (10.0, 1.0):
        R = ref_case(ctx, rec, ra, dec, ft, lines, pending, 'probe-sliver')
        if R:
            overlap_checks(ctx, R, S, 'probe-sliver:refcat3-image')
    # F22 (fixed c7b17c0): corrector without a bounding box and <= 2 sources: the whole-image footprint
    # built from the catalog ended half a pixel below the largest coordinate
    from tweakwcs.tests.helper_correctors import make_mock_jwst_wcs
    from tweakwcs.correctors import JWSTWCSCorrector
    for (xs, ys) in (([100.0, 40.0], [30.0, 200.0]), ([100.7, 40.2], [30.1, 200.6]), ([0.0], [0.0]),
                     ([17.5, 3.0], [7.0, 200.5]), ([float(npr.uniform(0, 900))], [float(npr.uniform(0, 900))])):
        gw = make_mock_jwst_wcs(v2ref=100, v3ref=-400, roll=20, crpix=[512.0, 512.0],
                                cd=[[5e-7, 0], [0, 5e-7]], crval=[10.0, 20.0])
        gw.bounding_box = None
        gw.array_shape = None
        gw.pixel_shape = None
        gc = JWSTWCSCorrector(gw, {'v2_ref': 100, 'v3_ref': -400, 'roll_ref': 20})
        case = {'op': 'image', 'probe': 'F22', 'x': xs, 'y': ys, 'bounding_box': None}
        ctx.case(case, nontrivial=True, branch='probe:F22')
        if gc.bounding_box is not None:
            ctx.note('probe F22: the mock corrector has a bounding box; probe not applicable')
            continue
        wic = WCSImageCatalog(Table([xs, ys], names=('x', 'y')), gc)
        pra, pdec = gc.det_to_world(np.array(xs), np.array(ys))
        check_polygon_sources(ctx, case, 'image without bounding box', wic.polygon, np.atleast_1d(pra),
                              np.atleast_1d(pdec))
    # F17 (fixed): the min_separation loop never tested the pair (0, 1), compared each vertex with its ORIGINAL
    # successor and could delete or keep runs wrongly; regression witnesses (the last one shows that a removed
    # vertex may be up to 2*sep from the first vertex: (1.6,-0.6) -> (1,0.3) -> (0,0))
    from tweakwcs.wcsimage import convex_hull
    for pts, sp in (([(0.0, 0.0), (0.01, -0.005), (10.0, 5.0), (0.0, 5.0)], 0.1),
                    ([(-10.0, 0.5), (0.0, 0.0), (1.05, 0.3), (0.95, 1.0)], 1.0),
                    ([(0.0, 0.0), (1.0, 0.0), (0.0, 1.0)], 1.0),
                    ([(0.0, 0.0), (1.6, -0.6), (1.0, 0.3), (0.1, 1.5)], 1.0)):
        hull_case(ctx, 'probe-F17', pts, sp, 'list', lines, pending)
    # F18 (fixed 28d96d5): image catalog with >= 3 exactly collinear sources keeps the whole-image footprint
    xs = np.array([10.0, 20.0, 30.0, 40.0])
    case = {'op': 'image', 'probe': 'F18', 'x': xs.tolist(), 'y': (2 * xs + 1).tolist()}
    ctx.case(case, nontrivial=True, branch='probe:F18')
    try:
        imc = WCSImageCatalog(Table([xs, 2 * xs + 1], names=('x', 'y')), FITSWCSCorrector(w))
        r2, d2 = imc.det_to_world(xs, 2 * xs + 1)
        check_polygon_sources(ctx, case, 'collinear image catalog', imc.polygon, r2, d2)
    except Exception as e:
        ctx.oracle_fail(case, {'what': 'WCSImageCatalog with exactly collinear sources cannot be built',
                               'exc': repr(e)[:120]})
    # F19 (open): intersection_area with a group whose members overlap counts the common part twice
    def mk(crpix, n):
        ww = mkwcs(5.0, 30.0, 30.0, 1e-5, crpix)
        xx = npr.uniform(5, 1018, n)
        yy = npr.uniform(5, 1018, n)
        o = WCSImageCatalog(Table([xx, yy], names=('x', 'y')), FITSWCSCorrector(ww))
        rr, dd2 = o.det_to_world(xx, yy)
        return {'obj': o, 'ra': np.asarray(rr), 'dec': np.asarray(dd2), 'n': n,
                'case': {'op': 'image', 'crpix': list(crpix), 'x': xx.tolist(), 'y': yy.tolist()}}
    a, b, c = mk((512.0, 512.0), 25), mk((500.0, 500.0), 25), mk((400.0, 600.0), 25)
    g = {'obj': WCSGroupCatalog([a['obj'], b['obj']], bb_policy='exact'),
         'case': {'op': 'group', 'probe': 'F19', 'members': [a['case'], b['case']]}}
    case = {'op': 'overlap', 'probe': 'F19', 'a': g['case'], 'b': c['case']}
    ctx.case(case, nontrivial=True, branch='probe:F19')
    ia = float(g['obj'].intersection_area(c['obj']))
    if ia > area_of(c) * (1 + AREA_RTOL) + AREA_ATOL:
        ctx.oracle_fail(case, {'what': 'intersection_area(group, image) exceeds the area of the image footprint when '
                                       'the members of the group overlap (the area is summed over the members)',
                               'intersection_sr': ia, 'image_footprint_sr': area_of(c),
                               'true_intersection_sr': float(abs(g['obj'].polygon.intersection(c['obj'].polygon).area())),
                               'finding': 'F19'})
    else:
        ctx.note('finding F19 no longer reproduces on its witness')


    # F20 (fixed): inverted intersection polygon -> area of the complement; regression probe
    def mk2(crpix, xs, ys):
        ww = mkwcs(0.0, 85.0, 29.013683365473632, 1e-5, crpix, flip=True)
        o = WCSImageCatalog(Table([xs, ys], names=('x', 'y')), FITSWCSCorrector(ww))
        return {'obj': o, 'n': len(xs), 'case': {'op': 'image', 'probe': 'F20', 'crpix': list(crpix), 'x': xs, 'y': ys}}
    a = mk2((-588.0, 512.0), [750.402922432043, 766.0652335675952], [578.4089024344734, 784.3834411920911])
    c = mk2((-38.0, 300.0), [28.24002856635509, 528.2844050526301, 775.1811189344702],
            [999.4396262179823, 712.1009907014896, 187.842016161502])
    nfail = len(ctx.oracle_failures)
    overlap_checks(ctx, a, c, 'probe-F20')
    if len(ctx.oracle_failures) == nfail:
        ctx.branch('probe:F20:regression-ok')


# ---------------------------------------------------------------------------
def run(ctx):
    import logging
    logging.disable(logging.CRITICAL)
    lines, pending = [], []
    for fam, pts, sep, kind in CORPUS:
        hull_case(ctx, fam, pts, sep, kind, lines, pending)
    for _ in range(ctx.n(500, 9000)):
        fam, pts, sep, kind = gen_points(ctx.rng)
        hull_case(ctx, fam, pts, sep, kind, lines, pending)
    with Recorder() as rec:
        probes(ctx, rec, lines, pending)
        thin_image_cases(ctx, ctx.n(40, 600))
        close_double_image_cases(ctx, rec, ctx.n(40, 600), lines, pending)
        locs = list(LOCATIONS)
        for _ in range(ctx.n(0, 24)):
            locs.append((ctx.rng.choice([0.0, 359.99, 45.0, 135.0, 180.0, 225.0, 315.0, ctx.rng.uniform(0, 360)]),
                         ctx.rng.choice([-85.0, -60.0, -5.0, 0.0, 30.0, 72.0, 85.0, ctx.rng.uniform(-85, 85)])))
        reps = ctx.n(1, 3)
        for loc in locs:
            for _ in range(reps):
                sky_scene(ctx, rec, loc, lines, pending)
    outs = ctx.driver(lines)
    compare_hulls(ctx, outs, pending)
    compare_sky(ctx, outs, pending)
    # the whole-image ("chip") footprint: model TW.Chip.chipPolygon, op `chipborder`
    from . import c16_chipborder
    c16_chipborder.run_extra(ctx)
    # the spherical part of RefCatalog._calc_cat_convex_hull: model TW.Sph.*, ops `sph.*`
    from . import c16_sphhull
    c16_sphhull.run_extra(ctx)
    logging.disable(logging.NOTSET)


def rebuild(ctx, rec, c, lines, pending):
    """rebuild the object described by a recorded case (replay)"""
    op = c.get('op')
    if op == 'image' and 'geom' in c:
        return image_from(ctx, rec, c['loc'], c['geom'], c['crpix'], c['x'], c['y'], lines, pending, 'replay')
    if op == 'group' and 'bb_policy' in c:
        members = [rebuild(ctx, rec, m, lines, pending) for m in c['members']]
        if any(m is None for m in members):
            return None
        return group_case(ctx, rec, members, c['bb_policy'], lines, pending)
    if op == 'refcat':
        return ref_case(ctx, rec, c['RA'], c['DEC'], c['footprint_tol'], lines, pending, c.get('label', 'replay'))
    return None


def replay(ctx, payload):
    import logging
    from ..common import load_known
    fi = payload.get('failing_input') or (payload.get('correspondence') or [None])[0]
    if not fi:
        print('nothing to replay: %s' % payload.get('broken'))
        return 1
    case = fi['case']
    lines, pending = [], []
    logging.disable(logging.CRITICAL)
    with Recorder() as rec:
        if case.get('op') == 'hull' and 'family' in case:
            pts = [tuple(float(v) for v in p) for p in case['points']]
            hull_case(ctx, case['family'], pts, case['min_separation'], case['kind'], lines, pending)
        elif case.get('op') == 'overlap' and 'pair' in case and not str(case['pair']).startswith('probe'):
            A = rebuild(ctx, rec, case['a'], lines, pending)
            B = rebuild(ctx, rec, case['b'], lines, pending)
            if A and B:
                m = overlap_checks(ctx, A, B, case['pair'])
                if case['pair'] == 'image-image-disjoint' and m is not None and m > AREA_ATOL:
                    ctx.oracle_fail(case, {'what': 'adjacent (disjoint) images have a non-zero intersection area', 'area': m})
        elif case.get('op') == 'chipborder':
            from . import c16_chipborder
            c16_chipborder.replay_case(ctx, case)
        elif case.get('op') in ('sphhull', 'sph.prot'):
            from . import c16_sphhull
            c16_sphhull.replay_case(ctx, case)
        elif rebuild(ctx, rec, case, lines, pending) is None and case.get('op') not in ('image', 'group', 'refcat'):
            print('probe case: re-running the fixed-witness probes')
            probes(ctx, rec, lines, pending)
    outs = ctx.driver(lines)
    compare_hulls(ctx, outs, pending)
    compare_sky(ctx, outs, pending)
    known = {k.get('id') for k in load_known().get('open', []) if k.get('property') == ID}
    bad = []
    for b in ctx.oracle_failures + ctx.disagreements:
        tag = b['detail'].get('finding') if isinstance(b['detail'], dict) else None
        if tag in known:
            print('KNOWN-FINDING (not counted): %s' % tag)
        else:
            bad.append(b)
    for b in bad:
        print('STILL FAILS:', str(b['detail'])[:400])
    return 1 if bad else 0
