"""
C18 -- correcting a FITS WCS changes only CRVAL and the linear matrix.

Oracle: attribute-by-attribute snapshot of real astropy.wcs.WCS objects before / after corrections
(crpix, ctype, cdelt, cunit, lonpole/latpole, sip a/b/ap/bp and crpix, cpdis / det2im presence,
pixel_shape / pixel_bounds / array_shape, CD-versus-PC representation); header round trip of the
corrected WCS; CD and PC+CDELT twins give identical corrected sky mappings; non-celestial / missing
WCS is rejected with ValueError at construction.
Correspondence: the Lean FCorr model (op fcorr) run on the CD and on the PC description must give the
same chart positions, and the implementation's new CRVAL / matrix must be the model's.
"""
import numpy as np
from astropy import wcs as fitswcs

from .. import scenes, corrsim
from . import c02

ID = 'C18'
RULE = ('celestial TAN WCS in CD or PC form or with SIP x pointing/orientation/scale x 1..3 corrections (own / '
        'reference plane); non-trivial = every case (a correction is always applied); distinct = scenario parameters')
ASSUMPTIONS = [
    'header serialisation (to_header / WCS(header)) is astropy code: compared, not modelled',
    'the model record has only crval, the linear matrix, cdelt, the CD/PC flag and crpix; the other attributes are '
    'outside the model because the code never writes them, which is what the snapshots check',
]


def lut_bytes(t):
    """content of a distortion look-up table (None when absent)"""
    if t is None:
        return None
    return (np.asarray(t.data).tobytes(), tuple(np.asarray(t.crpix).tolist()), tuple(np.asarray(t.crval).tolist()),
            tuple(np.asarray(t.cdelt).tolist()))


def snap(w):
    d = {
        'crpix': w.wcs.crpix.copy(), 'ctype': list(w.wcs.ctype), 'cdelt': w.wcs.get_cdelt().copy() if w.wcs.has_cd() else w.wcs.cdelt.copy(),
        'cunit': [str(u) for u in w.wcs.cunit], 'lonpole': float(w.wcs.lonpole),   # (latpole defaults to CRVAL2 for zenithal projections: derived)
        'has_cd': bool(w.wcs.has_cd()), 'has_pc': bool(w.wcs.has_pc()),
        'pixel_shape': None if w.pixel_shape is None else tuple(w.pixel_shape),
        'pixel_bounds': None if w.pixel_bounds is None else tuple(map(tuple, w.pixel_bounds)),
        'array_shape': None if w.array_shape is None else tuple(w.array_shape),
        'cpdis': tuple(lut_bytes(t) for t in (w.cpdis1, w.cpdis2)),
        'det2im': tuple(lut_bytes(t) for t in (w.det2im1, w.det2im2)),
        'naxis': w.naxis, 'radesys': str(w.wcs.radesys), 'equinox': float(w.wcs.equinox) if np.isfinite(w.wcs.equinox) else None,
    }
    if w.sip is not None:
        d['sip'] = tuple(None if a is None else a.tobytes() for a in (w.sip.a, w.sip.b, w.sip.ap, w.sip.bp)) + \
            (w.sip.crpix.tobytes(),)
    else:
        d['sip'] = None
    return d


def same(a, b):
    if isinstance(a, np.ndarray):
        return np.array_equal(a, b)
    return a == b


def twin_pc(c, ratio=1.0):
    """the same WCS described through PC + CDELT instead of CD"""
    from tweakwcs.correctors import FITSWCSCorrector
    w = c.wcs
    cd = w.wcs.cd.copy()
    # CDELT1 != CDELT2, usual sign convention, arbitrary ratio: CD = diag(cdelt) . PC
    sc = np.sqrt(abs(np.linalg.det(cd)))
    cdelt = np.array([-sc * ratio, sc / ratio])
    # CD = diag(cdelt) . PC
    pc = np.dot(np.diag(1.0 / cdelt), cd)
    w2 = fitswcs.WCS(naxis=2)
    w2.wcs.pc = pc
    w2.wcs.cdelt = cdelt
    w2.wcs.crval = w.wcs.crval.copy()
    w2.wcs.crpix = w.wcs.crpix.copy()
    w2.wcs.ctype = list(w.wcs.ctype)
    w2.pixel_shape = w.pixel_shape
    if w.pixel_bounds is not None:
        w2.pixel_bounds = w.pixel_bounds
    w2.wcs.set()
    return FITSWCSCorrector(w2)


def run(ctx):
    rng = ctx.rng
    from tweakwcs.correctors import FITSWCSCorrector
    # rejection of unsupported structures (every kind on every run)
    def reject_case(kind, build):
        case = {'reject': kind}
        ctx.case(case, nontrivial=True, branch='reject:' + kind)
        try:
            FITSWCSCorrector(build())
            ctx.oracle_fail(case, {'what': 'unsupported WCS structure accepted at construction'})
        except ValueError:
            pass
        except Exception as e:
            ctx.oracle_fail(case, {'what': 'unsupported WCS structure raised %s instead of ValueError'
                                           % type(e).__name__, 'msg': str(e)[:200]})

    def nc2d(ctype, crval, cdelt):
        def b():
            w = fitswcs.WCS(naxis=2)
            w.wcs.ctype = ctype
            w.wcs.crpix = [rng.uniform(10, 90), rng.uniform(10, 90)]
            w.wcs.crval = crval
            w.wcs.cdelt = cdelt
            w.pixel_shape = (100, 100)
            w.wcs.set()
            return w
        return b

    def cube():
        w = fitswcs.WCS(naxis=3)
        w.wcs.ctype = ['RA---TAN', 'DEC--TAN', rng.choice(['WAVE', 'FREQ'])]
        w.wcs.crpix = [50.0, 50.0, 1.0]
        w.wcs.crval = [rng.uniform(0, 360), rng.uniform(-80, 80), 1.0]
        w.wcs.cdelt = [-1e-4, 1e-4, 1.0]
        w.pixel_shape = (100, 100, 10)
        w.wcs.set()
        return w

    reject_case('none', lambda: None)
    reject_case('longslit-WAVE-OFFSET', nc2d(['WAVE', 'OFFSET'], [5e-7, 0.0], [1.5e-10, 0.1]))
    reject_case('blank-ctype', nc2d(['', ''], [0.0, 0.0], [1.0, 1.0]))
    reject_case('WAVE-TIME', nc2d(['WAVE', 'TIME'], [1.0, 0.0], [1.0, 1.0]))
    reject_case('one-celestial-axis', nc2d(['RA---TAN', 'WAVE'], [10.0, 1.0], [1e-4, 1.0]))
    reject_case('cube-RA-DEC-spectral', cube)
    lines, pend = [], []
    for _ in range(ctx.n(60, 1500)):
        c0, info = scenes.mk_fits(rng)
        w_in, w_pristine = scenes.LAST_FITS_INPUT
        hist = []
        for _k in range(rng.randint(1, 3)):
            if rng.random() < 0.7:
                hist.append(('S', c02.gen_corr(rng, 1.0, big=rng.random() < 0.5)))
            else:
                ref, _ = c02.gen_ref(rng, c0, info)
                runit = ref.tanp_center_pixel_scale if scenes.is_jwst(ref) else 1.0
                hist.append(('R', c02.gen_corr(rng, runit, big=rng.random() < 0.3), ref))
        case = {'kind': info['kind'], 'info': info, 'history': [h[0] for h in hist],
                'corrs': [[h[1].M.tolist(), h[1].t.tolist()] for h in hist]}
        ctx.case(case, nontrivial=True, branch='frame:' + info['kind'] + (':' + info['lut'] if 'lut' in info else ''))
        before = snap(c0.wcs)
        # the construction of the corrector: the WCS it works on is the WCS it was given (all distortions, every
        # attribute), and the caller's object is untouched
        p0 = snap(w_pristine)
        p0['crval'] = w_pristine.wcs.crval.copy()
        for label, ww in (('the WCS of the new corrector', c0.wcs), ("the caller's WCS object", w_in),
                          ("the corrector's original_wcs", c0.original_wcs)):
            s1 = snap(ww)
            s1['crval'] = ww.wcs.crval.copy()
            for k in p0:
                if not (same(p0[k], s1[k]) if not isinstance(p0[k], (list, tuple)) else p0[k] == s1[k]):
                    ctx.oracle_fail(case, {'what': 'constructing the corrector changed %s' % label, 'attribute': k,
                                           'before': repr(p0[k])[:200], 'after': repr(s1[k])[:200]})
        crval0 = c0.wcs.wcs.crval.copy()
        c, _ = corrsim.apply_real(c0, hist)
        after = snap(c.wcs)
        for k in before:
            if not (same(before[k], after[k]) if not isinstance(before[k], (list, tuple)) else before[k] == after[k]):
                ctx.oracle_fail(case, {'what': 'attribute changed by set_correction', 'attribute': k,
                                       'before': repr(before[k])[:200], 'after': repr(after[k])[:200]})
        if np.array_equal(crval0, c.wcs.wcs.crval) and any(np.hypot(*h[1].t) > 1e-3 for h in hist):
            ctx.oracle_fail(case, {'what': 'CRVAL did not change although a shift was applied'})
        # header round trip
        px, py = scenes.probe_pixels(rng, c0, 6)
        if info['kind'] == 'lut':
            # look-up tables live in image extensions: the round trip goes through an HDU list
            hl = c.wcs.to_fits(relax=True)
            w2 = fitswcs.WCS(hl[0].header, fobj=hl)
        else:
            hdr = c.wcs.to_header(relax=True)
            w2 = fitswcs.WCS(hdr)
        a = np.array(c.wcs.all_pix2world(px, py, 0))
        b = np.array(w2.all_pix2world(px, py, 0))
        dra = (a[0] - b[0] + 180.0) % 360.0 - 180.0
        err = float(np.max(np.hypot(dra * np.cos(np.deg2rad(a[1])), a[1] - b[1])))
        if err > 1e-9:
            ctx.oracle_fail(case, {'what': 'corrected WCS does not survive a header round trip', 'err_deg': err})
        # CD / PC twins
        if info['kind'] == 'cd':
            ctx.branch('twins')
            t0 = twin_pc(c0, ratio=rng.choice([1.0, 0.5, 2.0, 1.3]))
            t, _ = corrsim.apply_real(t0, hist)
            if t.wcs.wcs.has_cd() or not c.wcs.wcs.has_cd():
                ctx.oracle_fail(case, {'what': 'CD-versus-PC representation not preserved'})
            if not np.array_equal(t.wcs.wcs.cdelt, t0.wcs.wcs.cdelt):
                ctx.oracle_fail(case, {'what': 'CDELT changed for the PC twin'})
            a = np.array(c0.world_to_tanp(*c.det_to_world(px, py)), dtype=float)
            b = np.array(c0.world_to_tanp(*t.det_to_world(px, py)), dtype=float)
            e = float(np.max(np.hypot(*(a - b))))
            rho = corrsim.field_radius_units(c0)
            if e > c02.fits_base(c0, rho) * (1 + len(hist)):
                ctx.oracle_fail(case, {'what': 'CD and PC+CDELT twins give different corrected sky mappings',
                                       'err_px': e})
            if not getattr(ctx, 'search_only', False):
                sim1 = corrsim.Sim(c0, px, py)
                sim2 = corrsim.Sim(t0, px, py)
                l1, _c1 = sim1.line(hist)
                l2, _c2 = sim2.line(hist)
                lines += [l1, l2]
                pend.append((case, sim1, sim2, c, t))
    outs = ctx.driver(lines)
    for k, (case, sim1, sim2, c, t) in enumerate(pend):
        r1 = sim1.parse(outs[2 * k])
        r2 = sim2.parse(outs[2 * k + 1])
        if r1 is None or r2 is None:
            ctx.disagree(case, {'op': 'fcorr', 'model': outs[2 * k][:80]})
            continue
        d = float(np.max(np.hypot(*(r1['sky_chart'] - r2['sky_chart']))))
        if d > 1e-7:
            ctx.disagree(case, {'op': 'fcorr', 'what': 'model twins differ', 'diff': d})
        if r1['pc_form'] or not r2['pc_form']:
            ctx.disagree(case, {'op': 'fcorr', 'what': 'model changed the CD/PC flag'})
        # implementation's new crval in the chart vs the model's
        for sim, cc, r in ((sim1, c, r1), (sim2, t, r2)):
            o = np.array(sim.c0.world_to_tanp(*cc.wcs.wcs.crval), dtype=float)
            rho = corrsim.field_radius_units(sim.c0)
            unit_rad = corrsim.plane_unit_rad(sim.c0)
            tot = sum(corrsim.corr_size_units(h[1], rho) for h in [])  # bound below uses the motion itself
            move = float(np.hypot(*(o - (np.array(sim.c0.wcs.wcs.crpix) - 1.0))))
            bound = (c02.fits_base(sim.c0, rho) + c02.fits_second_order(move, rho, unit_rad) +
                     c02.first_order(move, 0.02, rho, unit_rad)) * (1 + len(case['history']))
            e = float(np.hypot(*(o - np.array(r['crval']))))
            if e > bound:
                ctx.disagree(case, {'op': 'fcorr', 'what': 'new CRVAL differs from the model', 'err': e,
                                    'bound': bound})


REPLAY_BY_RERUN = True
