"""
C16 (part) -- the whole-image ("chip") footprint of an image catalog:
`WCSImageCatalog._calc_chip_bounding_polygon`, the footprint of catalogs with fewer than three (or only
collinear) sources.

Correspondence (model `TW.Chip.chipPolygon`, Model/ChipBorder.lean, op `chipborder`)
  The pixel border that the REAL method hands to `det_to_world` is captured by replacing the bound method
  `det_to_world` of the WCSImageCatalog instance by a recorder (which forwards to the original), for
    * FITS correctors with a bounding box from `pixel_shape` (1x1, 2x1, 1x2, non-square, large) or from
      `pixel_bounds` (integers and non-integers),
    * FITS correctors WITHOUT bounding box (`pixel_shape = None; pixel_bounds = None` after construction),
    * mock JWST (gWCS) correctors with a bounding box (several sizes) and without,
  catalogs of 0..5 sources (integer, half-integer `k + 0.5` -- the boundary of the `floor` --, zero, large,
  dyadic, random, and negative coordinates; with a bounding box: anywhere in the closed box, INCLUDING the outer
  half-pixel band, exactly on the edges of the box and of the box shrunk by half a pixel, and -- rarely --
  outside the box), `stepsize` None / several values / 0 / negative, through
  `calc_bounding_polygon()` and through `_calc_chip_bounding_polygon(stepsize=...)` directly.  The border is
  compared with the model BIT FOR BIT in mode F (IEEE doubles, the same operations in the same order,
  `numpy.linspace` included); for dyadic inputs the model is also run on exact rationals (mode Q): the
  rectangle must agree exactly, the border to rounding.  Exceptions (empty catalog without bounding box,
  `stepsize == 0`) against the model's errors.

Oracle (independent of the model; exact `fractions.Fraction` arithmetic on the recorded doubles)
  * no bounding box: the rectangle starts at the pixel edge -1/2, its upper edges are half-integers, every
    catalog source with coordinates >= -1/2 is strictly below the upper edges (`x < hx`, `y < hy`) and the
    rectangle does not extend more than one pixel beyond the largest coordinate;
  * bounding box: every source of the catalog that lies in the closed bounding box lies in the rectangle (checked
    strictly, exact arithmetic), no side is more than half a pixel inside the box, the rectangle stays inside the
    closed box (boxes at least one pixel wide), and it is the tightest such rectangle: the box shrunk by exactly
    half a pixel on every side, enlarged just enough to hold the sources clipped to the box (so for catalogs
    whose sources keep half a pixel from the edges, and for empty ones, it is the shrunk box);
  * the border is closed, has `2(nx+1) + 2(ny-1) + 1` points, walks bottom -> right -> top -> left, every point
    lies on the boundary of the rectangle, the four corners occur in this order, consecutive points are
    distinct when the rectangle is non-degenerate, the shoelace sum is exactly `+2 (hx-lx)(hy-ly)`
    (counter-clockwise), the sampling is uniform, `nx = ny = 3` without `stepsize`, and with a `stepsize > 0`
    no interval is longer than `stepsize` while one interval fewer (if more than two) would be;
  * the spherical footprint `im.polygon` contains the sources of the catalog that lie in the rectangle -- with a
    bounding box: all sources in the closed bounding box.

`band_probe` is the regression probe of the repaired finding F25 (a source at x = 1023.3 in a 1024-pixel image used
to be outside its own footprint: the box was shrunk by half a pixel whatever the catalog).
"""
import math

import numpy as np

from ..common import Fraction, q2s, f2x, x2f, s2q, to_fraction

HALF = Fraction(1, 2)
SKY_MIN_SIDE = 1.5e-7     # rad: narrowest footprint for which spherical containment is tested


# ---------------------------------------------------------------------------
# building the real objects
# ---------------------------------------------------------------------------
def build_corrector(spec):
    kind = spec['kind']
    if kind.startswith('fits'):
        from tweakwcs.correctors import FITSWCSCorrector
        from . import c16 as base
        shape = spec.get('shape') or [64, 64]
        w = base.mkwcs(spec['loc'][0], spec['loc'][1], spec['rot'], spec['scale'], spec['crpix'],
                       nx=int(shape[0]), ny=int(shape[1]), flip=spec.get('flip', False))
        corr = FITSWCSCorrector(w)
        if kind == 'fits-bounds':
            corr._owcs.pixel_bounds = [tuple(spec['bounds'][0]), tuple(spec['bounds'][1])]
        elif kind == 'fits-nobb':
            corr._owcs.pixel_bounds = None
            corr._owcs.pixel_shape = None
        return corr
    from tweakwcs.tests.helper_correctors import make_mock_jwst_wcs
    from tweakwcs.correctors import JWSTWCSCorrector
    gw = make_mock_jwst_wcs(v2ref=100, v3ref=-400, roll=spec['rot'], crpix=list(spec['crpix']),
                            cd=[[spec['scale'], 0], [0, spec['scale']]], crval=[spec['loc'][0], spec['loc'][1]])
    if kind == 'jwst-nobb':
        gw.bounding_box = None
        gw.array_shape = None
        gw.pixel_shape = None
    elif spec.get('bounds'):
        gw.bounding_box = (tuple(spec['bounds'][0]), tuple(spec['bounds'][1]))
    return JWSTWCSCorrector(gw, {'v2_ref': 100, 'v3_ref': -400, 'roll_ref': spec['rot']})


def run_real(spec):
    """the border handed to det_to_world by the real method; {'status': 'ok', ...} or {'status': 'exc', ...}"""
    from astropy.table import Table
    from tweakwcs.wcsimage import WCSImageCatalog
    corr = build_corrector(spec)
    bb = corr.bounding_box
    res = {'bbox': None if bb is None else [[float(bb[0][0]), float(bb[0][1])], [float(bb[1][0]), float(bb[1][1])]]}
    x = np.array(spec['x'], dtype=float)
    y = np.array(spec['y'], dtype=float)
    try:
        im = WCSImageCatalog(Table([x, y], names=('x', 'y')), corr)
    except Exception as e:
        res.update(status='exc', stage='ctor', exc=type(e).__name__)
        return res
    calls = []
    orig = im.det_to_world

    def recorder(px, py):
        calls.append(([float(v) for v in px], [float(v) for v in py]))
        return orig(px, py)

    im.det_to_world = recorder
    try:
        if spec['via'] == 'calc':
            im.calc_bounding_polygon()
        else:
            im._calc_chip_bounding_polygon(stepsize=spec['stepsize'])
    except Exception as e:
        res.update(status='exc', stage='call', exc=type(e).__name__)
        return res
    finally:
        del im.det_to_world
    if not calls:
        res.update(status='exc', stage='call', exc='det_to_world was not called')
        return res
    res.update(status='ok', bx=calls[0][0], by=calls[0][1], im=im, ncalls=len(calls))
    return res


# ---------------------------------------------------------------------------
# the oracle
# ---------------------------------------------------------------------------
def expected_rect(spec, res):
    """the rectangle by the specification, exact: (lx, hx, ly, hy) as Fractions"""
    if res['bbox'] is None:
        out = []
        for col in (spec['x'], spec['y']):
            m = max(to_fraction(v) for v in col)
            k = math.floor(m + HALF)                 # index of the pixel that contains the largest coordinate
            out += [-HALF, Fraction(max(1, k + 1)) - HALF]
        return tuple(out)
    # bounding box: the box shrunk by half a pixel (the edges are doubles: `lo + 0.5` rounded), enlarged just enough
    # to hold every source clipped to the box
    out = []
    for (lo, hi), col in zip(res['bbox'], (spec['x'], spec['y'])):
        lo, hi = to_fraction(lo), to_fraction(hi)
        col = [to_fraction(v) for v in col]
        out += [min([to_fraction(float(lo + HALF))] + [max(v, lo) for v in col]),
                max([to_fraction(float(hi - HALF))] + [min(v, hi) for v in col])]
    return tuple(out)


def in_box(res, a, b):
    """the source (a, b) lies in the closed bounding box"""
    (blx, bhx), (bly, bhy) = res['bbox']
    return to_fraction(blx) <= to_fraction(a) <= to_fraction(bhx) and to_fraction(bly) <= to_fraction(b) <= to_fraction(bhy)


def oracle(ctx, case, spec, res):
    """property-level checks on the recorded border; returns the list of failure texts (also reported)"""
    bad = []
    bx = [to_fraction(v) for v in res['bx']]
    by = [to_fraction(v) for v in res['by']]
    n = len(bx)
    if len(by) != n or n < 5:
        bad.append('border x and y lists differ in length or are too short (%d, %d)' % (n, len(by)))
        return report(ctx, case, bad, res)
    P = list(zip(bx, by))
    # ---- the rectangle ------------------------------------------------------
    if res['bbox'] is None:
        # read off the border: first point and the largest coordinates
        lx, hx, ly, hy = P[0][0], max(bx), P[0][1], max(by)
        if (lx, ly) != (-HALF, -HALF):
            bad.append('footprint of a corrector without bounding box does not start at the pixel edge (-0.5, -0.5)')
        for nm, col, h in (('x', spec['x'], hx), ('y', spec['y'], hy)):
            if (h + HALF).denominator != 1 or h < HALF:
                bad.append('upper %s edge %r of the footprint is not the edge of a pixel' % (nm, float(h)))
            for v in col:
                v = to_fraction(v)
                if v >= -HALF and not v < h:
                    bad.append('source %s=%r is not strictly below the upper edge %s of the footprint rectangle'
                               % (nm, float(v), float(h)))
            m = max(to_fraction(v) for v in col)
            # (the code rounds `max + 0.5` to a double before the floor: one unit in the last place of slack)
            if h > max(HALF, m + 1) + Fraction(1, 10 ** 12) * max(1, abs(m)):
                bad.append('rectangle extends more than one pixel beyond the largest %s (upper edge %r, largest %r)'
                           % (nm, float(h), float(m)))
        if bad:
            return report(ctx, case, bad, res)
    else:
        lx, hx, ly, hy = (to_fraction(float(v)) for v in expected_rect(spec, res))
        got = (P[0][0], max(bx) if lx <= hx else min(bx), P[0][1], max(by) if ly <= hy else min(by))
        (blx, bhx), (bly, bhy) = [[to_fraction(v) for v in ax] for ax in res['bbox']]
        # the property: every source in the closed bounding box is in the rectangle (strictly: exact comparison)
        for a, b in zip(spec['x'], spec['y']):
            if in_box(res, a, b) and not (got[0] <= to_fraction(a) <= got[1] and got[2] <= to_fraction(b) <= got[3]):
                bad.append('source (%r, %r) inside the bounding box %s is outside the footprint rectangle %s'
                           % (a, b, res['bbox'], [float(v) for v in got]))
                break
        # no side more than half a pixel inside the box; inside the closed box when the box is a pixel wide
        for nm, lo, hi, g0, g1 in (('x', blx, bhx, got[0], got[1]), ('y', bly, bhy, got[2], got[3])):
            slack = Fraction(1, 10 ** 12) * max(1, abs(lo), abs(hi))
            if g0 > lo + HALF + slack or g1 < hi - HALF - slack:
                bad.append('%s extent [%r, %r] of the footprint rectangle is more than half a pixel inside the '
                           'bounding box [%r, %r]' % (nm, float(g0), float(g1), float(lo), float(hi)))
            if hi - lo >= 1 and (g0 < lo or g1 > hi):
                bad.append('%s extent [%r, %r] of the footprint rectangle leaves the bounding box [%r, %r]'
                           % (nm, float(g0), float(g1), float(lo), float(hi)))
        if not bad and got != (lx, hx, ly, hy):
            bad.append('footprint rectangle is %s, expected the bounding box shrunk by half a pixel and enlarged '
                       'just to the sources inside the box: %s'
                       % ([float(v) for v in got], [float(v) for v in (lx, hx, ly, hy)]))
        if bad:
            return report(ctx, case, bad, res)
    # ---- closed, on the boundary, inside the extent ---------------------------
    if P[0] != P[-1]:
        bad.append('border is not closed')
    for k, (px, py) in enumerate(P):
        if not (px in (lx, hx) or py in (ly, hy)):
            bad.append('border point %d (%r, %r) is not on the boundary of the rectangle' % (k, float(px), float(py)))
            break
        if not (min(lx, hx) <= px <= max(lx, hx) and min(ly, hy) <= py <= max(ly, hy)):
            bad.append('border point %d (%r, %r) is outside the rectangle' % (k, float(px), float(py)))
            break
    # ---- the walk: bottom -> right -> top -> left -> closing point -------------
    nondeg = lx < hx and ly < hy
    if nondeg and not (hx - lx > Fraction(1, 10 ** 9) * max(1, abs(lx), abs(hx)) and
                       hy - ly > Fraction(1, 10 ** 9) * max(1, abs(ly), abs(hy))):
        # a rectangle a few units in the last place wide (a source one ulp beside the only pixel centre of a
        # one-pixel box): the samples of numpy.linspace cannot be told apart in doubles; the clauses about distinct,
        # strictly monotone samples are statements over the reals -- counted, judged like a degenerate rectangle
        ctx.near_tie()
        ctx.branch('chip:near-degenerate-rectangle')
        nondeg = False
    ss = spec['stepsize'] if spec['via'] == 'direct' else None
    if not nondeg:
        # degenerate (1-pixel-wide box) or inverted rectangle: only the count without stepsize
        if ss is None and n != 13:
            bad.append('without stepsize the border has %d points, not 13' % n)
        nptx = None
    else:
        # number of points on the bottom edge: from the start until the corner (hx, ly) is reached
        nptx = None
        for k in range(n):
            if P[k] == (hx, ly):
                nptx = k + 1
                break
        if nptx is None or nptx < 3:
            bad.append('bottom edge does not reach the corner (hx, ly) after at least two intervals')
            return report(ctx, case, bad, res)
    if nptx is not None:
        npty = (n - 1 - 2 * nptx) // 2
        if npty < 1 or 2 * nptx + 2 * npty + 1 != n:
            bad.append('number of border points %d is not 2(nx+1) + 2(ny-1) + 1' % n)
            return report(ctx, case, bad, res)
        nx, ny = nptx - 1, npty + 1
        bottom, right = P[:nptx], P[nptx:nptx + npty]
        top, left = P[nptx + npty:2 * nptx + npty], P[2 * nptx + npty:2 * nptx + 2 * npty]
        ok = all(q[1] == ly for q in bottom) and all(q[0] == hx for q in right) and \
            all(q[1] == hy for q in top) and all(q[0] == lx for q in left)
        if not ok:
            bad.append('border does not walk bottom -> right -> top -> left')
        mono = all(bottom[i][0] < bottom[i + 1][0] for i in range(nptx - 1)) and \
            all(top[i][0] > top[i + 1][0] for i in range(nptx - 1)) and \
            all(right[i][1] < right[i + 1][1] for i in range(npty - 1)) and \
            all(left[i][1] > left[i + 1][1] for i in range(npty - 1)) and \
            all(ly < q[1] < hy for q in right + left)
        if not mono:
            bad.append('an edge of the border is not walked monotonically (bottom/right increasing, top/left decreasing)')
        if bottom[0] != (lx, ly) or bottom[-1] != (hx, ly) or top[0] != (hx, hy) or top[-1] != (lx, hy):
            bad.append('a corner of the rectangle is missing from the border')
        if any(P[i] == P[i + 1] for i in range(n - 1)):
            bad.append('two consecutive border points coincide')
        if [q[0] for q in top] != [q[0] for q in bottom][::-1] or [q[1] for q in left] != [q[1] for q in right][::-1]:
            bad.append('top/left edges are not the reversed bottom/right edges')
        # sampling: uniform; count by the documented meaning of stepsize
        for nm, lo, hi, k, pts in (('x', lx, hx, nx, [q[0] for q in bottom]),
                                   ('y', ly, hy, ny, [ly] + [q[1] for q in right] + [hy])):
            w = hi - lo
            for i in range(k + 1):
                if abs(pts[i] - (lo + w * i / k)) > Fraction(1, 10 ** 12) * max(abs(lo), abs(hi), 1):
                    bad.append('%s sampling is not uniform at index %d' % (nm, i))
                    break
            if ss is None:
                if k != 3:
                    bad.append('without stepsize the %s edge has %d intervals, not 3' % (nm, k))
            elif ss > 0:
                s = to_fraction(ss)
                if w / k > s * (1 + Fraction(1, 10 ** 12)):
                    bad.append('%s interval %r is longer than stepsize %r' % (nm, float(w / k), ss))
                if k > 2 and w / (k - 1) <= s * (1 - Fraction(1, 10 ** 12)):
                    bad.append('%s edge has %d intervals although %d would respect stepsize %r' % (nm, k, k - 1, ss))
            elif k != 2:
                bad.append('negative stepsize: %d intervals on the %s edge, expected the minimum 2' % (k, nm))
    # ---- counter-clockwise: exact shoelace sum ------------------------------------
    sh = sum(P[i][0] * P[i + 1][1] - P[i + 1][0] * P[i][1] for i in range(n - 1))
    if sh != 2 * (hx - lx) * (hy - ly):
        bad.append('shoelace sum of the border is %r, not +2(hx-lx)(hy-ly) = %r (orientation / shape)'
                   % (float(sh), float(2 * (hx - lx) * (hy - ly))))
    return report(ctx, case, bad, res)


def report(ctx, case, bad, res):
    for b in bad[:3]:
        ctx.oracle_fail(case, {'what': 'chip footprint: ' + b, 'border_x': res['bx'][:40], 'border_y': res['by'][:40]})
    return bad


def sky_oracle(ctx, case, spec, res):
    """the spherical footprint contains the sources that lie in the pixel rectangle (bounding box: the sources in
    the closed bounding box -- by the pixel oracle they are in the rectangle)"""
    from . import c16 as base
    im = res['im']
    lx, hx, ly, hy = expected_rect(spec, res)
    if not (lx < hx and ly < hy):
        ctx.branch('chip:sky:degenerate-rectangle-skipped')
        return
    pix = math.radians(spec['scale'])
    if float(min(hx - lx, hy - ly)) * pix < SKY_MIN_SIDE:
        # spherical_geometry cannot decide containment in polygons this small (measured: a source in the middle of
        # a footprint 3.5e-8 rad wide is reported outside in 5 percent of the orientations, always at 1e-8 rad)
        ctx.branch('chip:sky:too-small-for-spherical_geometry-skipped')
        ctx.near_tie()
        return
    if res['bbox'] is None:
        sel = [(a, b) for a, b in zip(spec['x'], spec['y']) if lx <= to_fraction(a) <= hx and ly <= to_fraction(b) <= hy]
    else:
        sel = [(a, b) for a, b in zip(spec['x'], spec['y']) if in_box(res, a, b)]
    xs, ys = [a for a, b in sel], [b for a, b in sel]
    if not xs:
        return
    ra, dec = im.det_to_world(np.array(xs, dtype=float), np.array(ys, dtype=float))
    ra, dec = np.atleast_1d(ra), np.atleast_1d(dec)
    if not (np.all(np.isfinite(ra)) and np.all(np.isfinite(dec))):
        ctx.oracle_fail(case, {'what': 'chip footprint: det_to_world of a source inside the rectangle (the closed '
                                       'bounding box) is not finite'})
        return
    # a source ON the border of the rectangle (x = 0, x = nx - 1, ...) is on an arc of the spherical polygon: whether
    # spherical_geometry counts it as inside is rounding, and for footprints of a few pixels the rounding of the arcs
    # is a visible fraction of 1e-10 rad.  Margin: 1/100 of a pixel (the defects at stake are half a pixel).
    margin = base.MARGIN + 0.01 * pix
    poly = im.polygon
    if im.bb_radec[0] is not im.img_bounding_ra:
        # three or more non-collinear sources through `calc_bounding_polygon`: `im.polygon` is the convex hull of the
        # sources (the subject of the hull part of C16, with its own treatment of almost collinear vertices), not the
        # whole-image footprint.  The whole-image footprint is judged on the sky border that the method stored, made
        # a polygon by the same constructor.
        from spherical_geometry.polygon import SphericalPolygon
        poly = SphericalPolygon.from_radec(im.img_bounding_ra, im.img_bounding_dec)
        ctx.branch('chip:sky:hull-replaced-the-footprint:stored-sky-border-tested')
    for r, d, a, b in zip(ra, dec, xs, ys):
        ok, dist = base.contained(poly, float(r), float(d), margin)
        if not ok:
            ctx.oracle_fail(case, {'what': 'image catalog (chip footprint): source at pixel (%r, %r) is outside the '
                                           'footprint' % (a, b), 'distance_to_boundary_rad': dist,
                                   'distance_to_boundary_pixels': dist / pix})
            return
    ctx.branch('chip:sky:contains-checked')


# ---------------------------------------------------------------------------
# the model
# ---------------------------------------------------------------------------
def driver_line(spec, res, mode):
    num = f2x if mode == 'F' else (lambda v: q2s(to_fraction(v)))
    if res['bbox'] is None:
        bb = 'none'
    else:
        bb = ' '.join(num(v) for v in (res['bbox'][0][0], res['bbox'][0][1], res['bbox'][1][0], res['bbox'][1][1]))
    ss = spec['stepsize'] if spec['via'] == 'direct' else None
    st = 'none' if ss is None else num(float(ss))
    pts = ' '.join(num(a) + ' ' + num(b) for a, b in zip(spec['x'], spec['y']))
    return ('chipborder %s %s %s %d %s' % (mode, bb, st, len(spec['x']), pts)).strip()


def compare(ctx, out, item):
    case, spec, res, mode = item
    toks = out.split()
    if toks[:1] == ['err']:
        ctx.branch('chip:model:' + toks[1])
        if res['status'] != 'exc':
            ctx.disagree(case, {'op': 'chipborder', 'mode': mode, 'model': out, 'impl': 'returned a border'})
            return
        want = 'emptyCatalog' if res['stage'] == 'ctor' else 'zeroStep'
        if toks[1] != want:
            ctx.disagree(case, {'op': 'chipborder', 'mode': mode, 'model': out,
                                'impl': '%s in %s' % (res['exc'], res['stage'])})
        return
    if toks[:1] != ['ok']:
        ctx.disagree(case, {'op': 'chipborder', 'mode': mode, 'model': out[:100]})
        return
    if res['status'] != 'ok':
        ctx.disagree(case, {'op': 'chipborder', 'mode': mode, 'model': 'border',
                            'impl': '%s in %s' % (res['exc'], res['stage'])})
        return
    conv = x2f if mode == 'F' else s2q
    rect = [conv(t) for t in toks[1:5]]
    k = int(toks[5])
    vals = toks[6:]
    if len(vals) != 2 * k:
        ctx.disagree(case, {'op': 'chipborder', 'mode': mode, 'model': 'malformed line'})
        return
    mx = [conv(vals[2 * i]) for i in range(k)]
    my = [conv(vals[2 * i + 1]) for i in range(k)]
    if k != len(res['bx']):
        ctx.disagree(case, {'op': 'chipborder', 'mode': mode, 'what': 'number of border points', 'model': k,
                            'impl': len(res['bx']), 'model_rect': [float(v) for v in rect]})
        return
    if mode == 'F':
        bits = lambda l: [f2x(v) for v in l]   # noqa: E731  (bit patterns: -0.0 and 0.0 differ)
        if bits(mx) != bits(res['bx']) or bits(my) != bits(res['by']):
            i = next(i for i in range(k) if f2x(mx[i]) != f2x(res['bx'][i]) or f2x(my[i]) != f2x(res['by'][i]))
            ctx.disagree(case, {'op': 'chipborder', 'mode': 'F', 'what': 'border point %d differs' % i,
                                'model': [mx[i], my[i]], 'impl': [res['bx'][i], res['by'][i]],
                                'model_rect': rect})
            return
        if (rect[0], rect[2]) != (res['bx'][0], res['by'][0]):
            ctx.disagree(case, {'op': 'chipborder', 'mode': 'F', 'what': 'rectangle corner is not the first border point',
                                'model_rect': rect})
        ctx.branch('chip:corr:F-bit-exact')
    else:
        # exact rationals: the rectangle exactly, the border to rounding
        ix = [to_fraction(v) for v in res['bx']]
        iy = [to_fraction(v) for v in res['by']]
        corners = {(ix[0], iy[0])}
        if (rect[0], rect[2]) not in corners or rect[1] not in ix or rect[3] not in iy:
            ctx.disagree(case, {'op': 'chipborder', 'mode': 'Q', 'what': 'rectangle differs',
                                'model_rect': [float(v) for v in rect], 'impl_first': [res['bx'][0], res['by'][0]]})
            return
        sc = max(1, max(abs(v) for v in rect))
        for i in range(k):
            if abs(mx[i] - ix[i]) > Fraction(1, 10 ** 13) * sc or abs(my[i] - iy[i]) > Fraction(1, 10 ** 13) * sc:
                ctx.disagree(case, {'op': 'chipborder', 'mode': 'Q', 'what': 'border point %d differs' % i,
                                    'model': [float(mx[i]), float(my[i])], 'impl': [res['bx'][i], res['by'][i]]})
                return
        ctx.branch('chip:corr:Q-exact-rect')


# ---------------------------------------------------------------------------
# cases
# ---------------------------------------------------------------------------
def mkspec(kind, x, y, stepsize=None, via='direct', shape=None, bounds=None, loc=(82.0, 12.0), rot=20.0,
           scale=1e-5, crpix=(30.0, 20.0), flip=False):
    return {'op': 'chipborder', 'kind': kind, 'shape': None if shape is None else list(shape),
            'bounds': None if bounds is None else [list(bounds[0]), list(bounds[1])],
            'x': [float(v) for v in x], 'y': [float(v) for v in y], 'stepsize': stepsize, 'via': via,
            'loc': list(loc), 'rot': rot, 'scale': scale, 'crpix': list(crpix), 'flip': flip}


def corpus():
    C = []
    # no bounding box: the floor boundary k + 0.5, zero, integers, non-integers, large, negative, empty
    for kind in ('fits-nobb', 'jwst-nobb'):
        for xs, ys in (([0.0], [0.0]), ([0.5], [0.5]), ([0.49999999999999994], [0.5000000000000001]),
                       ([100.0, 40.0], [30.0, 200.0]), ([100.7, 40.2], [30.1, 200.6]), ([17.5, 3.0], [7.0, 200.5]),
                       ([3.5, 7.2], [1.0, 2.5]), ([-0.5], [-0.5]), ([-0.25, 0.25], [0.0, -0.5]),
                       ([-3.0], [-7.0]), ([-1.5, -0.5000000000000001], [2.0, 3.0]),
                       ([1234567.5, 3.0, 8.0], [7654321.25, 1.0, 2.0]), ([10.0, 20.0, 30.0, 40.0], [21.0, 41.0, 61.0, 81.0]),
                       ([1.5, 2.5, 3.5, 0.5, 7.5], [0.5, 1.5, 0.5, 2.5, 4.5])):
            C.append(mkspec(kind, xs, ys, via='calc'))
            C.append(mkspec(kind, xs, ys, stepsize=None))
            C.append(mkspec(kind, xs, ys, stepsize=2 if max(xs + ys) < 500 else max(xs + ys) / 37.5))
        C.append(mkspec(kind, [3.0, 9.5], [4.0, 1.0], stepsize=0))
        C.append(mkspec(kind, [3.0, 9.5], [4.0, 1.0], stepsize=-1))
        C.append(mkspec(kind, [3.0, 9.5], [4.0, 1.0], stepsize=0.75))
        C.append(mkspec(kind, [3.0, 900.5], [4.0, 1.0], stepsize=1000))
    C.append(mkspec('fits-nobb', [], [], via='calc'))
    C.append(mkspec('jwst-nobb', [], [], via='calc'))
    # bounding box from pixel_shape: 1x1, 2x1, 1x2, 2x2, non-square, large
    for shape in ((1, 1), (2, 1), (1, 2), (2, 2), (3, 5), (100, 50), (1024, 1024), (4096, 2048)):
        xs, ys = [0.0, float(shape[0] - 1)], [float(shape[1] - 1), 0.0]
        C.append(mkspec('fits-bb', xs, ys, via='calc', shape=shape))
        C.append(mkspec('fits-bb', xs[:1], ys[:1], stepsize=None, shape=shape))
        for ss in (1, 2.5, max(shape) / 7.0, 10 * max(shape), -3):
            if max(shape) / abs(ss) <= 700:
                C.append(mkspec('fits-bb', xs, ys, stepsize=ss, shape=shape))
    C.append(mkspec('fits-bb', [1.0], [1.0], stepsize=0, shape=(3, 5)))
    C.append(mkspec('fits-bb', [0.0], [0.0], stepsize=0, shape=(1, 1)))
    C.append(mkspec('fits-bb', [], [], via='calc', shape=(8, 8)))
    # pixel_bounds: integers (the code adds 0.5 to an int), non-integers, narrower than one pixel (inverted)
    for bounds in (((0, 10), (3, 7)), ((0.25, 10.5), (3, 7)), ((-0.5, 0.5), (-0.5, 9.5)), ((2, 2.5), (0, 4)),
                   ((-100.5, -3.5), (10.25, 11.75))):
        cx, cy = 0.5 * (bounds[0][0] + bounds[0][1]), 0.5 * (bounds[1][0] + bounds[1][1])
        for ss in (None, 1, 0.3):
            C.append(mkspec('fits-bounds', [cx], [cy], stepsize=ss, bounds=bounds, shape=(16, 16)))
        C.append(mkspec('fits-bounds', [cx, cx], [cy, cy], via='calc', bounds=bounds, shape=(16, 16)))
    # mock JWST with its own bounding box and with other ones
    C.append(mkspec('jwst-bb', [100.7, 40.2], [30.1, 200.6], via='calc', crpix=(512.0, 512.0)))
    C.append(mkspec('jwst-bb', [100.7, 40.2], [30.1, 200.6], stepsize=300, crpix=(512.0, 512.0)))
    C.append(mkspec('jwst-bb', [100.7], [30.1], stepsize=0, crpix=(512.0, 512.0)))
    for bounds in (((-0.5, 99.5), (-0.5, 49.5)), ((0.25, 10.5), (3.0, 7.0)), ((-0.5, 0.5), (-0.5, 1.5))):
        cx, cy = 0.5 * (bounds[0][0] + bounds[0][1]), 0.5 * (bounds[1][0] + bounds[1][1])
        for ss in (None, 1.5):
            C.append(mkspec('jwst-bb', [cx], [cy], stepsize=ss, bounds=bounds, crpix=(5.0, 5.0)))
    # sources in the outer half-pixel band of the bounding box, exactly on the edges of the box and of the shrunk
    # box, in two bands at once, outside the box (the edge stops at the box), next to sources in the interior
    band = (([1023.3], [500.0]), ([1023.5], [1023.5]), ([-0.5], [-0.5]), ([-0.3, 1023.4], [0.0, 1023.0]),
            ([0.0, 1023.0], [1023.0, 0.0]), ([1023.25, 1023.25, 1023.25], [10.0, 500.0, 900.0]),
            ([-0.25, 511.0], [1023.5, -0.4375]), ([1030.0], [500.0]), ([-7.0, 600.0], [2000.0, 1023.2]),
            ([1023.5000000000001], [5.0]), ([1023.4999999999999, -0.49999999999999994], [0.0, 1023.0]))
    for xs, ys in band:
        C.append(mkspec('fits-bb', xs, ys, via='calc', shape=(1024, 1024), crpix=(512.0, 512.0)))
        C.append(mkspec('fits-bb', xs, ys, stepsize=100, shape=(1024, 1024), crpix=(512.0, 512.0)))
        if len(xs) <= 2:
            # (three or more sources go through the convex hull, which has no sky coordinates outside a gWCS box)
            C.append(mkspec('jwst-bb', xs, ys, via='calc', bounds=((-0.5, 1023.5), (-0.5, 1023.5)), crpix=(512.0, 512.0)))
            C.append(mkspec('jwst-bb', xs, ys, stepsize=300, bounds=((-0.5, 1023.5), (-0.5, 1023.5)),
                            crpix=(512.0, 512.0)))
    for xs, ys in (([10.0], [7.0]), ([0.0], [3.0]), ([0.2, 9.75], [6.9, 3.25]), ([0.5, 9.5], [3.5, 6.5]), ([11.0], [5.0]),
                   ([5.0, -1.0], [8.0, 5.0])):
        for ss in (None, 0.75):
            C.append(mkspec('fits-bounds', xs, ys, stepsize=ss, bounds=((0, 10), (3, 7)), shape=(16, 16)))
            C.append(mkspec('jwst-bb', xs, ys, stepsize=ss, bounds=((0.0, 10.0), (3.0, 7.0)), crpix=(5.0, 5.0)))
    # one-pixel boxes (the shrunk box is a point or a segment) and a box narrower than a pixel, sources off the centre
    for xs, ys in (([0.25], [-0.25]), ([0.5], [0.5]), ([-0.5, 0.5], [0.0, 0.0]), ([0.0], [0.0])):
        C.append(mkspec('fits-bb', xs, ys, stepsize=None, shape=(1, 1)))
        C.append(mkspec('fits-bb', xs, ys, stepsize=0.25, shape=(2, 1)))
        C.append(mkspec('jwst-bb', xs, ys, stepsize=None, bounds=((-0.5, 0.5), (-0.5, 1.5)), crpix=(5.0, 5.0)))
    # `stepsize = 0` with edges taken from the catalog: still ZeroDivisionError (the edges are Python floats)
    C.append(mkspec('fits-bb', [2.3], [-0.25], stepsize=0, shape=(3, 5)))
    C.append(mkspec('jwst-bb', [99.25, 3.0], [49.5, 0.0], stepsize=0, bounds=((-0.5, 99.5), (-0.5, 49.5)), crpix=(5.0, 5.0)))
    C.append(mkspec('fits-bounds', [2.2], [2.0], stepsize=None, bounds=((2, 2.5), (0, 4)), shape=(16, 16)))
    C.append(mkspec('fits-bounds', [2.0, 2.5], [0.0, 4.0], stepsize=0.5, bounds=((2, 2.5), (0, 4)), shape=(16, 16)))
    return C


def gen_coord(rng, hi):
    """one pixel coordinate in [0, hi] (hi >= 0) from the families of the docstring"""
    fam = rng.choice(['int', 'half', 'real', 'dyadic', 'zero', 'top'])
    k = rng.randint(0, max(0, int(hi)))
    if fam == 'int':
        v = float(k)
    elif fam == 'half':
        v = k + 0.5
    elif fam == 'real':
        v = rng.uniform(0, hi)
    elif fam == 'dyadic':
        v = k + rng.randint(0, 7) / 8.0
    elif fam == 'zero':
        v = 0.0
    else:
        v = float(hi)
    return min(max(v, 0.0), float(hi))


def gen_box_coord(rng, lo, hi, allow_outside):
    """one pixel coordinate for a corrector with the bounding-box interval [lo, hi] (hi - lo >= 1): the interior
    families of `gen_coord` on the pixel-centre range, the outer half-pixel bands, the edges of the box and of the
    shrunk box, one ulp inside / outside an edge and -- when allowed, rarely -- positions outside the box"""
    fam = rng.choice(['inner', 'inner', 'inner', 'band-lo', 'band-hi', 'band-lo', 'band-hi', 'box-edge', 'shrunk-edge',
                      'ulp', 'outside'])
    if fam == 'outside' and not allow_outside:
        fam = 'inner'
    if fam == 'inner':
        return lo + 0.5 + gen_coord(rng, hi - lo - 1.0)
    if fam in ('band-lo', 'band-hi'):
        t = rng.choice([rng.randint(0, 7) / 16.0, rng.uniform(0.0, 0.5), 0.2, 0.3])
        return lo + t if fam == 'band-lo' else hi - t
    if fam == 'box-edge':
        return rng.choice([lo, hi])
    if fam == 'shrunk-edge':
        return rng.choice([lo + 0.5, hi - 0.5])
    if fam == 'ulp':
        e = rng.choice([lo, hi, lo + 0.5, hi - 0.5])
        v = float(np.nextafter(e, rng.choice([-np.inf, np.inf])))
        if not allow_outside:
            v = min(max(v, lo), hi)
        return v
    d = rng.choice([0.25, 0.5, 1.0, 6.5, 300.0])
    return lo - d if rng.random() < 0.5 else hi + d


def gen_spec(rng):
    from . import c16 as base
    kind = rng.choice(['fits-bb', 'fits-bb', 'fits-bounds', 'fits-nobb', 'fits-nobb', 'jwst-bb', 'jwst-nobb'])
    loc = rng.choice(base.LOCATIONS)
    rot = rng.uniform(0, 360)
    n = rng.choice([1, 1, 2, 2, 3, 4, 5])
    shape = bounds = box = None
    if kind == 'fits-bb':
        shape = rng.choice([(1, 1), (2, 1), (1, 3), (2, 2), (7, 3), (64, 48), (333, 1000), (1024, 1024), (2048, 4096),
                            (rng.randint(1, 300), rng.randint(1, 300))])
        ext = (shape[0] - 1.0, shape[1] - 1.0)
        org = (0.0, 0.0)
        box = ((-0.5, shape[0] - 0.5), (-0.5, shape[1] - 0.5))
    elif kind in ('fits-bounds', 'jwst-bb'):
        if kind == 'jwst-bb' and rng.random() < 0.3:
            bounds = None
            org, ext = (0.0, 0.0), (1023.0, 2047.0)
            box = ((-0.5, 1023.5), (-0.5, 2047.5))
        else:
            q = rng.choice([1, 1, 2, 4])
            a, c = rng.randint(-40, 40) / q, rng.randint(-40, 40) / q
            wx, wy = rng.choice([1, 1.5, 2, 3, 17, 250.25, rng.randint(1, 900)]), rng.choice([1, 2, 5, 64, rng.randint(1, 900)])
            bounds = ((a, a + wx), (c, c + wy))
            if kind == 'fits-bounds' and rng.random() < 0.4:
                bounds = ((int(math.floor(a)), int(math.floor(a)) + int(math.ceil(wx))),
                          (int(math.floor(c)), int(math.floor(c)) + int(math.ceil(wy))))
            org = (bounds[0][0] + 0.5, bounds[1][0] + 0.5)
            ext = (bounds[0][1] - bounds[0][0] - 1.0, bounds[1][1] - bounds[1][0] - 1.0)
            box = ((float(bounds[0][0]), float(bounds[0][1])), (float(bounds[1][0]), float(bounds[1][1])))
        shape = (16, 16)
    else:
        org = (0.0, 0.0)
        ext = (rng.choice([0.0, 1.0, 3.0, 50.0, 2000.0, 1e5, 3e6]), rng.choice([0.0, 2.0, 10.0, 700.0, 1e6]))
    if box is None or rng.random() < 0.25:
        # (with a bounding box: a quarter of the catalogs keep half a pixel from the edges -- nothing moves)
        xs = [org[0] + gen_coord(rng, ext[0]) for _ in range(n)]
        ys = [org[1] + gen_coord(rng, ext[1]) for _ in range(n)]
    else:
        # anywhere in the closed bounding box; outside it in one catalog out of seven (a gWCS has no sky coordinates
        # there, and three or more sources go through the convex hull: at most two sources then)
        outside = rng.random() < 0.15 and (kind != 'jwst-bb' or n <= 2)
        xs = [gen_box_coord(rng, box[0][0], box[0][1], outside) for _ in range(n)]
        ys = [gen_box_coord(rng, box[1][0], box[1][1], outside) for _ in range(n)]
    if kind.endswith('nobb') and rng.random() < 0.15:
        # coordinates below the first pixel (excluded from the containment clause; the model still applies)
        i = rng.randrange(n)
        xs[i] = -rng.choice([0.25, 0.5, 0.75, 1.0, 3.5, 40.0])
        if rng.random() < 0.5:
            ys = [-abs(v) - rng.choice([0.0, 0.5, 2.0]) for v in ys]
    via = rng.choice(['calc', 'direct', 'direct', 'direct'])
    ss = None
    if via == 'direct':
        size = max(1.0, ext[0], ext[1])
        ss = rng.choice([None, 1, 2, 2.5, size / 1.5, size / 2, size / 3.7, size / 10.0, size / 64.0, 3 * size, -2,
                         rng.uniform(size / 80.0, size)])
        if ss is not None and abs(size / ss) > 500:
            ss = size / 100.0
        if rng.random() < 0.03:
            ss = 0
    crpix = (512.0, 512.0) if kind.startswith('jwst') else (rng.uniform(-50, 50), rng.uniform(-50, 50))
    return mkspec(kind, xs, ys, stepsize=ss, via=via, shape=shape, bounds=bounds, loc=loc, rot=rot,
                  scale=rng.choice([1e-5, 3e-5, 1e-4]), crpix=crpix, flip=rng.random() < 0.3)


def is_dyadic(spec, res):
    vals = list(spec['x']) + list(spec['y'])
    if res['bbox'] is not None:
        vals += res['bbox'][0] + res['bbox'][1]
    if spec['via'] == 'direct' and spec['stepsize'] is not None:
        vals.append(float(spec['stepsize']))
    return all(to_fraction(v).denominator <= 64 and abs(v) < 2 ** 30 for v in vals)


def nondeg_or_pixel(res):
    """the bounding box is at least one pixel wide and high"""
    return res['bbox'][0][1] - res['bbox'][0][0] >= 1 and res['bbox'][1][1] - res['bbox'][1][0] >= 1


def count_box_sources(ctx, spec, res):
    """input distribution of the bounding-box cases: where the sources are relative to the box"""
    moved = False
    for (lo, hi), col in zip(res['bbox'], (spec['x'], spec['y'])):
        lo, hi = to_fraction(lo), to_fraction(hi)
        for v in col:
            v = to_fraction(v)
            if v < lo or v > hi:
                ctx.branch('chip:bb-coordinate:outside-box')
                moved = True
            elif v in (lo, hi):
                ctx.branch('chip:bb-coordinate:on-box-edge')
                moved = True
            elif v < lo + HALF or v > hi - HALF:
                ctx.branch('chip:bb-coordinate:outer-half-pixel-band')
                moved = True
            elif v in (lo + HALF, hi - HALF):
                ctx.branch('chip:bb-coordinate:on-shrunk-edge')
            else:
                ctx.branch('chip:bb-coordinate:interior')
    ctx.branch('chip:bb-rectangle:' + ('follows-a-source' if moved else 'shrunk-box'))


def one_case(ctx, spec, lines, pending):
    res = run_real(spec)
    case = dict(spec)
    nondeg = True
    if res['bbox'] is not None:
        nondeg = res['bbox'][0][1] - res['bbox'][0][0] > 1 and res['bbox'][1][1] - res['bbox'][1][0] > 1
    ctx.case(case, nontrivial=(len(spec['x']) > 0 and nondeg) or res['status'] == 'exc', branch='chip:' + spec['kind'])
    ctx.branch('chip:via:' + spec['via'])
    ss = spec['stepsize'] if spec['via'] == 'direct' else None
    ctx.branch('chip:stepsize:' + ('none' if ss is None else 'zero' if ss == 0 else 'neg' if ss < 0 else 'pos'))
    if (res['bbox'] is None) != spec['kind'].endswith('nobb'):
        ctx.oracle_fail(case, {'what': 'harness: corrector kind %s has bounding box %r' % (spec['kind'], res['bbox'])})
        return
    if res['status'] == 'exc':
        ctx.branch('chip:impl-exception:%s:%s' % (res['stage'], res['exc']))
        expected = (res['stage'] == 'ctor' and len(spec['x']) == 0 and res['bbox'] is None) or \
                   (res['stage'] == 'call' and ss is not None and ss == 0 and res['exc'] == 'ZeroDivisionError')
        if not expected:
            ctx.oracle_fail(case, {'what': 'chip footprint: %s raised in %s' % (res['exc'], res['stage'])})
    else:
        if not nondeg:
            ctx.branch('chip:degenerate-rectangle')
        if any(to_fraction(v) == to_fraction(v).__floor__() + HALF for v in spec['x'] + spec['y']):
            ctx.branch('chip:half-integer-coordinate')
        if res['bbox'] is not None:
            count_box_sources(ctx, spec, res)
        bad = oracle(ctx, case, spec, res)
        if not bad and res['bbox'] is not None and nondeg_or_pixel(res):
            # the rectangle is inside the closed bounding box: the sky map is defined on all of its border
            im = res['im']
            if not (np.all(np.isfinite(im.img_bounding_ra)) and np.all(np.isfinite(im.img_bounding_dec))):
                bad = ['NaN']
                ctx.oracle_fail(case, {'what': 'chip footprint: a vertex of the footprint has no finite sky coordinates'})
        if not bad:
            sky_oracle(ctx, case, spec, res)
    if ctx.search_only:
        return
    lines.append(driver_line(spec, res, 'F'))
    pending.append((case, spec, res, 'F'))
    if is_dyadic(spec, res):
        lines.append(driver_line(spec, res, 'Q'))
        pending.append((case, spec, res, 'Q'))


def band_probe(ctx):
    """Regression probe of the repaired finding F25: before the repair the footprint of a corrector with a bounding
    box was the box shrunk by half a pixel whatever the catalog, so a catalog of one or two sources with a source in
    the outer half-pixel band of the image (x = 1023.3 in a 1024-pixel-wide image) was outside its own footprint."""
    from . import c16 as base
    for kind, kw in (('fits-bb', {'shape': (1024, 1024)}), ('jwst-bb', {'bounds': ((-0.5, 1023.5), (-0.5, 1023.5))})):
        spec = mkspec(kind, [1023.3], [500.0], via='calc', crpix=(512.0, 512.0), **kw)
        case = dict(spec, probe='outer-half-pixel-band')
        ctx.case(case, nontrivial=True, branch='chip:probe:outer-half-pixel-band')
        res = run_real(spec)
        if res['status'] != 'ok':
            ctx.oracle_fail(case, {'what': 'chip footprint probe: %s raised' % res.get('exc')})
            continue
        im = res['im']
        ra, dec = im.det_to_world(np.array(spec['x']), np.array(spec['y']))
        ok, dist = base.contained(im.polygon, float(ra[0]), float(dec[0]))
        if ok:
            ctx.branch('chip:probe:outer-half-pixel-band:inside')
            continue
        ctx.branch('chip:probe:outer-half-pixel-band:outside')
        ctx.oracle_fail(case, {'what': 'image catalog of one source at x=1023.3 (inside the 1024x1024 image, whose '
                                       'bounding box is [-0.5, 1023.5]) is outside its own footprint: the whole-image '
                                       'footprint is the bounding box shrunk by half a pixel on every side, past the '
                                       'source', 'distance_to_boundary_rad': dist,
                               'footprint_rectangle': [res['bx'][0], max(res['bx']), res['by'][0], max(res['by'])]})


def run_extra(ctx):
    """oracle part always; correspondence part (model driver) only when not ctx.search_only"""
    lines, pending = [], []
    band_probe(ctx)
    for spec in corpus():
        one_case(ctx, spec, lines, pending)
    for _ in range(ctx.n(160, 2500)):
        one_case(ctx, gen_spec(ctx.rng), lines, pending)
    if ctx.search_only or not lines:
        return
    outs = ctx.driver(lines)
    for out, item in zip(outs, pending):
        compare(ctx, out, item)


def replay_case(ctx, case):
    spec = {k: v for k, v in case.items() if k != 'probe'}
    lines, pending = [], []
    one_case(ctx, spec, lines, pending)
    outs = ctx.driver(lines)
    for out, item in zip(outs, pending):
        compare(ctx, out, item)
