"""
C04 -- corrections compose as an affine group and histories are replayable.

Correspondence: random histories of 0..6 operations (corrections in own / reference plane, copy(),
re-wrapping of the corrected WCS) on real FITS and gWCS correctors; after EVERY step the chart
positions of a pixel grid, the frame list (gWCS) and the validity of the pipeline are compared with
the Lean model (ops gcorr / fcorr).
Oracle (implementation only): identity correction, correction followed by its inverse, the three
composition laws (one fixed reference plane; own plane gWCS; own plane FITS - opposite order),
re-wrapped corrector continues exactly like the live one, original_wcs untouched, copies
independent, exactly one 'v2v3corr' frame.
"""
import copy

import numpy as np

from .. import scenes, corrsim
from ..scenes import Aff
from . import c02, c03

ID = 'C04'
RULE = ('corrector kind x history of 0..6 ops interleaved with copy() and re-wrapping; composition laws with two '
        'random corrections (small or large); non-trivial = at least two corrections or a re-wrap between '
        'corrections; distinct = distinct scenario parameters')
ASSUMPTIONS = c02.ASSUMPTIONS + [
    'object identity (aliasing of the original WCS, independence of copies) is decided on real objects by '
    'snapshots; the model has no notion of aliasing',
]


def snapshot_orig(c):
    """bit-level fingerprint of the caller's original WCS object"""
    w = c.original_wcs
    if scenes.is_jwst(c):
        px = np.array([10.0, 500.0, 900.0])
        py = np.array([20.0, 1500.0, 100.0])
        return (tuple(w.available_frames), tuple(np.asarray(v).tobytes() for v in w(px, py)))
    sip = w.sip
    return (w.to_header(relax=True).tostring(), w.wcs.crval.tobytes(), w.wcs.crpix.tobytes(),
            (w.wcs.cd.tobytes() if w.wcs.has_cd() else w.wcs.pc.tobytes()),
            None if sip is None else (sip.a.tobytes(), sip.b.tobytes()))


def sky_diff_units(c0, ca, cb, px, py):
    """max distance, in chart (tangent-plane of c0) units, between the sky positions of two correctors"""
    a = np.array(c0.world_to_tanp(*ca.det_to_world(px, py)), dtype=float)
    b = np.array(c0.world_to_tanp(*cb.det_to_world(px, py)), dtype=float)
    return float(np.max(np.hypot(*(a - b))))


def laws(ctx):
    rng = ctx.rng
    jw = rng.random() < 0.5
    c0, info = scenes.mk_jwst(rng) if jw else scenes.mk_fits(rng)
    unit = c0.tanp_center_pixel_scale if jw else 1.0
    unit_rad = corrsim.plane_unit_rad(c0)
    rho = corrsim.field_radius_units(c0)
    px, py = scenes.probe_pixels(rng, c0, 10)
    big = rng.random() < 0.5
    f1 = c02.gen_corr(rng, unit, big)
    f2 = c02.gen_corr(rng, unit, big)
    prior = [('S', c02.gen_corr(rng, unit, False))] if rng.random() < 0.4 else []
    base, _ = corrsim.apply_real(c0, prior)
    law = rng.choice(['identity', 'inverse', 'own', 'ref', 'rewrap', 'orig', 'copy', 'frames'])
    case = {'law': law, 'kind': info['kind'], 'info': info, 'prior': len(prior), 'big': big,
            'f1': [f1.M.tolist(), f1.t.tolist()], 'f2': [f2.M.tolist(), f2.t.tolist()]}
    ctx.case(case, nontrivial=law != 'identity', branch='law:%s:%s' % (law, info['kind']))
    size = corrsim.corr_size_units(f1, rho) + corrsim.corr_size_units(f2, rho)
    fb = c02.fits_base(c0, rho) if not jw else 0.0
    tol0 = c02.GW_TOL * max(1.0, rho / 1e3) if jw else fb

    def bound(nsteps, ref=None):
        if jw:
            b = c02.GW_TOL * max(1.0, rho / 1e3) * nsteps
        else:
            b = fb * nsteps + c02.fits_second_order(size, rho, unit_rad) * nsteps
        if ref is not None:
            b += c02.first_order(size, corrsim.sky_sep_rad(ref, c0), rho, unit_rad) * nsteps
        return b

    def fail(what, **kw):
        d = {'what': what}
        d.update(kw)
        ctx.oracle_fail(case, d)

    if law == 'identity':
        a = base.copy()
        a.set_correction([[1, 0], [0, 1]], [0, 0])
        e = sky_diff_units(c0, a, base, px, py)
        if e > tol0:
            fail('identity correction changed the sky mapping', err=e)
        b = base.copy()
        b.set_correction()            # default arguments
        e = sky_diff_units(c0, b, base, px, py)
        if e > tol0:
            fail('set_correction() with default arguments changed the sky mapping', err=e)
    elif law == 'inverse':
        a = base.copy()
        a.set_correction(f1.M.tolist(), f1.t.tolist())
        fi = f1.inv()
        a.set_correction(fi.M.tolist(), fi.t.tolist())
        e = sky_diff_units(c0, a, base, px, py)
        if e > bound(2):
            fail('correction followed by its inverse does not restore the mapping', err=e, bound=bound(2))
    elif law == 'own':
        a = base.copy()
        a.set_correction(f1.M.tolist(), f1.t.tolist())
        a.set_correction(f2.M.tolist(), f2.t.tolist())
        comp = (f2 @ f1) if jw else (f1 @ f2)
        b = base.copy()
        b.set_correction(comp.M.tolist(), comp.t.tolist())
        e = sky_diff_units(c0, a, b, px, py)
        if e > bound(3):
            fail('two own-plane corrections differ from the single composed correction '
                 '(%s order)' % ('M2*M1' if jw else 'M1*M2'), err=e, bound=bound(3))
        # the opposite order must NOT be what happens (guards the test against vacuity for big corrections)
        ctx.branch('own-plane-order:' + ('gwcs' if jw else 'fits'))
    elif law == 'ref':
        ref, rinfo = c02.gen_ref(rng, c0, info)
        runit = ref.tanp_center_pixel_scale if scenes.is_jwst(ref) else 1.0
        g1 = c02.gen_corr(rng, runit, big)
        g2 = c02.gen_corr(rng, runit, big)
        case['ref'] = rinfo
        a = base.copy()
        a.set_correction(g1.M.tolist(), g1.t.tolist(), ref_tpwcs=ref)
        a.set_correction(g2.M.tolist(), g2.t.tolist(), ref_tpwcs=ref)
        comp = g2 @ g1
        b = base.copy()
        b.set_correction(comp.M.tolist(), comp.t.tolist(), ref_tpwcs=ref)
        e = sky_diff_units(c0, a, b, px, py)
        punit = corrsim.plane_unit_rad(ref)
        sz = (corrsim.corr_size_units(g1, rho * unit_rad / punit) +
              corrsim.corr_size_units(g2, rho * unit_rad / punit)) * punit / unit_rad
        bb = (c02.GW_TOL * max(1.0, rho / 1e3) if jw else fb + c02.fits_second_order(sz, rho, unit_rad)) * 3
        bb += 3 * c02.first_order(sz, corrsim.sky_sep_rad(ref, c0), rho, unit_rad)
        if e > bb:
            fail('two corrections in one fixed reference plane differ from (M2*M1, M2*s1+s2)', err=e, bound=bb)
    elif law == 'rewrap':
        a = base.copy()
        a.set_correction(f1.M.tolist(), f1.t.tolist())
        live = a.copy()
        rew = scenes.rewrap(a)
        e0 = sky_diff_units(c0, live, rew, px, py)
        # the re-wrapped corrector must define the SAME tangent plane as the live one right away
        # (before any further correction), in all four tangent-plane conversions
        tl = np.array(live.det_to_tanp(px, py), dtype=float)
        tr = np.array(rew.det_to_tanp(px, py), dtype=float)
        wl = np.array(live.world_to_tanp(*live.det_to_world(px, py)), dtype=float)
        wr = np.array(rew.world_to_tanp(*rew.det_to_world(px, py)), dtype=float)
        ttol = tol0 * 10 * max(unit, 1e-3) if not jw else 1e-6
        if float(np.max(np.hypot(*(tl - tr)))) > ttol or float(np.max(np.hypot(*(wl - wr)))) > ttol:
            fail('tangent plane of a re-wrapped corrector differs from the live one before any further correction',
                 det_to_tanp=float(np.max(np.hypot(*(tl - tr)))), world_to_tanp=float(np.max(np.hypot(*(wl - wr)))))
        sl = np.array(c0.world_to_tanp(*live.tanp_to_world(tl[0], tl[1])), dtype=float)
        sr = np.array(c0.world_to_tanp(*rew.tanp_to_world(tl[0], tl[1])), dtype=float)
        if float(np.max(np.hypot(*(sl - sr)))) > ttol:
            fail('tanp_to_world of a re-wrapped corrector differs from the live one',
                 err=float(np.max(np.hypot(*(sl - sr)))))
        # a correction defined in a reference plane, applied to live and re-wrapped alike
        if rng.random() < 0.5:
            rref, _ri = c02.gen_ref(rng, c0, info)
            runit = rref.tanp_center_pixel_scale if scenes.is_jwst(rref) else 1.0
            gr = c02.gen_corr(rng, runit, False)
            l2 = live.copy()
            r2 = scenes.rewrap(a)
            l2.set_correction(gr.M.tolist(), gr.t.tolist(), ref_tpwcs=rref)
            r2.set_correction(gr.M.tolist(), gr.t.tolist(), ref_tpwcs=rref)
            er = sky_diff_units(c0, l2, r2, px, py)
            if er > tol0 * 4 + (1e-7 if jw else 0.0):
                fail('reference-plane correction on a re-wrapped corrector differs from the live one', err=er)
        # the corrected WCS handed to the new corrector is caller-owned: it must not change when the
        # new corrector is corrected, and replaying from it must give the same result again
        src_before = np.array(c0.world_to_tanp(*a.det_to_world(px, py)), dtype=float)
        src_wcs_before = (np.array(a.wcs(px, py), dtype=float) if jw
                          else np.array(a.wcs.all_pix2world(px, py, 0), dtype=float))
        osnap = snapshot_orig(rew)
        live.set_correction(f2.M.tolist(), f2.t.tolist())
        rew.set_correction(f2.M.tolist(), f2.t.tolist())
        src_after = np.array(c0.world_to_tanp(*a.det_to_world(px, py)), dtype=float)
        src_wcs_after = (np.array(a.wcs(px, py), dtype=float) if jw
                         else np.array(a.wcs.all_pix2world(px, py, 0), dtype=float))
        if not (np.array_equal(src_before, src_after) and np.array_equal(src_wcs_before, src_wcs_after)):
            fail('correcting a re-wrapped corrector changed the WCS object it was built from',
                 moved=float(np.max(np.abs(src_before - src_after))))
        if snapshot_orig(rew) != osnap:
            fail('original_wcs of the re-wrapped corrector changed when it was corrected')
        rew2 = scenes.rewrap(a)
        rew2.set_correction(f2.M.tolist(), f2.t.tolist())
        if sky_diff_units(c0, rew, rew2, px, py) > 0:
            fail('replaying the same correction from the same corrected WCS gives a different result',
                 err=sky_diff_units(c0, rew, rew2, px, py))
        e = sky_diff_units(c0, live, rew, px, py)
        tol = tol0 * 2
        if e0 > tol or e > tol:
            fail('a corrector rebuilt from the corrected WCS does not continue like the live object',
                 err_before=e0, err_after=e)
        # re-wrapping never raises and tangent-plane coordinates agree as well
        ta = np.array(live.det_to_tanp(px, py), dtype=float)
        tb = np.array(rew.det_to_tanp(px, py), dtype=float)
        if float(np.max(np.hypot(*(ta - tb)))) > tol * max(unit, 1e-3) * 10:
            fail('det_to_tanp differs between live and re-wrapped corrector',
                 err=float(np.max(np.hypot(*(ta - tb)))))
    elif law == 'orig':
        a = base.copy()
        snap = snapshot_orig(a)
        a.set_correction(f1.M.tolist(), f1.t.tolist())
        a.set_correction(f2.M.tolist(), f2.t.tolist(), ref_tpwcs=base.copy())
        if snapshot_orig(a) != snap:
            fail('original_wcs was modified by set_correction')
        if a.original_wcs is a.wcs:
            fail('original_wcs and wcs are the same object')
    elif law == 'copy':
        a = base.copy()
        b = a.copy()
        before = np.array(c0.world_to_tanp(*a.det_to_world(px, py)), dtype=float)
        b.set_correction(f1.M.tolist(), f1.t.tolist())
        after = np.array(c0.world_to_tanp(*a.det_to_world(px, py)), dtype=float)
        if not np.array_equal(before, after):
            fail('correcting a copy changed the corrector it was copied from')
        a.set_correction(f2.M.tolist(), f2.t.tolist())
        bb = b.copy()
        exp = np.array(c0.world_to_tanp(*bb.det_to_world(px, py)), dtype=float)
        got = np.array(c0.world_to_tanp(*b.det_to_world(px, py)), dtype=float)
        if not np.array_equal(exp, got):
            fail('copy() does not reproduce the mapping bit for bit')
    elif law == 'frames':
        if jw:
            a = base.copy()
            n0 = list(c0.wcs.available_frames)
            for k in range(rng.randint(1, 4)):
                a.set_correction(f1.M.tolist(), f1.t.tolist())
                if rng.random() < 0.5:
                    a = scenes.rewrap(a)
                fr = list(a.wcs.available_frames)
                if fr.count('v2v3corr') != 1:
                    fail("pipeline does not contain exactly one 'v2v3corr' frame", frames=fr)
                if [f for f in fr if f != 'v2v3corr'] != n0:
                    fail('other frames were reordered or lost', frames=fr, original=n0)


def history_case(ctx, lines, pend):
    rng = ctx.rng
    jw = rng.random() < 0.5
    c0, info = scenes.mk_jwst(rng) if jw else scenes.mk_fits(rng)
    hist = c03.gen_history(rng, c0, info, maxlen=6)
    px, py = scenes.probe_pixels(rng, c0, 6)
    sim = corrsim.Sim(c0, px, py)
    case = {'kind': info['kind'], 'info': info, 'history': [h[0] for h in hist],
            'corrs': [[h[1].M.tolist(), h[1].t.tolist()] for h in hist if h[0] in 'SR']}
    ncorr = sum(1 for h in hist if h[0] in 'SR')
    ctx.case(case, nontrivial=ncorr >= 2 or ('W' in [h[0] for h in hist] and ncorr >= 1),
             branch='history:%s:len%d' % (info['kind'], len(hist)))
    rho = corrsim.field_radius_units(c0)
    unit_rad = corrsim.plane_unit_rad(c0)
    snap = snapshot_orig(c0)
    for k in range(1, len(hist) + 1):
        sub = hist[:k]
        line, cfin = sim.line(sub)
        real_chart = sim.chart(*cfin.det_to_world(px, py))
        total = sum(corrsim.corr_size_units(h[1], rho) if h[0] == 'S' else
                    corrsim.corr_size_units(h[1], rho * unit_rad / corrsim.plane_unit_rad(h[2])) *
                    corrsim.plane_unit_rad(h[2]) / unit_rad for h in sub if h[0] in 'SR')
        if jw:
            cb = c02.GW_TOL * max(1.0, float(np.max(np.abs(real_chart))) / 1e3)
        else:
            cb = (c02.fits_base(c0, rho) + c02.fits_second_order(total, rho, unit_rad)) * (1 + k)
        for h in sub:
            if h[0] == 'R':
                cb += c02.first_order(total, corrsim.sky_sep_rad(h[2], c0), rho, unit_rad)
        lines.append(line)
        pend.append((case, sim, real_chart, cb, list(cfin.wcs.available_frames) if jw else None, k))
    if snapshot_orig(c0) != snap:
        ctx.oracle_fail(case, {'what': 'original_wcs of the starting corrector changed during the history'})


class _FakeWCS:
    """what `_check_wcs_structure` reads of a gWCS: `pipeline` (None or not) and `available_frames`"""
    def __init__(self, frames):
        self.pipeline = list(frames)
        self.available_frames = list(frames)


def frame_structure_correspondence(ctx):
    """`JWSTWCSCorrector._check_wcs_structure` against the model's `checkFrames` on frame-name lists: every
    list of length <= 4 over the alphabet {detector, v2v3, v2v3vacorr, v2v3corr, world, x} (exhaustive in the
    thorough tier, a random third in the quick one), random longer lists built by disturbing valid pipelines
    (insertion, deletion, duplication, swap), and `None`"""
    import itertools
    from tweakwcs.correctors import JWSTWCSCorrector
    rng = ctx.rng
    alpha = ['detector', 'v2v3', 'v2v3vacorr', 'v2v3corr', 'world', 'x']
    lists = [()]
    for n in (1, 2, 3, 4):
        for t in itertools.product(alpha, repeat=n):
            if ctx.tier == 'thorough' or rng.random() < 0.34:
                lists.append(t)
    valid = [['detector', 'v2v3', 'world'], ['detector', 'v2v3', 'v2v3vacorr', 'world'],
             ['detector', 'v2v3', 'v2v3corr', 'world'], ['detector', 'v2v3', 'v2v3vacorr', 'v2v3corr', 'world'],
             ['grism_detector', 'detector', 'v2v3', 'v2v3vacorr', 'v2v3corr', 'world'],
             ['detector', 'gwa', 'slit_frame', 'v2v3', 'v2v3corr', 'world']]
    for _ in range(ctx.n(300, 6000)):
        fr = list(rng.choice(valid))
        for _k in range(rng.choice([0, 1, 1, 2])):
            op = rng.choice(['ins', 'del', 'dup', 'swap'])
            if op == 'ins':
                fr.insert(rng.randrange(len(fr) + 1), rng.choice(alpha + ['gwa']))
            elif op == 'del' and fr:
                fr.pop(rng.randrange(len(fr)))
            elif op == 'dup' and fr:
                fr.insert(rng.randrange(len(fr) + 1), rng.choice(fr))
            elif op == 'swap' and len(fr) >= 2:
                i, j = rng.sample(range(len(fr)), 2)
                fr[i], fr[j] = fr[j], fr[i]
        lists.append(tuple(fr))
    lines, real = [], []
    for fr in lists:
        ok, _msg = JWSTWCSCorrector._check_wcs_structure(None, _FakeWCS(fr))
        real.append(bool(ok))
        lines.append('chkframes ' + (' '.join(fr) if fr else '-'))
    ok_none, _ = JWSTWCSCorrector._check_wcs_structure(None, None)
    case0 = {'op': 'chkframes', 'frames': None}
    ctx.case(case0, nontrivial=True, branch='frames:none')
    if ok_none:
        ctx.oracle_fail(case0, {'what': '_check_wcs_structure accepts None'})
    outs = ctx.driver(lines)
    for fr, r, out in zip(lists, real, outs):
        case = {'op': 'chkframes', 'frames': list(fr)}
        ctx.case(case, nontrivial=len(fr) >= 3, branch='frames:%s' % ('accepted' if r else 'rejected'))
        if out.strip() != ('1' if r else '0'):
            ctx.disagree(case, {'op': 'chkframes', 'model': out.strip(), 'impl': int(r)})


def run(ctx):
    for _ in range(ctx.n(60, 1500)):
        laws(ctx)
    lines, pend = [], []
    if not getattr(ctx, 'search_only', False):
        frame_structure_correspondence(ctx)
        for _ in range(ctx.n(20, 500)):
            history_case(ctx, lines, pend)
        outs = ctx.driver(lines)
        for out, (case, sim, real_chart, cb, frames, k) in zip(outs, pend):
            res = sim.parse(out)
            if res is None:
                ctx.disagree(case, {'op': 'gcorr' if sim.jwst else 'fcorr', 'model': out[:100], 'step': k})
                continue
            d = float(np.max(np.hypot(*(res['sky_chart'] - real_chart))))
            if not np.isfinite(d) or d > cb:
                ctx.disagree(case, {'op': 'gcorr' if sim.jwst else 'fcorr', 'step': k, 'max_diff': d, 'bound': cb})
            if sim.jwst:
                if frames != res['frames']:
                    ctx.disagree(case, {'op': 'gcorr', 'what': 'frames', 'step': k, 'model': res['frames'],
                                        'impl': frames})
                if not res['valid']:
                    ctx.disagree(case, {'op': 'gcorr', 'what': 'model says the pipeline is not valid', 'step': k})


REPLAY_BY_RERUN = True
