"""
C10 -- reported rotation, scale, skew and statistics agree with the fitted matrix.

Correspondence: the descriptive entries of the dictionary returned by the public
`tweakwcs.linearfit.iter_linear_fit` ('rot', '<rot>', 'scale', '<scale>', 'skew', 'proper',
'rmse', 'mae', 'std') and `linearfit.build_fit_matrix` against the Lean model
`TW.buildFit` / `TW.buildFitMatrixArgs` / `TW.computeStat` (Model/BuildFit.lean) evaluated on doubles
(ops `buildfit`, `buildmatrix`, `buildmatrix1`, `stats`, `resid`).  The model is fed the returned
fit['matrix'], fit['shift'], fit['resids'] and the weights of the retained points.

Oracle (plain numpy, no model code): the matrix rebuilt from the reported rot/scale equals
fit['matrix']; build_fit_matrix(rot, scale) equals fit['matrix']; skew = roty - rotx (mod 360) and
-180 <= skew <= 180; <scale> = sqrt|det|; <rot> = (rotx + roty)/2; proper iff det > 0; all angles
in [-180, 180]; scales > 0; rmse/mae/std recomputed from fit['resids'], the weights and fitmask;
fit['resids'] = xy - (F (uv - c) + s + c) on the retained points; for noise-free data made with
build_fit_matrix(rot0, scale0) the reported rot/scale are rot0/scale0 (mod 360) again.
"""
import math

import numpy as np

from ..common import f2x, x2f, num2s, s2num, to_fraction

ID = 'C10'
RULE = ('fits through iter_linear_fit of point sets mapped by matrices from all four rotation '
        'quadrants (and the exact axis angles), reflections about either axis, isotropic / '
        'anisotropic scales and skews, noise-free and noisy (with outliers and sigma clipping), all '
        'four fit geometries, four weight modes (none, wxy, wuv, both; zero weights included), given '
        'and default centre; plus exact small-integer corpus cases.  A case is non-trivial when the '
        "fit geometry is not 'shift' (the decomposition is computed, not constant); distinct = "
        'distinct generator seed / corpus entry')
ASSUMPTIONS = [
    'theorems are over the reals with arctan2 = Complex.arg; rounding in long double / double is '
    'outside the model and is bounded only by the 1e-9 correspondence tolerance',
    'the decomposition theorems assume det != 0 and a matrix of the shape the fitter of that geometry '
    "produces (any for 'general'; [[a,b],[-b,a]] or [[a,b],[b,-a]] for 'rscale'/'rshift'; identity for "
    "'shift'): proved for the models of the fitters (fitters_reachable)",
    'angles are compared modulo 360; <rot> and cases within 1e-9 deg of the +-180 wrap are skipped as '
    'near-ties (the sign of a zero decides between -180 and 180)',
    'NaN handling (np.sign(nan), empty residual lists) is outside the model',
]

TOL = 1e-9
GEOMS = ['shift', 'rshift', 'rscale', 'general']
WMODES = ['none', 'wxy', 'wuv', 'both']


# ---------------------------------------------------------------------------
# small helpers (oracle side: plain numpy / math only)
# ---------------------------------------------------------------------------
def circ(a, b):
    """circular distance of two angles in degrees"""
    d = math.fmod(a - b, 360.0)
    if d > 180.0:
        d -= 360.0
    elif d < -180.0:
        d += 360.0
    return abs(d)


def near_wrap(a):
    return abs(abs(a) - 180.0) < 1e-9


def rebuild(rot, scale):
    rx, ry = (math.radians(float(t)) for t in rot)
    sx, sy = (float(t) for t in scale)
    return np.array([[sx * math.cos(rx), sy * math.sin(ry)],
                     [-sx * math.sin(rx), sy * math.cos(ry)]])


def combined_weights(wxy, wuv, mask):
    """the weights the fit uses on the retained points (independent of the package)"""
    if wxy is None and wuv is None:
        return None
    if wxy is None:
        return np.asarray(wuv, dtype=float)[mask]
    if wuv is None:
        return np.asarray(wxy, dtype=float)[mask]
    a = np.asarray(wxy, dtype=float)[mask]
    b = np.asarray(wuv, dtype=float)[mask]
    return 1.0 / (1.0 / a + 1.0 / b)


def recompute_stats(res, w):
    """rmse, mae, std from residuals (n, 2) and un-normalised weights (or None)"""
    res = np.asarray(res, dtype=float)
    n = len(res)
    r2 = res[:, 0] ** 2 + res[:, 1] ** 2
    nr = np.hypot(res[:, 0], res[:, 1])
    if w is None:
        rmse = math.sqrt(math.fsum(r2) / n)
        mae = math.fsum(nr) / n
        std = math.sqrt(np.var(res[:, 0]) + np.var(res[:, 1]))
        return rmse, mae, std
    w = np.asarray(w, dtype=float)
    w = w / math.fsum(w)
    rmse = math.sqrt(math.fsum(w * r2))
    mae = math.fsum(w * nr)
    if n == 1:
        return rmse, mae, 0.0
    m = np.array([math.fsum(w * res[:, 0]), math.fsum(w * res[:, 1])])
    d2 = (res[:, 0] - m[0]) ** 2 + (res[:, 1] - m[1]) ** 2
    std = math.sqrt(math.fsum(w * d2) / (1.0 - math.fsum(w * w)))
    return rmse, mae, std


def close(a, b, scale=0.0):
    a = float(a)
    b = float(b)
    if a != a or b != b:
        return False
    return abs(a - b) <= TOL * max(abs(a), abs(b)) + TOL * scale


# ---------------------------------------------------------------------------
# generators
# ---------------------------------------------------------------------------
def gen_params(rng):
    """everything that defines one generated case, drawn from `rng` (a random.Random)"""
    q = rng.randrange(4)
    akind = rng.choice(['inner', 'inner', 'inner', 'axis', 'nearwrap'])
    if akind == 'inner':
        theta = 90.0 * q + rng.uniform(3.0, 87.0)
    elif akind == 'axis':
        theta = 90.0 * q
    else:
        theta = 180.0 + rng.choice([-1, 1]) * 10.0 ** rng.uniform(-6, -1)
    if theta > 180.0:
        theta -= 360.0
    refl = rng.choice(['none', 'none', 'x', 'y'])
    skind = rng.choice(['unit', 'iso', 'aniso', 'aniso'])
    if skind == 'unit':
        sx = sy = 1.0
    elif skind == 'iso':
        sx = sy = rng.choice([rng.uniform(0.2, 5.0), 10.0 ** rng.uniform(-3, 3)])
    else:
        sx = rng.uniform(0.2, 5.0)
        sy = rng.uniform(0.2, 5.0)
    skew = rng.choice([0.0, 0.0, rng.uniform(-60.0, 60.0), rng.uniform(-5.0, 5.0)])
    geom = rng.choice(['shift', 'rshift', 'rshift', 'rscale', 'rscale', 'general', 'general', 'general'])
    wmode = rng.choice(WMODES)
    noise = rng.choice([0.0, 0.0, 10.0 ** rng.uniform(-4, -0.3)])
    return {
        'theta': theta, 'quadrant': q, 'akind': akind, 'refl': refl, 'skind': skind,
        'sx': sx, 'sy': sy, 'skew': skew, 'geom': geom, 'wmode': wmode, 'noise': noise,
        'n': rng.randint(4, 40),
        'outliers': rng.choice([0, 0, 1, 3]) if noise > 0 else 0,
        'zero_w': rng.choice([0, 0, 1, 2]),
        'center': rng.choice([None, None, 'given']),
        'nclip': rng.choice([0, 3, 3]),
        'sigstat': rng.choice(['rmse', 'mae', 'std']),
        'nsigma': rng.choice([2.0, 3.0, 3.0]),
        'field': rng.choice([1.0, 500.0, 500.0, 4000.0]),
        'npseed': rng.getrandbits(32),
    }


def gen_matrix(par):
    """generating matrix (plain numpy trigonometry)"""
    rx = math.radians(par['theta'])
    ry = math.radians(par['theta'] + par['skew'])
    m = np.array([[par['sx'] * math.cos(rx), par['sy'] * math.sin(ry)],
                  [-par['sx'] * math.sin(rx), par['sy'] * math.cos(ry)]])
    if par['refl'] == 'x':      # reflection about the x axis after the map
        m = np.dot(np.diag([1.0, -1.0]), m)
    elif par['refl'] == 'y':
        m = np.dot(np.diag([-1.0, 1.0]), m)
    return m


def gen_data(par):
    g = np.random.default_rng(par['npseed'])
    n = par['n']
    f = par['field']
    off = g.uniform(-2.0, 2.0, size=2) * f
    uv = g.uniform(-f, f, size=(n, 2)) + off
    m = gen_matrix(par)
    shift = g.uniform(-3.0, 3.0, size=2)
    c0 = uv.mean(axis=0)
    xy = np.dot(uv - c0, m.T) + c0 + shift
    if par['noise'] > 0:
        xy = xy + g.normal(0.0, par['noise'], size=(n, 2))
    for k in range(par['outliers']):
        xy[g.integers(n)] += g.choice([-1.0, 1.0], size=2) * par['noise'] * g.uniform(20, 60)
    wxy = wuv = None
    if par['wmode'] in ('wxy', 'both'):
        wxy = g.uniform(0.1, 2.0, size=n)
    if par['wmode'] in ('wuv', 'both'):
        wuv = g.uniform(0.1, 2.0, size=n)
    for k in range(par['zero_w']):
        for w in (wxy, wuv):
            if w is not None and g.uniform() < 0.7 and np.count_nonzero(w) > 6:
                w[g.integers(n)] = 0.0
    center = None
    if par['center'] == 'given':
        center = (c0 + g.uniform(-0.3, 0.3, size=2) * f).tolist()
    return uv, xy, wxy, wuv, center


def _rot(deg):
    c = {0: (1.0, 0.0), 90: (0.0, 1.0), 180: (-1.0, 0.0), 270: (0.0, -1.0)}[deg]
    return np.array([[c[0], c[1]], [-c[1], c[0]]])


_GRID = [[0, 0], [1, 0], [0, 1], [2, 3], [-3, 1], [4, -2], [-1, -4], [5, 5]]

# hand-built exact cases (small integers; every fit reproduces the matrix exactly or nearly so):
# (name, matrix, shift)
CORPUS = [
    ('identity', np.eye(2), [0.0, 0.0]),
    ('rot90', _rot(90), [1.0, -2.0]),
    ('rot180', _rot(180), [0.0, 0.0]),
    ('rot270', _rot(270), [3.0, 0.0]),
    ('flip-x', np.diag([1.0, -1.0]), [0.0, 0.0]),
    ('flip-y', np.diag([-1.0, 1.0]), [0.0, 1.0]),
    ('swap', np.array([[0.0, 1.0], [1.0, 0.0]]), [0.0, 0.0]),
    ('antiswap', np.array([[0.0, -1.0], [-1.0, 0.0]]), [0.0, 0.0]),
    ('diag23', np.diag([2.0, 3.0]), [0.0, 0.0]),
    ('diag-2-3', np.diag([-2.0, -3.0]), [0.0, 0.0]),
    ('shear', np.array([[1.0, 1.0], [0.0, 1.0]]), [0.0, 0.0]),
    ('shear-flip', np.array([[1.0, 2.0], [0.0, -1.0]]), [0.0, 0.0]),
    ('rot180x2', 2.0 * _rot(180), [0.0, 0.0]),
    ('3-4-5', np.array([[3.0, 4.0], [-4.0, 3.0]]), [0.0, 0.0]),
    ('3-4-5-flip', np.array([[3.0, 4.0], [4.0, -3.0]]), [0.0, 0.0]),
]


def corpus_cases():
    for name, m, s in CORPUS:
        for geom in GEOMS:
            for wmode in ('none', 'wxy'):
                uv = np.array(_GRID, dtype=float)
                xy = np.dot(uv, np.asarray(m).T) + np.asarray(s)
                wxy = np.array([1.0, 2.0, 1.0, 0.5, 1.0, 4.0, 1.0, 2.0]) if wmode == 'wxy' else None
                case = {'kind': 'corpus', 'name': name, 'geom': geom, 'wmode': wmode}
                yield case, dict(uv=uv, xy=xy, wxy=wxy, wuv=None, center=[0.0, 0.0], geom=geom,
                                 nclip=0, sigma=(3.0, 'rmse'), truth=None)


def generated_case(seed):
    import random
    rng = random.Random(seed)
    par = gen_params(rng)
    uv, xy, wxy, wuv, center = gen_data(par)
    truth = None
    if par['noise'] == 0 and par['refl'] == 'none':
        if par['geom'] == 'general':
            truth = ((par['theta'], par['theta'] + par['skew']), (par['sx'], par['sy']))
        elif par['geom'] == 'rscale' and par['skew'] == 0 and par['sx'] == par['sy']:
            truth = ((par['theta'], par['theta']), (par['sx'], par['sy']))
    case = {'kind': 'generated', 'gen_seed': seed, 'params': par}
    return case, dict(uv=uv, xy=xy, wxy=wxy, wuv=wuv, center=center, geom=par['geom'],
                      nclip=par['nclip'], sigma=(par['nsigma'], par['sigstat']), truth=truth)


# ---------------------------------------------------------------------------
# one case: run the implementation, the oracle, and queue the model operations
# ---------------------------------------------------------------------------
def check_case(ctx, case, d, lines, pending):
    from tweakwcs import linearfit
    geom = d['geom']
    uv, xy, wxy, wuv, center = d['uv'], d['xy'], d['wxy'], d['wuv'], d['center']
    wmode = 'none' if wxy is None and wuv is None else 'both' if (wxy is not None and wuv is not None) \
        else 'wxy' if wxy is not None else 'wuv'
    try:
        fit = linearfit.iter_linear_fit(xy.copy(), uv.copy(),
                                        None if wxy is None else wxy.copy(),
                                        None if wuv is None else wuv.copy(),
                                        fitgeom=geom, center=center, nclip=d['nclip'], sigma=d['sigma'])
    except (linearfit.SingularMatrixError, linearfit.NotEnoughPointsError, ValueError) as e:
        ctx.case(case, nontrivial=False, branch='fit-raised:' + type(e).__name__)
        return
    par = case.get('params', {})
    ctx.case(case, nontrivial=(geom != 'shift'), branch='geom:%s' % geom)
    ctx.branch('wmode:%s' % wmode)
    if par:
        ctx.branch('quadrant:%d' % par['quadrant'])
        ctx.branch('refl:%s' % par['refl'])
        ctx.branch('scale:%s' % par['skind'])
        ctx.branch('skew:%s' % ('zero' if par['skew'] == 0 else 'nonzero'))
        ctx.branch('noise:%s' % ('none' if par['noise'] == 0 else 'noisy'))
        ctx.branch('angle:%s' % par['akind'])
    else:
        ctx.branch('corpus')

    inp = {'fitgeom': geom, 'uv': uv.tolist(), 'xy': xy.tolist(),
           'wxy': None if wxy is None else wxy.tolist(), 'wuv': None if wuv is None else wuv.tolist(),
           'center': center, 'nclip': d['nclip'], 'sigma': list(d['sigma'])}

    def bad(what, **kw):
        det = {'what': what}
        det.update(kw)
        det['iter_linear_fit_input'] = inp
        ctx.oracle_fail(case, det)

    needed = ['matrix', 'shift', 'rot', '<rot>', 'scale', '<scale>', 'skew', 'proper', 'rmse', 'mae',
              'std', 'resids', 'fitmask', 'center']
    missing = [k for k in needed if k not in fit]
    if missing:
        bad('fit dictionary lacks keys', missing=missing)
        return
    M = np.array(fit['matrix'], dtype=float)
    s = np.array(fit['shift'], dtype=float)
    try:
        rx, ry = (float(t) for t in fit['rot'])
        sx, sy = (float(t) for t in fit['scale'])
    except (TypeError, ValueError):
        bad("fit['rot'] / fit['scale'] are not pairs", rot=repr(fit['rot']), scale=repr(fit['scale']))
        return
    mrot = float(fit['<rot>'])
    mscale = float(fit['<scale>'])
    skew = float(fit['skew'])
    proper = bool(fit['proper'])
    mask = np.asarray(fit['fitmask'], dtype=bool)
    res = np.asarray(fit['resids'], dtype=float)
    c = np.asarray(fit['center'], dtype=float)
    det = M[0, 0] * M[1, 1] - M[0, 1] * M[1, 0]
    mag = float(np.max(np.abs(M))) or 1.0
    ctx.branch('proper' if proper else 'improper')
    if np.count_nonzero(mask) < len(mask):
        ctx.branch('clipped-or-zero-weight')
    vals = [rx, ry, sx, sy, mrot, mscale, skew, fit['rmse'], fit['mae'], fit['std']]
    if not all(np.isfinite(v) for v in vals) or not np.all(np.isfinite(M)):
        bad('non-finite reported quantity', values=[float(v) for v in vals])
        return
    illcond = abs(det) < 1e-6 * mag * mag
    if illcond:
        ctx.near_tie()
        ctx.branch('near-singular-skipped')

    # ---- property oracle ------------------------------------------------
    if not illcond:
        R = rebuild((rx, ry), (sx, sy))
        err = float(np.max(np.abs(R - M)))
        if err > TOL * mag:
            bad('matrix rebuilt from reported rot/scale differs from fit[matrix]', err=err,
                matrix=M.tolist(), rebuilt=R.tolist(), rot=[rx, ry], scale=[sx, sy])
        B = np.asarray(linearfit.build_fit_matrix(fit['rot'], fit['scale']), dtype=float)
        err = float(np.max(np.abs(B - M)))
        if B.shape != (2, 2) or err > TOL * mag:
            bad('build_fit_matrix(rot, scale) differs from fit[matrix]', err=err, matrix=M.tolist(),
                built=B.tolist())
        if circ(skew, ry - rx) > TOL:
            bad('skew is not roty - rotx modulo 360', skew=skew, rot=[rx, ry])
        if not close(mscale, math.sqrt(abs(det))):
            bad('<scale> is not sqrt|det|', mean_scale=mscale, det=det)
        if proper != (det > 0):
            bad('proper is not (det > 0)', proper=proper, det=det)
    if not (-180.0 <= skew <= 180.0):
        bad('skew outside [-180, 180]', skew=skew)
    if abs(mrot - 0.5 * (rx + ry)) > TOL:
        bad('<rot> is not the mean of rotx and roty', mean_rot=mrot, rot=[rx, ry])
    for nm, a in (('rotx', rx), ('roty', ry), ('<rot>', mrot)):
        if not (-180.0 <= a <= 180.0):
            bad('angle outside [-180, 180]', which=nm, value=a)
    if not (sx > 0 and sy > 0 and mscale > 0):
        bad('non-positive scale', scale=[sx, sy], mean_scale=mscale)

    # statistics from the reported residuals, weights and fitmask
    w = combined_weights(wxy, wuv, mask)
    nret = int(np.count_nonzero(mask))
    rscale = float(np.max(np.abs(res))) if res.size else 0.0
    if res.shape != (nret, 2):
        bad('resids does not have one row per retained point', shape=list(res.shape), retained=nret)
        return
    stat_ok = True
    if w is not None and nret > 1:
        wn = w / w.sum()
        if 1.0 - float(np.sum(wn * wn)) < 1e-6:
            stat_ok = False
            ctx.near_tie()
    e_rmse, e_mae, e_std = recompute_stats(res, w)
    for nm, got, exp in (('rmse', fit['rmse'], e_rmse), ('mae', fit['mae'], e_mae), ('std', fit['std'], e_std)):
        if nm == 'std' and not stat_ok:
            continue
        if not close(got, exp, rscale):
            bad('%s is not recomputable from resids and weights' % nm, reported=float(got), recomputed=exp,
                wmode=wmode, retained=nret)

    # residual identity on the retained points
    pos = max(1.0, float(np.max(np.abs(xy))), float(np.max(np.abs(uv))))
    expect = xy[mask] - (np.dot(uv[mask] - c, M.T) + s + c)
    err = float(np.max(np.abs(expect - res))) if nret else 0.0
    if err > TOL * pos * mag:
        bad('resids differ from xy - (F (uv - c) + s + c) on the retained points', err=err)
    s_eff = s + c - np.dot(M, c)
    expect2 = xy[mask] - (np.dot(uv[mask], M.T) + s_eff)
    err = float(np.max(np.abs(expect2 - res))) if nret else 0.0
    if err > 10 * TOL * pos * mag:
        bad('resids differ from xy - (F uv + s_eff)', err=err)

    # ground truth by construction: noise-free data made with build_fit_matrix-like parameters
    truth = d.get('truth')
    determined = False
    if truth is not None and not illcond and nret >= 4:
        # the fit must be determined by the retained points: sigma clipping of noise-free data acts on
        # rounding noise and may leave two (or nearly collinear) points, which a reflection fits as well
        sv = np.linalg.svd(uv[mask] - uv[mask].mean(axis=0), compute_uv=False)
        determined = bool(sv[0] > 0 and sv[1] / sv[0] > 0.05)
    if determined:
        (trx, tr_y), (tsx, tsy) = truth
        if circ(rx, trx) > 1e-7 or circ(ry, tr_y) > 1e-7:
            bad('noise-free fit does not return the generating angles', rot=[rx, ry], truth=[trx, tr_y])
        if not (abs(sx - tsx) <= 1e-8 * tsx and abs(sy - tsy) <= 1e-8 * tsy):
            bad('noise-free fit does not return the generating scales', scale=[sx, sy], truth=[tsx, tsy])
        ctx.branch('ground-truth-checked')

    if ctx.search_only:
        return
    # ---- model operations -------------------------------------------------
    lines.append('buildfit F %s %s' % (geom, ' '.join(f2x(v) for v in (M[0, 0], M[0, 1], s[0], M[1, 0], M[1, 1], s[1]))))
    pending.append(('buildfit', case, dict(proper=proper, rot=mrot, rx=rx, ry=ry, s=mscale, sx=sx, sy=sy,
                                           skew=skew, illcond=illcond, det=det, mag=mag,
                                           matrix=M.tolist(), shift=s.tolist(), inp=inp)))
    B = np.asarray(linearfit.build_fit_matrix((rx, ry), (sx, sy)), dtype=float)
    lines.append('buildmatrix F %s' % ' '.join(f2x(v) for v in (rx, ry, sx, sy)))
    pending.append(('buildmatrix', case, dict(m=B.ravel().tolist(), mag=max(sx, sy))))
    B1 = np.asarray(linearfit.build_fit_matrix(mrot, mscale), dtype=float)
    lines.append('buildmatrix1 F %s' % ' '.join(f2x(v) for v in (mrot, mscale)))
    pending.append(('buildmatrix1', case, dict(m=B1.ravel().tolist(), mag=mscale)))
    flat = ' '.join(f2x(v) for v in res.ravel())
    if wmode == 'none':
        lines.append('stats F none %d %s' % (nret, flat))
    elif wmode == 'both':
        lines.append('stats F ww %d %s %s %s' % (nret, flat, ' '.join(f2x(v) for v in np.asarray(wxy)[mask]),
                                                 ' '.join(f2x(v) for v in np.asarray(wuv)[mask])))
    else:
        ww = wxy if wxy is not None else wuv
        lines.append('stats F w %d %s %s' % (nret, flat, ' '.join(f2x(v) for v in np.asarray(ww)[mask])))
    pending.append(('stats', case, dict(rmse=float(fit['rmse']), mae=float(fit['mae']), std=float(fit['std']),
                                        rscale=rscale, stat_ok=stat_ok, wmode=wmode, inp=inp,
                                        resids=res.tolist())))
    if nret:
        k = int(par.get('npseed', 0)) % nret
        idx = int(np.flatnonzero(mask)[k])
        vals = (M[0, 0], M[0, 1], M[1, 0], M[1, 1], s[0], s[1], c[0], c[1], xy[idx, 0], xy[idx, 1],
                uv[idx, 0], uv[idx, 1])
        mode = 'Q' if case.get('kind') == 'corpus' else 'F'
        lines.append('resid %s %s' % (mode, ' '.join(num2s(float(v) if mode == 'F' else to_fraction(v), mode)
                                                       for v in vals)))
        pending.append(('resid', case, dict(mode=mode, r=res[k].tolist(), s_eff=s_eff.tolist(), row=idx,
                                            tol=TOL * pos * mag, inp=inp)))


def compare(ctx, outs, pending):
    for out, (op, case, e) in zip(outs, pending):
        toks = out.split()
        if not toks or toks[0] != 'ok':
            ctx.disagree(case, {'op': op, 'model': out[:120], 'impl': e})
            continue
        if op == 'buildfit':
            mproper = toks[1] == '1'
            rot, rx, ry, s, sx, sy, skew = (x2f(t) for t in toks[2:9])
            diffs = {}
            if e['illcond']:
                continue
            if mproper != e['proper']:
                diffs['proper'] = [mproper, e['proper']]
            for nm, a, b in (('rotx', rx, e['rx']), ('roty', ry, e['ry']), ('skew', skew, e['skew'])):
                if circ(a, b) > TOL:
                    diffs[nm] = [a, b]
            # the wrapped value itself (not only its class modulo 360) away from the +-180 ends
            if not near_wrap(skew) and not near_wrap(e['skew']) and abs(skew - e['skew']) > TOL:
                diffs['skew'] = [skew, e['skew']]
            if any(near_wrap(a) for a in (rx, ry, e['rx'], e['ry'])):
                ctx.near_tie()
                ctx.branch('wrap-boundary-<rot>-skipped')
            elif abs(rot - e['rot']) > TOL:
                diffs['<rot>'] = [rot, e['rot']]
            for nm, a, b in (('<scale>', s, e['s']), ('sx', sx, e['sx']), ('sy', sy, e['sy'])):
                if not close(a, b):
                    diffs[nm] = [a, b]
            if diffs:
                ctx.disagree(case, {'op': op, 'model_vs_impl': diffs, 'fitgeom': case.get('geom') or
                                    case.get('params', {}).get('geom'), 'matrix': e.get('matrix'),
                                    'shift': e.get('shift'), 'iter_linear_fit_input': e.get('inp')})
        elif op in ('buildmatrix', 'buildmatrix1'):
            m = [x2f(t) for t in toks[1:5]]
            err = max(abs(a - b) for a, b in zip(m, e['m']))
            if not err <= TOL * max(1.0, e['mag']):
                ctx.disagree(case, {'op': op, 'model': m, 'impl': e['m'], 'err': err})
        elif op == 'resid':
            v = [float(s2num(t, e['mode'])) for t in toks[1:5]]
            err = max(abs(v[0] - e['r'][0]), abs(v[1] - e['r'][1]))
            err2 = max(abs(v[2] - e['s_eff'][0]), abs(v[3] - e['s_eff'][1]))
            if not (err <= e['tol'] and err2 <= 10 * e['tol']):
                ctx.disagree(case, {'op': op, 'row': e['row'], 'model_residual': v[:2], 'impl_residual': e['r'],
                                    'model_s_eff': v[2:], 'err': err, 'iter_linear_fit_input': e['inp']})
        elif op == 'stats':
            rmse, mae, std = (x2f(t) for t in toks[1:4])
            diffs = {}
            for nm, a, b in (('rmse', rmse, e['rmse']), ('mae', mae, e['mae']), ('std', std, e['std'])):
                if nm == 'std' and not e['stat_ok']:
                    continue
                if not close(a, b, e['rscale']):
                    diffs[nm] = [a, b]
            if diffs:
                ctx.disagree(case, {'op': op, 'wmode': e['wmode'], 'model_vs_impl': diffs,
                                    'resids': e['resids'], 'iter_linear_fit_input': e['inp']})


# ---------------------------------------------------------------------------
# probes of the anchored private function on exact wrap-boundary matrices (when it exists)
# ---------------------------------------------------------------------------
def direct_build_fit(ctx, lines, pending):
    from tweakwcs import linearfit
    bf = getattr(linearfit, '_build_fit', None)
    if bf is None:
        ctx.note('linearfit._build_fit not present: direct probes skipped')
        return
    for name, m, s in CORPUS:
        for geom in ('general', 'rscale', 'rshift'):
            conformal = (m[0, 0] == m[1, 1] and m[0, 1] == -m[1, 0]) or (m[0, 0] == -m[1, 1] and m[0, 1] == m[1, 0])
            if geom != 'general' and not conformal:
                continue
            p = np.array([m[0, 0], m[0, 1], s[0]], dtype=np.longdouble)
            q = np.array([m[1, 0], m[1, 1], s[1]], dtype=np.longdouble)
            try:
                fit = bf(p, q, geom)
            except Exception as e:  # the private signature changed: not a verdict
                ctx.note('direct _build_fit probe skipped: %s' % type(e).__name__)
                return
            case = {'kind': 'direct', 'name': name, 'geom': geom}
            ctx.case(case, nontrivial=True, branch='direct:%s' % geom)
            rx, ry = (float(t) for t in fit['rot'])
            sx, sy = (float(t) for t in fit['scale'])
            R = rebuild((rx, ry), (sx, sy))
            if float(np.max(np.abs(R - np.asarray(m)))) > TOL * max(1.0, float(np.max(np.abs(m)))):
                ctx.oracle_fail(case, {'what': '_build_fit: rebuilt matrix differs', 'matrix': np.asarray(m).tolist(),
                                       'rot': [rx, ry], 'scale': [sx, sy]})
            if ctx.search_only:
                continue
            det = m[0, 0] * m[1, 1] - m[0, 1] * m[1, 0]
            lines.append('buildfit F %s %s' % (geom, ' '.join(f2x(v) for v in (m[0, 0], m[0, 1], s[0], m[1, 0], m[1, 1], s[1]))))
            pending.append(('buildfit', case, dict(proper=bool(fit['proper']), rot=float(fit['<rot>']), rx=rx, ry=ry,
                                                   s=float(fit['<scale>']), sx=sx, sy=sy, skew=float(fit['skew']),
                                                   illcond=False, det=det, mag=1.0)))


def fit_info_cases(ctx, count):
    """the descriptive quantities as a USER sees them: meta['fit_info'] assembled by WCSGroupCatalog.align_to_ref
    (through fit_wcs / align_wcs) must describe fit_info['matrix'] exactly as the fit dictionary does - proper and
    improper fits, angles on both sides of the +-180 cut, anisotropic scales"""
    from astropy.table import Table
    from astropy import wcs as fitswcs
    from tweakwcs import FITSWCSCorrector, fit_wcs, align_wcs
    rng = ctx.rng
    fixed = [((10.0, 10.0), (1.0, 1.0)), ((175.0, -170.0), (1.0, 1.02)), ((40.0, 220.0), (1.0, 1.0)),
             ((-130.0, 50.0), (0.99, 0.99)), ((179.5, 179.9), (1.01, 0.98)), ((-179.8, -179.0), (1.0, 1.0)),
             ((90.0, -90.0), (1.0, 1.0)), ((0.0, 180.0), (1.0, 1.0))]
    for it in range(count):
        if it < len(fixed):
            (rx0, ry0), (sx0, sy0) = fixed[it]
            geom = 'general'
        else:
            geom = rng.choice(['general', 'general', 'rscale', 'rshift'])
            rx0 = rng.choice([rng.uniform(-180, 180), 179.0, -179.5, 90.0, -90.0, 0.3])
            if geom == 'general':
                ry0 = rx0 + rng.choice([0.0, rng.uniform(-8, 8), 180.0, 180.0 + rng.uniform(-5, 5), 15.0])
                sx0, sy0 = rng.uniform(0.9, 1.1), rng.uniform(0.9, 1.1)
            else:
                ry0 = rx0 + rng.choice([0.0, 180.0])
                sx0 = sy0 = 1.0 if geom == 'rshift' else rng.uniform(0.9, 1.1)
        A = rebuild((rx0, ry0), (sx0, sy0))
        t = np.array([rng.uniform(-3, 3), rng.uniform(-3, 3)])
        w = fitswcs.WCS(naxis=2)
        w.wcs.crpix = [500.0, 520.0]
        w.wcs.crval = [rng.uniform(0, 360), rng.uniform(-70, 70)]
        w.wcs.cd = np.array([[-1.0, 0.0], [0.0, 1.0]]) * 2e-5
        w.wcs.ctype = ['RA---TAN', 'DEC--TAN']
        w.pixel_shape = (1024, 1024)
        w.wcs.set()
        c = FITSWCSCorrector(w)
        n = rng.choice([4, 7, 20])
        npr = np.random.default_rng(rng.getrandbits(32))
        x = npr.uniform(150, 850, n)
        y = npr.uniform(150, 850, n)
        tx, ty = c.det_to_tanp(x, y)
        r = A.dot(np.vstack([tx, ty])) + t[:, None]
        ra, dec = c.tanp_to_world(r[0], r[1])
        imcat = Table([x, y], names=('x', 'y'))
        refcat = Table([np.asarray(ra, dtype=float), np.asarray(dec, dtype=float)], names=('RA', 'DEC'))
        entry = rng.choice(['fit_wcs', 'align_wcs'])
        case = {'kind': 'fit_info', 'geom': geom, 'rot': [rx0, ry0], 'scale': [sx0, sy0], 'entry': entry, 'n': int(n)}
        ctx.case(case, nontrivial=True, branch='fit_info:%s:%s' % (geom, 'improper' if np.linalg.det(A) < 0 else 'proper'))
        try:
            if entry == 'fit_wcs':
                c = fit_wcs(refcat, imcat, c, fitgeom=geom)
            else:
                c.meta['catalog'] = imcat
                align_wcs(c, refcat=refcat, fitgeom=geom, match=None)
            fi = c.meta['fit_info']
        except Exception as e:   # noqa
            ctx.oracle_fail(case, {'what': 'alignment raised', 'exc': repr(e)[:200]})
            continue
        if fi.get('status') != 'SUCCESS':
            ctx.oracle_fail(case, {'what': 'status is not SUCCESS', 'status': fi.get('status')})
            continue

        def bad(what, **kw):
            det_ = {'what': "fit_info: " + what}
            det_.update(kw)
            ctx.oracle_fail(case, det_)
        M = np.array(fi['matrix'], dtype=float)
        rx, ry = (float(v) for v in fi['rot'])
        sx, sy = (float(v) for v in fi['scale'])
        mrot, mscale, skew, proper = float(fi['<rot>']), float(fi['<scale>']), float(fi['skew']), bool(fi['proper'])
        det = M[0, 0] * M[1, 1] - M[0, 1] * M[1, 0]
        mag = float(np.max(np.abs(M))) or 1.0
        if float(np.max(np.abs(rebuild((rx, ry), (sx, sy)) - M))) > 1e-7 * mag:
            bad('matrix rebuilt from reported rot/scale differs from the reported matrix', rot=[rx, ry], scale=[sx, sy],
                matrix=M.tolist())
        if circ(skew, ry - rx) > 1e-7:
            bad('skew is not roty - rotx modulo 360', skew=skew, rot=[rx, ry])
        if abs(mrot - 0.5 * (rx + ry)) > 1e-7:
            bad('<rot> is not the mean of rotx and roty', mean_rot=mrot, rot=[rx, ry])
        if abs(mscale - math.sqrt(abs(det))) > 1e-7 * mag:
            bad('<scale> is not sqrt|det|', mean_scale=mscale, det=det)
        if proper != (det > 0):
            bad('proper is not (det > 0)', proper=proper, det=det)
        if 'proper_rot' in fi and proper and geom in ('rscale', 'rshift') and circ(float(fi['proper_rot']), mrot) > 1e-7:
            bad('proper_rot differs from <rot> for a proper similarity', proper_rot=float(fi['proper_rot']), mean_rot=mrot)
        for nm, a in (('rotx', rx), ('roty', ry), ('<rot>', mrot), ('skew', skew)):
            if not (-180.0 <= a <= 180.0):
                bad('angle outside [-180, 180]', which=nm, value=a)
        # the decomposition must also be the one of the generating map (noise-free data, determined fit)
        if float(np.max(np.abs(M - A))) > 1e-6:
            bad('reported matrix is not the generating one', matrix=M.tolist(), truth=A.tolist())


def build_matrix_forms(ctx, count):
    """build_fit_matrix accepts the rotation and the scale each as a scalar or as a pair: all four combinations must
    give the matrix of the decomposition (a scalar stands for the pair of equal values)"""
    from tweakwcs import linearfit
    rng = ctx.rng
    fixed = [(30.0, 30.0, 1.2, 0.8), (-170.0, -170.0, 0.5, 2.0), (90.0, 90.0, 1.0, 3.0), (10.0, 25.0, 1.1, 1.1),
             (179.0, -179.0, 0.9, 0.9), (0.0, 0.0, 2.0, 0.25)]
    for it in range(count):
        if it < len(fixed):
            rx, ry, sx, sy = fixed[it]
        else:
            rx = rng.uniform(-180, 180)
            ry = rx if rng.random() < 0.5 else rx + rng.uniform(-20, 20)
            sx = rng.uniform(0.2, 3.0)
            sy = sx if rng.random() < 0.3 else rng.uniform(0.2, 3.0)
        forms = [('pair-pair', (rx, ry), (sx, sy), ((rx, ry), (sx, sy)))]
        if rx == ry:
            forms.append(('scalar-pair', rx, (sx, sy), ((rx, rx), (sx, sy))))
        if sx == sy:
            forms.append(('pair-scalar', (rx, ry), sx, ((rx, ry), (sx, sx))))
        if rx == ry and sx == sy:
            forms.append(('scalar-scalar', rx, sx, ((rx, rx), (sx, sx))))
        for name, rot, scale, (rr, ss) in forms:
            case = {'kind': 'build_matrix_form', 'form': name, 'rot': [rx, ry], 'scale': [sx, sy]}
            ctx.case(case, nontrivial=True, branch='build_fit_matrix:' + name)
            try:
                B = np.asarray(linearfit.build_fit_matrix(rot, scale), dtype=float)
            except Exception as e:   # noqa
                ctx.oracle_fail(case, {'what': 'build_fit_matrix raised', 'exc': repr(e)[:160]})
                continue
            R = rebuild(rr, ss)
            if B.shape != (2, 2) or float(np.max(np.abs(B - R))) > TOL * max(sx, sy):
                ctx.oracle_fail(case, {'what': 'build_fit_matrix(%s) is not the matrix of the decomposition' % name,
                                       'built': B.tolist(), 'expected': R.tolist()})


def run(ctx):
    lines, pending = [], []
    build_matrix_forms(ctx, ctx.n(60, 1000))
    for case, d in corpus_cases():
        check_case(ctx, case, d, lines, pending)
    direct_build_fit(ctx, lines, pending)
    fit_info_cases(ctx, ctx.n(40, 600))
    for _ in range(ctx.n(6000, 120000)):
        case, d = generated_case(ctx.rng.getrandbits(48))
        check_case(ctx, case, d, lines, pending)
    if not ctx.search_only:
        outs = ctx.driver(lines)
        compare(ctx, outs, pending)


def replay(ctx, payload):
    fi = payload.get('failing_input') or (payload.get('correspondence') or [None])[0]
    if not fi:
        print('nothing to replay: %s' % payload.get('broken'))
        return 1
    case = fi['case']
    lines, pending = [], []
    if case.get('kind') == 'generated':
        c2, d = generated_case(int(case['gen_seed']))
        check_case(ctx, c2, d, lines, pending)
    elif case.get('kind') == 'corpus':
        for c2, d in corpus_cases():
            if all(c2[k] == case.get(k) for k in ('name', 'geom', 'wmode')):
                check_case(ctx, c2, d, lines, pending)
    elif case.get('kind') == 'build_matrix_form':
        build_matrix_forms(ctx, 80)
    elif case.get('kind') == 'fit_info':
        # the fixed part of the family (proper / improper, both sides of the cut) and a fresh random part
        fit_info_cases(ctx, 60)
    else:
        direct_build_fit(ctx, lines, pending)
    compare(ctx, ctx.driver(lines), pending)
    bad = ctx.oracle_failures + ctx.disagreements
    for b in bad:
        print('STILL FAILS:', b['detail'])
    return 1 if bad else 0
