"""
C05 -- the alignment result is independent of the reference plane; groups move rigidly.

Scenario: a group of 1..4 real correctors (FITS and/or gWCS) with distinct tangent points,
orientations, scales (gWCS members with different V2/V3 reference points), each with its own
catalog; the group's true error is ONE affine map G expressed in the plane actually used for the
fit; align_wcs(group, refcat, ref_tpwcs=plane, match=None).
Oracle: (a) every member's sources land on the reference; (b) all members carry identical fit
results and, for arbitrary probe pixels, plane(new_i(p)) = M*plane(old_i(p)) + s with the SAME
reported (M, s); (c) the same alignment carried out in another plane (rotated / scaled / offset /
other corrector type) gives the same sky positions.  Deviations are bounded by the first-order
plane-to-plane term (correction size x tangent-point separation x field size) and are at rounding
level (gWCS) / second order (FITS) when all planes share the tangent point.
Correspondence: the corrector models fed with the reported (M, s) and the plane predict the chart
position of every member's probes.
"""
import math

import numpy as np
from astropy.table import Table

from .. import scenes, corrsim, alignsim
from ..scenes import Aff
from . import c01, c02

ID = 'C05'
RULE = ('group size 1..4 x member kinds/geometries (distinct tangent points up to ~40 arcsec apart) x reference plane '
        '(default copy of the first member / a member / a non-member; rotated, scaled, offset, other corrector type) '
        'x fitgeom x affine error; non-trivial = group of >= 2 members or an explicit reference plane; distinct = scenario')
ASSUMPTIONS = c02.ASSUMPTIONS + [
    'group rigidity and plane independence are theorems of the flat-sky model; on the sphere they hold up to the '
    'first-order plane-to-plane term the property states, which is the tolerance used here',
]


def mk_member(rng, base_pt, kind, spread):
    ra, dec = base_pt
    d = spread
    pt = ((ra + rng.uniform(-d, d) / max(0.2, math.cos(math.radians(dec)))) % 360.0,
          max(-89.0, min(89.0, dec + rng.uniform(-d, d))))
    if kind == 'jwst':
        return scenes.mk_jwst(rng, pointing=pt)
    return scenes.mk_fits(rng, kind=rng.choice(['cd', 'pc', 'sip', 'lut']), pointing=pt)


def pre_align(rng, c):
    """`c` after a real earlier alignment pass (fit_wcs to a slightly displaced reference): the corrector is
    corrected once more AND carries the meta['fit_info'] (centre of the fit, matrix, ...) that a corrector
    coming out of align_wcs carries - second passes and planes copied from aligned images look like this"""
    from tweakwcs.imalign import fit_wcs
    nx, ny = scenes.image_size(c)
    px, py = c01.nondegenerate_pixels(rng, nx, ny, 8)
    unit = c.tanp_center_pixel_scale if scenes.is_jwst(c) else 1.0
    g = c02.gen_corr(rng, unit, big=False)
    pl = c.copy()
    a_k = np.array(pl.world_to_tanp(*c.det_to_world(px, py)), dtype=float)
    r_k = g(a_k)
    ra, dec = pl.tanp_to_world(r_k[0], r_k[1])
    out = fit_wcs(Table([np.asarray(ra, dtype=float), np.asarray(dec, dtype=float)], names=['RA', 'DEC']),
                  Table([px, py], names=['x', 'y']), c.copy(), fitgeom='general', nclip=None, sigma=3.0)
    return out


def plane_bound(plane, member, c_applied_units, rho_member_rad, same_tp):
    """bound (in plane units) on deviations for one member"""
    punit = corrsim.plane_unit_rad(plane)
    rho = rho_member_rad / punit
    sep = corrsim.sky_sep_rad(plane, member)
    pjw = scenes.is_jwst(plane)
    base = (2e-7 if pjw else 2e-7 / (punit * corrsim.RAD2ARCSEC)) * max(1.0, c_applied_units * punit * corrsim.RAD2ARCSEC / 20.0)
    if not scenes.is_jwst(member):
        mrho = corrsim.field_radius_units(member)
        base += c02.fits_base(member, mrho) * corrsim.plane_unit_rad(member) / punit
        base += c02.fits_second_order(c_applied_units, rho + sep / punit, punit)
    b = base + c02.first_order(c_applied_units, sep, rho, punit)
    return b


def scenario(ctx, lines, pend):
    rng = ctx.rng
    from tweakwcs.imalign import align_wcs
    nmem = rng.choice([1, 2, 2, 3, 4])
    base_pt = scenes.rand_pointing(rng)
    if abs(base_pt[1]) > 80:
        base_pt = (base_pt[0], math.copysign(80.0, base_pt[1]))
    gk = rng.choice(['fits', 'jwst', 'mixed'])
    spread = rng.choice([0.0, 0.002, 0.01])
    members, infos = [], []
    for k in range(nmem):
        kind = gk if gk != 'mixed' else rng.choice(['fits', 'jwst'])
        m, info = mk_member(rng, base_pt, kind, spread)
        # members may come in already aligned once or twice (live object or re-wrapped WCS)
        hist = []
        unit_m = m.tanp_center_pixel_scale if scenes.is_jwst(m) else 1.0
        for _h in range(rng.choice([0, 0, 1, 2])):
            if rng.random() < 0.4:
                hist.append(('W',))
            hist.append(('S', c02.gen_corr(rng, unit_m, big=False)))
        if hist:
            m, _b = corrsim.apply_real(m, hist)
        aligned_before = rng.random() < 0.35
        if aligned_before:
            m = pre_align(rng, m)
        # ... and may then be handed over as a corrector freshly built from its corrected WCS (the state in which a
        # pipeline reloads an image between two alignment passes): nothing intervenes between the re-wrap and
        # the alignment
        rewrapped_last = bool(hist or aligned_before) and rng.random() < 0.35
        if rewrapped_last:
            m = scenes.rewrap(m)
            ctx.branch('member-rewrapped-just-before-alignment')
        info = dict(info, prior=[h[0] for h in hist] + (['aligned'] if aligned_before else []) +
                    (['W-last'] if rewrapped_last else []))
        members.append(m)
        infos.append(info)
    # reference plane
    pk = rng.choice(['default', 'member', 'nonmember', 'nonmember'])
    if pk == 'default':
        plane_arg = None
        plane = members[0].copy()
    elif pk == 'member':
        plane = members[rng.randrange(nmem)].copy()
        plane_arg = plane
    else:
        plane, pinfo = mk_member(rng, base_pt, rng.choice(['fits', 'jwst']), spread)
        if rng.random() < 0.35:
            plane = pre_align(rng, plane)
            pk = 'nonmember-aligned'
        plane_arg = plane
    fitgeom = rng.choice(['shift', 'rshift', 'rscale', 'general'])
    punit = plane.tanp_center_pixel_scale if scenes.is_jwst(plane) else 1.0
    big = rng.random() < 0.3
    G = c02.gen_corr(rng, punit, big)
    if fitgeom == 'shift':
        G = Aff(np.eye(2), G.t)
    elif fitgeom in ('rshift', 'rscale'):
        a = math.radians(rng.uniform(-10, 10) if big else rng.uniform(-0.05, 0.05))
        sc = 1.0 if fitgeom == 'rshift' else 1 + (rng.uniform(-0.05, 0.05) if big else rng.uniform(-1e-3, 1e-3))
        G = Aff(sc * np.array([[math.cos(a), -math.sin(a)], [math.sin(a), math.cos(a)]]), G.t)
    # catalogs
    empty_member = rng.randrange(1, nmem) if (nmem >= 2 and rng.random() < 0.3) else -1
    cats, pix, allr = [], [], []
    for m in members:
        nx, ny = scenes.image_size(m)
        n = rng.choice([3, 5, 10, 25])
        if nmem >= 2 and len(cats) == empty_member:
            n = 0           # a chip with no detections still belongs to the group and moves with it
        px, py = c01.nondegenerate_pixels(rng, nx, ny, n) if n else (np.zeros(0), np.zeros(0))
        a_k = np.array(plane.world_to_tanp(*m.det_to_world(px, py)), dtype=float)
        r_k = G(a_k)
        pix.append((px, py))
        allr.append(r_k)
        cats.append(Table([px, py], names=['x', 'y']))
    R = np.hstack(allr)
    ra, dec = plane.tanp_to_world(R[0], R[1])
    refcat = Table([np.asarray(ra, dtype=float), np.asarray(dec, dtype=float)], names=['RA', 'DEC'])
    case = {'empty_member': empty_member, 'nmem': nmem, 'kinds': [i['kind'] for i in infos], 'plane': pk,
            'plane_kind': 'jwst' if scenes.is_jwst(plane) else 'fits', 'fitgeom': fitgeom, 'spread': spread,
            'G': [G.M.tolist(), G.t.tolist()], 'big': big, 'infos': infos}
    ctx.case(case, nontrivial=nmem >= 2 or pk != 'default', branch='%s:%s:n%d' % (gk, pk, nmem))

    # the group label is any hashable, falsy ones (0, '', (), False) included
    label_idx = rng.randrange(len(alignsim.LABEL_POOL))
    case['group_label'] = repr(alignsim.LABEL_POOL[label_idx])

    def run_align(plane_argument):
        ms = [m.copy() for m in members]
        for k, m in enumerate(ms):
            m.meta['catalog'] = cats[k].copy()
            m.meta['group_id'] = alignsim.LABEL_POOL[label_idx]
            m.meta['name'] = 'im%d' % k
        align_wcs(ms, refcat=refcat.copy(), ref_tpwcs=plane_argument, fitgeom=fitgeom, match=None,
                  nclip=None, sigma=3.0, minobj=None)
        return ms

    try:
        new = run_align(plane_arg)
    except Exception as e:
        ctx.oracle_fail(case, {'what': 'align_wcs raised', 'error': '%s: %s' % (type(e).__name__, str(e)[:200])})
        return
    fi0 = new[0].meta['fit_info']
    if any(m.meta['fit_info'].get('status') != 'SUCCESS' for m in new):
        ctx.oracle_fail(case, {'what': 'not all members SUCCESS', 'status': [m.meta['fit_info'].get('status') for m in new]})
        return
    M = np.array(fi0['matrix'], dtype=float)
    s = np.array(fi0['shift'], dtype=float)
    F = Aff(M, s)
    for m in new[1:]:
        fi = m.meta['fit_info']
        if not (np.array_equal(fi['matrix'], fi0['matrix']) and np.array_equal(fi['shift'], fi0['shift']) and
                fi['rmse'] == fi0['rmse']):
            ctx.oracle_fail(case, {'what': 'members of a group do not share identical fit results'})
    worst_ratio = 0.0
    for k, (old, nw) in enumerate(zip(members, new)):
        rho_rad = corrsim.field_radius_units(old) * corrsim.plane_unit_rad(old)
        csz = corrsim.corr_size_units(F, rho_rad / corrsim.plane_unit_rad(plane) +
                                      corrsim.sky_sep_rad(plane, old) / corrsim.plane_unit_rad(plane))
        b = plane_bound(plane, old, csz, rho_rad, spread == 0.0)
        px, py = pix[k]
        landed = np.array(plane.world_to_tanp(*nw.det_to_world(px, py)), dtype=float)
        err = float(np.max(np.hypot(*(landed - allr[k])))) if len(px) else 0.0
        # with several members at different tangent points the fit itself absorbs first-order terms:
        # the landing bound is the sum over members
        bl = b * (2 + nmem)
        if not np.isfinite(err) or err > bl:
            ctx.oracle_fail(case, {'what': 'member sources do not land on the reference', 'member': k, 'err': err,
                                   'bound': bl})
        qx, qy = scenes.probe_pixels(rng, old, 8)
        lhs = np.array(plane.world_to_tanp(*nw.det_to_world(qx, qy)), dtype=float)
        rhs = F(np.array(plane.world_to_tanp(*old.det_to_world(qx, qy)), dtype=float))
        e2 = float(np.max(np.hypot(*(lhs - rhs))))
        worst_ratio = max(worst_ratio, e2 / b)
        if not np.isfinite(e2) or e2 > b:
            ctx.oracle_fail(case, {'what': 'member not moved by the reported (matrix, shift) in the plane of the fit',
                                   'member': k, 'err': e2, 'bound': b})
    ctx.extra['worst_rigidity_ratio'] = max(ctx.extra.get('worst_rigidity_ratio', 0.0), worst_ratio)

    # (c) another plane: same tangent point as `plane`, rotated / scaled / other type
    # (a rotation / similarity family is closed under conjugation only by similarities: for rshift
    #  and rscale both planes must be conformal charts, i.e. gWCS tangent planes; FITS planes built
    #  here have skewed / non-square pixels)
    conformal_only = fitgeom in ('rshift', 'rscale')
    if rng.random() < 0.6 and (not conformal_only or scenes.is_jwst(plane)):
        ptp = tuple(np.array(plane.tanp_to_world(0.0, 0.0), dtype=float).ravel()) if scenes.is_jwst(plane) \
            else tuple(plane.wcs.wcs.crval)
        alt, _ = (scenes.mk_fits(rng, kind='cd', pointing=ptp) if (rng.random() < 0.5 and not conformal_only)
                  else scenes.mk_jwst(rng, pointing=ptp))
        try:
            new2 = run_align(alt)
        except Exception as e:
            ctx.oracle_fail(case, {'what': 'align_wcs raised with the alternative plane',
                                   'error': '%s: %s' % (type(e).__name__, str(e)[:200])})
            return
        ctx.branch('alt-plane')
        for k, (old, a1, a2) in enumerate(zip(members, new, new2)):
            if a2.meta['fit_info'].get('status') != 'SUCCESS':
                ctx.oracle_fail(case, {'what': 'alternative plane: not SUCCESS'})
                continue
            rho_rad = corrsim.field_radius_units(old) * corrsim.plane_unit_rad(old)
            csz = corrsim.corr_size_units(F, rho_rad / corrsim.plane_unit_rad(plane) +
                                          corrsim.sky_sep_rad(plane, old) / corrsim.plane_unit_rad(plane))
            b = plane_bound(plane, old, csz, rho_rad, False) * (3 + nmem)
            qx, qy = scenes.probe_pixels(rng, old, 8)
            p1 = np.array(plane.world_to_tanp(*a1.det_to_world(qx, qy)), dtype=float)
            p2 = np.array(plane.world_to_tanp(*a2.det_to_world(qx, qy)), dtype=float)
            e3 = float(np.max(np.hypot(*(p1 - p2))))
            if not np.isfinite(e3) or e3 > b:
                ctx.oracle_fail(case, {'what': 'result depends on the reference plane', 'member': k, 'err': e3,
                                       'bound': b, 'alt': 'jwst' if scenes.is_jwst(alt) else 'fits'})

    # ---- model -------------------------------------------------------------------------------
    if not getattr(ctx, 'search_only', False):
        for k, (old, nw) in enumerate(zip(members, new)):
            qx, qy = scenes.probe_pixels(rng, old, 5)
            sim = corrsim.Sim(old, qx, qy)
            line, _c = sim.line([('R', F, plane)])
            real_chart = sim.chart(*nw.det_to_world(qx, qy))
            rho = corrsim.field_radius_units(old)
            unit_rad = corrsim.plane_unit_rad(old)
            csz = corrsim.corr_size_units(F, rho * unit_rad / corrsim.plane_unit_rad(plane) +
                                          corrsim.sky_sep_rad(plane, old) / corrsim.plane_unit_rad(plane))
            cb = plane_bound(plane, old, csz, rho * unit_rad, False) * corrsim.plane_unit_rad(plane) / unit_rad * 2
            lines.append(line)
            pend.append((case, sim, real_chart, cb, k))


def shared_plane_scenario(ctx, force=None):
    """several images aligned in ONE align_wcs call in a user-supplied reference plane that is shared by all of
    them - a fresh corrector, or one of the inputs itself (it is then corrected in place between two images) -
    with and without expansion of the reference catalog: whatever the plane object goes through between two
    images, every image must land on the reference (the tangent-plane coordinates of the reference catalog belong
    to the plane as it is when they are used)"""
    rng = ctx.rng
    from tweakwcs.imalign import align_wcs
    base_pt = scenes.rand_pointing(rng)
    if abs(base_pt[1]) > 75:
        base_pt = (base_pt[0], math.copysign(75.0, base_pt[1]))
    nim = rng.choice([2, 3, 3])
    jw = rng.random() < 0.4             # all FITS or all mock JWST (one matcher-free call, match=None)
    if force is not None:
        nim, jw = 3, force[1]
    if jw:
        members = [scenes.mk_jwst(rng, pointing=base_pt)[0] for _ in range(nim)]
    else:
        members = [scenes.mk_fits(rng, kind=rng.choice(['cd', 'pc']), pointing=base_pt, scale=3e-5, shape=(1024, 1024))[0]
                   for _ in range(nim)]
    which = rng.choice(['member0', 'member-last', 'nonmember'])
    if force is not None:
        which = force[0]
    if which == 'nonmember':
        plane_obj = scenes.mk_jwst(rng, pointing=base_pt)[0] if jw else \
            scenes.mk_fits(rng, kind='cd', pointing=base_pt, scale=3e-5, shape=(1024, 1024))[0]
    else:
        plane_obj = members[0] if which == 'member0' else members[-1]
    plane0 = plane_obj.copy()           # the plane as it is before the call: the chart of the oracle
    fitgeom = rng.choice(['shift', 'general', 'rscale'])
    n = rng.choice([6, 12])
    # true positions in the chart; they must fall on every detector: a small central patch (100 pixels)
    pu = float(plane0.tanp_center_pixel_scale) if jw else 1.0
    half = (100.0 if jw else 150.0) * pu
    # (centred on the common pointing, which every member sees at its reference pixel: the origin of a FITS tangent
    #  plane is the detector's pixel (0, 0), that of a gWCS plane the tangent point)
    ctr = np.array(plane0.world_to_tanp(base_pt[0], base_pt[1]), dtype=float).ravel()
    R = np.array([[ctr[0] + rng.uniform(-half, half) for _ in range(n)],
                  [ctr[1] + rng.uniform(-half, half) for _ in range(n)]])
    ra, dec = plane0.tanp_to_world(R[0], R[1])
    refcat = Table([np.asarray(ra, dtype=float), np.asarray(dec, dtype=float)], names=['RA', 'DEC'])
    ims, pix = [], []
    for k, m in enumerate(members):
        G = c02.gen_corr(rng, pu, False)
        if fitgeom == 'shift':
            G = Aff(np.eye(2), G.t)
        elif fitgeom == 'rscale':
            a = math.radians(rng.uniform(-0.05, 0.05))
            sc = 1 + rng.uniform(-1e-3, 1e-3)
            G = Aff(sc * np.array([[math.cos(a), -math.sin(a)], [math.sin(a), math.cos(a)]]), G.t)
        Ginv = Aff(np.linalg.inv(G.M), -np.linalg.inv(G.M).dot(G.t))
        src = Ginv(R)                                    # where the image's WCS puts the sources now
        sra, sdec = plane0.tanp_to_world(src[0], src[1])
        px, py = m.world_to_det(sra, sdec)
        nx_, ny_ = scenes.image_size(m)
        if not (np.all(np.isfinite(px)) and np.all(np.isfinite(py)) and np.min(px) > 20 and np.min(py) > 20 and
                np.max(px) < nx_ - 20 and np.max(py) < ny_ - 20):
            ctx.branch('shared-plane:skipped-patch-off-detector')
            return
        c = m if m is plane_obj else m.copy()
        c.meta['catalog'] = Table([np.asarray(px, dtype=float), np.asarray(py, dtype=float)], names=['x', 'y'])
        c.meta['name'] = 'im%d' % k
        ims.append(c)
        pix.append((np.asarray(px, dtype=float), np.asarray(py, dtype=float)))
    case = {'op': 'shared-plane', 'nim': nim, 'plane': which, 'fitgeom': fitgeom, 'n': n, 'jwst': jw}
    ctx.case(case, nontrivial=True, branch='shared-plane:%s:%s:%s' % ('jwst' if jw else 'fits', which, fitgeom))
    try:
        align_wcs(ims, refcat=refcat, ref_tpwcs=plane_obj, fitgeom=fitgeom, match=None, nclip=None, sigma=3.0)
    except Exception as e:   # noqa
        ctx.oracle_fail(case, {'what': 'align_wcs raised', 'error': '%s: %s' % (type(e).__name__, str(e)[:200])})
        return
    for k, c in enumerate(ims):
        st = c.meta.get('fit_info', {}).get('status')
        if st != 'SUCCESS':
            ctx.oracle_fail(case, {'what': 'not SUCCESS', 'image': k, 'status': st})
            continue
        landed = np.array(plane0.world_to_tanp(*c.det_to_world(*pix[k])), dtype=float)
        err = float(np.max(np.hypot(*(landed - R))))
        rho_rad = corrsim.field_radius_units(c) * corrsim.plane_unit_rad(c)
        b = plane_bound(plane0, c, 5.0 * pu, rho_rad, True) * (3 + nim)
        if not np.isfinite(err) or err > b:
            ctx.oracle_fail(case, {'what': 'an image aligned in a reference plane shared with the other images of the '
                                           'call does not land on the reference', 'image': k, 'err': err, 'bound': b})


def run(ctx):
    lines, pend = [], []
    for _ in range(ctx.n(30, 450)):
        scenario(ctx, lines, pend)
    # (the plane that is the FIRST image of the call changes in place before the other images are fitted in it:
    #  that combination is in every run, for both corrector classes)
    for force in (('member0', False), ('member0', False), ('member0', True), ('nonmember', False)):
        shared_plane_scenario(ctx, force)
    for _ in range(ctx.n(6, 80)):
        shared_plane_scenario(ctx)
    if lines:
        outs = ctx.driver(lines)
        for out, (case, sim, real_chart, cb, k) in zip(outs, pend):
            res = sim.parse(out)
            if res is None:
                ctx.disagree(case, {'op': 'gcorr' if sim.jwst else 'fcorr', 'model': out[:100]})
                continue
            d = float(np.max(np.hypot(*(res['sky_chart'] - real_chart))))
            if not np.isfinite(d) or d > cb:
                ctx.disagree(case, {'op': 'gcorr' if sim.jwst else 'fcorr', 'member': k, 'max_diff': d, 'bound': cb})
    from . import c05_groupalign; c05_groupalign.run_extra(ctx)   # align_to_ref at group level (model TW.GA, op `groupalign`)


REPLAY_BY_RERUN = True
