"""
C06 -- single-shot fits are the weighted least-squares optimum of their family.

Correspondence: tweakwcs.linearfit.fit_shifts / fit_rshift / fit_rscale / fit_general against the
Lean models `TW.fitShifts`, `TW.fitRscale` (scale := none / some 1), `TW.fitGeneral` through the
driver op `fit` -- on exact rationals (`Q`, shift and general) and on doubles (`F`, all four).

Oracle (shares no code with the model): the same least-squares problem solved exactly over
`fractions.Fraction` from centred moments (weighted mean for `shift`; H * Suu^-1 by Cramer for
`general`; the rational closed form (P, Q)/D of the better of the two branches for `rscale`;
(P, Q)/sqrt(P^2+Q^2) with a 40-digit square root for `rshift`).  The objective S is evaluated
exactly at the implementation's answer and must satisfy
      S(impl) <= S(opt) * (1 + 1e-12) + W * (r * A)^2           (A = size of the coordinates,
      r = 1e-9, or 64 n cond 2^-63 for fit_general when the normal matrix is that ill-conditioned),
the answer must lie in the family, must not get better under random moves inside the family,
must not depend on a common factor of the weights, and must reproduce noise-free data generated
by a member of the family (special angles +-45, 90, 135, 180 degrees, axis flips, on exactly
symmetric sets, lattices and two-point sets).

Collinearity guard of fit_general (repaired finding F13): the quantity the guard tests,
(cuu*cvv - cuv^2)/((cuu+cvv)/2)^2 of the weighted second central moments of uv, is computed exactly
from the data (`common.guard_ratio`).  Below 2^-52/64 the implementation must raise
SingularMatrixError, above 2^-52*64 it must fit; a model/implementation mismatch about `singular`
is a disagreement in exact mode outside that band (in double mode outside the band widened by the
rounding error 4(n+4) 2^-53 of the model's own evaluation in doubles), a near-tie only inside.

Tolerances: matrix entries 1e-9 * max(1, |F|), shifts 1e-9 * max(A, |s|).  `general` fits whose
(scale-free) normal matrix has condition number > 1e6 are compared through S only (counted as
near-ties); on doubles the tolerance is max(1e-9, 256 cond eps).  When the two branches of
`fit_rscale` (rotation / reflected rotation) are tied (relative gap of the two optima < 1e-6) the
parameters are not compared: for collinear point sets (every two-point set) the predicted
positions F uv + s are compared instead, otherwise the case is a near-tie.
"""
import math

import numpy as np

from ..common import (Fraction, q2s, f2x, x2f, s2q, to_fraction, guard_ratio, guard_expect,
                      guard_mismatch_is_tie)

ID = 'C06'
RULE = ('fits of the four geometries on point sets from 9 families (random, clustered, integer '
        'lattice, exactly symmetric, two-point, nearly collinear, special-angle noise-free, '
        'out-of-family, hand-built corpus) x 4 weight modes (none, wxy, wuv, both; with zeros) x '
        'magnitudes 1e-3..1e6, n from minobj to 200, plus rejected inputs; a case is non-trivial '
        'when the fit returns parameters and is over-determined (n > minobj), weighted, or a '
        'noise-free recovery at a special angle; distinct = distinct canonical input')
ASSUMPTIONS = [
    'theorems are over the reals (shift/general: any linearly ordered field); rounding in long '
    'double / double is outside the model and bounded only by the tolerances checked here',
    'atan2, cos, sin are interpreted by Complex.arg, Real.cos, Real.sin (Proofs/Trig.lean); the '
    'driver evaluates them with the C library on doubles',
    'weights and points have the same length (numpy broadcasting enforces it)',
    'exactly collinear / coincident input of fit_general must be refused by both sides (C17 proves it for '
    'the model); thin but legitimate sets (guard quantity above 2^-46) must be fitted by both',
]

MINOBJ = {'shift': 1, 'rshift': 2, 'rscale': 2, 'general': 3}
GEOMS = ['shift', 'rshift', 'rscale', 'general']
EPS = float(np.finfo(np.double).eps)
EPS_LD = 2.0 ** -63          # x87 extended precision (the harness does not rely on it being available)
F0 = Fraction(0)
F1 = Fraction(1)


# ---------------------------------------------------------------------------
# implementation
# ---------------------------------------------------------------------------
def impl_fit(geom, xy, uv, wxy, wuv, wdtype=None):
    """`wdtype`: numpy dtype in which integral-valued weights are handed over (the caller's weight columns may
    be integer arrays: the fitters must not inherit that dtype for the combined weights)"""
    from tweakwcs import linearfit
    fn = {'shift': linearfit.fit_shifts, 'rshift': linearfit.fit_rshift,
          'rscale': linearfit.fit_rscale, 'general': linearfit.fit_general}[geom]
    axy = np.array(xy, dtype=np.double).reshape(len(xy), 2)
    auv = np.array(uv, dtype=np.double).reshape(len(uv), 2)
    a = None if wxy is None else np.array(wxy, dtype=np.double)
    b = None if wuv is None else np.array(wuv, dtype=np.double)
    if wdtype is not None:
        a = None if a is None else a.astype(wdtype)
        b = None if b is None else b.astype(wdtype)
    try:
        fit = fn(axy, auv, a, b)
    except linearfit.NotEnoughPointsError:
        return ('err', 'notEnoughPoints')
    except linearfit.SingularMatrixError:
        return ('err', 'singular')
    except ValueError:
        return ('err', 'badWeights')
    except Exception as e:  # anything else is reported as it is
        return ('err', type(e).__name__)
    m = np.array(fit['matrix'], dtype=np.double)
    s = np.array(fit['shift'], dtype=np.double)
    return ('ok', [float(m[0, 0]), float(m[0, 1]), float(m[1, 0]), float(m[1, 1]), float(s[0]), float(s[1])],
            float(fit['rmse']))


# ---------------------------------------------------------------------------
# exact oracle
# ---------------------------------------------------------------------------
def eff_weights(n, wxy, wuv):
    """1/w = 1/wxy + 1/wuv where both are positive, 0 elsewhere; 1 each without weights"""
    if wxy is None and wuv is None:
        return [F1] * n
    if wxy is None:
        return [to_fraction(w) for w in wuv]
    if wuv is None:
        return [to_fraction(w) for w in wxy]
    out = []
    for a, b in zip(wxy, wuv):
        a = to_fraction(a)
        b = to_fraction(b)
        out.append(a * b / (a + b) if (a > 0 and b > 0) else F0)
    return out


def objective(w, xy, uv, p):
    """exact S = sum w |xy - F uv - s|^2 for p = (m00, m01, m10, m11, sx, sy)"""
    m00, m01, m10, m11, sx, sy = p
    tot = F0
    for wi, (x, y), (u, v) in zip(w, xy, uv):
        if wi == 0:
            continue
        rx = x - (m00 * u + m01 * v + sx)
        ry = y - (m10 * u + m11 * v + sy)
        tot += wi * (rx * rx + ry * ry)
    return tot


def fsqrt(q, bits=160):
    """square root of a non-negative Fraction as a dyadic rational with `bits` significant bits
    (rounded down): relative error < 2^-(bits-1)"""
    if q <= 0:
        return F0
    # choose e with q * 4^e of about 2*bits bits
    e = bits - (q.numerator.bit_length() - q.denominator.bit_length()) // 2
    if e >= 0:
        n = (q.numerator << (2 * e)) // q.denominator
    else:
        n = q.numerator // (q.denominator << (-2 * e))
    r = math.isqrt(n)
    return Fraction(r, 1 << e) if e >= 0 else Fraction(r << (-e), 1)


class Moments:
    def __init__(self, w, xy, uv):
        self.W = sum(w, F0)
        W = self.W
        if W <= 0:
            return
        self.xm = sum((wi * p[0] for wi, p in zip(w, xy)), F0) / W
        self.ym = sum((wi * p[1] for wi, p in zip(w, xy)), F0) / W
        self.um = sum((wi * p[0] for wi, p in zip(w, uv)), F0) / W
        self.vm = sum((wi * p[1] for wi, p in zip(w, uv)), F0) / W
        sxu = sxv = syu = syv = suu = svv = suv = sxx = F0
        for wi, (x, y), (u, v) in zip(w, xy, uv):
            if wi == 0:
                continue
            dx = x - self.xm
            dy = y - self.ym
            du = u - self.um
            dv = v - self.vm
            sxu += wi * dx * du
            sxv += wi * dx * dv
            syu += wi * dy * du
            syv += wi * dy * dv
            suu += wi * du * du
            svv += wi * dv * dv
            suv += wi * du * dv
            sxx += wi * (dx * dx + dy * dy)
        self.sxu, self.sxv, self.syu, self.syv = sxu, sxv, syu, syv
        self.suu, self.svv, self.suv, self.sxx = suu, svv, suv, sxx


def with_shift(mo, m):
    m00, m01, m10, m11 = m
    return (m00, m01, m10, m11, mo.xm - (m00 * mo.um + m01 * mo.vm), mo.ym - (m10 * mo.um + m11 * mo.vm))


def exact_optimum(geom, w, xy, uv):
    """returns dict: status ('ok'|'degenerate'), S (exact or 1e-40-accurate optimum value),
    p (an optimal parameter vector), gap (relative gap between the two branches, rscale/rshift),
    collinear (uv of the positively weighted points on one line)"""
    mo = Moments(w, xy, uv)
    if mo.W <= 0:
        return {'status': 'degenerate'}
    out = {'status': 'ok', 'mo': mo, 'gap': None}
    gram = mo.suu * mo.svv - mo.suv * mo.suv          # >= 0, = 0 iff collinear
    out['collinear'] = (gram == 0)
    D = mo.suu + mo.svv
    if geom == 'shift':
        p = with_shift(mo, (F1, F0, F0, F1))
    elif geom == 'general':
        if gram == 0:
            return {'status': 'degenerate', 'collinear': True}
        # F = H * Suu^-1 (Cramer)
        i00, i01, i11 = mo.svv / gram, -mo.suv / gram, mo.suu / gram
        p = with_shift(mo, (mo.sxu * i00 + mo.sxv * i01, mo.sxu * i01 + mo.sxv * i11,
                            mo.syu * i00 + mo.syv * i01, mo.syu * i01 + mo.syv * i11))
    else:
        Pp, Qp = mo.sxu + mo.syv, mo.sxv - mo.syu
        Pi, Qi = mo.sxu - mo.syv, mo.sxv + mo.syu
        np2, ni2 = Pp * Pp + Qp * Qp, Pi * Pi + Qi * Qi
        out['gap'] = abs(np2 - ni2) / (np2 + ni2) if (np2 + ni2) > 0 else F0
        proper = np2 >= ni2
        if geom == 'rscale':
            if D == 0:
                return {'status': 'degenerate', 'collinear': True}
            if proper:
                a, b = Pp / D, Qp / D
                p = with_shift(mo, (a, b, -b, a))
            else:
                a, b = Pi / D, Qi / D
                p = with_shift(mo, (a, b, b, -a))
        else:
            n2 = np2 if proper else ni2
            h = fsqrt(n2)
            if h == 0:
                a, b = F1, F0
            else:
                a, b = (Pp / h, Qp / h) if proper else (Pi / h, Qi / h)
            p = with_shift(mo, (a, b, -b, a) if proper else (a, b, b, -a))
            out['hzero'] = (h == 0)
    out['p'] = p
    out['S'] = objective(w, xy, uv, p)
    return out


def in_family(geom, p, tol=1e-12):
    m00, m01, m10, m11 = p[:4]
    sc = max(1.0, abs(m00), abs(m01))
    if geom == 'shift':
        return (m00, m01, m10, m11) == (1.0, 0.0, 0.0, 1.0)
    if geom == 'general':
        return True
    proper = abs(m10 + m01) <= tol * sc and abs(m11 - m00) <= tol * sc
    improper = abs(m10 - m01) <= tol * sc and abs(m11 + m00) <= tol * sc
    if not (proper or improper):
        return False
    if geom == 'rshift':
        return abs(m00 * m00 + m01 * m01 - 1.0) <= 1e-12
    return True


def perturb_in_family(rng, geom, p, A):
    """a nearby member of the family (floats)"""
    m00, m01, m10, m11, sx, sy = p
    e = 10.0 ** rng.uniform(-7, -1)
    ds = [rng.uniform(-1, 1) * e * A, rng.uniform(-1, 1) * e * A]
    if geom == 'shift':
        return (1.0, 0.0, 0.0, 1.0, sx + ds[0], sy + ds[1])
    if geom == 'general':
        return (m00 + rng.uniform(-1, 1) * e, m01 + rng.uniform(-1, 1) * e, m10 + rng.uniform(-1, 1) * e,
                m11 + rng.uniform(-1, 1) * e, sx + ds[0], sy + ds[1])
    flip = rng.random() < 0.3
    a, b = m00, m01
    improper = abs(m10 - m01) + abs(m11 + m00) < abs(m10 + m01) + abs(m11 - m00)
    if geom == 'rscale':
        a += rng.uniform(-1, 1) * e
        b += rng.uniform(-1, 1) * e
    else:
        # an exactly unit vector near (a, b) turned by a small angle: rational parametrisation
        # (1 - t^2, 2 t)/(1 + t^2) of the circle, t = tan(angle / 2)
        th = math.atan2(b, a) + rng.uniform(-1, 1) * e
        sign = 1
        if abs(th) > 2.0:          # stay away from the pole of the parametrisation
            th -= math.copysign(math.pi, th)
            sign = -1
        t = Fraction(math.tan(th / 2)).limit_denominator(10 ** 12)
        a, b = sign * (1 - t * t) / (1 + t * t), sign * 2 * t / (1 + t * t)
    if improper != flip:
        m = (a, b, b, -a)
    else:
        m = (a, b, -b, a)
    return (m[0], m[1], m[2], m[3], sx + ds[0], sy + ds[1])


# ---------------------------------------------------------------------------
# generators
# ---------------------------------------------------------------------------
def rot(deg, flip=0):
    """matrix [[c, s], [-s, c]] (the convention of fit['matrix']), optionally reflected"""
    special = {0: (1.0, 0.0), 90: (0.0, 1.0), 180: (-1.0, 0.0), 270: (0.0, -1.0), -90: (0.0, -1.0),
               -180: (-1.0, 0.0)}
    if deg in special:
        c, s = special[deg]
    else:
        c, s = math.cos(math.radians(deg)), math.sin(math.radians(deg))
    m = [[c, s], [-s, c]]
    if flip == 1:      # R * diag(1, -1)
        m = [[c, -s], [-s, -c]]
    elif flip == 2:    # diag(1, -1) * R
        m = [[c, s], [s, -c]]
    return m


def gen_weights(rng, n, wmode, minpos):
    def one():
        kind = rng.choice(['uniform', 'log', 'int', 'equal'])
        if kind == 'uniform':
            w = [rng.uniform(0.1, 10.0) for _ in range(n)]
        elif kind == 'log':
            w = [10.0 ** rng.uniform(-3, 3) for _ in range(n)]
        elif kind == 'int':
            w = [float(rng.randint(1, 9)) for _ in range(n)]
        else:
            w = [float(rng.choice([0.5, 1.0, 2.0, 7.0]))] * n
        return w
    wxy = one() if wmode in (1, 3) else None
    wuv = one() if wmode in (2, 3) else None
    neg = None
    if wmode == 3 and n > minpos and rng.random() < 0.15:
        # with both lists a non-positive entry of either list only masks the pair (weight 0)
        neg = (rng.choice([0, 1]), rng.randrange(n))
    # zeros
    if wmode and rng.random() < 0.6:
        k = rng.randint(1, max(1, n // 3))
        for lst in (wxy, wuv):
            if lst is not None:
                for i in rng.sample(range(n), min(k, n)):
                    if rng.random() < 0.7:
                        lst[i] = 0.0
        # keep enough positive pairs (most of the time; the rest are rejected-input cases)
        if rng.random() < 0.9:
            eff = eff_weights(n, wxy, wuv)
            idx = [i for i in range(n) if eff[i] <= 0]
            need = minpos - (n - len(idx))
            for i in idx[:max(0, need)]:
                for lst in (wxy, wuv):
                    if lst is not None:
                        lst[i] = 1.0
    if neg is not None:
        eff = eff_weights(n, wxy, wuv)
        if sum(1 for i in range(n) if eff[i] > 0 and i != neg[1]) >= minpos:
            (wxy, wuv)[neg[0]][neg[1]] = -rng.choice([1.0, 0.5, 3.0])
    return wxy, wuv


def gen_points(rng, fam, n):
    """uv in the unit box (family dependent); scaled and shifted by the caller"""
    if fam == 'random':
        return [[rng.uniform(-1, 1), rng.uniform(-1, 1)] for _ in range(n)]
    if fam == 'clustered':
        k = rng.randint(2, 4)
        cs = [[rng.uniform(-1, 1), rng.uniform(-1, 1)] for _ in range(k)]
        r = 10.0 ** rng.uniform(-3, -1)
        pts = []
        for i in range(n):
            c = cs[i % k]
            pts.append([c[0] + r * rng.uniform(-1, 1), c[1] + r * rng.uniform(-1, 1)])
        return pts
    if fam == 'lattice':
        side = max(2, int(math.ceil(math.sqrt(n))) + rng.randint(0, 2))
        cells = [(i, j) for i in range(side) for j in range(side)]
        rng.shuffle(cells)
        off = rng.randint(-side, 0)
        return [[float(i + off), float(j + off)] for i, j in cells[:n]]
    if fam == 'nearcollinear':
        th = rng.uniform(0, math.pi)
        e = 10.0 ** rng.uniform(-3, -1)
        pts = []
        for _ in range(n):
            t = rng.uniform(-1, 1)
            d = rng.uniform(-1, 1) * e
            pts.append([t * math.cos(th) - d * math.sin(th), t * math.sin(th) + d * math.cos(th)])
        return pts
    raise ValueError(fam)


SYMMETRIC_SETS = [
    [[1.0, 0.0], [-1.0, 0.0], [0.0, 1.0], [0.0, -1.0]],
    [[1.0, 1.0], [-1.0, 1.0], [-1.0, -1.0], [1.0, -1.0]],
    [[1.0, 0.0], [-1.0, 0.0], [0.0, 1.0], [0.0, -1.0], [0.0, 0.0]],
    [[2.0, 0.0], [-2.0, 0.0], [0.0, 2.0], [0.0, -2.0], [1.0, 1.0], [-1.0, 1.0], [-1.0, -1.0], [1.0, -1.0]],
    [[1.0, 0.0], [0.0, 1.0], [-1.0, -1.0]],
    [[0.0, 0.0], [1.0, 0.0], [0.0, 1.0]],
    [[i * 1.0, j * 1.0] for i in (-1, 0, 1) for j in (-1, 0, 1)],
    [[i * 1.0, j * 1.0] for i in (0, 1, 2, 3) for j in (0, 1, 2)],
]
SPECIAL_ANGLES = [45, -45, 90, -90, 135, -135, 180, 0, 30, 60, 225, 315]


def random_member(rng, geom):
    """a random transform of the family (matrix, shift) in units of the data size"""
    if geom == 'shift':
        m = [[1.0, 0.0], [0.0, 1.0]]
    elif geom == 'rshift':
        m = rot(rng.uniform(-180, 180), rng.choice([0, 0, 1, 2]))
    elif geom == 'rscale':
        mu = 10.0 ** rng.uniform(-1, 1)
        m = [[mu * e for e in r] for r in rot(rng.uniform(-180, 180), rng.choice([0, 0, 1, 2]))]
    else:
        while True:
            m = [[rng.uniform(-2, 2), rng.uniform(-2, 2)], [rng.uniform(-2, 2), rng.uniform(-2, 2)]]
            if abs(m[0][0] * m[1][1] - m[0][1] * m[1][0]) > 0.2:
                break
    return m, [rng.uniform(-2, 2), rng.uniform(-2, 2)]


def apply(m, s, uv):
    return [[m[0][0] * u + m[0][1] * v + s[0], m[1][0] * u + m[1][1] * v + s[1]] for u, v in uv]


def pick_n(rng, geom):
    lo = MINOBJ[geom]
    r = rng.random()
    if r < 0.25:
        return rng.randint(lo, lo + 2)
    if r < 0.7:
        return rng.randint(lo, 20)
    if r < 0.9:
        return rng.randint(20, 80)
    return rng.randint(80, 200)


def gen_case(rng):
    geom = rng.choice(GEOMS)
    fam = rng.choice(['random', 'random', 'clustered', 'lattice', 'nearcollinear', 'symmetric',
                      'special', 'special', 'twopoint', 'outoffamily'])
    wmode = rng.choice([0, 0, 1, 2, 3, 3])
    mag = rng.choice([1.0, 1.0, 10.0 ** rng.randint(-3, 6), 10.0 ** rng.uniform(-3, 6), 2.0 ** rng.randint(-10, 20)])
    truth = None
    noise = 0.0
    if fam == 'twopoint':
        if geom == 'general':
            geom = rng.choice(['shift', 'rshift', 'rscale'])
        n = 2
        base = rng.choice([[[0.0, 0.0], [1.0, 0.0]], [[0.0, 0.0], [0.0, 1.0]], [[1.0, 2.0], [3.0, -1.0]],
                           [[rng.uniform(-1, 1), rng.uniform(-1, 1)], [rng.uniform(-1, 1), rng.uniform(-1, 1)]],
                           [[-1.0, -1.0], [1.0, 1.0]]])
        uv = [[mag * a for a in p] for p in base]
        if rng.random() < 0.6:
            ang = rng.choice(SPECIAL_ANGLES)
            m = rot(ang, rng.choice([0, 0, 0, 1, 2])) if geom != 'shift' else [[1.0, 0.0], [0.0, 1.0]]
            if geom == 'rscale' and rng.random() < 0.5:
                mu = rng.choice([0.5, 2.0, 3.0, 0.1])
                m = [[mu * e for e in r] for r in m]
            s = [mag * rng.choice([0.0, 1.0, -2.5]), mag * rng.choice([0.0, 3.0, 0.5])]
            truth = (m, s)
            xy = apply(m, s, uv)
        else:
            xy = [[mag * rng.uniform(-2, 2), mag * rng.uniform(-2, 2)] for _ in range(2)]
    elif fam in ('symmetric', 'special'):
        base = [list(p) for p in rng.choice(SYMMETRIC_SETS)]
        if fam == 'special' and rng.random() < 0.4:
            base = gen_points(rng, 'lattice', rng.randint(3, 30))
        n = len(base)
        if geom == 'general' and n < 3:
            geom = 'rscale'
        magp = rng.choice([1.0, 1.0, 2.0 ** rng.randint(-10, 20), mag])
        uv = [[magp * a for a in p] for p in base]
        ang = rng.choice(SPECIAL_ANGLES)
        flip = rng.choice([0, 0, 1, 2])
        if geom == 'shift':
            m = [[1.0, 0.0], [0.0, 1.0]]
        else:
            m = rot(ang, flip)
            if geom in ('rscale', 'general') and rng.random() < 0.5:
                mu = rng.choice([0.5, 2.0, 3.0, math.sqrt(2.0), 0.1])
                m = [[mu * e for e in r] for r in m]
            if geom == 'general' and rng.random() < 0.3:
                m = [[m[0][0] + 0.25, m[0][1]], [m[1][0], m[1][1] - 0.5]]
        s = [magp * rng.choice([0.0, 0.0, 1.0, -2.5, 7.0]), magp * rng.choice([0.0, 0.0, 3.0, 0.5])]
        xy = apply(m, s, uv)
        truth = (m, s)
        mag = magp
        if fam == 'symmetric' and rng.random() < 0.5:
            noise = 10.0 ** rng.uniform(-6, -1)
            truth = None
    else:
        n = pick_n(rng, geom)
        pts = gen_points(rng, fam if fam != 'outoffamily' else 'random', n)
        c = [rng.uniform(-3, 3), rng.uniform(-3, 3)] if rng.random() < 0.5 else [0.0, 0.0]
        if rng.random() < 0.12:
            # a compact group far from the origin (a few stars in a corner of a large mosaic): the single-shot fitters
            # get the uncentred coordinates, so anything that should depend on the spread but uses the raw size shows
            far = rng.choice([1e3, 1e4, 3e4])
            c = [far * rng.choice([-1.0, 1.0, 0.3]), far * rng.choice([-1.0, 1.0, 0.7])]
        if fam == 'lattice':
            uv = [[mag * a for a in p] for p in pts]
        else:
            uv = [[mag * (p[0] + c[0]), mag * (p[1] + c[1])] for p in pts]
        if fam == 'outoffamily':
            m, s = random_member(rng, 'general')
            noise = rng.choice([0.0, 1e-3])
        else:
            m, s = random_member(rng, geom)
            noise = rng.choice([0.0, 0.0, 1e-6, 1e-3, 1e-1])
            if noise == 0.0:
                truth = (m, [mag * s[0], mag * s[1]])
        xy = apply(m, [mag * s[0], mag * s[1]], uv)
    if noise:
        xy = [[x + noise * mag * rng.gauss(0, 1), y + noise * mag * rng.gauss(0, 1)] for x, y in xy]
    wxy, wuv = gen_weights(rng, n, wmode, MINOBJ[geom])
    case = {'op': 'fit', 'geom': geom, 'family': fam, 'wmode': wmode, 'xy': xy, 'uv': uv, 'wxy': wxy, 'wuv': wuv}
    if truth is not None:
        case['truth'] = [truth[0][0][0], truth[0][0][1], truth[0][1][0], truth[0][1][1], truth[1][0], truth[1][1]]
    return case


def gen_rejected(rng):
    geom = rng.choice(GEOMS)
    kind = rng.choice(['toofew', 'negative', 'zeros', 'coincident', 'collinear-general', 'coincident-general'])
    if kind in ('collinear-general', 'coincident-general'):
        return gen_degenerate_general(rng, kind)
    lo = MINOBJ[geom]
    if kind == 'toofew':
        n = rng.randint(0, lo - 1)
        wmode = 0
    else:
        n = rng.randint(lo, lo + 4)
        wmode = rng.choice([1, 2, 3])
    uv = [[float(rng.randint(-9, 9)), float(rng.randint(-9, 9))] for _ in range(n)]
    xy = [[u + 1.0, v - 2.0] for u, v in uv]
    wxy = [float(rng.randint(1, 5)) for _ in range(n)] if wmode in (1, 3) else None
    wuv = [float(rng.randint(1, 5)) for _ in range(n)] if wmode in (2, 3) else None
    if kind == 'negative':
        lst = wxy if wxy is not None else wuv
        if wmode == 3:
            # a negative entry in one list only is masked by the harmonic rule (weight 0): legal;
            # not testable as "negative" -- use a single list instead
            wuv = None
            wmode = 1
        lst[rng.randrange(n)] = -1.0
    elif kind == 'zeros':
        keep = rng.randint(0, lo - 1)
        idx = list(range(n))
        rng.shuffle(idx)
        for i in idx[keep:]:
            lst = rng.choice([l for l in (wxy, wuv) if l is not None])
            lst[i] = 0.0
    elif kind == 'coincident':
        geom = 'rscale'
        n = rng.choice([2, 4, 8])
        wmode, wxy, wuv = 0, None, None
        p = [float(rng.randint(-8, 8)), float(rng.randint(-8, 8))]
        uv = [list(p) for _ in range(n)]
        xy = [[float(rng.randint(-8, 8)), float(rng.randint(-8, 8))] for _ in range(n)]
    return {'op': 'fit', 'geom': geom, 'family': 'rejected:' + kind, 'wmode': wmode, 'xy': xy, 'uv': uv,
            'wxy': wxy, 'wuv': wuv, 'expect': {'toofew': 'notEnoughPoints', 'negative': 'badWeights',
                                                'zeros': 'badWeights', 'coincident': 'singular'}[kind]}


def gen_degenerate_general(rng, kind):
    """exactly collinear / coincident integer points (dyadic scale) for fit_general, all weight modes, with
    zero-weight points off the line: both the model and the implementation must report `singular`"""
    n = rng.randint(3, 12)
    sc = rng.choice([1.0, 1.0, 0.5, 0.125, 16.0, 1024.0])
    o = (rng.randint(-40, 40), rng.randint(-40, 40))
    if rng.random() < 0.2:
        o = (o[0] + rng.choice([-1, 1]) * 10 ** 6, o[1] + rng.choice([-1, 1]) * 2 * 10 ** 6)
    if kind == 'coincident-general':
        uv = [[o[0] * sc, o[1] * sc] for _ in range(n)]
    else:
        d = rng.choice([(1, 0), (0, 1), (1, 1), (1, -1), (2, 1), (1, 2), (3, 7), (5, -2), (7, 3)])
        ts = rng.sample(range(-30, 31), n)
        uv = [[(o[0] + t * d[0]) * sc, (o[1] + t * d[1]) * sc] for t in ts]
    wmode = rng.choice([0, 1, 2, 3])
    wxy = [float(rng.randint(1, 9)) for _ in range(n)] if wmode in (1, 3) else None
    wuv = [float(rng.randint(1, 9)) for _ in range(n)] if wmode in (2, 3) else None
    if wmode and n >= 5 and rng.random() < 0.5:
        # one or two points off the line that carry no weight
        for i in rng.sample(range(n), rng.randint(1, 2)):
            uv[i] = [uv[i][0] + sc * rng.randint(1, 9), uv[i][1] - sc * rng.randint(1, 9)]
            lst = rng.choice([l for l in (wxy, wuv) if l is not None])
            lst[i] = 0.0
    m, s = random_member(rng, 'general')
    xy = apply(m, s, uv)
    if rng.random() < 0.5:
        xy = [[x + rng.gauss(0, 0.1), y + rng.gauss(0, 0.1)] for x, y in xy]
    return {'op': 'fit', 'geom': 'general', 'family': 'rejected:' + kind, 'wmode': wmode, 'xy': xy, 'uv': uv,
            'wxy': wxy, 'wuv': wuv, 'expect': 'singular'}


THIN_BASE = [(-1.0, 0.3), (-0.6, -0.8), (-0.2, 1.0), (0.1, -0.4), (0.5, 0.7), (0.9, -1.0), (1.0, 0.2)]
THIN_NOISE = [(0.31, -0.12), (-0.77, 0.45), (0.08, 0.93), (-0.52, -0.64), (0.99, 0.17), (-0.23, 0.71), (0.66, -0.88)]


def thin_sets():
    """thin but legitimate point sets: aspect ratio 1e-6 .. 1e-3, long axis along u, along v and rotated by
    30 degrees; the guard quantity is about 4 aspect^2 >= 4e-12, far above 2^-52: both sides must fit"""
    out = []
    L = 100.0
    c30, s30 = math.cos(math.radians(30)), math.sin(math.radians(30))
    T = [[1.01, 0.02], [-0.015, 0.99]]
    sh = [3.5, -2.25]
    for a in (1e-6, 1e-5, 1e-4, 1e-3):
        for orient in ('u', 'v', 'r30'):
            if orient == 'u':
                uv = [[L * t, L * a * q] for t, q in THIN_BASE]
            elif orient == 'v':
                uv = [[L * a * q, L * t] for t, q in THIN_BASE]
            else:
                uv = [[L * (c30 * t - s30 * a * q) + 17.0, L * (s30 * t + c30 * a * q) - 5.0] for t, q in THIN_BASE]
            xy = apply(T, sh, uv)
            out.append({'geom': 'general', 'uv': uv, 'xy': xy, 'truth': [T[0][0], T[0][1], T[1][0], T[1][1]] + sh,
                        'must_fit': True, 'family': 'corpus-thin'})
            out.append({'geom': 'general', 'uv': uv,
                        'xy': [[x + 1e-3 * e[0], y + 1e-3 * e[1]] for (x, y), e in zip(xy, THIN_NOISE)],
                        'must_fit': True, 'family': 'corpus-thin'})
            out.append({'geom': 'general', 'uv': uv,
                        'xy': [[x + 1e-3 * e[0], y + 1e-3 * e[1]] for (x, y), e in zip(xy, THIN_NOISE)],
                        'wxy': [1.0, 2.0, 1.0, 0.5, 3.0, 1.0, 2.0], 'wuv': [2.0, 1.0, 4.0, 1.0, 1.0, 0.25, 1.0], 'wmode': 3,
                        'must_fit': True, 'family': 'corpus-thin'})
    return out


def degenerate_sets():
    """exactly collinear / coincident integer sets: both sides must report `singular`"""
    out = []
    w6 = [1.0, 2.0, 3.0, 1.0, 5.0, 2.0]
    v6 = [4.0, 1.0, 1.0, 2.0, 1.0, 3.0]
    line = [[4.0, 1.0], [7.0, 3.0], [10.0, 5.0], [-2.0, -3.0], [1.0, -1.0], [13.0, 7.0]]      # 2u - 3v = 5
    sets = [
        ('F13-witness', [[2.0, 3.0], [-1.0, 0.0], [-9.0, -8.0]]),
        ('line-2u-3v=5', line),
        ('vertical', [[5.0, float(t)] for t in (-3, 0, 1, 4, 9)]),
        ('horizontal', [[float(t), -3.0] for t in (-3, 0, 1, 4, 9)]),
        ('diagonal-far', [[1000000.0 + 3 * t, 2000000.0 - 7 * t] for t in (-5, -1, 0, 2, 7, 11)]),
        ('coincident', [[7.0, -2.0]] * 5),
        ('coincident-origin', [[0.0, 0.0]] * 3),
    ]
    for name, uv in sets:
        n = len(uv)
        xy = [[u + 1.0 + 0.25 * (i % 3), v - 2.0 - 0.5 * (i % 2)] for i, (u, v) in enumerate(uv)]
        out.append({'geom': 'general', 'uv': uv, 'xy': xy, 'expect': 'singular', 'family': 'corpus-degenerate'})
        out.append({'geom': 'general', 'uv': uv, 'xy': xy, 'wxy': (w6 * 2)[:n], 'wmode': 1, 'expect': 'singular',
                    'family': 'corpus-degenerate'})
        out.append({'geom': 'general', 'uv': uv, 'xy': xy, 'wxy': (w6 * 2)[:n], 'wuv': (v6 * 2)[:n], 'wmode': 3,
                    'expect': 'singular', 'family': 'corpus-degenerate'})
    # the only points off the line carry no weight (wxy zero / complementary zeros in both lists)
    uv = line + [[0.0, 9.0], [3.0, -8.0]]
    xy = [[u + 1.0, v - 2.0] for u, v in uv]
    out.append({'geom': 'general', 'uv': uv, 'xy': xy, 'wxy': w6 + [0.0, 0.0], 'wmode': 1, 'expect': 'singular',
                'family': 'corpus-degenerate'})
    out.append({'geom': 'general', 'uv': uv, 'xy': xy, 'wxy': w6 + [0.0, 2.0], 'wuv': v6 + [3.0, 0.0], 'wmode': 3,
                'expect': 'singular', 'family': 'corpus-degenerate'})
    # ... and the same points with weight: a legitimate fit
    out.append({'geom': 'general', 'uv': uv, 'xy': xy, 'wxy': w6 + [1.0, 2.0], 'wmode': 1, 'must_fit': True,
                'truth': [1.0, 0.0, 0.0, 1.0, 1.0, -2.0], 'family': 'corpus-thin'})
    return out


def _r45(p):
    c = math.sqrt(0.5)
    return [c * p[0] + c * p[1], -c * p[0] + c * p[1]]


def corpus():
    out = []
    cross = SYMMETRIC_SETS[0]
    square = SYMMETRIC_SETS[1]
    # F1: exact 45 degree rotation of the cross (rot_num == rot_denom != 0)
    for geom in ('rshift', 'rscale', 'general'):
        out.append({'geom': geom, 'uv': cross, 'xy': [_r45(p) for p in cross],
                    'truth': [math.sqrt(0.5), math.sqrt(0.5), -math.sqrt(0.5), math.sqrt(0.5), 0.0, 0.0]})
    # sqrt(2) R(45): integer coordinates, numerator == denominator exactly
    out.append({'geom': 'rscale', 'uv': cross, 'xy': [[u + v, -u + v] for u, v in cross],
                'truth': [1.0, 1.0, -1.0, 1.0, 0.0, 0.0]})
    out.append({'geom': 'rshift', 'uv': cross, 'xy': [[u + v, -u + v] for u, v in cross]})
    # -135 degrees: numerator == denominator < 0
    out.append({'geom': 'rscale', 'uv': square, 'xy': [[-u - v + 3.0, u - v - 1.0] for u, v in square],
                'truth': [-1.0, -1.0, 1.0, -1.0, 3.0, -1.0]})
    # F11: two-point sets (det == 0)
    c30, s30 = math.cos(math.radians(30)), math.sin(math.radians(30))
    two = [[0.0, 0.0], [1.0, 0.0]]
    for geom in ('rshift', 'rscale'):
        out.append({'geom': geom, 'uv': two, 'xy': [[c30 * u + s30 * v, -s30 * u + c30 * v] for u, v in two]})
    out.append({'geom': 'rscale', 'uv': two, 'xy': [[u + 2 * v, -2 * u + v] for u, v in two],
                'truth': [1.0, 2.0, -2.0, 1.0, 0.0, 0.0]})
    out.append({'geom': 'rscale', 'uv': [[1.0, 2.0], [3.0, -1.0]], 'xy': [[5.0, 5.0], [4.0, -2.0]]})
    # collinear, three points, reflection as truth
    line = [[0.0, 1.0], [1.0, 2.0], [3.0, 4.0]]
    out.append({'geom': 'rscale', 'uv': line, 'xy': [[u, -v] for u, v in line]})
    # axis flips, 90 and 180 degrees
    for m, s in (([[1.0, 0.0], [0.0, -1.0]], [0.0, 0.0]), ([[-1.0, 0.0], [0.0, 1.0]], [2.0, 1.0]),
                 ([[0.0, 1.0], [-1.0, 0.0]], [0.0, 0.0]), ([[-1.0, 0.0], [0.0, -1.0]], [5.0, 5.0]),
                 ([[0.0, 1.0], [1.0, 0.0]], [1.0, -1.0])):
        for geom in ('rshift', 'rscale', 'general'):
            uvp = SYMMETRIC_SETS[5]
            out.append({'geom': geom, 'uv': uvp, 'xy': apply(m, s, uvp),
                        'truth': [m[0][0], m[0][1], m[1][0], m[1][1], s[0], s[1]]})
    # weights: the examples of Proofs/C06.lean
    out.append({'geom': 'shift', 'uv': [[0.0, 0.0], [1.0, 1.0], [2.0, 2.0]], 'xy': [[1.0, 2.0], [3.0, 1.0], [5.0, 5.0]],
                'wxy': [1.0, 3.0, 0.0], 'wuv': [1.0, 1.0, 2.0], 'wmode': 3, 'truth_fit': [1.0, 0.0, 0.0, 1.0, 1.6, 0.8]})
    out.append({'geom': 'general', 'uv': [[0.0, 0.0], [1.0, 0.0], [0.0, 1.0], [1.0, 1.0]],
                'xy': [[1.0, 1.0], [3.0, 0.0], [0.0, 4.0], [2.0, 3.0]], 'truth': [2.0, -1.0, -1.0, 3.0, 1.0, 1.0]})
    # one point is enough for a shift
    out.append({'geom': 'shift', 'uv': [[3.0, 4.0]], 'xy': [[1.0, 1.0]], 'truth': [1.0, 0.0, 0.0, 1.0, -2.0, -3.0]})
    # all points identical in xy (zero matrix is the optimum of rscale)
    out.append({'geom': 'rscale', 'uv': square, 'xy': [[2.0, 3.0]] * 4})
    out += thin_sets() + degenerate_sets()
    res = []
    for c in out:
        d = {'op': 'fit', 'geom': c['geom'], 'family': c.get('family', 'corpus'), 'wmode': c.get('wmode', 0),
             'xy': [list(map(float, p)) for p in c['xy']], 'uv': [list(map(float, p)) for p in c['uv']],
             'wxy': c.get('wxy'), 'wuv': c.get('wuv')}
        if 'truth' in c:
            d['truth'] = c['truth']
        if 'truth_fit' in c:
            d['truth_fit'] = c['truth_fit']
        for k in ('expect', 'must_fit'):
            if k in c:
                d[k] = c[k]
        res.append(d)
    return res


# ---------------------------------------------------------------------------
# checks
# ---------------------------------------------------------------------------
def data_size(case):
    vals = [abs(a) for p in case['xy'] for a in p] + [abs(a) for p in case['uv'] for a in p]
    return max(vals) if vals and max(vals) > 0 else 1.0


def cond_general(case, w):
    """condition number of the scale-free normal matrix (doubles)"""
    uv = np.array(case['uv'], dtype=np.double)
    a = float(np.max(np.abs(uv))) or 1.0
    ww = np.array([float(x) for x in w])
    X = np.column_stack([uv[:, 0] / a, uv[:, 1] / a, np.ones(len(uv))])
    M = (X * ww[:, None]).T @ X
    try:
        return float(np.linalg.cond(M))
    except Exception:
        return float('inf')


def params_close(p, q, A, rel=1e-9):
    fs = max(1.0, max(abs(float(x)) for x in q[:4]))
    ss = max(A, max(abs(float(x)) for x in q[4:]))
    dm = max(abs(float(a) - float(b)) for a, b in zip(p[:4], q[:4]))
    ds = max(abs(float(a) - float(b)) for a, b in zip(p[4:], q[4:]))
    ok = dm <= rel * fs and ds <= rel * ss
    return ok, {'dmatrix': dm, 'dshift': ds, 'tol_matrix': rel * fs, 'tol_shift': rel * ss}


def positions_close(p, q, uv, A, rel=1e-9, w=None):
    """predicted positions F uv + s at the (positively weighted) points"""
    worst = 0.0
    for k, (u, v) in enumerate(uv):
        if w is not None and not w[k] > 0:
            continue
        for r in (0, 1):
            a = float(p[2 * r]) * u + float(p[2 * r + 1]) * v + float(p[4 + r])
            b = float(q[2 * r]) * u + float(q[2 * r + 1]) * v + float(q[4 + r])
            worst = max(worst, abs(a - b))
    return worst <= 4 * rel * A, {'dposition': worst, 'tol': 4 * rel * A}


def line_for(mode, case):
    n = len(case['xy'])
    toks = ['fit', mode, case['geom'], str(n), str(case['wmode'])]
    conv = (lambda x: q2s(to_fraction(x))) if mode == 'Q' else f2x
    for (x, y), (u, v) in zip(case['xy'], case['uv']):
        toks += [conv(x), conv(y), conv(u), conv(v)]
    for lst in (case['wxy'], case['wuv']):
        if lst is not None:
            toks += [conv(x) for x in lst]
    return ' '.join(toks)


def check_case(ctx, case, lines, pending):
    info = {}
    geom = case['geom']
    xy, uv, wxy, wuv = case['xy'], case['uv'], case['wxy'], case['wuv']
    n = len(xy)
    # integral weights are handed over as integer arrays in half of the cases (decided by the data, so that a
    # case replays identically)
    integral = [w for w in (wxy, wuv) if w is not None]
    wdtype = None
    if integral and all(float(v).is_integer() for w in integral for v in w):
        wdtype = [None, np.int64, np.int32, np.int16][int(sum(sum(w) for w in integral) + n) % 4]
    if wdtype is not None:
        ctx.branch('weights-dtype:%s' % np.dtype(wdtype).name)
    res = impl_fit(geom, xy, uv, wxy, wuv, wdtype)
    A = data_size(case)
    fam = case['family']
    weighted = case['wmode'] != 0
    nontrivial = res[0] == 'ok' and (n > MINOBJ[geom] or weighted or 'truth' in case)
    ctx.case(case, nontrivial=nontrivial, branch='geom:%s' % geom)
    ctx.branch('family:%s' % fam.split(':')[0])
    ctx.branch('wmode:%d' % case['wmode'])
    ctx.branch('n:%s' % ('minobj' if n == MINOBJ[geom] else '<=20' if n <= 20 else '<=80' if n <= 80 else '<=200'))
    ctx.branch('magnitude:1e%d' % int(math.floor(math.log10(A))) if A > 0 else 'magnitude:0')

    # ---- model lines -------------------------------------------------------
    if geom in ('shift', 'general'):
        lines.append(line_for('Q', case))
        pending.append((case, 'Q', res, info))
    lines.append(line_for('F', case))
    pending.append((case, 'F', res, info))

    # ---- property oracle on the implementation ------------------------------
    if 'expect' in case:
        ctx.branch('expect:' + case['expect'])
        if geom == 'general' and case['expect'] == 'singular':
            info['ratio'] = guard_ratio([(to_fraction(a), to_fraction(b)) for a, b in uv], eff_weights(n, wxy, wuv))
        if res[0] != 'err' or res[1] != case['expect']:
            ctx.oracle_fail(case, {'what': 'input that must be rejected with %s' % case['expect'],
                                   'got': list(res[:2])})
        return
    fx = [(to_fraction(a), to_fraction(b)) for a, b in xy]
    fu = [(to_fraction(a), to_fraction(b)) for a, b in uv]
    w = eff_weights(n, wxy, wuv)
    npos = sum(1 for x in w if x > 0)
    if any(x < 0 for x in w) or npos < MINOBJ[geom]:
        ctx.branch('expect:badWeights')
        if res[0] != 'err' or res[1] != 'badWeights':
            ctx.oracle_fail(case, {'what': 'weights must be rejected (negative or fewer than %d positive)'
                                           % MINOBJ[geom], 'got': list(res[:2])})
        return
    opt = exact_optimum(geom, w, fx, fu)
    info['opt'] = opt
    info['w'] = w
    if geom == 'general':
        info['cond'] = cond_general(case, w)
        # the collinearity guard, exactly: which way must a long-double evaluation decide?
        ratio = guard_ratio(fu, w)
        info['ratio'] = ratio
        verdict = guard_expect(ratio)
        ctx.branch('guard:' + verdict)
        if verdict == 'singular':
            if res[0] != 'err' or res[1] != 'singular':
                ctx.oracle_fail(case, {'what': 'points collinear / coincident to within 2^-58 (guard quantity '
                                               '(cuu*cvv-cuv^2)/((cuu+cvv)/2)^2 below 2^-52/64) were not refused '
                                               'with SingularMatrixError', 'guard_quantity': float(ratio),
                                       'got': list(res[:2])})
            return
        if verdict == 'tie':
            ctx.near_tie()
            if res[0] != 'ok':
                return
        elif res[0] != 'ok':
            ctx.oracle_fail(case, {'what': 'a well-posed fit raised (guard quantity above 2^-52*64)',
                                   'guard_quantity': float(ratio), 'got': list(res[:2])})
            return
    if opt['status'] != 'ok':
        ctx.branch('degenerate-input')
        ctx.near_tie()
        return
    if res[0] != 'ok':
        ctx.oracle_fail(case, {'what': 'a well-posed fit raised', 'got': list(res[:2])})
        return
    if case.get('must_fit'):
        ctx.branch('corpus:thin-set-fitted')
    p = res[1]
    if not all(math.isfinite(v) for v in p):
        ctx.oracle_fail(case, {'what': 'non-finite parameters', 'impl': p})
        return
    if not in_family(geom, p):
        ctx.oracle_fail(case, {'what': 'returned map is not a member of the %s family' % geom, 'impl': p})
        return
    pf = [to_fraction(v) for v in p]
    W = sum(w, F0)
    S_impl = objective(w, fx, fu, pf)
    S_opt = opt['S']
    # admissible parameter error: 1e-9 of the data size; for an ill-conditioned normal matrix of
    # fit_general the error bound of elimination in long double, 64 n cond eps_ld, if that is larger
    relerr = 1e-9
    if geom == 'general':
        relerr = max(relerr, 64 * n * info['cond'] * EPS_LD)
    allow = W * (to_fraction(relerr) * to_fraction(A)) ** 2
    if S_impl > S_opt * (1 + Fraction(1, 10 ** 12)) + allow:
        ctx.oracle_fail(case, {'what': 'not the least-squares optimum of the %s family: S(impl) > S(exact optimum)'
                                       % geom,
                               'S_impl': float(S_impl), 'S_opt': float(S_opt), 'impl': p,
                               'exact_optimum': [float(v) for v in opt['p']],
                               'rmse_reported': res[2]})
        return
    # parameters against the exact optimum, where the optimum is unique and well conditioned
    unique = True
    if geom == 'general':
        c = info['cond']
        if c > 1e6:
            unique = False
    if geom in ('rscale', 'rshift'):
        if opt['gap'] < Fraction(1, 10 ** 6) or opt.get('hzero'):
            unique = False
    if unique:
        ok, det = params_close(p, opt['p'], A)
        if not ok:
            det.update({'what': 'parameters differ from the exact optimum', 'impl': p,
                        'exact_optimum': [float(v) for v in opt['p']]})
            ctx.oracle_fail(case, det)
            return
        ctx.branch('oracle:parameters')
    else:
        ctx.branch('oracle:objective-only')
    # noise-free recovery
    if 'truth' in case:
        t = case['truth']
        if unique and not opt['collinear']:
            ok, det = params_close(p, t, A)
            ctx.branch('oracle:recovery')
        else:
            ok, det = positions_close(p, t, uv, A, rel=relerr, w=w)
            ctx.branch('oracle:recovery-positions')
        if not ok:
            det.update({'what': 'noise-free data of a member of the family are not recovered', 'impl': p, 'truth': t})
            ctx.oracle_fail(case, det)
            return
    if 'truth_fit' in case:
        ok, det = params_close(p, case['truth_fit'], A)
        if not ok:
            det.update({'what': 'hand-computed optimum not returned', 'impl': p})
            ctx.oracle_fail(case, det)
            return
    # moves inside the family never improve the objective
    for _ in range(2):
        q = perturb_in_family(ctx.rng, geom, p, A)
        Sq = objective(w, fx, fu, [to_fraction(v) if not isinstance(v, Fraction) else v for v in q])
        if Sq * (1 + Fraction(1, 10 ** 12)) + allow < S_impl:
            ctx.oracle_fail(case, {'what': 'a nearby member of the family has a smaller objective',
                                   'S_impl': float(S_impl), 'S_other': float(Sq), 'impl': p,
                                   'other': [float(v) for v in q]})
            return
    # a common factor of the weights is irrelevant
    if weighted and ctx.rng.random() < 0.3:
        # (also factors that take the sums of weights far away from 1: a test against an absolute threshold
        # anywhere in the fit would show)
        k = ctx.rng.choice([0.25, 3.0, 1000.0, 2.0 ** -90, 1e-12, 1e12, 2.0 ** 80])
        ctx.branch('weight-factor:%s' % ('extreme' if k < 1e-6 or k > 1e6 else 'moderate'))
        r2 = impl_fit(geom, xy, uv, None if wxy is None else [k * a for a in wxy],
                      None if wuv is None else [k * a for a in wuv])
        if r2[0] != 'ok':
            ctx.oracle_fail(case, {'what': 'scaling all weights by %g makes the fit fail' % k, 'got': list(r2[:2])})
        else:
            # same admissible error as for the objective: 1e-9, or the elimination bound 64 n cond eps_ld of an
            # ill-conditioned normal matrix of fit_general (thin point sets of the corpus)
            ok, det = positions_close(r2[1], p, uv, A, rel=relerr, w=w)
            if not ok:
                det.update({'what': 'scaling all weights by %g changes the fit' % k, 'impl': p, 'scaled': r2[1]})
                ctx.oracle_fail(case, det)


def parse_out(out, mode):
    toks = out.split()
    if not toks:
        return ('bad', out)
    if toks[0] == 'err':
        return ('err', toks[1] if len(toks) > 1 else '?')
    if toks[0] == 'ok' and len(toks) == 7:
        if mode == 'Q':
            return ('ok', [s2q(t) for t in toks[1:]])
        return ('ok', [x2f(t) for t in toks[1:]])
    return ('bad', out[:80])


def compare(ctx, outs, pending):
    for out, (case, mode, res, info) in zip(outs, pending):
        mres = parse_out(out, mode)
        geom = case['geom']
        opt = info.get('opt')
        A = data_size(case)
        op = {'op': 'fit', 'mode': mode, 'geom': geom}
        if mres[0] == 'bad':
            d = dict(op)
            d.update({'model': mres[1], 'impl': list(res[:2])})
            ctx.disagree(case, d)
            continue
        if mres[0] == 'err':
            ctx.branch('model:%s' % mres[1])
            if res[0] == 'err':
                if res[1] != mres[1]:
                    d = dict(op)
                    d.update({'model': 'err ' + mres[1], 'impl': 'err ' + str(res[1])})
                    ctx.disagree(case, d)
            else:
                # model says error, implementation returned: only singular-by-rounding is a tie.
                # fit_general: the guard quantity computed exactly from the data must be inside the
                # band around 2^-52 (widened by the model's own rounding error in double mode)
                if mres[1] == 'singular' and geom == 'general' and 'ratio' in info and \
                        guard_mismatch_is_tie(info['ratio'], mode, len(case['uv'])):
                    ctx.near_tie()
                    ctx.branch('guard-mismatch-in-band:' + mode)
                elif mres[1] == 'singular' and geom != 'general' and mode == 'F':
                    ctx.near_tie()
                else:
                    d = dict(op)
                    d.update({'model': 'err ' + mres[1], 'impl': res[1]})
                    if 'ratio' in info:
                        d['guard_quantity'] = float(info['ratio'])
                    ctx.disagree(case, d)
            continue
        # model returned parameters
        if res[0] == 'err':
            if res[1] == 'singular' and geom == 'general' and 'ratio' in info and \
                    guard_mismatch_is_tie(info['ratio'], mode, len(case['uv'])):
                ctx.near_tie()
                ctx.branch('guard-mismatch-in-band:' + mode)
            elif res[1] == 'singular' and geom != 'general' and \
                    (mode == 'F' or opt is None or opt.get('status') != 'ok'):
                ctx.near_tie()
            else:
                d = dict(op)
                d.update({'model': [float(v) for v in mres[1]], 'impl': 'err ' + str(res[1])})
                if 'ratio' in info:
                    d['guard_quantity'] = float(info['ratio'])
                ctx.disagree(case, d)
            continue
        if opt is None or opt.get('status') != 'ok':
            ctx.near_tie()
            continue
        mp = mres[1]
        p = res[1]
        if not all(math.isfinite(float(v)) for v in mp):
            ctx.near_tie()
            continue
        rel = 1e-9
        compare_params = True
        if geom == 'general':
            c = info.get('cond') or 1.0
            if mode == 'Q' and c > 1e6:
                compare_params = False
            if mode == 'F':
                rel = max(1e-9, 256 * c * EPS)
                if c > 1e10:
                    compare_params = False
        if geom in ('rscale', 'rshift') and (opt['gap'] < Fraction(1, 10 ** 6) or opt.get('hzero')):
            compare_params = False
        if compare_params:
            ok, det = params_close(p, mp, A, rel)
            ctx.branch('corr:parameters:' + mode)
        elif geom in ('rscale', 'rshift') and opt['collinear'] and not opt.get('hzero'):
            ok, det = positions_close(p, mp, case['uv'], A, rel, w=info.get('w'))
            ctx.branch('corr:positions:' + mode)
        else:
            ctx.near_tie()
            continue
        if not ok:
            d = dict(op)
            d.update(det)
            d.update({'model': [float(v) for v in mp], 'impl': p})
            ctx.disagree(case, d)


def iter_degenerate(ctx):
    """the exactly collinear / coincident corpus through iter_linear_fit(fitgeom='general'), without and with
    clipping, and through the model of iter_linear_fit on exact rationals (driver op `iterfit Q`): both must
    report SingularMatrixError / `err singular`"""
    from . import c07 as C7
    lf = C7._lf()
    sets = [c for c in corpus() if c.get('expect') == 'singular' and c['geom'] == 'general']
    for _ in range(ctx.n(12, 120)):
        sets.append(gen_degenerate_general(ctx.rng, ctx.rng.choice(['collinear-general', 'coincident-general'])))
    lines, pend = [], []
    for c in sets:
        for nclip, accum, center in ((0, False, None), (3, False, None), (3, True, [1.0, -2.0])):
            cfg = {'xy': c['xy'], 'uv': c['uv'], 'wxy': c['wxy'], 'wuv': c['wuv'], 'fitgeom': 'general',
                   'center': center, 'sigma': 3.0, 'stat': 'rmse', 'accum': accum}
            case = {'op': 'iter-degenerate', 'nclip': nclip, 'accum': accum, 'center': center, 'uv': c['uv'],
                    'xy': c['xy'], 'wxy': c['wxy'], 'wuv': c['wuv']}
            ctx.case(case, nontrivial=True, branch='iter-degenerate:nclip=%d' % nclip)
            r = C7.impl_call(cfg, nclip)
            if r[0] != 'err' or r[1] != 'singular':
                ctx.oracle_fail(case, {'what': 'iter_linear_fit(fitgeom=general) on exactly collinear / coincident '
                                               'points did not raise SingularMatrixError',
                                       'got': r[1] if r[0] == 'err' else 'returned a fit'})
            lines.append(C7.model_line(cfg, nclip, 'Q'))
            pend.append((case, r))
    for out, (case, r) in zip(ctx.driver(lines), pend):
        if out.split()[:2] != ['err', 'singular']:
            ctx.disagree(case, {'op': 'iterfit', 'mode': 'Q', 'model': out[:80],
                                'impl': 'err ' + r[1] if r[0] == 'err' else 'returned a fit'})


def strip(case):
    return {k: v for k, v in case.items() if not k.startswith('_')}


def run(ctx):
    lines, pending = [], []
    cases = corpus()
    for _ in range(ctx.n(380, 9000)):
        cases.append(gen_case(ctx.rng))
    for _ in range(ctx.n(40, 600)):
        cases.append(gen_rejected(ctx.rng))
    for case in cases:
        check_case(ctx, case, lines, pending)
    # the driver is fed in chunks so that a child never runs longer than its time limit
    outs = []
    chunk = 2000
    for i in range(0, len(lines), chunk):
        outs.extend(ctx.driver(lines[i:i + chunk]))
    compare(ctx, outs, pending)
    iter_degenerate(ctx)
    for lst in (ctx.disagreements, ctx.oracle_failures):
        for d in lst:
            d['case'] = strip(d['case'])
    ctx.samples = [strip(s) for s in ctx.samples]


def replay(ctx, payload):
    fi = payload.get('failing_input') or (payload.get('correspondence') or [None])[0]
    if not fi:
        print('nothing to replay: %s' % payload.get('broken'))
        return 1
    case = dict(fi['case'])
    case = {k: v for k, v in case.items() if not k.startswith('_')}
    lines, pending = [], []
    check_case(ctx, case, lines, pending)
    compare(ctx, ctx.driver(lines), pending)
    bad = ctx.oracle_failures + ctx.disagreements
    for b in bad:
        print('STILL FAILS:', b['detail'])
    if not bad:
        print('no longer fails')
    return 1 if bad else 0
