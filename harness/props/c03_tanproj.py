"""
C03 (extension) -- the concrete V2V3 <-> tangent-plane pipeline of JWSTWCSCorrector.

The theorems of Proofs/C03.lean, section `tanproj`, are about Model/TanProj.lean, which builds
`U = unit_conv | s2c | rot | c2tan` and `Uinv = tan2c | rot_inv | c2s | unit_conv_inv` concretely.
This module ties that model to the code and searches the code for failures of what the theorems say.

Correspondence (model driver vs real astropy/gwcs models built by the code's own functions):
  * `JWSTWCSCorrector._tpcorr_init(v2_ref, v3_ref, roll_ref)`, tp_affine / tp_affine_inv set through
    `JWSTWCSCorrector._tpcorr_combine_affines` (0, 1 or 2 calls): `total_corr(v2, v3)`, its `.inverse`,
    `_v2v3_to_tpcorr_from_full(tpcorr)` and ITS inverse  <->  ops tp.total / tp.totalinv / tp.U / tp.Uinv;
    accumulated tp_affine and tp_affine_inv  <->  tp.combine; matrices of `rot`, `rot_inv` (probed with
    the unit vectors)  <->  tp.rot; the domain predicate of the theorems  <->  tp.dom;
  * the Cartesian core `affine | tan2c | rot_inv | rot | c2tan` evaluated with the real sub-models
    <->  tp.cart in EXACT rational arithmetic on the exact values of the doubles the code uses
    (difference = float rounding of ~30 operations only);
  * the `_tpcorr` / `_partial_tpcorr` of real JWSTWCSCorrector objects (harness/scenes.py: mk_jwst)
    after one and two `set_correction` calls, with the reference angles the corrector was GIVEN
    (wcsinfo / 3600) fed to the model.

Oracle on the real code (independent of the model: textbook formulas in numpy longdouble, ground truth
by construction, metamorphic relations):
  * textbook gnomonic projection (xi = cos(phi) sin(dlam) / cos(c), eta = (cos(phi0) sin(phi) -
    sin(phi0) cos(phi) cos(dlam)) / cos(c), then the rotation by roll_ref) followed by the affine map
    equals the real `_v2v3_to_tpcorr_from_full(tpcorr)`;
  * points are CONSTRUCTED at angular distance rho and position angle theta from the reference
    direction: the real U must return tan(rho) (sin(theta), cos(theta)) rotated by roll;
  * U(Uinv(x)) = x for every plane point; Uinv(U(v)) = v on the hemisphere; total_corr with the
    identity affine is the identity on the hemisphere; total_corr(A).inverse o total_corr(A) = id;
    total_corr after combine(A), combine(B) = total_corr(B-only) o total_corr(A-only);
    an input longitude outside (-180, 180] comes back as its representative in that range.

Noise floors measured on the unchanged tree (VERIF_SEED 0, 1, 2, thorough tier: 3 x 4000 reference
triples x 6 points, 3 x 200 correctors; every run records its own largest error / tolerance ratios in
evidence/C03.json: coverage.tanproj_floors_over_tolerance, coverage.tanproj_max_v2v3_diff_arcsec) and the
tolerances chosen:
  * tangent-plane values: |diff| <= TOL_TP * max(1, |value|), TOL_TP = 1e-14.  Largest observed:
    model vs code 3.4e-15, textbook oracle vs code 2.0e-15, U(Uinv(x)) - x 2.8e-15, exact rational
    Cartesian core vs the real sub-models 6.0e-16 (all relative to max(1, |value|)).
    A purely relative 1e-14 is NOT attainable near the reference direction: a tangent-plane value is a
    quotient of components of a unit vector that carry ABSOLUTE rounding ~1e-16, so a point 1e-7 rad
    from the reference direction has relative noise 1e-9; hence the floor `max(1, .)`.
  * V2V3 values (arcsec): |d v3| and |d v2| cos(v3) <= 1e-9 + 1e-12 * max(|v2|, |v3|).  Largest observed
    difference: model vs code 6.8e-10 arcsec, real round trips 5.6e-10 arcsec (both at |v2| ~ 6e5 arcsec
    where the bound is 6e-7; 1 ulp of 648000 arcsec is 1.2e-10, 1 ulp of a unit-vector component is
    4.6e-11 arcsec); largest error / bound: 0.19 (model vs code), 0.16 (oracle).  The longitude
    difference is weighted with cos(latitude) (great-circle metric): at latitude 89.9 deg the raw
    longitude carries 573x the noise (3.2e-9 arcsec raw was measured at v3_ref = -89.9 deg).
  * entries of the rotation matrices: 1e-14 absolute (observed 2.3e-15: the angles go deg -> rad ->
    deg -> rad in astropy, |angle| up to 2 pi); accumulated tp_affine / tp_affine_inv: 1e-13 norm-wise
    relative (x cond for the inverse; observed 1.0e-15).
A sign error in one angle, a swapped Mapping index, a 3600 vs 1/3600 slip, a transposed matrix or a
wrong order in `_tpcorr_combine_affines` changes the results by >= 1e-3 relative for every non-degenerate
case: 11 orders above the tolerances (seeded: `[v2_ref, v3_ref, roll_ref]`, `Mapping((2, 1))` in either
c2tan, `Scale(1/3600)` for deg_to_arcsec, `+np.dot(invm, t)`, `np.dot(old, matrix)`: all exit 1).
"""
import math

import numpy as np

from .. import scenes
from ..common import f2x, x2f, q2s, s2q, Fraction, to_fraction

ASSUMPTIONS = [
    'tanproj: the library models the code composes (astropy RotationSequence3D / Mapping / Scale / Const1D / '
    'Identity / AffineTransformation2D, gwcs SphericalToCartesian / CartesianToSpherical) are represented by the '
    'formulas of Model/TanProj.lean; this is validated by the correspondence runs, not proved',
    'tanproj: the theorems are about real numbers (HasTrig R: cos, sin, Complex.arg; hypot = sqrt(x^2+y^2)); '
    'floating-point rounding is not modelled, the code is compared with the Float run of the model up to the '
    'documented tolerances',
    'tanproj: detector->V2V3 (D) and V2V3corr->world (R) are still arbitrary bijections in the theorems',
]

LD = np.longdouble
PI = LD(4) * np.arctan(LD(1))
D2R = PI / LD(180)
ARCSEC2RAD = 1.0 / (3600.0 * np.rad2deg(1.0))

TOL_TP = 1e-14
TOL_V_ABS = 1e-9
TOL_V_REL = 1e-12
TOL_MAT = 1e-14          # entries of rotation matrices (|entry| <= 1)
TOL_AFF = 1e-13          # accumulated affine, norm-wise relative; measured floor 4e-16 (inverse 2e-15)
FLOORS = {}              # filled while running: largest observed error / tolerance per check
ABS_V = {}               # ... and largest great-circle-weighted V2V3 difference in arcsec per check
_LAST = {'abs': 0.0}


def _J():
    from tweakwcs.correctors import JWSTWCSCorrector
    return JWSTWCSCorrector


def _floor(name, ratio, v=False):
    if ratio == ratio and ratio > FLOORS.get(name, 0.0):
        FLOORS[name] = float(ratio)
    if v and _LAST['abs'] > ABS_V.get(name, 0.0):
        ABS_V[name] = _LAST['abs']


# ----------------------------------------------------------------------------
# independent geometry (numpy longdouble)
# ----------------------------------------------------------------------------
def sph_point(lon0, lat0, rho, theta):
    """direction at angular distance rho [rad] and position angle theta [rad, from north through
    east] from (lon0, lat0) [deg]; returns (lon, lat) in degrees (longdouble), lon in (-180, 180]"""
    l0, b0 = LD(lon0) * D2R, LD(lat0) * D2R
    n = np.array([np.cos(b0) * np.cos(l0), np.cos(b0) * np.sin(l0), np.sin(b0)])
    east = np.array([-np.sin(l0), np.cos(l0), LD(0)])
    north = np.array([-np.sin(b0) * np.cos(l0), -np.sin(b0) * np.sin(l0), np.cos(b0)])
    rho, theta = LD(rho), LD(theta)
    p = np.cos(rho) * n + np.sin(rho) * (np.cos(theta) * north + np.sin(theta) * east)
    lon = np.arctan2(p[1], p[0]) / D2R
    lat = np.arctan2(p[2], np.hypot(p[0], p[1])) / D2R
    return lon, lat


def gnomonic(v2, v3, v2r_deg, v3r_deg, roll):
    """textbook gnomonic projection of the V2V3 points (arcsec, arrays) about the reference direction
    (degrees), rotated by roll (degrees); returns (x, y, cos c) as longdouble arrays"""
    lam = np.asarray(v2, dtype=LD) / LD(3600) * D2R
    phi = np.asarray(v3, dtype=LD) / LD(3600) * D2R
    lam0, phi0, r = LD(v2r_deg) * D2R, LD(v3r_deg) * D2R, LD(roll) * D2R
    dl = lam - lam0
    cosc = np.sin(phi0) * np.sin(phi) + np.cos(phi0) * np.cos(phi) * np.cos(dl)
    xi = np.cos(phi) * np.sin(dl) / cosc
    eta = (np.cos(phi0) * np.sin(phi) - np.sin(phi0) * np.cos(phi) * np.cos(dl)) / cosc
    return np.cos(r) * xi + np.sin(r) * eta, -np.sin(r) * xi + np.cos(r) * eta, cosc


def aff_ld(M, t, x, y):
    M = np.asarray(M, dtype=LD)
    t = np.asarray(t, dtype=LD)
    return M[0, 0] * x + M[0, 1] * y + t[0], M[1, 0] * x + M[1, 1] * y + t[1]


# ----------------------------------------------------------------------------
# comparison
# ----------------------------------------------------------------------------
def tp_ratio(a, b):
    """max over points of |a - b| / (TOL_TP * max(1, |b|)); a, b = (x array, y array)"""
    a0, a1 = np.asarray(a[0], dtype=LD), np.asarray(a[1], dtype=LD)
    b0, b1 = np.asarray(b[0], dtype=LD), np.asarray(b[1], dtype=LD)
    if a0.size == 0:
        return 0.0
    d = np.maximum(np.abs(a0 - b0), np.abs(a1 - b1))
    s = np.maximum(LD(1), np.hypot(b0, b1))
    r = d / (LD(TOL_TP) * s)
    if not np.all(np.isfinite(r.astype(float))):
        return float('inf')
    return float(np.max(r))


def v_ratio(a, b, near_tie=None):
    """max over points of the great-circle-weighted difference of V2V3 values (arcsec) over the
    tolerance.  A 360 deg jump exactly at the +-180 deg wrap is a near-tie, not a difference."""
    a0, a1 = np.asarray(a[0], dtype=float).ravel(), np.asarray(a[1], dtype=float).ravel()
    b0, b1 = np.asarray(b[0], dtype=float).ravel(), np.asarray(b[1], dtype=float).ravel()
    worst = 0.0
    _LAST['abs'] = 0.0
    for k in range(a0.size):
        d0 = abs(a0[k] - b0[k])
        if abs(d0 - 1296000.0) < 1e-3 and abs(abs(b0[k]) - 648000.0) < 1e-6:
            if near_tie is not None:
                near_tie()
            d0 = abs(d0 - 1296000.0)
        c = abs(math.cos(math.radians(b1[k] / 3600.0)))
        d = max(d0 * c, abs(a1[k] - b1[k]))
        tol = TOL_V_ABS + TOL_V_REL * max(abs(b0[k]), abs(b1[k]))
        r = d / tol
        if not math.isfinite(r):
            return float('inf')
        worst = max(worst, r)
        _LAST['abs'] = max(_LAST['abs'], d)
    return worst


# ----------------------------------------------------------------------------
# generators
# ----------------------------------------------------------------------------
def gen_ref(rng):
    """reference triple as wcsinfo gives it: v2_ref, v3_ref in arcsec, roll_ref in degrees"""
    k = rng.random()
    if k < 0.25:          # JWST-like
        v2, v3, kind = rng.uniform(-500, 500), rng.uniform(-800, 100), 'jwst'
    elif k < 0.5:         # anywhere on the V2V3 sphere
        v2, v3, kind = rng.uniform(-648000, 648000), rng.uniform(-85, 85) * 3600.0, 'any'
    elif k < 0.75:        # high latitude: v3_ref near +-80 deg (and up to 89)
        lat = rng.uniform(78, 82) if rng.random() < 0.7 else rng.uniform(82, 89)
        v2, v3, kind = rng.uniform(-648000, 648000), rng.choice([-1, 1]) * lat * 3600.0, 'highlat'
    else:                 # next to the +-180 deg longitude wrap
        v2 = rng.choice([-1, 1]) * (648000.0 - 10 ** rng.uniform(-3, 4.3))
        v3, kind = rng.uniform(-70, 70) * 3600.0, 'wrap'
    k = rng.random()
    roll = rng.choice([0.0, 90.0, 180.0, -90.0, 270.0, 360.0]) if k < 0.15 else rng.uniform(-360, 360)
    return v2, v3, roll, kind


def gen_points(rng, v2d, v3d, n):
    """V2V3 points (arcsec) constructed at known (rho, theta) from the reference direction"""
    v2, v3, rho, theta, flag = [], [], [], [], []
    for _ in range(n):
        k = rng.random()
        if k < 0.6:
            r, fl = 10 ** rng.uniform(-7.5, math.log10(math.radians(6.0))), 'near'
        elif k < 0.85:
            r, fl = math.radians(rng.uniform(6.0, 80.0)), 'far'
        else:
            r, fl = math.radians(rng.uniform(100.0, 170.0)), 'back'
        th = rng.uniform(0, 2 * math.pi)
        lon, lat = sph_point(v2d, v3d, r, th)
        if abs(float(lat)) > 89.999:
            r, fl = 10 ** rng.uniform(-7.5, -2), 'near'
            lon, lat = sph_point(v2d, v3d, r, th)
        if fl == 'near' and rng.random() < 0.08:
            lon = lon + LD(360) * rng.choice([-1, 1])   # same direction, longitude outside (-180, 180]
            fl = 'unwrapped'
        v2.append(float(lon * LD(3600)))
        v3.append(float(lat * LD(3600)))
        rho.append(r)
        theta.append(th)
        flag.append(fl)
    return np.array(v2), np.array(v3), np.array(rho), np.array(theta), flag


def gen_tp_affine(rng):
    """an increment for `_tpcorr_combine_affines(tpcorr, matrix, shift)` (shift in tangent-plane units)"""
    if rng.random() < 0.5:
        return scenes.rand_affine(rng, kind=rng.choice(['general', 'rscale', 'rshift', 'shift']),
                                  max_rot=30.0, max_dscale=0.2, max_shift=10 ** rng.uniform(-5, -2))
    return scenes.rand_affine(rng, kind=rng.choice(['general', 'rscale', 'rshift', 'shift']),
                              max_rot=0.05, max_dscale=0.001, max_shift=10 ** rng.uniform(-8, -5))


def read_affine(tc):
    return (np.array(tc['tp_affine'].matrix.value, dtype=float),
            np.array(tc['tp_affine'].translation.value, dtype=float))


def read_affine_inv(tc):
    inv = tc.inverse
    return (np.array(inv['tp_affine_inv'].matrix.value, dtype=float),
            np.array(inv['tp_affine_inv'].translation.value, dtype=float))


def submodel(tc, first, last):
    names = list(tc.submodel_names)
    i, j = names.index(first), names.index(last)
    return tc[i] if i == j else tc[i:j + 1]


def probe_matrix(rot):
    """the matrix a 3-vector model multiplies by, from the images of the unit vectors (exact)"""
    cols = [np.array(rot(*e), dtype=float).ravel() for e in
            ((1.0, 0.0, 0.0), (0.0, 1.0, 0.0), (0.0, 0.0, 1.0))]
    return np.array(cols).T + 0.0


def ref_tokens(v2d, v3d, roll):
    return [f2x(v2d), f2x(v3d), f2x(roll)]


def aff_tokens(M, t):
    return [f2x(M[0, 0]), f2x(M[0, 1]), f2x(M[1, 0]), f2x(M[1, 1]), f2x(t[0]), f2x(t[1])]


def parse_pts(outs):
    """driver lines `ok a b` -> (array a, array b); None on any other answer"""
    a, b = [], []
    for o in outs:
        tok = o.split()
        if len(tok) != 3 or tok[0] != 'ok':
            return None
        a.append(x2f(tok[1]))
        b.append(x2f(tok[2]))
    return np.array(a), np.array(b)


# ----------------------------------------------------------------------------
# one scenario on models built by `_tpcorr_init`
# ----------------------------------------------------------------------------
class Job:
    """driver lines of one scenario and what to compare their answers with"""

    def __init__(self, case):
        self.case = case
        self.items = []     # (op, lines, kind, expected)

    def add(self, op, lines, kind, expected):
        self.items.append((op, lines, kind, expected))


def init_scenario(ctx, rng, jobs, forced=None):
    Jc = _J()
    if forced is None:
        v2a, v3a, roll, kind = gen_ref(rng)
    else:
        v2a, v3a, roll, kind = forced
    v2d, v3d = v2a / 3600.0, v3a / 3600.0          # as JWSTWCSCorrector.__init__ passes them
    naff = rng.choice([0, 1, 1, 2, 2])
    incs = [gen_tp_affine(rng) for _ in range(naff)]
    npt = 6
    v2, v3, rho, theta, flag = gen_points(rng, v2d, v3d, npt)
    case = {'part': 'tanproj', 'ref_arcsec_deg': [v2a, v3a, roll], 'kind': kind,
            'increments': [[f.M.tolist(), f.t.tolist()] for f in incs],
            'v2': v2.tolist(), 'v3': v3.tolist(), 'flags': flag}
    ctx.case(case, nontrivial=naff > 0, branch='tp:%s:%d' % (kind, naff))

    def fail(what, **kw):
        d = {'what': what}
        d.update(kw)
        ctx.oracle_fail(case, d)

    try:
        tc0 = Jc._tpcorr_init(v2_ref=v2d, v3_ref=v3d, roll_ref=roll)
        tc = Jc._tpcorr_init(v2_ref=v2d, v3_ref=v3d, roll_ref=roll)
        for f in incs:
            Jc._tpcorr_combine_affines(tc, f.M, f.t)
        part = Jc._v2v3_to_tpcorr_from_full(tc)
        M, t = read_affine(tc)
        Mi, ti = read_affine_inv(tc)
        ux, uy = (np.asarray(a, dtype=float) for a in part(v2, v3))
        # independent plane points for the way back
        rr = np.array([10 ** rng.uniform(-8, 0.7) for _ in range(npt)])
        ta = np.array([rng.uniform(0, 2 * math.pi) for _ in range(npt)])
        xr, yr = rr * np.cos(ta), rr * np.sin(ta)
        bx, by = (np.asarray(a, dtype=float) for a in part.inverse(xr, yr))
        tx, ty = (np.asarray(a, dtype=float) for a in tc(v2, v3))
        ix, iy = (np.asarray(a, dtype=float) for a in tc.inverse(v2, v3))
    except Exception as ex:
        fail('the pipeline raised on a legitimate input', error='%s: %s' % (type(ex).__name__, ex))
        return

    indom = np.array([fl in ('near', 'far') for fl in flag])

    # ---- oracle: textbook gnomonic projection + affine = real partial model -------------
    gx, gy, cosc = gnomonic(v2, v3, v2d, v3d, roll)
    ax, ay = aff_ld(M, t, gx, gy)
    nrmM = max(1.0, float(np.linalg.norm(M, 2)))
    r = tp_ratio((ux, uy), (ax, ay)) / nrmM
    _floor('oracle gnomonic', r)
    if r > 1.0:
        fail('_v2v3_to_tpcorr_from_full(tpcorr)(v2, v3) differs from the textbook gnomonic projection '
             'followed by tp_affine', ratio_to_tolerance=r, real=[ux.tolist(), uy.tolist()],
             textbook=[[float(v) for v in ax], [float(v) for v in ay]])
    # ground truth by construction: distance rho, position angle theta
    rl = LD(roll) * D2R
    cxi = np.tan(np.asarray(rho, dtype=LD)) * np.sin(np.asarray(theta, dtype=LD))
    ceta = np.tan(np.asarray(rho, dtype=LD)) * np.cos(np.asarray(theta, dtype=LD))
    cx, cy = aff_ld(M, t, np.cos(rl) * cxi + np.sin(rl) * ceta, -np.sin(rl) * cxi + np.cos(rl) * ceta)
    # the constructed (lon, lat) are rounded to doubles in arcsec: 1 ulp of 648000" is 5.6e-16 rad on
    # the sphere, amplified by 1/cos^2(rho) in the plane
    amp = np.asarray(1.0 / np.cos(np.asarray(rho, dtype=float)) ** 2)
    d = np.maximum(np.abs(np.asarray(ux, dtype=LD) - cx), np.abs(np.asarray(uy, dtype=LD) - cy))
    r = float(np.max(d / (LD(20 * TOL_TP) * amp * nrmM)))
    _floor('oracle by construction', r)
    if not (r <= 1.0):
        fail('U(point constructed at distance rho, position angle theta) != tan(rho) (sin, cos)(theta) '
             'rotated by roll', ratio_to_tolerance=r)

    # ---- oracle: round trips of the real models -------------------------------------------
    condM = max(1.0, float(np.linalg.cond(M)))
    fx, fy = part(bx, by)
    r = tp_ratio((fx, fy), (xr, yr)) / condM
    _floor('oracle U(Uinv(x))', r)
    if r > 1.0:
        fail('partial(partial.inverse(x)) != x', ratio_to_tolerance=r, x=[xr.tolist(), yr.tolist()],
             got=[np.asarray(fx).tolist(), np.asarray(fy).tolist()])
    if np.any(indom):
        wv2, wv3 = v2[indom], v3[indom]
        qx, qy = part.inverse(ux[indom], uy[indom])
        r = v_ratio((qx, qy), (wv2, wv3), ctx.near_tie) / condM
        _floor('oracle Uinv(U(v))', r, True)
        if r > 1.0:
            fail('partial.inverse(partial(v)) != v on the hemisphere', ratio_to_tolerance=r,
                 v=[wv2.tolist(), wv3.tolist()], got=[np.asarray(qx).tolist(), np.asarray(qy).tolist()])
        ox, oy = tc0(wv2, wv3)
        r = v_ratio((ox, oy), (wv2, wv3), ctx.near_tie)
        _floor('oracle total_corr(identity)', r, True)
        if r > 1.0:
            fail('total_corr with the identity affine is not the identity on the hemisphere',
                 ratio_to_tolerance=r, v=[wv2.tolist(), wv3.tolist()],
                 got=[np.asarray(ox).tolist(), np.asarray(oy).tolist()])
        # the forward image is an image of Uinv: always in the hemisphere, longitude in (-180, 180]
        rx, ry = tc.inverse(tx[indom], ty[indom])
        r = v_ratio((rx, ry), (wv2, wv3), ctx.near_tie) / condM
        _floor('oracle inverse(total_corr(v))', r, True)
        if r > 1.0:
            fail('total_corr.inverse(total_corr(v)) != v on the hemisphere', ratio_to_tolerance=r,
                 v=[wv2.tolist(), wv3.tolist()], got=[np.asarray(rx).tolist(), np.asarray(ry).tolist()])
        rx, ry = tc(ix[indom], iy[indom])
        r = v_ratio((rx, ry), (wv2, wv3), ctx.near_tie) / condM
        _floor('oracle total_corr(inverse(v))', r, True)
        if r > 1.0:
            fail('total_corr(total_corr.inverse(v)) != v on the hemisphere', ratio_to_tolerance=r,
                 v=[wv2.tolist(), wv3.tolist()], got=[np.asarray(rx).tolist(), np.asarray(ry).tolist()])
    unw = np.array([fl == 'unwrapped' for fl in flag])
    if np.any(unw):
        qx, qy = tc0(v2[unw], v3[unw])
        want = (v2[unw] - 1296000.0 * np.sign(v2[unw]), v3[unw])
        r = v_ratio((qx, qy), want, ctx.near_tie)
        _floor('oracle unwrapped longitude', r, True)
        if r > 1.0:
            fail('a longitude outside (-180, 180] deg does not come back as its representative in that range',
                 ratio_to_tolerance=r, v=[v2[unw].tolist(), v3[unw].tolist()],
                 got=[np.asarray(qx).tolist(), np.asarray(qy).tolist()])
        ctx.branch('tp:unwrapped')
    if naff == 2 and rng.random() < 0.5 and np.any(indom):
        try:
            tA = Jc._tpcorr_init(v2_ref=v2d, v3_ref=v3d, roll_ref=roll)
            Jc._tpcorr_combine_affines(tA, incs[0].M, incs[0].t)
            tB = Jc._tpcorr_init(v2_ref=v2d, v3_ref=v3d, roll_ref=roll)
            Jc._tpcorr_combine_affines(tB, incs[1].M, incs[1].t)
            px_, py_ = tB(*tA(v2[indom], v3[indom]))
            r = v_ratio((tx[indom], ty[indom]), (px_, py_), ctx.near_tie) / condM
            _floor('oracle composition', r, True)
            if r > 1.0:
                fail('total_corr after combine(A), combine(B) != total_corr(B) o total_corr(A)',
                     ratio_to_tolerance=r, v=[v2[indom].tolist(), v3[indom].tolist()])
            ctx.branch('tp:composition')
        except Exception as ex:
            fail('composition check raised', error='%s: %s' % (type(ex).__name__, ex))

    if ctx.search_only:
        return

    # ---- correspondence lines ------------------------------------------------------------
    job = Job(case)
    ref = ref_tokens(v2d, v3d, roll)
    afft = aff_tokens(M, t)
    job.add('tp.U', [' '.join(['tp.U', 'F'] + ref + afft + [f2x(v2[k]), f2x(v3[k])]) for k in range(npt)],
            'tp', (ux, uy))
    job.add('tp.Uinv', [' '.join(['tp.Uinv', 'F'] + ref + afft + [f2x(xr[k]), f2x(yr[k])])
                        for k in range(npt)], 'v', (bx, by))
    job.add('tp.total', [' '.join(['tp.total', 'F'] + ref + afft + [f2x(v2[k]), f2x(v3[k])])
                         for k in range(npt)], 'v', (tx, ty))
    job.add('tp.totalinv', [' '.join(['tp.totalinv', 'F'] + ref + afft + [f2x(v2[k]), f2x(v3[k])])
                            for k in range(npt)], 'v', (ix, iy))
    # domain predicate: compared only when the deciding quantities are clearly away from the thresholds
    dk = [k for k in range(npt) if abs(float(cosc[k])) > 1e-9 and abs(abs(v2[k]) - 648000.0) > 1e-3]
    job.add('tp.dom', [' '.join(['tp.dom', 'F'] + ref + [f2x(v2[k]), f2x(v3[k])]) for k in dk], 'dom',
            [flag[k] in ('near', 'far') for k in dk])
    for _ in range(npt - len(dk)):
        ctx.near_tie()
    # accumulated affine and its inverse
    job.add('tp.combine', [' '.join(['tp.combine', 'F', str(naff)] +
                                    [tok for f in incs for tok in aff_tokens(f.M, f.t)])], 'aff',
            (M, t, Mi, ti))
    # rotation matrices as the real sub-models apply them
    try:
        R = probe_matrix(tc['det_to_optic_axis'])
        Ri = probe_matrix(tc['optic_axis_to_det'])
        job.add('tp.rot', [' '.join(['tp.rot', 'F'] + ref)], 'mat', (R, Ri))
        # exact Cartesian core on the doubles the code uses
        c2tan = submodel(tc, 'xyz', 'xtyt')
        tan2c = submodel(tc, 'xtyt2xyz', 'I(2D)')
        rot, roti, aff = tc['det_to_optic_axis'], tc['optic_axis_to_det'], tc['tp_affine']
        k = rng.randrange(npt)
        out = c2tan(*rot(*roti(*tan2c(*aff(xr[k], yr[k])))))
        qtok = ([q2s(to_fraction(v)) for v in R.ravel()] + [q2s(to_fraction(v)) for v in Ri.ravel()] +
                [q2s(to_fraction(v)) for v in (M[0, 0], M[0, 1], M[1, 0], M[1, 1], t[0], t[1])] +
                [q2s(to_fraction(xr[k])), q2s(to_fraction(yr[k]))])
        job.add('tp.cart', [' '.join(['tp.cart', 'Q'] + qtok)], 'cartq',
                (float(np.ravel(out[0])[0]), float(np.ravel(out[1])[0])))
    except Exception as ex:
        ctx.disagree(case, {'op': 'tp.rot', 'what': 'sub-models of total_corr not accessible',
                            'error': '%s: %s' % (type(ex).__name__, ex)})
    jobs.append(job)


# ----------------------------------------------------------------------------
# real corrector objects
# ----------------------------------------------------------------------------
def corrector_scenario(ctx, rng, jobs):
    from . import c02
    c0, info = scenes.mk_jwst(rng)
    unit = c0.tanp_center_pixel_scale
    ncorr = rng.choice([1, 2])
    corrs = [c02.gen_corr(rng, unit, big=rng.random() < 0.5) for _ in range(ncorr)]
    px, py = scenes.probe_pixels(rng, c0, 5)
    case = {'part': 'tanproj-corrector', 'info': info,
            'corrs': [[f.M.tolist(), f.t.tolist()] for f in corrs], 'px': px.tolist(), 'py': py.tolist()}
    ctx.case(case, nontrivial=True, branch='tp:corrector:%d' % ncorr)

    def fail(what, **kw):
        d = {'what': what}
        d.update(kw)
        ctx.oracle_fail(case, d)

    try:
        c = c0.copy()
        v2, v3 = (np.asarray(a, dtype=float) for a in c0._det_to_v23(px, py))
        for f in corrs:
            c.set_correction(f.M.tolist(), f.t.tolist())
        tc, part = c._tpcorr, c._partial_tpcorr
        M, t = read_affine(tc)
        Mi, ti = read_affine_inv(tc)
        tx, ty = (np.asarray(a, dtype=float) for a in tc(v2, v3))
        ix, iy = (np.asarray(a, dtype=float) for a in tc.inverse(v2, v3))
        ux, uy = (np.asarray(a, dtype=float) for a in part(v2, v3))
        bx, by = (np.asarray(a, dtype=float) for a in part.inverse(ux, uy))
        angles = np.array(tc['det_to_optic_axis'].angles.value, dtype=float)
    except Exception as ex:
        fail('a corrected JWSTWCSCorrector raised', error='%s: %s' % (type(ex).__name__, ex))
        return
    v2d, v3d, roll = info['v2'] / 3600.0, info['v3'] / 3600.0, info['roll']
    # the angles stored in the model are those of the wcsinfo (v3 negated), up to deg->rad->deg rounding
    want = np.array([v2d, -v3d, roll])
    if not np.all(np.abs(angles - want) <= 4e-16 * np.maximum(1.0, np.abs(want))):
        fail('angles of det_to_optic_axis are not (v2_ref/3600, -v3_ref/3600, roll_ref)',
             angles=angles.tolist(), want=want.tolist())
    # oracle: textbook projection with the wcsinfo angles + affine = the corrector's partial model;
    # round trips of the corrector's own models
    gx, gy, _c = gnomonic(v2, v3, v2d, v3d, roll)
    ax, ay = aff_ld(M, t, gx, gy)
    r = tp_ratio((ux, uy), (ax, ay)) / max(1.0, float(np.linalg.norm(M, 2)))
    _floor('oracle gnomonic (corrector)', r)
    if r > 1.0:
        fail('_partial_tpcorr differs from the textbook gnomonic projection followed by tp_affine',
             ratio_to_tolerance=r)
    condM = max(1.0, float(np.linalg.cond(M)))
    r = v_ratio((bx, by), (v2, v3), ctx.near_tie) / condM
    _floor('oracle Uinv(U(v)) (corrector)', r, True)
    if r > 1.0:
        fail('_partial_tpcorr.inverse(_partial_tpcorr(v)) != v', ratio_to_tolerance=r)
    rx, ry = tc.inverse(tx, ty)
    r = v_ratio((rx, ry), (v2, v3), ctx.near_tie) / condM
    _floor('oracle inverse(total_corr(v)) (corrector)', r, True)
    if r > 1.0:
        fail('_tpcorr.inverse(_tpcorr(v)) != v', ratio_to_tolerance=r)
    if ctx.search_only:
        return
    job = Job(case)
    ref = ref_tokens(v2d, v3d, roll)
    afft = aff_tokens(M, t)
    n = len(v2)
    job.add('tp.total', [' '.join(['tp.total', 'F'] + ref + afft + [f2x(v2[k]), f2x(v3[k])])
                         for k in range(n)], 'v', (tx, ty))
    job.add('tp.totalinv', [' '.join(['tp.totalinv', 'F'] + ref + afft + [f2x(v2[k]), f2x(v3[k])])
                            for k in range(n)], 'v', (ix, iy))
    job.add('tp.U', [' '.join(['tp.U', 'F'] + ref + afft + [f2x(v2[k]), f2x(v3[k])]) for k in range(n)],
            'tp', (ux, uy))
    job.add('tp.Uinv', [' '.join(['tp.Uinv', 'F'] + ref + afft + [f2x(ux[k]), f2x(uy[k])])
                        for k in range(n)], 'v', (bx, by))
    # accumulated affine: own-plane corrections are handed to `_tpcorr_combine_affines` as
    # (matrix, _ARCSEC2RAD * shift)
    incs = [(np.array(f.M, dtype=np.double), ARCSEC2RAD * np.asarray(np.array(f.t, dtype=np.double)))
            for f in corrs]
    job.add('tp.combine', [' '.join(['tp.combine', 'F', str(len(incs))] +
                                    [tok for (m_, t_) in incs for tok in aff_tokens(m_, t_)])], 'aff',
            (M, t, Mi, ti))
    jobs.append(job)


# ----------------------------------------------------------------------------
# exact rational Cartesian core (driver only: executable form of theorem (a))
# ----------------------------------------------------------------------------
TRIPLES = [(3, 4, 5), (5, 12, 13), (8, 15, 17), (7, 24, 25), (20, 21, 29), (9, 40, 41), (12, 35, 37)]


def rational_rotation(rng):
    def cs():
        a, b, h = rng.choice(TRIPLES)
        if rng.random() < 0.5:
            a, b = b, a
        return Fraction(rng.choice([-1, 1]) * a, h), Fraction(rng.choice([-1, 1]) * b, h)

    def mul(A, B):
        return [[sum(A[i][k] * B[k][j] for k in range(3)) for j in range(3)] for i in range(3)]
    (c0, s0), (c1, s1), (c2, s2) = cs(), cs(), cs()
    Rz = [[c0, s0, 0], [-s0, c0, 0], [0, 0, 1]]
    Ry = [[c1, 0, -s1], [0, 1, 0], [s1, 0, c1]]
    Rx = [[1, 0, 0], [0, c2, s2], [0, -s2, c2]]
    return mul(mul(Rx, Ry), Rz)


def exact_cart(ctx, rng, jobs):
    R = rational_rotation(rng)
    A = [Fraction(rng.randint(-30, 30), rng.randint(1, 20)) for _ in range(6)]
    p = [Fraction(rng.randint(-50, 50), rng.randint(1, 30)) for _ in range(2)]
    case = {'part': 'tanproj-exact', 'R': [[q2s(v) for v in row] for row in R], 'aff': [q2s(v) for v in A],
            'p': [q2s(v) for v in p]}
    ctx.case(case, nontrivial=True, branch='tp:exact', impl=False)
    want = (A[0] * p[0] + A[1] * p[1] + A[4], A[2] * p[0] + A[3] * p[1] + A[5])
    job = Job(case)
    job.add('tp.cart', [' '.join(['tp.cart', 'Q'] + [q2s(v) for row in R for v in row] + [q2s(v) for v in A] +
                                 [q2s(v) for v in p])], 'exact', want)
    jobs.append(job)


# ----------------------------------------------------------------------------
# hand-built corpus (runs first): inputs with answers known in closed form
# ----------------------------------------------------------------------------
CORPUS = [
    # (v2_ref", v3_ref", roll deg), (v2", v3"), expected U (identity affine)
    ((0.0, 0.0, 0.0), (0.0, 0.0), (0.0, 0.0)),
    ((0.0, 0.0, 0.0), (162000.0, 0.0), (1.0, 0.0)),          # 45 deg east: first coordinate
    ((0.0, 0.0, 0.0), (0.0, 162000.0), (0.0, 1.0)),          # 45 deg north: second coordinate
    ((0.0, 36000.0, 0.0), (0.0, 36000.0), (0.0, 0.0)),       # the reference direction itself (v3_ref sign)
    ((0.0, 36000.0, 0.0), (0.0, 198000.0), (0.0, 1.0)),      # 45 deg north of a reference at +10 deg
    ((72000.0, 0.0, 0.0), (234000.0, 0.0), (1.0, 0.0)),      # 45 deg east of a reference at +20 deg
    ((0.0, 0.0, 90.0), (162000.0, 0.0), (0.0, -1.0)),        # roll
    ((0.0, 0.0, 90.0), (0.0, 162000.0), (1.0, 0.0)),
    ((648000.0, 0.0, 0.0), (-486000.0, 0.0), (1.0, 0.0)),    # across the +-180 deg wrap
    ((-648000.0, 0.0, 0.0), (486000.0, 0.0), (-1.0, 0.0)),
    ((0.0, 324000.0, 0.0), (648000.0, 162000.0), (0.0, 1.0)),   # reference at the pole
]


def corpus(ctx, jobs):
    Jc = _J()
    for (ref, v, want) in CORPUS:
        v2d, v3d, roll = ref[0] / 3600.0, ref[1] / 3600.0, ref[2]
        case = {'part': 'tanproj-corpus', 'ref_arcsec_deg': list(ref), 'v': list(v), 'want': list(want)}
        ctx.case(case, nontrivial=False, branch='tp:corpus')
        try:
            tc = Jc._tpcorr_init(v2_ref=v2d, v3_ref=v3d, roll_ref=roll)
            part = Jc._v2v3_to_tpcorr_from_full(tc)
            u = [float(np.ravel(a)[0]) for a in part(v[0], v[1])]
            b = [float(np.ravel(a)[0]) for a in part.inverse(want[0], want[1])]
        except Exception as ex:
            ctx.oracle_fail(case, {'what': 'the pipeline raised', 'error': '%s: %s' % (type(ex).__name__, ex)})
            continue
        r = tp_ratio(([u[0]], [u[1]]), ([want[0]], [want[1]]))
        if r > 1.0:
            ctx.oracle_fail(case, {'what': 'U differs from the closed-form value', 'got': u,
                                   'ratio_to_tolerance': r})
        r = v_ratio(([b[0]], [b[1]]), ([v[0]], [v[1]]), ctx.near_tie)
        if r > 1.0:
            ctx.oracle_fail(case, {'what': 'Uinv differs from the closed-form value', 'got': b,
                                   'ratio_to_tolerance': r})
        if ctx.search_only:
            continue
        job = Job(case)
        reft = ref_tokens(v2d, v3d, roll)
        job.add('tp.U', [' '.join(['tp.U', 'F'] + reft + [f2x(v[0]), f2x(v[1])])], 'tp',
                (np.array([u[0]]), np.array([u[1]])))
        job.add('tp.Uinv', [' '.join(['tp.Uinv', 'F'] + reft + [f2x(want[0]), f2x(want[1])])], 'v',
                (np.array([b[0]]), np.array([b[1]])))
        jobs.append(job)


# ----------------------------------------------------------------------------
# evaluation of the driver answers
# ----------------------------------------------------------------------------
def evaluate(ctx, jobs):
    lines = []
    for job in jobs:
        for (_op, ls, _kind, _exp) in job.items:
            lines.extend(ls)
    if not lines:
        return
    outs = ctx.driver(lines)
    pos = 0
    for job in jobs:
        for (op, ls, kind, exp) in job.items:
            o = outs[pos:pos + len(ls)]
            pos += len(ls)
            if not ls:
                continue
            if kind in ('tp', 'v'):
                got = parse_pts(o)
                if got is None:
                    ctx.disagree(job.case, {'op': op, 'model': o[0][:80]})
                    continue
                r = tp_ratio(got, exp) if kind == 'tp' else v_ratio(got, exp, ctx.near_tie)
                _floor('corr ' + op, r, kind == 'v')
                if not (r <= 1.0):
                    ctx.disagree(job.case, {'op': op, 'ratio_to_tolerance': r,
                                            'model': [got[0].tolist(), got[1].tolist()],
                                            'real': [np.asarray(exp[0]).tolist(), np.asarray(exp[1]).tolist()]})
            elif kind == 'dom':
                for ans, want in zip(o, exp):
                    if ans != ('ok 1' if want else 'ok 0'):
                        ctx.disagree(job.case, {'op': op, 'model': ans, 'harness_domain': bool(want)})
                        break
            elif kind == 'aff':
                tok = o[0].split()
                if len(tok) != 13 or tok[0] != 'ok':
                    ctx.disagree(job.case, {'op': op, 'model': o[0][:80]})
                    continue
                g = [x2f(s) for s in tok[1:]]
                M, t, Mi, ti = exp
                real = [M[0, 0], M[0, 1], M[1, 0], M[1, 1], t[0], t[1]]
                reali = [Mi[0, 0], Mi[0, 1], Mi[1, 0], Mi[1, 1], ti[0], ti[1]]
                cond = max(1.0, float(np.linalg.cond(M)))
                for nm, a, b, amp in (('tp_affine', g[:6], real, 1.0), ('tp_affine_inv', g[6:], reali, cond)):
                    sm = max(abs(v) for v in b[:4])
                    st = max(sm * max(abs(b[4]), abs(b[5])), max(abs(v) for v in b[4:]), 1e-300)
                    r = max(max(abs(x - y) for x, y in zip(a[:4], b[:4])) / (TOL_AFF * sm * amp),
                            max(abs(x - y) for x, y in zip(a[4:], b[4:])) / (TOL_AFF * st * amp))
                    _floor('corr tp.combine ' + nm, r)
                    if not (r <= 1.0):
                        ctx.disagree(job.case, {'op': op, 'what': nm, 'ratio_to_tolerance': r, 'model': a,
                                                'real': b})
            elif kind == 'mat':
                tok = o[0].split()
                if len(tok) != 19 or tok[0] != 'ok':
                    ctx.disagree(job.case, {'op': op, 'model': o[0][:80]})
                    continue
                g = np.array([x2f(s) for s in tok[1:]])
                R, Ri = exp
                for nm, a, b in (('rot', g[:9], R.ravel()), ('rot_inv', g[9:], Ri.ravel())):
                    r = float(np.max(np.abs(a - b))) / TOL_MAT
                    _floor('corr tp.rot ' + nm, r)
                    if not (r <= 1.0):
                        ctx.disagree(job.case, {'op': op, 'what': nm, 'ratio_to_tolerance': r,
                                                'model': a.tolist(), 'real': b.tolist()})
            elif kind == 'cartq':
                tok = o[0].split()
                if len(tok) != 3 or tok[0] != 'ok':
                    ctx.disagree(job.case, {'op': op, 'model': o[0][:80]})
                    continue
                got = ([float(s2q(tok[1]))], [float(s2q(tok[2]))])
                r = tp_ratio(got, ([exp[0]], [exp[1]]))
                _floor('corr tp.cart (exact model vs real sub-models)', r)
                if not (r <= 1.0):
                    ctx.disagree(job.case, {'op': op, 'ratio_to_tolerance': r, 'model': [got[0][0], got[1][0]],
                                            'real': list(exp)})
            elif kind == 'exact':
                tok = o[0].split()
                if len(tok) != 3 or tok[0] != 'ok' or (s2q(tok[1]), s2q(tok[2])) != tuple(exp):
                    ctx.disagree(job.case, {'op': op, 'what': 'exact Cartesian round trip is not the affine map',
                                            'model': o[0][:120], 'want': [q2s(exp[0]), q2s(exp[1])]})


def run_extra(ctx):
    rng = ctx.rng
    jobs = []
    corpus(ctx, jobs)
    for _ in range(ctx.n(400, 4000)):
        init_scenario(ctx, rng, jobs)
    for _ in range(ctx.n(20, 200)):
        corrector_scenario(ctx, rng, jobs)
    if not ctx.search_only:
        for _ in range(ctx.n(20, 200)):
            exact_cart(ctx, rng, jobs)
        evaluate(ctx, jobs)
    ctx.extra['tanproj_assumptions'] = ASSUMPTIONS
    ctx.extra['tanproj_floors_over_tolerance'] = {k: round(v, 4) for k, v in sorted(FLOORS.items())}
    ctx.extra['tanproj_max_v2v3_diff_arcsec'] = {k: float('%.3g' % v) for k, v in sorted(ABS_V.items())}
