"""
C03 -- detector, tangent-plane and world transforms of a corrector are coherent.

Oracle on real correctors (FITS CD/PC/SIP, mock gWCS) in states reached by histories of 0..3
operations (corrections in own / reference plane, copy, re-wrap): the six conversions are mutual
inverses and commute (tanp_to_world o det_to_tanp = det_to_world, ...), for scalar, 0-d, (n,), (1,),
(0,), (m,n) inputs; output shape follows input shape (also through the WCSImageCatalog wrappers).
Correspondence: the Lean model (ops gcorr / fcorr) predicts det_to_tanp and the sky chart position
of every probe in the same state.
"""
import numpy as np

from .. import scenes, corrsim
from . import c02, c03_tanproj

ID = 'C03'
RULE = ('corrector kind x history of 0..3 ops (S own-plane correction, R reference-plane correction, W re-wrap, '
        'C copy) x input shape (python scalars, 0-d, (n,), (1,), (0,), (m,n)); non-trivial = history contains a '
        'correction; distinct = distinct scenario parameters')
ASSUMPTIONS = [
    'the theorems treat the fixed pipeline pieces (detector->V2V3, V2V3->tangent plane, ->world; FITS distortion) '
    'as arbitrary bijections: their own invertibility (wcslib all_world2pix iteration, gwcs numerical inverses) is '
    'checked here, not proved',
    'array shapes: in the model a conversion is a pointwise map (List.map); broadcasting by numpy/astropy/gwcs is '
    'decided by this check only',
]

SHAPES = ['scalar', '0d', 'n', '1', '0', 'mn', 'mn', 'n']


def shaped(rng, kind, nx, ny):
    if kind == 'scalar':
        return float(rng.uniform(0, nx - 1)), float(rng.uniform(0, ny - 1))
    if kind == '0d':
        return np.array(rng.uniform(0, nx - 1)), np.array(rng.uniform(0, ny - 1))
    if kind == 'n':
        n = rng.randint(2, 7)
        return (np.array([rng.uniform(0, nx - 1) for _ in range(n)]),
                np.array([rng.uniform(0, ny - 1) for _ in range(n)]))
    if kind == '1':
        return np.array([rng.uniform(0, nx - 1)]), np.array([rng.uniform(0, ny - 1)])
    if kind == '0':
        return np.zeros((0,)), np.zeros((0,))
    m, n = rng.randint(1, 3), rng.randint(2, 4)
    return (np.array([[rng.uniform(0, nx - 1) for _ in range(n)] for _ in range(m)]),
            np.array([[rng.uniform(0, ny - 1) for _ in range(n)] for _ in range(m)]))


def relayout(rng, a):
    """the same values in another memory layout (Fortran order / transposed view for 2-d, strided or reversed
    view for 1-d): the conversions are pointwise maps whatever the layout of their arguments"""
    if not isinstance(a, np.ndarray) or a.ndim == 0 or a.size < 2:
        return a
    if a.ndim == 2:
        return np.asfortranarray(a) if rng.random() < 0.5 else np.ascontiguousarray(a.T).T
    k = rng.random()
    if k < 0.5:
        return np.repeat(a, 2)[::2]
    return a[::-1].copy()[::-1]


def shape_of(v):
    return () if np.isscalar(v) or isinstance(v, float) else np.shape(v)


def gen_history(rng, c0, info, maxlen=3):
    jw = scenes.is_jwst(c0)
    unit = c0.tanp_center_pixel_scale if jw else 1.0
    hist = []
    for _ in range(rng.randint(0, maxlen)):
        k = rng.random()
        if k < 0.45:
            hist.append(('S', c02.gen_corr(rng, unit, big=rng.random() < 0.4)))
        elif k < 0.65:
            ref, _ = c02.gen_ref(rng, c0, info)
            runit = ref.tanp_center_pixel_scale if scenes.is_jwst(ref) else 1.0
            hist.append(('R', c02.gen_corr(rng, runit, big=rng.random() < 0.3), ref))
        elif k < 0.85:
            hist.append(('W',))
        else:
            hist.append(('C',))
    return hist


def scenario(ctx, lines, pend):
    rng = ctx.rng
    jw = rng.random() < 0.5
    c0, info = scenes.mk_jwst(rng) if jw else scenes.mk_fits(rng)
    hist = gen_history(rng, c0, info)
    c, _ = corrsim.apply_real(c0, hist)
    nx, ny = scenes.image_size(c0)
    shp = rng.choice(SHAPES)
    x, y = shaped(rng, shp, nx, ny)
    case = {'kind': info['kind'], 'info': info, 'history': [h[0] for h in hist], 'shape': shp,
            'corrs': [[h[1].M.tolist(), h[1].t.tolist()] for h in hist if h[0] in 'SR'],
            'x': np.asarray(x).tolist(), 'y': np.asarray(y).tolist()}
    ctx.case(case, nontrivial=any(h[0] in 'SR' for h in hist),
             branch='%s:%s' % (info['kind'], shp))
    unit = c0.tanp_center_pixel_scale if jw else 1.0
    tol_px = 2e-6 if not jw else 1e-7       # detector round trips (all_world2pix tolerance 1e-6 / gwcs inverse)
    tol_tp = (2e-6 if not jw else 1e-7) * max(unit, 1e-3)
    tol_sky = 1e-9 / 3600.0 if jw else 2e-6 * corrsim.plane_unit_rad(c0) * 57.3   # degrees

    def fail(what, **kw):
        d = {'what': what}
        d.update(kw)
        ctx.oracle_fail(case, d)

    lay = shp in ('mn', 'n') and rng.random() < 0.5
    if lay:
        ctx.branch('layout:non-contiguous')

    def L(a):
        return relayout(rng, np.asarray(a)) if lay else a
    try:
        x, y = L(x), L(y)
        ra, dec = c.det_to_world(x, y)
        tx, ty = c.det_to_tanp(x, y)
        ra, dec, tx, ty = L(ra), L(dec), L(tx), L(ty)
        for nm, v in (('det_to_world', ra), ('det_to_world', dec), ('det_to_tanp', tx), ('det_to_tanp', ty)):
            if shape_of(v) != shape_of(x):
                fail('output shape differs from input shape', method=nm, got=list(shape_of(v)),
                     want=list(shape_of(x)))
        x2, y2 = c.world_to_det(ra, dec)
        x3, y3 = c.tanp_to_det(tx, ty)
        ra2, dec2 = c.tanp_to_world(tx, ty)
        tx2, ty2 = c.world_to_tanp(ra, dec)
        ra2, dec2, tx2, ty2 = L(ra2), L(dec2), L(tx2), L(ty2)
        tx3, ty3 = c.world_to_tanp(ra2, dec2)
        for nm, v in (('world_to_det', x2), ('tanp_to_det', x3), ('tanp_to_world', ra2), ('world_to_tanp', tx2)):
            if shape_of(v) != shape_of(x):
                fail('output shape differs from input shape', method=nm, got=list(shape_of(v)),
                     want=list(shape_of(x)))
        if np.size(x):
            xa, ya = np.asarray(x, dtype=float), np.asarray(y, dtype=float)

            def mx(a, b, c_, d):
                return float(np.max(np.hypot(np.asarray(a, dtype=float) - np.asarray(c_, dtype=float),
                                             np.asarray(b, dtype=float) - np.asarray(d, dtype=float))))

            def sky(a, b, c_, d):
                dra = (np.asarray(a, dtype=float) - np.asarray(c_, dtype=float) + 180.0) % 360.0 - 180.0
                return float(np.max(np.hypot(dra * np.cos(np.deg2rad(np.asarray(b, dtype=float))),
                                             np.asarray(b, dtype=float) - np.asarray(d, dtype=float))))
            e = mx(x2, y2, xa, ya)
            if e > tol_px:
                fail('world_to_det(det_to_world(p)) != p', err=e, tol=tol_px)
            e = mx(x3, y3, xa, ya)
            if e > tol_px:
                fail('tanp_to_det(det_to_tanp(p)) != p', err=e, tol=tol_px)
            e = sky(ra2, dec2, ra, dec)
            if e > tol_sky:
                fail('tanp_to_world(det_to_tanp(p)) != det_to_world(p)', err_deg=e, tol=tol_sky)
            e = mx(tx2, ty2, tx, ty)
            if e > tol_tp:
                fail('world_to_tanp(det_to_world(p)) != det_to_tanp(p)', err=e, tol=tol_tp)
            e = mx(tx3, ty3, tx, ty)
            if e > tol_tp:
                fail('world_to_tanp(tanp_to_world(t)) != t', err=e, tol=tol_tp)
            x4, y4 = c.tanp_to_det(tx2, ty2)
            e = mx(x4, y4, x2, y2)
            if e > 2 * tol_px:
                fail('tanp_to_det(world_to_tanp(w)) != world_to_det(w)', err=e, tol=2 * tol_px)
            ra3, dec3 = c.det_to_world(x2, y2)
            e = sky(ra3, dec3, ra, dec)
            if e > tol_sky:
                fail('det_to_world(world_to_det(w)) != w', err_deg=e, tol=tol_sky)
    except Exception as ex:   # a conversion raising on a legitimate shape is a failure of the property
        fail('conversion raised', error='%s: %s' % (type(ex).__name__, ex))

    # mixed inputs: one coordinate a scalar (or 0-d array), the other a 1-d array (points along a row or a column):
    # numpy broadcasting, so the output has the shape of the array and is the element-wise result
    # (FITS correctors only: gwcs / astropy.modeling refuse inputs of different shapes with a ValueError)
    if not jw and rng.random() < 0.5:
        ctx.branch('mixed-scalar-array')
        try:
            k = rng.randint(2, 5)
            xs = np.array([rng.uniform(0.2 * nx, 0.8 * nx) for _ in range(k)])
            ys = np.array([rng.uniform(0.2 * ny, 0.8 * ny) for _ in range(k)])
            for nm_f, nm_b in (('det_to_world', 'world_to_det'), ('det_to_tanp', 'tanp_to_det')):
                fwd, bwd = getattr(c, nm_f), getattr(c, nm_b)
                full = fwd(xs, ys)
                for which in ('scalar-x', 'scalar-y'):
                    s0 = rng.choice([0, 1])
                    if which == 'scalar-x':
                        sc = float(xs[0]) if s0 else np.array(float(xs[0]))
                        a, b = (sc, ys), (np.full(k, xs[0]), ys)
                    else:
                        sc = float(ys[0]) if s0 else np.array(float(ys[0]))
                        a, b = (xs, sc), (xs, np.full(k, ys[0]))
                    o1 = fwd(*a)
                    o2 = fwd(*b)
                    if any(np.shape(v) != (k,) for v in o1) or not all(np.allclose(np.asarray(u, dtype=float), np.asarray(v, dtype=float), rtol=0, atol=1e-9 * (1 + np.max(np.abs(np.asarray(v, dtype=float))))) for u, v in zip(o1, o2)):
                        fail('mixed scalar/array input is not broadcast element-wise', method=nm_f, which=which,
                             got_shapes=[list(np.shape(v)) for v in o1])
                    # and back: a scalar first coordinate with an array second one
                    t2 = fwd(*b)
                    if which == 'scalar-x':
                        same0 = np.full(k, float(np.asarray(t2[0])[0]))
                        back_in = (float(np.asarray(t2[0])[0]), np.asarray(t2[1], dtype=float))
                        back_full = (same0, np.asarray(t2[1], dtype=float))
                    else:
                        same1 = np.full(k, float(np.asarray(t2[1])[0]))
                        back_in = (np.asarray(t2[0], dtype=float), float(np.asarray(t2[1])[0]))
                        back_full = (np.asarray(t2[0], dtype=float), same1)
                    r1 = bwd(*back_in)
                    r2 = bwd(*back_full)
                    if any(np.shape(v) != (k,) for v in r1) or not all(np.allclose(np.asarray(u, dtype=float), np.asarray(v, dtype=float), rtol=0, atol=10 * tol_px + 1e-9 * (1 + np.max(np.abs(np.asarray(v, dtype=float))))) for u, v in zip(r1, r2)):
                        fail('mixed scalar/array input is not broadcast element-wise', method=nm_b, which=which,
                             got_shapes=[list(np.shape(v)) for v in r1])
        except Exception as ex:
            fail('conversion raised on mixed scalar/array input', error='%s: %s' % (type(ex).__name__, ex))

    # a copy that is corrected afterwards must leave THIS corrector coherent (and where it was)
    if any(h[0] in 'SR' for h in hist) and rng.random() < 0.3:
        ctx.branch('copy-then-correct-the-copy')
        try:
            px_, py_ = scenes.probe_pixels(rng, c0, 4)
            before = [np.array(v, dtype=float) for v in c.det_to_tanp(px_, py_)] + \
                     [np.array(v, dtype=float) for v in c.det_to_world(px_, py_)]
            cp = c.copy()
            f_ = c02.gen_corr(rng, unit, big=True)
            cp.set_correction(f_.M.tolist(), f_.t.tolist())
            after = [np.array(v, dtype=float) for v in c.det_to_tanp(px_, py_)] + \
                    [np.array(v, dtype=float) for v in c.det_to_world(px_, py_)]
            if not all(np.array_equal(u, v) for u, v in zip(before, after)):
                fail('correcting a copy changed the conversions of the corrector it was copied from')
            tq = c.det_to_tanp(px_, py_)
            bq = c.tanp_to_det(*tq)
            e_ = float(np.max(np.hypot(np.asarray(bq[0]) - px_, np.asarray(bq[1]) - py_)))
            wq = c.tanp_to_world(*tq)
            dq = c.det_to_world(px_, py_)
            e2_ = float(np.max(np.hypot((np.asarray(wq[0]) - np.asarray(dq[0])) * np.cos(np.deg2rad(np.asarray(dq[1]))),
                                        np.asarray(wq[1]) - np.asarray(dq[1]))))
            if e_ > 2 * tol_px or e2_ > tol_sky:
                fail('after a copy of it was corrected the corrector is no longer coherent', det_roundtrip=e_,
                     triangle_deg=e2_)
        except Exception as ex:
            fail('copy / correction of the copy raised', error='%s: %s' % (type(ex).__name__, ex))

    # pass-through wrappers of WCSImageCatalog
    if shp in ('n', 'scalar') and rng.random() < 0.5:
        from tweakwcs.wcsimage import WCSImageCatalog
        from astropy.table import Table
        import warnings
        cat = Table([[1.0, 2.0], [3.0, 4.0]], names=['x', 'y'])
        # the catalog object is built on the ORIGINAL corrector or on the current one, and the current
        # corrector is then (re)assigned through one of its two setters: all six wrappers follow
        how = rng.choice(['init', 'corrector-setter', 'tpwcs-setter'])
        wic = WCSImageCatalog(cat, c if how == 'init' else c0)
        with warnings.catch_warnings():
            warnings.simplefilter('ignore')
            if how == 'corrector-setter':
                wic.corrector = c
            elif how == 'tpwcs-setter':
                wic.tpwcs = c
        try:
            args = {'det_to_world': (x, y), 'det_to_tanp': (x, y), 'world_to_det': (ra, dec),
                    'world_to_tanp': (ra, dec), 'tanp_to_det': (tx, ty), 'tanp_to_world': (tx, ty)}
            for nm, (p, q) in args.items():
                a = getattr(wic, nm)(p, q)
                b = getattr(c, nm)(p, q)
                if not (np.array_equal(np.asarray(a[0]), np.asarray(b[0])) and
                        np.array_equal(np.asarray(a[1]), np.asarray(b[1]))):
                    fail('WCSImageCatalog wrapper differs from its corrector', method=nm, assigned_by=how)
        except Exception as ex:
            fail('WCSImageCatalog wrapper raised', error='%s: %s' % (type(ex).__name__, ex), assigned_by=how)
        ctx.branch('wrappers:' + how)

    # model: det_to_tanp and sky chart position in the same state
    if not getattr(ctx, 'search_only', False) and np.size(x) and rng.random() < 0.6:
        px, py = scenes.probe_pixels(rng, c0, 4)
        sim = corrsim.Sim(c0, px, py)
        line, cfin = sim.line(hist)
        real_chart = sim.chart(*cfin.det_to_world(px, py))
        rho = corrsim.field_radius_units(c0)
        unit_rad = corrsim.plane_unit_rad(c0)
        total = sum(corrsim.corr_size_units(h[1], rho) if h[0] == 'S' else
                    corrsim.corr_size_units(h[1], rho * unit_rad / corrsim.plane_unit_rad(h[2])) *
                    corrsim.plane_unit_rad(h[2]) / unit_rad for h in hist if h[0] in 'SR')
        if jw:
            cb = c02.GW_TOL * max(1.0, float(np.max(np.abs(real_chart))) / 1e3)
        else:
            cb = (c02.fits_base(c0, rho) + c02.fits_second_order(total, rho, unit_rad)) * (1 + len(hist))
        for h in hist:
            if h[0] == 'R':
                cb += c02.first_order(total, corrsim.sky_sep_rad(h[2], c0), rho, unit_rad)
        lines.append(line)
        pend.append((case, sim, real_chart, cb, cfin))


def run(ctx):
    try:
        run_histories(ctx)
    finally:
        # the concrete V2V3 <-> tangent-plane pipeline (oracle always; correspondence unless
        # search_only).  In a `finally`: when a seeded change makes the history scenarios above stop
        # with an exception (e.g. re-wrapping a corrected WCS raises), the concrete failing input
        # found here is still recorded, and ./check keeps recorded failures when the harness stops early.
        c03_tanproj.run_extra(ctx)


def run_histories(ctx):
    lines, pend = [], []
    for _ in range(ctx.n(80, 2000)):
        scenario(ctx, lines, pend)
    if lines:
        outs = ctx.driver(lines)
        for out, (case, sim, real_chart, cb, cfin) in zip(outs, pend):
            res = sim.parse(out)
            if res is None:
                ctx.disagree(case, {'op': 'gcorr' if sim.jwst else 'fcorr', 'model': out[:100]})
                continue
            d = float(np.max(np.hypot(*(res['sky_chart'] - real_chart))))
            if not np.isfinite(d) or d > cb:
                ctx.disagree(case, {'op': 'gcorr' if sim.jwst else 'fcorr', 'max_diff': d, 'bound': cb})
            if sim.jwst:
                dt = np.array(cfin.det_to_tanp(sim.px, sim.py), dtype=float)
                d2 = float(np.max(np.hypot(*(res['det_to_tanp'] - dt))))
                if d2 > cb:
                    ctx.disagree(case, {'op': 'gcorr', 'what': 'det_to_tanp', 'max_diff': d2, 'bound': cb})
                # the model's own round trip is exact up to double rounding
                rt = float(np.max(np.hypot(*(res['roundtrip'] - sim.u0))))
                if rt > 1e-6 * max(1.0, float(np.max(np.abs(sim.u0)))):
                    ctx.disagree(case, {'op': 'gcorr', 'what': 'model round trip', 'err': rt})


REPLAY_BY_RERUN = True
