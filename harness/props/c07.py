"""
C07 -- sigma clipping rejects exactly the points beyond the cutoff of the current fit.

Correspondence: tweakwcs.linearfit.iter_linear_fit, called with nclip = 0, 1, ..., 8 (the
iteration history), against the Lean model `TW.iterLinearFit` (op `iterfit F`, IEEE doubles, the
code's metric) and, for `shift`/`general` with the `rmse` statistic, `TW.iterLinearFitSq`
(op `iterfit Q`, exact rationals, squared norms against nsigma^2 * mse).  Compared: `fitmask`,
`eff_nclip`, exception kind, and (F) matrix, shift, rmse, mae, std.

Oracle (no model code): the property statement re-implemented on top of the implementation's OWN
single-shot fitters (`linearfit.fit_shifts` ...): every step of the history retains exactly
{tested point : |residual| < nsigma * stat of the current fit}, tested = wmask or (clip_accum)
the previous mask; the history stops exactly when the retained set does not change or fewer than
minobj points would remain; eff_nclip <= nclip and counts the effective steps; the returned fit
is the plain fit of the fitmask points; fitmask, residual array and statistics refer to the same
points; under clip_accum masks shrink; fitmask is inside wmask.

The code computes residual norms in 80-bit long double, the model in double: a tested point whose
norm is within 1e-9 (relative) of the cutoff is a near-tie; the history is not compared from that
iteration on (counted with ctx.near_tie()).  Exact ties are exercised separately on integer
lattices where every intermediate value is exactly representable (`tie` corpus).
"""
import logging
import math

import numpy as np

from ..common import (Fraction, q2s, f2x, x2f, s2q, to_fraction, close, guard_ratio, harmonic_weights,
                      guard_mismatch_is_tie)

ID = 'C07'
RULE = ('data sets = affine truth + small noise + 0-40% gross outliers of graded magnitude; all four '
        'fitgeom, nsigma in {1.5,2,3,5}, statistics rmse/mae/std, both clip_accum, four weight modes '
        '(with zero and negative weights), centre given or not; every case is the whole history '
        'nclip = 0..8 (9 calls of iter_linear_fit and 9 model runs); plus an exact-tie corpus on integer '
        'lattices and a malformed stream (bad nclip/sigma/sigstat/fitgeom, too few points, coincident '
        'points).  A case is non-trivial when at least one clipping iteration of its history is '
        'effective or the expected outcome is an exception; distinct = distinct canonical input')
ASSUMPTIONS = [
    'theorems hold for every single-shot fitter, statistic and residual norm (parameters of the loop) '
    'over any scalar type with * and <; rounding (long double in the code, double in the model) is '
    'outside the model: near-ties (|norm - cutoff| <= 1e-9 cutoff) are skipped and counted',
    'inputs are finite; NaN/inf coordinates, weights or sigma are not modelled',
    'the exception class is compared (ValueError / NotEnoughPointsError / SingularMatrixError), not the message',
    'root-free runs on exact rationals (op iterfit Q) rely on sq_test_equiv: for nsigma > 0, '
    '|r| < nsigma*sqrt(mse) iff |r|^2 < nsigma^2*mse',
]

TINY = float(np.finfo(np.double).tiny)
GEOMS = ['shift', 'rshift', 'rscale', 'general']
MINOBJ = {'shift': 1, 'rshift': 2, 'rscale': 2, 'general': 3}
SIGMAS = [1.5, 2.0, 3.0, 5.0]
STATS = ['rmse', 'mae', 'std']
NCLIPS = list(range(9))
TIE_RTOL = 1e-9

logging.getLogger('tweakwcs').setLevel(logging.CRITICAL)
logging.getLogger('tweakwcs.linearfit').setLevel(logging.CRITICAL)


# ---------------------------------------------------------------------------------------------
# implementation side
# ---------------------------------------------------------------------------------------------
def _lf():
    from tweakwcs import linearfit
    linearfit.log.setLevel(logging.CRITICAL)
    return linearfit


def exc_kind(e):
    lf = _lf()
    if isinstance(e, lf.NotEnoughPointsError):
        return 'notEnoughPoints'
    if isinstance(e, lf.SingularMatrixError):
        return 'singular'
    if isinstance(e, ValueError):
        return 'valueError'
    return type(e).__name__


MODEL_KIND = {'notEnoughPoints': 'notEnoughPoints', 'singular': 'singular', 'badArg': 'valueError',
              'badWeights': 'valueError'}


def impl_call(cfg, nclip):
    lf = _lf()
    xy = np.array(cfg['xy'], dtype=np.double).reshape(-1, 2)
    uv = np.array(cfg['uv'], dtype=np.double).reshape(-1, 2)
    wxy = None if cfg['wxy'] is None else np.array(cfg['wxy'], dtype=np.double)
    wuv = None if cfg['wuv'] is None else np.array(cfg['wuv'], dtype=np.double)
    # integer-typed weight vectors (counts, exposure numbers, an integer catalog column): same values
    if cfg.get('wint') in ('wxy', 'both') and wxy is not None:
        wxy = wxy.astype(np.int64)
    if cfg.get('wint') in ('wuv', 'both') and wuv is not None:
        wuv = wuv.astype(np.int64)
    if cfg.get('sigma_none'):
        sigma = None
    elif cfg.get('sigma_bare'):
        sigma = cfg['sigma']
    else:
        sigma = (cfg['sigma'], cfg['stat'])
    before = (xy.tobytes(), uv.tobytes())
    try:
        fit = lf.iter_linear_fit(xy, uv, wxy, wuv, fitgeom=cfg['fitgeom'], center=cfg['center'],
                                 nclip=nclip, sigma=sigma, clip_accum=cfg['accum'])
    except Exception as e:  # noqa
        return ('err', exc_kind(e), repr(e)[:120])
    if (xy.tobytes(), uv.tobytes()) != before:
        return ('err', 'mutated-input', '')
    return ('ok', fit, None)


def model_line(cfg, nclip, mode='F'):
    n = len(cfg['xy'])
    enc = f2x if mode == 'F' else (lambda v: q2s(to_fraction(v)))
    pts = ' '.join('%s %s %s %s' % (enc(a[0]), enc(a[1]), enc(b[0]), enc(b[1]))
                   for a, b in zip(cfg['xy'], cfg['uv']))
    wm = 'n'
    ws = ''
    if cfg['wxy'] is not None and cfg['wuv'] is not None:
        wm = 'b'
        ws = ' ' + ' '.join(enc(v) for v in cfg['wxy']) + ' ' + ' '.join(enc(v) for v in cfg['wuv'])
    elif cfg['wxy'] is not None:
        wm = 'x'
        ws = ' ' + ' '.join(enc(v) for v in cfg['wxy'])
    elif cfg['wuv'] is not None:
        wm = 'u'
        ws = ' ' + ' '.join(enc(v) for v in cfg['wuv'])
    c = '-' if cfg['center'] is None else '%s,%s' % (enc(cfg['center'][0]), enc(cfg['center'][1]))
    sig = 'none' if cfg.get('sigma_none') else enc(cfg['sigma'])
    stat = 'rmse' if cfg.get('sigma_bare') else cfg['stat']
    ncl = 'none' if nclip is None else str(int(nclip))
    line = 'iterfit %s %s %s %s %s %d %s %s %s %d' % (mode, cfg['fitgeom'], ncl, sig, stat, int(cfg['accum']),
                                                     enc(TINY), c, wm, n)
    if pts:
        line += ' ' + pts
    return line + ws


def parse_model(out, mode):
    t = out.split()
    if not t:
        return ('bad', out)
    if t[0] == 'err':
        return ('err', MODEL_KIND.get(t[1], t[1]))
    if t[0] != 'ok' or len(t) != 16:
        return ('bad', out)
    dec = x2f if mode == 'F' else (lambda s: float(s2q(s)))
    r = {'matrix': [dec(s) for s in t[1:5]], 'shift': [dec(s) for s in t[5:7]], 'eff': int(t[7]),
         'mask': '' if t[8] == '-' else t[8], 'center': [dec(s) for s in t[12:14]],
         'eshift': [dec(s) for s in t[14:16]]}
    if mode == 'F':
        r['rmse'], r['mae'], r['std'] = (dec(s) for s in t[9:12])
    else:
        r['mse'] = dec(t[9])
    return ('ok', r)


def bits(mask):
    return ''.join('1' if b else '0' for b in mask)


# ---------------------------------------------------------------------------------------------
# oracle: the property statement on the implementation's own single-shot fitters
# ---------------------------------------------------------------------------------------------
def wmask_of(cfg):
    n = len(cfg['xy'])
    m = np.ones(n, dtype=bool)
    if cfg['wxy'] is not None:
        m &= np.array(cfg['wxy']) > 0
    if cfg['wuv'] is not None:
        m &= np.array(cfg['wuv']) > 0
    return m


def _sqrt(x):
    x = float(x)
    return math.sqrt(x) if x >= 0 else float('nan')


def my_stats(res, w):
    """rmse / mae / std of a residual array, written from the documentation of iter_linear_fit
    (weights normalised to sum 1; std with the reliability-weights denominator)"""
    res = np.asarray(res, dtype=np.longdouble)
    nrm = np.sqrt(res[:, 0]**2 + res[:, 1]**2)
    if w is None:
        n = len(res)
        rmse = _sqrt(float(np.sum(nrm**2) / n))
        mae = float(np.sum(nrm) / n)
        mu = res.sum(axis=0) / n
        std = _sqrt(float(np.sum((res - mu)**2) / n))
    else:
        w = np.asarray(w, dtype=np.longdouble)
        w = w / w.sum()
        rmse = _sqrt(float(np.sum(w * nrm**2)))
        mae = float(np.sum(w * nrm))
        if len(w) == 1:
            std = 0.0
        else:
            mu = (w[:, None] * res).sum(axis=0)
            std = _sqrt(float(np.sum(w[:, None] * (res - mu)**2) / (1 - np.sum(w**2))))
    return rmse, mae, std


def eff_weights(wx, wu):
    if wx is None and wu is None:
        return None
    if wx is None:
        return np.asarray(wu, dtype=np.longdouble)
    if wu is None:
        return np.asarray(wx, dtype=np.longdouble)
    wx = np.asarray(wx, dtype=np.longdouble)
    wu = np.asarray(wu, dtype=np.longdouble)
    return 1 / (1 / wx + 1 / wu)


def oracle_history(ctx, case, cfg, hist):
    """hist[k] = impl result for nclip = k.  Returns the first iteration index from which the
    history is numerically undecided (near-tie), or None."""
    lf = _lf()
    fitter = {'shift': lf.fit_shifts, 'rshift': lf.fit_rshift, 'rscale': lf.fit_rscale,
              'general': lf.fit_general}[cfg['fitgeom']]
    minobj = MINOBJ[cfg['fitgeom']]
    fails = []

    def fail(what, **kw):
        d = {'what': what}
        d.update(kw)
        fails.append(d)

    if any(h[0] != 'ok' for h in hist):
        # an exception: must be the same for the initial fit or appear from some nclip on
        kinds = [h[1] if h[0] == 'err' else None for h in hist]
        first = next(i for i, k in enumerate(kinds) if k is not None)
        if any(k != kinds[first] for k in kinds[first:]):
            fail('exception does not persist along the history', kinds=kinds)
        for d in fails:
            ctx.oracle_fail(case, d)
        return None
    wmask = wmask_of(cfg)
    n = len(wmask)
    wxy = None if cfg['wxy'] is None else np.array(cfg['wxy'], dtype=np.double)
    wuv = None if cfg['wuv'] is None else np.array(cfg['wuv'], dtype=np.double)
    nsigma = float(cfg['sigma'])
    stat = 'rmse' if cfg.get('sigma_bare') else cfg['stat']
    c_ld = hist[0][1]['center_ld']
    xyc = np.array(cfg['xy'], dtype=np.longdouble).reshape(-1, 2) - c_ld
    uvc = np.array(cfg['uv'], dtype=np.longdouble).reshape(-1, 2) - c_ld
    scale = float(max(1.0, np.max(np.abs(xyc[wmask])) if wmask.any() else 1.0))
    if cfg['center'] is None and wmask.any():
        cm = np.array(cfg['uv'], dtype=np.longdouble).reshape(-1, 2)[wmask].mean(axis=0)
        if not np.allclose(np.asarray(cm, dtype=float), np.asarray(c_ld, dtype=float), rtol=1e-12, atol=1e-12 * scale):
            fail('centre is not the mean of the positively weighted uv', got=list(map(float, c_ld)))
    near_tie_from = None
    mask = wmask.copy()           # expected mask at step k
    stopped_at = None
    nclip_eff = 0 if np.count_nonzero(wmask) == minobj else None
    for k, h in enumerate(hist):
        f = h[1]
        fm = np.asarray(f['fitmask'], dtype=bool)
        eff = int(f['eff_nclip'])
        # --- clauses that hold for every entry of the history
        if fm.shape != (n,):
            fail('fitmask has the wrong length', nclip=k)
            break
        if eff > k:
            fail('eff_nclip > nclip', nclip=k, eff=eff)
        if np.any(fm & ~wmask):
            fail('fitmask selects a point with non-positive weight', nclip=k)
        if len(f['resids']) != np.count_nonzero(fm):
            fail('resids and fitmask refer to different numbers of points', nclip=k,
                 nres=len(f['resids']), nmask=int(np.count_nonzero(fm)))
        else:
            r_exp = xyc[fm] - np.dot(uvc[fm], f['matrix_ld'].T) - f['shift_ld']
            if not np.allclose(np.asarray(r_exp, dtype=float), f['resids'], rtol=0, atol=1e-9 * scale):
                fail('resids are not the residuals of the fitmask points', nclip=k)
            wsel = eff_weights(None if wxy is None else wxy[fm], None if wuv is None else wuv[fm])
            st = my_stats(r_exp, wsel)
            for nm, v in zip(('rmse', 'mae', 'std'), st):
                if not close(v, f[nm], rtol=1e-9, atol=1e-11 * scale):
                    fail('statistic %s is not the statistic of the fitmask points' % nm, nclip=k,
                         expected=v, got=float(f[nm]))
        # the returned fit is the plain fit of the fitmask points (implementation's own fitter)
        try:
            pf = fitter(xyc[fm], uvc[fm], None if wxy is None else wxy[fm], None if wuv is None else wuv[fm])
            if not (np.allclose(pf['matrix'], f['matrix'], rtol=0, atol=1e-12) and
                    np.allclose(pf['shift'], f['shift'], rtol=0, atol=1e-12 * scale)):
                fail('returned fit is not the plain fit of the fitmask points', nclip=k,
                     plain=[pf['matrix'].tolist(), pf['shift'].tolist()],
                     got=[f['matrix'].tolist(), f['shift'].tolist()])
        except Exception as e:  # noqa
            fail('plain fit of the fitmask points raises', nclip=k, exc=repr(e)[:80])
        if near_tie_from is not None and k > near_tie_from:
            continue
        # --- the step structure
        if stopped_at is not None or (nclip_eff == 0):
            exp_eff = stopped_at if stopped_at is not None else 0
            if not np.array_equal(fm, mask) or eff != exp_eff:
                fail('history changed after the loop had stopped', nclip=k, expected_mask=bits(mask),
                     got_mask=bits(fm), expected_eff=exp_eff, got_eff=eff)
            continue
        if not np.array_equal(fm, mask) or eff != k:
            fail('retained set is not {tested and |resid| < nsigma*stat} of the previous fit', nclip=k,
                 expected_mask=bits(mask), got_mask=bits(fm), expected_eff=k, got_eff=eff)
            break
        if k == len(hist) - 1:
            break
        # expected next step from the implementation's own current fit
        tested = mask if cfg['accum'] else wmask
        cutoff = nsigma * float(f[stat])
        res = xyc[tested] - np.dot(uvc[tested], f['matrix_ld'].T) - f['shift_ld']
        nrm = np.sqrt(res[:, 0]**2 + res[:, 1]**2)
        if np.any(np.abs(np.asarray(nrm - cutoff, dtype=float)) <= TIE_RTOL * cutoff) and not cfg.get('exact'):
            near_tie_from = k
        if cutoff <= 1e-9 * scale and not cfg.get('exact'):
            near_tie_from = k
        new = tested.copy()
        new[tested] = nrm < cutoff
        if cfg['accum'] and np.any(new & ~mask):
            fail('internal: accumulated mask grew', nclip=k)
        if np.count_nonzero(new) < minobj or np.array_equal(new, mask):
            stopped_at = k
        else:
            mask = new
    for d in fails:
        ctx.oracle_fail(case, d)
    return near_tie_from


# ---------------------------------------------------------------------------------------------
# comparison with the model
# ---------------------------------------------------------------------------------------------
def singular_mismatch_is_tie(cfg, h, kind, val, mode):
    """one of (implementation, model) ended with `singular`, the other did not: a near-tie decided by rounding?
    fit_general: the collinearity guard was evaluated on the points of the fit that raised -- the retained
    set reported by the side that returned (the histories agreed up to the previous nclip); the quantity it
    tests is recomputed exactly from those points and must lie in the band around 2^-52 (`common`).
    fit_rscale (su2v2 > 0 on coincident points) is only run on doubles: as before"""
    if cfg['fitgeom'] != 'general':
        return mode == 'F'
    n = len(cfg['uv'])
    if h[0] == 'ok':
        mask = [bool(b) for b in h[1]['fitmask']]
    elif kind == 'ok':
        mask = [c == '1' for c in val['mask']]
    else:
        mask = [bool(b) for b in wmask_of(cfg)]
    if len(mask) != n or sum(mask) < 3:
        return False
    w = harmonic_weights(n, cfg['wxy'], cfg['wuv'])
    pts = [cfg['uv'][i] for i in range(n) if mask[i]]
    ratio = guard_ratio(pts, [w[i] for i in range(n) if mask[i]])
    return guard_mismatch_is_tie(ratio, mode, len(pts))


def compare_history(ctx, case, cfg, hist, outs, mode, near_tie_from):
    xy = np.array(cfg['xy'], dtype=float).reshape(-1, 2)
    wm = wmask_of(cfg) if len(xy) else np.zeros(0, dtype=bool)
    # magnitude of the coordinates that can enter the fit (positively weighted points only)
    scale = float(max(1.0, np.max(np.abs(xy[wm])) if wm.any() else 1.0))
    for k, (h, out) in enumerate(zip(hist, outs)):
        if near_tie_from is not None and k > near_tie_from:
            ctx.near_tie()
            continue
        kind, val = parse_model(out, mode)
        if kind == 'bad':
            ctx.disagree(case, {'op': 'iterfit', 'mode': mode, 'nclip': k, 'model': out[:100]})
            return
        if h[0] == 'err' or kind == 'err':
            ik = h[1] if h[0] == 'err' else 'ok'
            mk = val if kind == 'err' else 'ok'
            ctx.branch('outcome:%s' % mk)
            if ik != mk:
                if 'singular' in (ik, mk) and not cfg.get('exact') and \
                        singular_mismatch_is_tie(cfg, h, kind, val, mode):
                    ctx.near_tie()      # the collinearity guard of fit_general decided by rounding
                    ctx.branch('guard-mismatch-in-band:' + mode)
                    return
                ctx.disagree(case, {'op': 'iterfit', 'mode': mode, 'nclip': k, 'model': mk, 'impl': ik,
                                    'impl_msg': h[2] if h[0] == 'err' else None})
                return
            continue
        f = h[1]
        ib = bits(f['fitmask'])
        if ib != val['mask'] or int(f['eff_nclip']) != val['eff']:
            ctx.disagree(case, {'op': 'iterfit', 'mode': mode, 'nclip': k, 'what': 'fitmask / eff_nclip',
                                'model_mask': val['mask'], 'impl_mask': ib, 'model_eff': val['eff'],
                                'impl_eff': int(f['eff_nclip'])})
            return
        if cfg['fitgeom'] != 'shift' and ib.count('1') == MINOBJ[cfg['fitgeom']]:
            # exactly minobj points: the fit interpolates them, residuals and statistics are pure
            # round-off (and for two points det(H) = 0 exactly, so the rotation and the reflection
            # branch of fit_rscale fit equally well and round-off picks one -- a tie of property C06,
            # not of C07).  fitmask and eff_nclip of this entry were compared; the parameters, the
            # statistics and every later step (its cutoff is round-off) are not
            ctx.near_tie(len(hist) - k)
            ctx.branch('interpolating-fit-skipped')
            return
        tol = 1e-9
        ok = all(abs(a - b) <= tol * max(1.0, abs(b)) for a, b in zip(val['matrix'], f['matrix'].ravel()))
        ok = ok and all(abs(a - b) <= tol * scale for a, b in zip(val['shift'], f['shift']))
        ok = ok and all(abs(a - b) <= tol * scale for a, b in zip(val['center'], f['center']))
        if mode == 'F':
            for nm in ('rmse', 'mae', 'std'):
                ok = ok and close(val[nm], f[nm], rtol=tol, atol=1e-11 * scale)
        else:
            ok = ok and close(val['mse'], float(f['rmse'])**2, rtol=1e-8, atol=1e-18 * scale)
        if not ok:
            ctx.disagree(case, {'op': 'iterfit', 'mode': mode, 'nclip': k, 'what': 'parameters / statistics',
                                'model': val, 'impl': {'matrix': f['matrix'].tolist(), 'shift': f['shift'].tolist(),
                                                       'rmse': f['rmse'], 'mae': f['mae'], 'std': f['std'],
                                                       'center': list(map(float, f['center']))}})
            return


# ---------------------------------------------------------------------------------------------
# generators
# ---------------------------------------------------------------------------------------------
def truth_for(geom, rng):
    th = math.radians(rng.uniform(-30, 30))
    c, s = math.cos(th), math.sin(th)
    if geom == 'shift':
        m = np.eye(2)
    elif geom == 'rshift':
        m = np.array([[c, s], [-s, c]])
    elif geom == 'rscale':
        m = rng.uniform(0.8, 1.25) * np.array([[c, s], [-s, c]])
        if rng.random() < 0.25:
            m = m @ np.diag([1.0, -1.0])
    else:
        m = np.array([[c, s], [-s, c]]) @ np.array([[rng.uniform(0.8, 1.2), rng.uniform(-0.1, 0.1)],
                                                     [rng.uniform(-0.1, 0.1), rng.uniform(0.8, 1.2)]])
    return m, np.array([rng.uniform(-20, 20), rng.uniform(-20, 20)])


def gen_weights(rng, n, zeros=True):
    w = [rng.uniform(0.2, 3.0) for _ in range(n)]
    if zeros:
        for i in range(n):
            u = rng.random()
            if u < 0.10:
                w[i] = 0.0
            elif u < 0.14:
                w[i] = -rng.uniform(0.1, 2.0)
    return w


def gen_case(rng):
    geom = rng.choice(GEOMS)
    minobj = MINOBJ[geom]
    n = rng.choice([minobj + 1, minobj + 2, 6, 8, 10, 12, 15, 20, 25, 30, 40, 60])
    npr = np.random.default_rng(rng.getrandbits(32))
    span = rng.choice([10.0, 100.0, 1000.0, 4000.0])
    uv = npr.uniform(-span / 2, span / 2, (n, 2)) + np.array([rng.uniform(-span, span), rng.uniform(-span, span)])
    m, s = truth_for(geom, rng)
    noise = rng.choice([0.01, 0.05, 0.3])
    xy = uv @ m.T + s + npr.normal(0, noise, (n, 2))
    frac = rng.choice([0.0, 0.05, 0.1, 0.2, 0.3, 0.4])
    nout = int(round(frac * n))
    if nout:
        idx = rng.sample(range(n), nout)
        for i in idx:
            # graded magnitudes: from barely beyond the noise to gross, so that the cutoff
            # shrinks over several iterations
            mag = noise * 10.0 ** rng.uniform(0.6, 4.0)
            a = rng.uniform(0, 2 * math.pi)
            xy[i] += mag * np.array([math.cos(a), math.sin(a)])
    wmode = rng.choice(['none', 'none', 'wxy', 'wuv', 'both', 'both'])
    wxy = gen_weights(rng, n) if wmode in ('wxy', 'both') else None
    wuv = gen_weights(rng, n) if wmode in ('wuv', 'both') else None
    center = None
    if rng.random() < 0.25:
        center = [float(rng.uniform(-span, span)), float(rng.uniform(-span, span))]
    cfg = {'family': 'random', 'fitgeom': geom, 'xy': xy.tolist(), 'uv': uv.tolist(), 'wxy': wxy, 'wuv': wuv,
           'center': center, 'sigma': rng.choice(SIGMAS), 'stat': rng.choice(STATS),
           'accum': rng.random() < 0.5, 'wmode': wmode, 'outlier_fraction': frac}
    if rng.random() < 0.1:
        cfg['sigma_bare'] = True
    return cfg


# ---- exact ties --------------------------------------------------------------------------------
def tie_multisets():
    """multisets of residual norms [(norm, multiplicity), ...] (multiplicities even) and nsigma such
    that the largest norm equals nsigma * stat EXACTLY, for stat = mae and stat = rmse (= std for
    centred residuals); found by brute force over small integers.  Two classes of norms (any n) and,
    for rmse/std, three classes with n a power of two (there the double-precision model is exact
    as well: 1/n is representable)"""
    out = []
    for sig in (1.5, 2.0, 3.0, 5.0):
        fs = Fraction(sig)
        for a in (1, 2, 3):
            for b in range(a + 1, 60):
                for p in range(2, 60, 2):
                    for q in (2, 4):
                        nn = p + q
                        mae = Fraction(p * a + q * b, nn)
                        if fs * mae == b:
                            out.append(('mae', sig, [(a, p), (b, q)]))
                        mse = Fraction(p * a * a + q * b * b, nn)
                        r = math.isqrt(mse.numerator) if mse.denominator == 1 else None
                        if r is not None and r * r == mse.numerator and fs * r == b:
                            out.append(('rmse', sig, [(a, p), (b, q)]))
                            out.append(('std', sig, [(a, p), (b, q)]))
        for n in (8, 16, 32):
            for p in range(2, n, 2):
                for q in range(2, n - p, 2):
                    r = n - p - q
                    if r < 2 or r > 4:
                        continue
                    for a in range(1, 8):
                        for b in range(a + 1, 16):
                            for c in range(b + 1, 80):
                                mse = Fraction(p * a * a + q * b * b + r * c * c, n)
                                if mse.denominator != 1:
                                    continue
                                rt = math.isqrt(mse.numerator)
                                if rt * rt == mse.numerator and fs * rt == c:
                                    out.append(('rmse', sig, [(a, p), (b, q), (c, r)]))
                                    out.append(('std', sig, [(a, p), (b, q), (c, r)]))
    return out


_TIES = None


def tie_cases(rng, k):
    global _TIES
    if _TIES is None:
        _TIES = tie_multisets()
    res = []
    pool = list(_TIES)
    rng.shuffle(pool)
    # power-of-two sizes first (they also exercise the double-precision model), then the others
    pool.sort(key=lambda t: 0 if (sum(m for _, m in t[2]) & (sum(m for _, m in t[2]) - 1)) == 0 else 1)
    half = max(1, k // 2)
    pool = pool[:0] + [t for t in pool if (sum(m for _, m in t[2]) & (sum(m for _, m in t[2]) - 1)) == 0][:half] \
        + [t for t in pool if (sum(m for _, m in t[2]) & (sum(m for _, m in t[2]) - 1)) != 0]
    for stat, sig, classes in pool:
        # residual vectors with zero mean: +-norm along the axes (norms exact), scaled by a power of two
        sc = 2.0 ** rng.randint(-3, 3)
        d = []
        for nrm, mult in classes:
            for j in range(mult // 2):
                ax = (j + rng.randint(0, 1)) % 2
                v = [0.0, 0.0]
                v[ax] = nrm * sc
                d.append(v)
                d.append([-v[0], -v[1]])
        if stat == 'std':
            # the per-axis standard deviations must be exact: keep all residuals on one axis
            d = [[math.copysign(math.hypot(*v), v[0] + v[1]), 0.0] for v in d]
        order = list(range(len(d)))
        rng.shuffle(order)
        d = [d[i] for i in order]
        n = len(d)
        # uv: integer lattice points with zero mean (so that the centre is exact)
        hv = [[float(rng.randint(-16, 16)), float(rng.randint(-16, 16))] for _ in range(n // 2)]
        uv = hv + [[-x, -y] for x, y in hv]
        sh = [float(rng.randint(-8, 8)), float(rng.randint(-8, 8)) / 4]
        xy = [[u[0] + sh[0] + dd[0], u[1] + sh[1] + dd[1]] for u, dd in zip(uv, d)]
        cfg = {'family': 'tie', 'fitgeom': 'shift', 'xy': xy, 'uv': uv, 'wxy': None, 'wuv': None, 'center': None,
               'sigma': sig, 'stat': stat, 'accum': rng.random() < 0.5, 'wmode': 'none', 'exact': True,
               'tie': [stat, sig, classes], 'pow2': n & (n - 1) == 0}
        res.append(cfg)
        if n & (n - 1) == 0 and stat != 'std':
            # weighted branch with equal power-of-two weights (normalised weights 1/n are exact);
            # the weighted std has the 1 - sum(w^2) denominator: not a tie
            c2 = dict(cfg)
            c2['wxy'] = [2.0] * n
            c2['wmode'] = 'wxy'
            res.append(c2)
        if len(res) >= k:
            break
    return res


def hand_corpus():
    rs = np.random.RandomState(5)
    uv = rs.uniform(0, 1000, (30, 2))
    xy = uv + [3, 4] + rs.normal(0, 0.05, uv.shape)
    xy[3] += [500, -400]
    xy[17] += [-3, 6]
    out = []
    for accum in (False, True):
        # the witness of finding F2 (fixed): one 500-px and one 7-px outlier
        out.append({'family': 'corpus-F2', 'fitgeom': 'shift', 'xy': xy.tolist(), 'uv': uv.tolist(), 'wxy': None,
                    'wuv': None, 'center': None, 'sigma': 3.0, 'stat': 'rmse', 'accum': accum, 'wmode': 'none'})
    # the Lean example: eight inliers, outliers at 6 and 100
    xs = [-1, 1, -1, 1, 0, 0, 0, 0, 6, 100]
    out.append({'family': 'corpus-lean-example', 'fitgeom': 'shift', 'xy': [[float(x), 0.0] for x in xs],
                'uv': [[0.0, 0.0]] * 10, 'wxy': None, 'wuv': None, 'center': None, 'sigma': 2.0, 'stat': 'rmse',
                'accum': False, 'wmode': 'none'})
    # exactly minobj positively weighted points: nclip is reset to 0
    out.append({'family': 'corpus-minobj', 'fitgeom': 'general',
                'xy': [[0.0, 0.0], [1.0, 0.1], [0.0, 1.0], [5.0, 5.0], [9.0, 1.0]],
                'uv': [[0.0, 0.0], [1.0, 0.0], [0.0, 1.0], [1.0, 1.0], [2.0, 3.0]],
                'wxy': [1.0, 1.0, 1.0, 0.0, -1.0], 'wuv': None, 'center': None, 'sigma': 1.5, 'stat': 'mae',
                'accum': False, 'wmode': 'wxy'})
    return out


def gen_malformed(rng):
    cfg = gen_case(rng)
    kind = rng.choice(['neg-nclip', 'sigma-nonpos', 'sigma-none', 'bad-sigstat', 'bad-fitgeom', 'too-few',
                       'all-zero-weights', 'coincident', 'collinear', 'nclip-none'])
    cfg['family'] = 'malformed:' + kind
    cfg.pop('sigma_bare', None)
    nclips = NCLIPS
    if kind == 'neg-nclip':
        nclips = [-1, -3]
    elif kind == 'sigma-nonpos':
        cfg['sigma'] = rng.choice([0.0, -1.0, -2.5])
        nclips = [0, 1, 3]
    elif kind == 'sigma-none':
        cfg['sigma_none'] = True
        nclips = [None, 0, 1, 4]
    elif kind == 'bad-sigstat':
        cfg['stat'] = rng.choice(['rms', 'median', 'RMSE', ''])
        if cfg['stat'] == '':
            cfg['stat'] = 'x'
        nclips = [0, 2]
    elif kind == 'bad-fitgeom':
        cfg['fitgeom'] = rng.choice(['affine', 'Shift', 'rotation'])
        nclips = [0, 2]
    elif kind == 'too-few':
        geom = cfg['fitgeom']
        k = rng.randint(0, MINOBJ[geom] - 1)
        for key in ('xy', 'uv'):
            cfg[key] = cfg[key][:k]
        for key in ('wxy', 'wuv'):
            if cfg[key] is not None:
                cfg[key] = [abs(w) + 0.1 for w in cfg[key][:k]]
        nclips = [0, 3]
    elif kind == 'all-zero-weights':
        n = len(cfg['xy'])
        cfg['wxy'] = [0.0] * n
        cfg['wmode'] = 'wxy' if cfg['wuv'] is None else 'both'
        nclips = [0, 3]
    elif kind == 'coincident':
        n = len(cfg['xy'])
        p = [float(rng.randint(-8, 8)), float(rng.randint(-8, 8))]
        cfg['uv'] = [p] * n
        cfg['center'] = None
        cfg['wxy'] = cfg['wuv'] = None
        cfg['wmode'] = 'none'
        cfg['exact'] = True
        nclips = [0, 2]
    elif kind == 'collinear':
        # exactly collinear integer points (weights kept, made positive integers): fit_general must raise
        # SingularMatrixError through its collinearity guard, with and without clipping
        n = max(3, min(len(cfg['xy']), 12))
        d = rng.choice([(1, 0), (0, 1), (1, 1), (1, -1), (2, 1), (3, 7), (5, -2)])
        o = (rng.randint(-40, 40), rng.randint(-40, 40))
        ts = rng.sample(range(-30, 31), n)
        cfg['uv'] = [[float(o[0] + t * d[0]), float(o[1] + t * d[1])] for t in ts]
        cfg['xy'] = [[u + 1.0 + 0.25 * (i % 3), v - 2.0 - 0.5 * (i % 2)] for i, (u, v) in enumerate(cfg['uv'])]
        for key in ('wxy', 'wuv'):
            if cfg[key] is not None:
                cfg[key] = [float(rng.randint(1, 9)) for _ in range(n)]
        cfg['fitgeom'] = 'general'
        cfg['center'] = rng.choice([None, [1.0, -2.0]])
        cfg['stat'] = 'rmse'          # so that the exact-rational model applies as well (strict comparison);
        nclips = [0, 2]               # the double-precision model may miss an exact zero: see common.py
    elif kind == 'nclip-none':
        nclips = [None, 0]
    return cfg, nclips


# ---------------------------------------------------------------------------------------------
def supports_q(cfg):
    stat = 'rmse' if cfg.get('sigma_bare') else cfg['stat']
    return cfg['fitgeom'] in ('shift', 'general') and stat == 'rmse' and not cfg.get('sigma_none')


def schedule(ctx, cfg, nclips, lines, pending, with_q=False):
    """run the implementation now, queue the model lines"""
    modes = ['F']
    if cfg.get('exact') and cfg['family'] == 'tie' and not cfg.get('pow2'):
        modes = []      # 1/n is not representable: only the exact-rational model (and the oracle) apply
    if with_q and supports_q(cfg):
        modes.append('Q')
    hist = [impl_call(cfg, k) for k in nclips]
    case = dict(cfg)
    case['nclips'] = nclips
    effective = any(h[0] == 'ok' and h[1]['eff_nclip'] > 0 for h in hist)
    anyerr = any(h[0] == 'err' for h in hist)
    ctx.case(case, nontrivial=bool(effective or anyerr), branch='family:' + cfg['family'].split(':')[0])
    ctx.evaluations += len(nclips) - 1
    ctx.impl_traces += len(nclips) - 1
    ctx.branch('fitgeom:' + str(cfg['fitgeom']))
    ctx.branch('stat:%s' % cfg['stat'])
    ctx.branch('wmode:' + cfg['wmode'])
    ctx.branch('accum:%s' % cfg['accum'])
    mx = max([h[1]['eff_nclip'] for h in hist if h[0] == 'ok'] or [0])
    ctx.branch('max_eff_nclip:%d' % mx)
    for h in hist:
        if h[0] == 'err':
            ctx.branch('impl:' + h[1])
    near = None
    if nclips == NCLIPS:
        near = oracle_history(ctx, case, cfg, hist)
    else:
        # malformed stream: documented exceptions
        fam = cfg['family']
        want = None
        if fam in ('malformed:neg-nclip', 'malformed:sigma-nonpos', 'malformed:bad-sigstat',
                   'malformed:bad-fitgeom'):
            want = ['valueError'] * len(nclips)
        elif fam == 'malformed:sigma-none':
            want = ['valueError' if (k is not None and k > 0) else None for k in nclips]
        elif fam == 'malformed:too-few' or fam == 'malformed:all-zero-weights':
            want = ['notEnoughPoints'] * len(nclips)
        elif fam == 'malformed:coincident':
            want = ['singular' if cfg['fitgeom'] in ('general', 'rscale') else None] * len(nclips)
        elif fam == 'malformed:collinear':
            want = ['singular'] * len(nclips)
        if want is not None:
            for k, h, w in zip(nclips, hist, want):
                got = h[1] if h[0] == 'err' else None
                if w is not None and got != w:
                    ctx.oracle_fail(case, {'what': 'expected exception %s' % w, 'nclip': k, 'got': got})
                if w is None and fam == 'malformed:sigma-none' and got is not None and len(cfg['xy']) > 3 \
                        and np.count_nonzero(wmask_of(cfg)) >= MINOBJ.get(cfg['fitgeom'], 3):
                    ctx.oracle_fail(case, {'what': 'sigma=None without clipping must be accepted', 'nclip': k,
                                           'got': got})
        for h in hist:
            if h[0] == 'ok' and h[1]['eff_nclip'] != 0 and fam in ('malformed:nclip-none',):
                ctx.oracle_fail(case, {'what': 'nclip None/0 must not clip', 'got': int(h[1]['eff_nclip'])})
    if near is not None:
        ctx.branch('near-tie-history')
    for mode in modes:
        start = len(lines)
        for k in nclips:
            lines.append(model_line(cfg, k, mode))
        pending.append((case, cfg, hist, start, len(nclips), mode, near))


def finish(ctx, lines, pending):
    outs = ctx.driver(lines)
    for case, cfg, hist, start, cnt, mode, near in pending:
        compare_history(ctx, case, cfg, hist, outs[start:start + cnt], mode, near)


def run(ctx):
    _lf()
    rng = ctx.rng
    lines, pending = [], []
    for cfg in hand_corpus():
        cfg.setdefault('wmode', 'none')
        schedule(ctx, cfg, NCLIPS, lines, pending, with_q=True)
    for cfg in tie_cases(rng, ctx.n(60, 400)):
        schedule(ctx, cfg, NCLIPS, lines, pending, with_q=True)
    nq = ctx.n(150, 3000)
    for i in range(ctx.n(1200, 40000)):
        cfg = gen_case(rng)
        schedule(ctx, cfg, NCLIPS, lines, pending, with_q=(i < nq and len(cfg['xy']) <= 25))
    for _ in range(ctx.n(150, 4000)):
        cfg, nclips = gen_malformed(rng)
        schedule(ctx, cfg, nclips, lines, pending,
                 with_q=cfg['family'] in ('malformed:coincident', 'malformed:collinear'))
    finish(ctx, lines, pending)


def replay(ctx, payload):
    fi = payload.get('failing_input') or (payload.get('correspondence') or [None])[0]
    if not fi:
        print('nothing to replay: %s' % payload.get('broken'))
        return 1
    case = fi['case']
    cfg = {k: v for k, v in case.items() if k != 'nclips'}
    nclips = case.get('nclips', NCLIPS)
    lines, pending = [], []
    schedule(ctx, cfg, nclips, lines, pending, with_q=True)
    finish(ctx, lines, pending)
    bad = ctx.oracle_failures + ctx.disagreements
    for b in bad:
        print('STILL FAILS:', b['detail'])
    return 1 if bad else 0
