"""
Synthetic mosaics for the align_wcs properties (C13, C14, C15) and harness-side observation of a
real `align_wcs` run (no change to /repo: bound methods and module functions are wrapped for the
duration of one call and restored afterwards).

Scene: physical sources live on a jittered lattice in a *global pixel frame* (the pixel frame of a
"truth" FITS WCS).  An image is a 1024x1024 window of that frame at some origin, with a WCS that is
the truth WCS moved to the window plus a small CRVAL error; it sees the physical sources inside its
window ('good'), sources displaced by half a lattice step from every true source ('junk': same
footprint, never matched, never coinciding with the junk of another image), or nothing ('empty').

Degenerate fits (C13, finding F26): kind 'line:<d>:<n>' is an image whose catalog is `n` sources that are
EXACTLY collinear in its pixel frame (junk-type identities on one lattice direction `LINE_DIRS[d]`, integer /
half-integer pixel coordinates: the convex hull of such a catalog has no area and the footprint is the whole
image; a general fit of them raises SingularMatrixError); kind 'zerow:<p>' is a good image of which only the
first `p` sources have a positive weight (spec['weights'] then gives every table a 'weight' column).
spec['extra'] = {image number: [source ids]} lets a good image see additional (e.g. line) sources.
"""
import contextlib
import logging

import numpy as np

SP = 60.0          # lattice step (pixels)
JIT = 8.0          # jitter (pixels)
SCALE = 1e-5       # deg / pixel
FIELD = 1024
LINE_DIRS = [(1, 0), (0, 1), (1, 1), (1, -1), (2, 1)]     # lattice directions of the collinear catalogs


# tangent points of the scenes: an ordinary one, two whose mosaics straddle RA = 0 / 360, a high declination
TANGENT_POINTS = [(82.0, 12.0), (82.0, 12.0), (359.9945, -20.0), (359.9935, 35.0), (200.0, 78.0)]


def mkwcs(crpix, err=(0.0, 0.0), rot=10.0, crval=(82.0, 12.0)):
    from astropy import wcs as fitswcs
    from tweakwcs.linearfit import build_fit_matrix
    w = fitswcs.WCS(naxis=2)
    w.wcs.cd = build_fit_matrix(rot, SCALE)
    w.wcs.crval = ((crval[0] + err[0] * SCALE) % 360.0, crval[1] + err[1] * SCALE)
    w.wcs.crpix = crpix
    w.wcs.ctype = ['RA---TAN', 'DEC--TAN']
    w.pixel_shape = (FIELD, FIELD)
    w.wcs.set()
    return w


class Scene:
    """physical sources `G[id] = (X, Y)` in the global frame; junk ids are `JUNK0*(image+1) + id`"""
    JUNK0 = 10 ** 6

    def __init__(self, nprng, lo=-12, hi=42, crval=None):
        self.G = {}
        self.L = {}      # unjittered lattice point of every source
        k = 0
        for i in range(lo, hi):
            for j in range(lo, hi):
                self.L[k] = (i * SP, j * SP)
                self.G[k] = (i * SP + nprng.uniform(-JIT, JIT), j * SP + nprng.uniform(-JIT, JIT))
                k += 1
        # (drawn after the lattice, so that the sources of a seed stay what they were)
        self.crval = TANGENT_POINTS[int(nprng.integers(0, len(TANGENT_POINTS)))] if crval is None else tuple(crval)
        self.truth = mkwcs((1.0, 1.0), crval=self.crval)
        self.ids = np.array(sorted(self.G))
        self.xy = np.array([self.G[k] for k in self.ids])

    def inside(self, origin, margin=20):
        ox, oy = origin
        x = self.xy[:, 0] - ox
        y = self.xy[:, 1] - oy
        sel = (x >= margin) & (x <= FIELD - margin) & (y >= margin) & (y <= FIELD - margin)
        return [int(k) for k in self.ids[sel]]

    def junk_offset(self, slot):
        """displacement (from the unjittered lattice point) of the junk sources of image number
        `slot`: one coordinate is half a step, so junk is >= 22 px from every true source, and the
        junk of two different slots (0..6) is >= 15 px apart"""
        offs = [(30.0, 30.0), (30.0, 0.0), (0.0, 30.0), (30.0, 15.0), (15.0, 30.0), (30.0, 45.0),
                (45.0, 30.0)]
        return offs[slot % len(offs)]

    def position(self, sid):
        """global-frame position of a physical or junk source id"""
        if sid < self.JUNK0:
            return self.G[sid]
        slot = sid // self.JUNK0 - 1
        base = sid % self.JUNK0
        dx, dy = self.junk_offset(slot)
        return (self.L[base][0] + dx, self.L[base][1] + dy)

    def sky_of(self, sids):
        xy = np.array([self.position(s) for s in sids]).reshape(-1, 2)
        if len(xy) == 0:
            return np.zeros((0, 2))
        return self.truth.all_pix2world(xy, 0)

    def global_of_sky(self, ra, dec):
        rd = np.array([np.asarray(ra, dtype=float), np.asarray(dec, dtype=float)]).T.reshape(-1, 2)
        if len(rd) == 0:
            return np.zeros((0, 2))
        return self.truth.all_world2pix(rd, 0)

    def line_sources(self, slot, origin, d, n):
        """junk-type ids of `n` lattice points inside the window on the lattice line of direction
        LINE_DIRS[d] through the lattice point nearest to the window centre"""
        ox, oy = origin
        ins = set(self.inside(origin))
        idx = {(int(round(self.L[k][0] / SP)), int(round(self.L[k][1] / SP))): k for k in ins}
        ci, cj = int(round((ox + FIELD / 2) / SP)), int(round((oy + FIELD / 2) / SP))
        di, dj = LINE_DIRS[d % len(LINE_DIRS)]
        pts = [idx[(ci + t * di, cj + t * dj)] for t in range(-12, 13) if (ci + t * di, cj + t * dj) in idx]
        # the innermost n of them, in order along the line
        drop = max(0, len(pts) - n)
        pts = pts[drop // 2: len(pts) - (drop - drop // 2)]
        return [self.JUNK0 * (slot + 1) + k for k in pts]

    def make_image(self, slot, origin, kind, gid, err=(0.0, 0.0), name=None, weights=False, nprng=None,
                   extra=(), maker=None):
        """-> (corrector, source ids in catalog order); `maker(origin, err, meta)` builds the corrector
        (default: a FITSWCSCorrector on the truth WCS moved to the window, CRVAL off by `err` pixels)"""
        from astropy.table import Table
        from tweakwcs import FITSWCSCorrector
        ox, oy = origin
        ins = self.inside(origin)
        wcol = None
        if kind == 'good' or kind.startswith('zerow:'):
            ids = list(ins) + [int(s) for s in extra]
            xy = np.array([(self.position(k)[0] - ox, self.position(k)[1] - oy) for k in ids]).reshape(-1, 2)
            if kind.startswith('zerow:'):
                npos = int(kind.split(':')[1])
                wcol = np.array([1.0 if j < npos else 0.0 for j in range(len(ids))])
        elif kind.startswith('line:'):
            _, d, n = kind.split(':')
            ids = self.line_sources(slot, origin, int(d), int(n))
            xy = np.array([(self.position(k)[0] - ox, self.position(k)[1] - oy) for k in ids]).reshape(-1, 2)
        elif kind == 'junk':
            dx, dy = self.junk_offset(slot)
            ids = [self.JUNK0 * (slot + 1) + k for k in ins]
            xy = np.array([(self.L[k][0] - ox + dx, self.L[k][1] - oy + dy) for k in ins]).reshape(-1, 2)
        elif kind == 'empty':
            ids = []
            xy = np.zeros((0, 2))
        else:
            raise ValueError(kind)
        cat = Table([xy[:, 0], xy[:, 1]], names=('x', 'y'))
        if weights:
            cat['weight'] = np.ones(len(ids)) if wcol is None else wcol
        meta = {'catalog': cat, 'name': name if name is not None else 'im%d' % slot}
        if gid is not None:
            meta['group_id'] = gid
        if maker is not None:
            return maker(self, origin, err, meta), ids
        w = mkwcs((1.0 - ox, 1.0 - oy), err, crval=self.crval)
        return FITSWCSCorrector(w, meta=meta), ids


def jwst_maker(scene, origin, err, meta):
    """a JWSTWCSCorrector on a mock gWCS pipeline (built by the repository's own test helper) that maps the
    pixels of the window at `origin` to the same sky positions as the FITS WCS of that window does: tangent
    point at the window centre, `cd` and `crpix` calibrated numerically against the FITS mapping (three
    Newton steps; the two mappings then agree to < 3e-4 px over the window, both being gnomonic), CRVAL off by
    `err` pixels exactly as `mkwcs` does it.  The scene geometry contract (catalog pixel = global - origin, sky
    = truth WCS) is unchanged; the detector is FIELD x FIELD."""
    from tweakwcs.tests.helper_correctors import make_mock_jwst_wcs
    from tweakwcs.correctors import JWSTWCSCorrector
    ox, oy = origin
    fw = mkwcs((1.0 - ox, 1.0 - oy), (0.0, 0.0), crval=scene.crval)
    c = np.array([(FIELD - 1) / 2.0, (FIELD - 1) / 2.0])
    h = 200.0
    pts = np.array([c, c + [h, 0], c - [h, 0], c + [0, h], c - [0, h]])

    def tang(rd, rd0):
        d = np.deg2rad(rd0[1])
        return np.array([((rd[:, 0] - rd0[0] + 180.0) % 360.0 - 180.0) * np.cos(d), rd[:, 1] - rd0[1]]).T

    def build(crpix, cd, crval):
        w = make_mock_jwst_wcs(v2ref=v2, v3ref=v3, roll=roll, crpix=[float(crpix[0]), float(crpix[1])], cd=cd,
                               crval=[float(crval[0]), float(crval[1])])
        w.bounding_box = ((-0.5, FIELD - 0.5), (-0.5, FIELD - 0.5))
        w.array_shape = (FIELD, FIELD)
        return w
    sky = fw.all_pix2world(pts, 0)
    rd0 = sky[0]
    tf = tang(sky, rd0)
    jf = np.array([(tf[1] - tf[2]) / (2 * h), (tf[3] - tf[4]) / (2 * h)]).T
    v2, v3, roll = 120.0, -350.0, 33.0
    cd = np.deg2rad(SCALE) * np.eye(2)
    crpix = c.copy()
    for _ in range(3):
        w = build(crpix, cd, rd0)
        tj = tang(np.array(w(pts[:, 0], pts[:, 1])).T, rd0)
        jj = np.array([(tj[1] - tj[2]) / (2 * h), (tj[3] - tj[4]) / (2 * h)]).T
        cd = cd @ np.linalg.inv(jj) @ jf
        crpix = crpix + np.linalg.inv(jj) @ tj[0]
    w = build(crpix, cd, ((float(rd0[0]) + err[0] * SCALE) % 360.0, float(rd0[1]) + err[1] * SCALE))
    return JWSTWCSCorrector(w, {'v2_ref': v2, 'v3_ref': v3, 'roll_ref': roll}, meta=meta)


MAKERS = {'jwst': jwst_maker}     # name -> maker(scene, origin, err, meta) of non-FITS correctors


def scene_with(rng, wanted):
    """(seed, Scene) whose tangent point is one of `wanted` (the seed alone rebuilds it: replays)"""
    while True:
        seed = rng.getrandbits(32)
        sc = Scene(np.random.default_rng(seed))
        if sc.crval in wanted:
            return seed, sc


WRAP_POINTS = [(359.9945, -20.0), (359.9935, 35.0)]   # RA = 0 runs through the middle of the mosaic


# ------------------------------------------------------------------------------------------------
# observation of a real run
# ------------------------------------------------------------------------------------------------
class _Handler(logging.Handler):
    def __init__(self, sink):
        super().__init__()
        self.sink = sink

    def emit(self, r):
        try:
            m = r.getMessage()
        except Exception:
            return
        if 'Aligning image catalog' in m:
            self.sink.append(('aligning', m))
        elif 'MalformedPolygonError' in m:
            self.sink.append(('malformed', m))


class Observation:
    def __init__(self):
        self.log = []            # ('aligning', msg) / ('malformed', msg)
        self.order_calls = []    # dicts describing every _max_overlap_pair/_max_overlap_image call
        self.aligned = []        # member names of every group passed to align_to_ref, in order
        self.corrections = {}    # id(corrector) -> number of set_correction calls
        self.expansions = []     # number of rows of every expand_catalog call
        self.footprints = []     # (rows after, area of the footprint after, area of a freshly built one)
        self.kept = None         # id(group object) -> number of the group (order of the first ordering call)
        self.kept_names = None   # member names of those groups
        self.nmatches = []       # nmatches returned by every match2ref call

    def aligning_records(self):
        return [m for k, m in self.log if k == 'aligning']


def footprint_after_expansion(refcat):
    """(rows, area of refcat's current footprint, area of the footprint of a RefCatalog freshly built from
    the same rows): the footprint of a reference catalog is a function of its rows, so the two agree
    whatever sequence of expansions produced the rows"""
    import math
    from astropy.table import Table
    from tweakwcs.wcsimage import RefCatalog
    cat = refcat.catalog
    fresh = RefCatalog(Table([np.array(cat['RA'], dtype=float), np.array(cat['DEC'], dtype=float)],
                             names=('RA', 'DEC')))

    def ar(p):
        a = abs(p.area())
        return min(a, 4 * math.pi - a)
    return (len(cat), ar(refcat.polygon), ar(fresh.polygon))


def centroid_inside(refcat):
    """the (convex) footprint of a reference catalog with >= 3 sources contains the mean direction of its
    sources - an independent sanity check of where on the sphere the footprint was put"""
    cat = refcat.catalog
    if cat is None or len(cat) < 3:
        return True
    ra = np.deg2rad(np.asarray(cat['RA'], dtype=float))
    dec = np.deg2rad(np.asarray(cat['DEC'], dtype=float))
    v = np.array([np.cos(dec) * np.cos(ra), np.cos(dec) * np.sin(ra), np.sin(dec)]).mean(axis=1)
    lon = float(np.rad2deg(np.arctan2(v[1], v[0])) % 360.0)
    lat = float(np.rad2deg(np.arctan2(v[2], np.hypot(v[0], v[1]))))
    try:
        return bool(refcat.polygon.contains_lonlat(lon, lat))
    except Exception:   # noqa
        return None


def misplaced_footprints(obs):
    """ordering calls at which the reference footprint did not contain the centroid of its own sources"""
    return [{'call': k, 'rows': oc.get('catlen')} for k, oc in enumerate(obs.order_calls)
            if oc.get('fn') == 'next' and oc.get('ref_centroid_inside') is False]


def stale_footprints(obs):
    """expansions after which the footprint differs from the footprint of the rows (relative 1e-3: the
    areas of spherical_geometry are reproducible to ~1e-6 only)"""
    bad = []
    for k, (n, a, f) in enumerate(obs.footprints):
        if n is None:
            bad.append({'expansion': k, 'error': f})
        elif abs(a - f) > 1e-3 * max(a, f) + 1e-18:
            bad.append({'expansion': k, 'rows': n, 'footprint_area': a, 'area_of_fresh_footprint': f})
    return bad


@contextlib.contextmanager
def observe(correctors=()):
    """wrap the ordering helpers, the guarded area calls, align_to_ref, expand_catalog and the
    `set_correction` of the given correctors; everything is restored on exit"""
    from tweakwcs import imalign, wcsimage
    obs = Observation()
    lg = logging.getLogger('tweakwcs.imalign')
    h = _Handler(obs.log)
    old_disable = logging.root.manager.disable
    logging.disable(logging.NOTSET)
    old_level = lg.level
    lg.setLevel(logging.DEBUG)
    lg.addHandler(h)
    old_prop = lg.propagate
    lg.propagate = False
    # keep the package's other loggers quiet (their records would reach the last-resort handler)
    top = logging.getLogger('tweakwcs')
    top_prop = top.propagate
    top.propagate = False
    null = logging.NullHandler()
    top.addHandler(null)

    classes = (wcsimage.WCSImageCatalog, wcsimage.WCSGroupCatalog, wcsimage.RefCatalog)
    state = {'depth': 0, 'calls': None}
    saved = []

    def wrap_guard(cls):
        orig = cls._guarded_intersection_area

        def w(self, other):
            state['depth'] += 1
            try:
                r = orig(self, other)
            finally:
                state['depth'] -= 1
            if state['depth'] == 0 and state['calls'] is not None:
                state['calls'].append((self, other, float(r[0]), int(r[1])))
            return r
        saved.append((cls, '_guarded_intersection_area', orig))
        cls._guarded_intersection_area = w

    for cls in classes:
        wrap_guard(cls)

    def names(g):
        try:
            return [im.name for im in g]
        except TypeError:
            return [getattr(g, 'name', '?')]

    orig_pair = imalign._max_overlap_pair
    orig_next = imalign._max_overlap_image

    def pair(images, enforce_user_order):
        before = list(images)
        state['calls'] = []
        try:
            ret = orig_pair(images=images, enforce_user_order=enforce_user_order)
        finally:
            calls, state['calls'] = state['calls'], None
        pos = {id(o): p for p, o in enumerate(before)}
        if obs.kept is None:
            obs.kept = dict(pos)
            obs.kept_names = [names(g) for g in before]
        obs.order_calls.append({
            'fn': 'pair', 'enforce': bool(enforce_user_order), 'n': len(before),
            'names': [names(g) for g in before],
            'calls': [(pos.get(id(a)), pos.get(id(b)), ar, nf) for a, b, ar, nf in calls],
            'ret': (pos.get(id(ret[0])) if ret[0] is not None else None,
                    pos.get(id(ret[1])) if ret[1] is not None else None,
                    None if ret[2] is None else float(ret[2])),
            'rest': [pos.get(id(o)) for o in images]})
        return ret

    def nxt(refimage, images, enforce_user_order):
        before = list(images)
        state['calls'] = []
        try:
            ret = orig_next(refimage=refimage, images=images, enforce_user_order=enforce_user_order)
        finally:
            calls, state['calls'] = state['calls'], None
        pos = {id(o): p for p, o in enumerate(before)}
        if obs.kept is None:
            obs.kept = dict(pos)
            obs.kept_names = [names(g) for g in before]
        try:
            catlen = len(refimage.catalog)
        except Exception:
            catlen = None
        obs.order_calls.append({
            'ref_centroid_inside': centroid_inside(refimage) if hasattr(refimage, 'catalog') and
            hasattr(refimage, 'polygon') and not hasattr(refimage, '__iter__') else None,
            'catlen': catlen, 'work': [obs.kept.get(id(o)) for o in before],
            'fn': 'next', 'enforce': bool(enforce_user_order), 'n': len(before),
            'names': [names(g) for g in before],
            'calls': [(pos.get(id(b)), ar, nf) for a, b, ar, nf in calls],
            'ret': (pos.get(id(ret[0])) if ret[0] is not None else None,
                    None if ret[1] is None else float(ret[1])),
            'rest': [pos.get(id(o)) for o in images]})
        return ret

    imalign._max_overlap_pair = pair
    imalign._max_overlap_image = nxt

    orig_align = wcsimage.WCSGroupCatalog.align_to_ref

    def align_to_ref(self, *a, **kw):
        obs.aligned.append([im.name for im in self])
        return orig_align(self, *a, **kw)
    wcsimage.WCSGroupCatalog.align_to_ref = align_to_ref

    orig_match = wcsimage.WCSGroupCatalog.match2ref

    def match2ref(self, *a, **kw):
        r = orig_match(self, *a, **kw)
        obs.nmatches.append(int(r[0]))
        return r
    wcsimage.WCSGroupCatalog.match2ref = match2ref

    orig_expand = wcsimage.RefCatalog.expand_catalog

    def expand_catalog(self, catalog):
        obs.expansions.append(len(catalog))
        r = orig_expand(self, catalog)
        try:
            obs.footprints.append(footprint_after_expansion(self))
        except Exception as e:   # noqa
            obs.footprints.append((None, None, repr(e)[:200]))
        return r
    wcsimage.RefCatalog.expand_catalog = expand_catalog

    wrapped_corr = []
    for c in correctors:
        obs.corrections[id(c)] = 0
        orig_sc = c.set_correction

        def sc(*a, _o=orig_sc, _k=id(c), **kw):
            obs.corrections[_k] += 1
            return _o(*a, **kw)
        c.set_correction = sc
        wrapped_corr.append(c)
    try:
        yield obs
    finally:
        for c in wrapped_corr:
            try:
                del c.set_correction
            except AttributeError:
                pass
        wcsimage.RefCatalog.expand_catalog = orig_expand
        wcsimage.WCSGroupCatalog.match2ref = orig_match
        wcsimage.WCSGroupCatalog.align_to_ref = orig_align
        imalign._max_overlap_pair = orig_pair
        imalign._max_overlap_image = orig_next
        for cls, nm, o in saved:
            setattr(cls, nm, o)
        lg.removeHandler(h)
        lg.setLevel(old_level)
        lg.propagate = old_prop
        top.removeHandler(null)
        top.propagate = top_prop
        logging.disable(old_disable)


# ------------------------------------------------------------------------------------------------
# one scenario: real run + everything needed to drive the model with the same input
# ------------------------------------------------------------------------------------------------
STATUS_CODE = {'REFERENCE': 'R', 'SUCCESS': 'S', 'FAILED: empty source catalog': 'E',
               'FAILED: not enough matches': 'M', 'FAILED: singular matrix': 'G',
               'FAILED: not enough points': 'P', 'FAILED: Unknown error': 'U'}
GRID = np.array([(x, y) for x in (0.0, 300.0, 511.5, 800.0, 1023.0) for y in (0.0, 256.0, 700.0, 1023.0)])

REF_REGIONS = {'centre': (100, 700, 100, 700), 'east': (900, 1500, 100, 700), 'far': (5000, 5600, 5000, 5600),
               'wide': (-200, 1400, -200, 1400), 'tiny': (430, 470, 430, 470)}


def ref_sources(scene, region):
    x0, x1, y0, y1 = REF_REGIONS[region] if isinstance(region, str) else region
    return [int(k) for k in scene.ids if x0 <= scene.G[k][0] <= x1 and y0 <= scene.G[k][1] <= y1]


def sky_grid(c):
    return np.array(c.det_to_world(GRID[:, 0], GRID[:, 1]))


def catalog_sky(c):
    """sky positions (deg) of the catalog sources of a corrector with its present WCS"""
    cat = c.meta.get('catalog')
    if cat is None or len(cat) == 0:
        return np.zeros((0, 2))
    ra, dec = c.det_to_world(np.asarray(cat['x'], dtype=float), np.asarray(cat['y'], dtype=float))
    return np.array([ra, dec]).T


# group ids are "any hashable": the labels handed to the real code are drawn from this pool, which
# holds falsy but legitimate ids (0, '', (), 0.0, False) next to ordinary ones.  spec['labels'] maps the
# abstract group number of the scenario to an index of the pool (JSON friendly, so replays keep it).
LABEL_POOL = [0, '', (), 'A', 7, (1, 'x'), 2.5, False, 0.0, -1, 'group 1', frozenset()]


def draw_labels(rng, gids):
    """pairwise unequal labels for the abstract group numbers in `gids` (None stays None)"""
    out = {}
    taken = []
    for g in sorted({g for g in gids if g is not None}):
        for _ in range(50):
            i = rng.randrange(len(LABEL_POOL))
            if all(not (LABEL_POOL[i] == LABEL_POOL[j]) for j in taken):
                break
        else:
            continue
        taken.append(i)
        out[str(g)] = i
    return out


def real_group_label(spec, gid):
    if gid is None:
        return None
    lab = (spec.get('labels') or {}).get(str(gid))
    return gid if lab is None else LABEL_POOL[lab]


def run_scenario(scene, spec, nprng):
    """
    spec: dict(images=[(origin, kind, gid)], errs=[(ex, ey)], ref=None | dict(kind='table'|'corrector',
          region=…, ids=None | [ints]), expand=bool, enforce=bool, minobj=None|int, fitgeom=str,
          match=bool, common=None | [source ids])   (common: every catalog is exactly this list, in
          this order: the 1-to-1 mode needed by match=None)
    Returns a record with what the real align_wcs did.
    """
    from astropy.table import Table
    from tweakwcs import align_wcs, XYXYMatch, FITSWCSCorrector
    ims, srcs = [], []
    weights = bool(spec.get('weights'))
    extra = spec.get('extra') or {}
    makers = spec.get('makers') or []
    for k, ((origin, kind, gid), err) in enumerate(zip(spec['images'], spec['errs'])):
        c, ids = scene.make_image(k, tuple(origin), kind, real_group_label(spec, gid), err=tuple(err),
                                  name=(spec.get('names') or [None] * (k + 1))[k],
                                  weights=weights, extra=extra.get(str(k), ()),
                                  maker=MAKERS[makers[k]] if k < len(makers) and makers[k] else None)
        if spec.get('common') is not None and kind == 'good':
            ids = list(spec['common'])
            ox, oy = origin
            xy = np.array([(scene.G[s][0] - ox, scene.G[s][1] - oy) for s in ids]).reshape(-1, 2)
            c.meta['catalog'] = Table([xy[:, 0], xy[:, 1]], names=('x', 'y'))
        ims.append(c)
        srcs.append(ids)
    ref = spec.get('ref')
    refcat = None
    ref_ids = None
    ref_idcol = None
    if ref is not None:
        ref_ids = list(ref['sources']) if 'sources' in ref else ref_sources(scene, ref['region'])
        rd = scene.sky_of(ref_ids)
        if ref['kind'] == 'table':
            refcat = Table([rd[:, 0], rd[:, 1]], names=('RA', 'DEC'))
            if weights:
                refcat['weight'] = np.ones(len(ref_ids))
            if ref.get('ids') is not None:
                ref_idcol = [int(i) for i in ref['ids']][:len(ref_ids)]
                refcat['id'] = np.array(ref_idcol, dtype=int)
        else:
            # a corrector with an exact WCS whose catalog lists the reference sources in pixels
            ox, oy = ref.get('origin', (0, 0))
            w = mkwcs((1.0 - ox, 1.0 - oy), crval=scene.crval)
            xy = np.array([(scene.position(s)[0] - ox, scene.position(s)[1] - oy) for s in ref_ids]).reshape(-1, 2)
            rt = Table([xy[:, 0], xy[:, 1]], names=('x', 'y'))
            if weights:
                rt['weight'] = np.ones(len(ref_ids))
            refcat = FITSWCSCorrector(w, meta={'catalog': rt, 'name': 'refimage'})
    before = [sky_grid(c) for c in ims]
    sky_before = [catalog_sky(c) for c in ims]
    had_info = ['fit_info' in c.meta for c in ims]
    # the radii of the matcher are in units of the tangent plane: pixels for FITS correctors, arcsec for gWCS ones
    ps = SCALE * 3600.0 if any(makers) else 1.0
    kw = dict(refcat=refcat, expand_refcat=spec['expand'], enforce_user_order=spec['enforce'],
              fitgeom=spec['fitgeom'], minobj=spec['minobj'],
              match=XYXYMatch(searchrad=5 * ps, separation=0.5 * ps, tolerance=2.0 * ps) if spec['match'] else None)
    with observe(ims) as obs:
        try:
            out = align_wcs(ims, **kw)
            exc = None
        except Exception as e:   # noqa
            out = None
            exc = (type(e).__name__, str(e)[:160])
    after = [sky_grid(c) for c in ims]
    rec = {'sky_before': sky_before, 'sky_after': [catalog_sky(c) for c in ims], 'refcat_in': refcat,
           'spec': spec, 'srcs': srcs, 'ref_ids': ref_ids, 'ref_idcol': ref_idcol, 'exc': exc, 'obs': obs,
           'ims': ims, 'out': out, 'had_info': had_info,
           'unchanged': [bool(np.array_equal(a, b)) for a, b in zip(before, after)],
           'moved': [float(np.max(np.abs(a - b))) for a, b in zip(before, after)],
           'status': [c.meta.get('fit_info', {}).get('status') if isinstance(c.meta.get('fit_info'), dict) else None
                      for c in ims],
           'ncorr': [obs.corrections[id(c)] for c in ims]}
    name2pos = {c.meta['name']: k for k, c in enumerate(ims)}
    rec['aligned'] = [[name2pos.get(nm) for nm in g] for g in obs.aligned]
    rec['kept'] = None if obs.kept_names is None else [[name2pos.get(nm) for nm in g] for g in obs.kept_names]
    rec['rows'] = None
    if out is not None:
        rec['rows'] = map_rows(scene, spec, out, name2pos)
    return rec


def candidate_positions(scene, spec):
    ids = []
    for k, (origin, kind, gid) in enumerate(spec['images']):
        ins = scene.inside(tuple(origin))
        if kind == 'junk' or kind.startswith('line:'):
            ids += [scene.JUNK0 * (k + 1) + s for s in ins]
    ids += [int(s) for s in scene.ids]
    pos = np.array([scene.position(s) for s in ids])
    return ids, pos


def map_rows(scene, spec, table, name2pos):
    """returned reference rows -> (source id, id column, origin image position | None, distance in px)"""
    ids, pos = candidate_positions(scene, spec)
    n = len(table)
    if n == 0:
        return []
    xy = scene.global_of_sky(np.asarray(table['RA'], dtype=float), np.asarray(table['DEC'], dtype=float))
    rows = []
    catname = table['cat_name'] if 'cat_name' in table.colnames else None
    for r in range(n):
        d2 = (pos[:, 0] - xy[r, 0]) ** 2 + (pos[:, 1] - xy[r, 1]) ** 2
        j = int(np.argmin(d2))
        origin = None
        if catname is not None:
            v = catname[r]
            if not (hasattr(catname, 'mask') and np.ma.is_masked(v)) and str(v) not in ('', '--'):
                origin = name2pos.get(str(v), str(v))
        rows.append((ids[j], int(table['id'][r]), origin, float(np.sqrt(d2[j])), (float(xy[r, 0]), float(xy[r, 1]))))
    return rows


def model_line(rec, minobj_eff, f2x):
    """the `align F …` line for the scenario of `rec` with the overlap areas the real run produced"""
    spec = rec['spec']
    obs = rec['obs']
    toks = ['align', 'F', '1' if spec['expand'] else '0', '1' if spec['enforce'] else '0', str(minobj_eff),
            str(FITMIN[spec['fitgeom']]), '0' if spec['match'] else '1', 'I', str(len(spec['images']))]
    flags = fit_flags(spec, rec['srcs'])
    for (origin, kind, gid), ids, fl in zip(spec['images'], rec['srcs'], flags):
        toks += ['-' if gid is None else str(gid), str(fl), str(len(ids))] + [str(s) for s in ids]
    toks.append('R')
    if spec.get('ref') is None:
        toks.append('none')
    else:
        toks += ['table', str(len(rec['ref_ids']))] + [str(s) for s in rec['ref_ids']]
        if rec['ref_idcol'] is not None:
            toks += ['1'] + [str(i) for i in rec['ref_idcol']]
        else:
            toks.append('0')
    return ' '.join(toks + area_tokens(obs, f2x))


def area_tokens(obs, f2x):
    """`P … A …`: the guarded areas the real run produced (between the groups at the first ordering call
    when no reference catalog was given; between the reference catalog and every group, keyed by the size of
    the catalog)"""
    toks = []
    # guarded areas between the groups (first ordering call when no reference catalog was given)
    pair = next((oc for oc in obs.order_calls if oc['fn'] == 'pair'), None)
    toks.append('P')
    if pair is None:
        toks.append('0')
    else:
        m = pair['n']
        raw = [[0.0] * m for _ in range(m)]
        rawf = [[0] * m for _ in range(m)]
        if pair['enforce'] or m == 2:
            if pair['calls'] and m >= 2:
                raw[0][1] = pair['calls'][0][2]
                rawf[0][1] = pair['calls'][0][3]
        else:
            for p, q, ar, nf in pair['calls']:
                if p is not None and q is not None:
                    raw[p][q] = ar
                    rawf[p][q] = nf
        toks.append(str(m))
        toks += [f2x(x) for r in raw for x in r] + [str(x) for r in rawf for x in r]
    table = {}
    for oc in obs.order_calls:
        if oc['fn'] != 'next' or oc['catlen'] is None:
            continue
        for (p, ar, nf) in oc['calls']:
            if p is None:
                continue
            g = oc['work'][p]
            if g is not None:
                table[(oc['catlen'], g)] = (ar, nf)
    toks += ['A', str(len(table))]
    for (cl, g), (ar, nf) in sorted(table.items()):
        toks += [str(cl), str(g), f2x(ar), str(nf)]
    return toks


def fit_flags(spec, srcs):
    """the model's `fitFail` flag of every image (0 none, 1 SingularMatrixError, 2 NotEnoughPointsError),
    decided by construction: an ungrouped image with an exactly collinear catalog cannot be fitted with
    'general'; a group whose catalogs hold fewer sources of positive weight than the geometry needs cannot be
    fitted at all (the flag only matters when enough sources are matched)"""
    gids = [g for _, _, g in spec['images']]
    fmin = FITMIN[spec['fitgeom']]
    out = []
    for k, (origin, kind, gid) in enumerate(spec['images']):
        members = [j for j in range(len(gids)) if gid is not None and gids[j] == gid] or [k]
        fl = 0
        if kind.startswith('line:') and len(members) == 1 and spec['fitgeom'] == 'general':
            fl = 1
        if spec.get('weights') and all(spec['images'][j][1].startswith('zerow:') or not srcs[j] for j in members):
            npos = sum(min(int(spec['images'][j][1].split(':')[1]), len(srcs[j])) for j in members
                       if spec['images'][j][1].startswith('zerow:'))
            if npos < fmin and any(srcs[j] for j in members):
                fl = 2
        out.append(fl)
    return out


def parse_model(out):
    """driver answer -> dict(head, events, order [(group, nm)], rows [(src, id, origin)], exps)"""
    parts = [p.split() for p in out.split('|')]
    if len(parts) != 5 or not parts[0]:
        return None
    res = {'head': parts[0][0], 'events': parts[1][1:], 'order': [], 'rows': [], 'exps': []}
    for t in parts[2][1:]:
        g, nm = t.split('#')
        res['order'].append(([int(x) for x in g.split(',')], int(nm)))
    for t in parts[3][1:]:
        s, i, o = t.split(':')
        res['rows'].append((int(s), int(i), None if o == '-' else int(o)))
    for t in parts[4][1:]:
        g, ok, z, nr = t.split('/')
        res['exps'].append(([int(x) for x in g.split(',')], ok == '1', z == '1', int(nr)))
    st = {}
    nc = {}
    for e in res['events']:
        if e[0] == 's':
            k, code = e[1:].split(':')
            st.setdefault(int(k), []).append(code)
        else:
            nc[int(e[1:])] = nc.get(int(e[1:]), 0) + 1
    res['status'] = st
    res['ncorr'] = nc
    return res


def near_tie_areas(rec, rel=1e-6):
    """the overlap-driven choice of the real run was (nearly) a tie somewhere.  The areas come from spherical_geometry and
    are reproducible only to 1e-7 ... 1e-5 relative (finding F21): between two machines the same scenario can be an exact
    tie on one and an ordered pair on the other, so everything closer than 1e-6 relative counts as a tie (a run of
    `vp check` on a fresh copy of the sandbox disagreed with the model on a scenario that is an exact tie here)"""
    for oc in rec['obs'].order_calls:
        if oc['enforce']:
            continue
        if oc['fn'] == 'pair' and oc['n'] >= 3:
            m = oc['n']
            raw = {}
            for p, q, ar, nf in oc['calls']:
                raw[(p, q)] = ar
            vals = sorted(raw.values(), reverse=True)
            if len(vals) > 1 and abs(vals[0] - vals[1]) <= rel * max(abs(vals[0]), 1e-300):
                return True
            tot = [sum(raw.get((min(p, q), max(p, q)), 0.0) for q in range(m) if q != p) for p in range(m)]
            best = max(raw, key=lambda k: raw[k])
            a, b = tot[best[0]], tot[best[1]]
            if abs(a - b) <= rel * max(abs(a), abs(b), 1e-300):
                return True
            rows = sorted(raw.get((min(best[0], q), max(best[0], q)), 0.0) for q in range(m) if q not in best)
            if any(abs(x - y) <= rel * max(abs(x), abs(y), 1e-300) and (x or y) for x, y in zip(rows, rows[1:])):
                return True
        elif oc['fn'] == 'next' and oc['n'] >= 2:
            vals = sorted((c[1] for c in oc['calls']), reverse=True)
            if len(vals) > 1 and abs(vals[0] - vals[1]) <= rel * max(abs(vals[0]), 1e-300) and vals[0] > 0:
                return True
    return False


# ------------------------------------------------------------------------------------------------
# correspondence of one scenario with the model (shared by C13 and C14)
# ------------------------------------------------------------------------------------------------
FITMIN = {'shift': 1, 'rshift': 2, 'rscale': 2, 'general': 3}

ERR_KIND = {'NotEnoughCatalogs': 'notEnoughCatalogs'}


def real_error_kind(exc):
    if exc is None:
        return None
    name, msg = exc
    if name == 'NotEnoughCatalogs':
        return 'notEnoughCatalogs'
    if name == 'ValueError' and 'at least one source' in msg:
        return 'emptyRefcat'
    if name == 'ValueError' and 'matching is not requested' in msg:
        return 'lengthMismatch'
    return name


# exception class the code raises for every error kind of the model (`alignentry`, `fitwcs`)
ERR_CLASS = {'notEnoughCatalogs': 'NotEnoughCatalogs', 'emptyRefcat': 'ValueError', 'lengthMismatch': 'ValueError',
             'fitgeomKeyError': 'KeyError', 'wcscatType': 'TypeError', 'noCatalog': 'ValueError',
             'catalogNoXY': 'ValueError', 'fitgeomNotString': 'AttributeError', 'badFitgeom': 'ValueError',
             'refNoCatalog': 'ValueError', 'refNoRADEC': 'KeyError', 'refcatType': 'TypeError',
             'metaNotWritable': 'AttributeError', 'indexError': 'IndexError',
             'fitError:singular': 'SingularMatrixError', 'fitError:notEnoughPoints': 'NotEnoughPointsError'}
# a fragment of the message that tells apart errors of the same class
ERR_MSG = {'emptyRefcat': 'at least one source', 'lengthMismatch': 'matching is not requested',
           'noCatalog': 'must have a valid catalog', 'catalogNoXY': "'x' and 'y' columns",
           'badFitgeom': "Unsupported 'fitgeom'", 'refNoCatalog': "Reference 'WCSCorrector' must contain",
           'refNoRADEC': "'RA' and 'DEC'", 'refcatType': "Unsupported 'refcat' type",
           'fitgeomNotString': "no attribute 'lower'"}


def error_matches(kind, exc):
    """does the raised exception `exc = (class name, message)` correspond to the model's error kind?"""
    if kind is None or exc is None:
        return kind is None and exc is None
    name, msg = exc
    if ERR_CLASS.get(kind) != name:
        return False
    frag = ERR_MSG.get(kind)
    return frag is None or frag in msg


def expected_groups(gids):
    """groups in order of first appearance of a member (an ungrouped image is its own group)"""
    out = []
    seen = {}
    for k, g in enumerate(gids):
        if g is None:
            out.append([k])
        elif g in seen:
            out[seen[g]].append(k)
        else:
            seen[g] = len(out)
            out.append([k])
    return out


def compare_with_model(ctx, case, rec, out, what=('status', 'order', 'ncorr', 'rows')):
    """model answer `out` against the record of the real run; reports through ctx.disagree"""
    m = parse_model(out)

    def bad(w, **kw):
        d = {'op': 'align', 'what': w, 'model': out[:300]}
        d.update(kw)
        ctx.disagree(case, d)
    if m is None:
        bad('unparsable model answer')
        return
    n = len(rec['ims'])
    mk = None if m['head'] == 'ok' else m['head'][4:]
    rk = real_error_kind(rec['exc'])
    if mk != rk:
        bad('outcome', impl=rk, impl_exc=rec['exc'])
        return
    # statuses written, as codes
    real_st = [STATUS_CODE.get(s, None if s is None else 'F?') for s in rec['status']]
    mod_st = [m['status'].get(k, [None])[-1] for k in range(n)]
    if 'status' in what and real_st != mod_st:
        bad('statuses', impl=real_st, model_status=mod_st)
        return
    if any(len(v) != 1 for v in m['status'].values()):
        bad('model wrote a status twice')
    if 'ncorr' in what and [m['ncorr'].get(k, 0) for k in range(n)] != rec['ncorr']:
        bad('set_correction calls', impl=rec['ncorr'])
        return
    # (when the run died inside align_to_ref the group being aligned is not part of the model's list)
    if 'order' in what and [g for g, nm in m['order']] != (rec['aligned'] if mk is None
                                                            else rec['aligned'][:len(m['order'])]):
        bad('alignment order', impl=rec['aligned'])
        return
    if rec['spec']['match'] and [nm for g, nm in m['order']] != rec['obs'].nmatches[:len(m['order'])]:
        bad('nmatches', impl=rec['obs'].nmatches)
        return
    if mk is None and 'rows' in what:
        rows = [(a, b, c) for a, b, c, d, e in rec['rows']]
        if len(rows) != len(m['rows']):
            bad('length of the returned reference catalog', impl=len(rows), model_len=len(m['rows']))
            return
        for j, (r, q) in enumerate(zip(rows, m['rows'])):
            if r != q:
                bad('returned reference catalog row %d (source, id, origin image)' % j, impl=r, model_row=q)
                return
        far = [r for r in rec['rows'] if r[3] > 4.0]
        if far:
            bad('a returned row is not at the position of any source', impl=far[:3])
            return
        if [x[3] for x in m['exps']] != rec['obs'].expansions:
            bad('expand_catalog calls', impl=rec['obs'].expansions, model_exps=m['exps'])


def polluted(rec):
    """some expand_catalog call appended the (uncorrected) sources of a group that is not SUCCESS"""
    st = rec['status']
    for g, nrows in zip(expanded_groups(rec), rec['obs'].expansions):
        if nrows and not all(st[k] == 'SUCCESS' for k in g):
            return True
    return False


def expanded_groups(rec):
    """groups whose unmatched sources were appended, in order (from the 'cat_name' of the rows)"""
    out = []
    rows = rec['rows'] or []
    init = initial_length(rec)
    pos = init
    name2group = {}
    gids = [g for _, _, g in rec['spec']['images']]
    for g in expected_groups(gids):
        for k in g:
            name2group[k] = g
    aligned = list(rec['aligned'])
    # expansions happen in alignment order: attribute every expand_catalog call to the group
    # aligned at that moment by walking the appended rows
    for nrows in rec['obs'].expansions:
        chunk = rows[pos:pos + nrows]
        pos += nrows
        origins = sorted(set(r[2] for r in chunk if isinstance(r[2], int)))
        out.append(name2group.get(origins[0], origins) if origins else [])
    return out


def initial_length(rec):
    spec = rec['spec']
    if spec.get('ref') is not None:
        return len(rec['ref_ids'])
    st = rec['status']
    return sum(len(rec['srcs'][k]) for k in range(len(st)) if st[k] == 'REFERENCE')
