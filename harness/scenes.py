"""
Builders of real corrector objects from the repository's own types (astropy.wcs.WCS with CD / PC /
SIP, mock JWST gWCS pipelines exactly as the repo's helper_correctors.make_mock_jwst_wcs builds
them), small affine utilities, and harness-side linearisation of plane maps.
All random choices come from the `rng` (random.Random) that is passed in.
"""
import logging
import math
import os

import numpy as np

logging.disable(logging.CRITICAL)

from astropy import wcs as fitswcs  # noqa: E402
from astropy.io import fits  # noqa: E402

DATA = '/repo/tweakwcs/tests/data'


class Aff:
    """python-side affine map (numpy), `(f @ g)(x) = f(g(x))`"""

    def __init__(self, M=None, t=None):
        self.M = np.eye(2) if M is None else np.array(M, dtype=float)
        self.t = np.zeros(2) if t is None else np.array(t, dtype=float)

    def __call__(self, xy):
        xy = np.asarray(xy, dtype=float)
        return self.M @ xy + (self.t[:, None] if xy.ndim == 2 else self.t)

    def __matmul__(self, o):
        return Aff(self.M @ o.M, self.M @ o.t + self.t)

    def inv(self):
        Mi = np.linalg.inv(self.M)
        return Aff(Mi, -Mi @ self.t)

    def flat(self):
        return [self.M[0, 0], self.M[0, 1], self.M[1, 0], self.M[1, 1], self.t[0], self.t[1]]


def rot_matrix(deg):
    a = math.radians(deg)
    return np.array([[math.cos(a), -math.sin(a)], [math.sin(a), math.cos(a)]])


def rand_affine(rng, kind='general', max_rot=30.0, max_dscale=0.2, max_shift=300.0):
    """invertible 2x2 near identity up to tens of degrees / tens of percent, shift up to max_shift"""
    rot = rng.uniform(-max_rot, max_rot)
    s = 1.0 + rng.uniform(-max_dscale, max_dscale)
    sh = np.array([rng.uniform(-max_shift, max_shift), rng.uniform(-max_shift, max_shift)])
    if kind == 'shift':
        M = np.eye(2)
    elif kind == 'rshift':
        M = rot_matrix(rot)
    elif kind == 'rscale':
        M = s * rot_matrix(rot)
        if rng.random() < 0.2:
            M = M @ np.diag([1.0, -1.0])
    else:
        s2 = 1.0 + rng.uniform(-max_dscale, max_dscale)
        skew = rng.uniform(-5, 5)
        M = rot_matrix(rot) @ np.array([[s, math.tan(math.radians(skew))], [0.0, s2]])
    return Aff(M, sh)


def linearize(f, x0, h):
    """numerical affine approximation of a plane map f(x, y) -> (x', y') at x0 (central differences)"""
    x0 = np.asarray(x0, dtype=float)
    px = np.array([x0[0] + h, x0[0] - h, x0[0], x0[0], x0[0]])
    py = np.array([x0[1], x0[1], x0[1] + h, x0[1] - h, x0[1]])
    y = np.array(f(px, py), dtype=float)
    J = np.array([(y[:, 0] - y[:, 1]) / (2 * h), (y[:, 2] - y[:, 3]) / (2 * h)]).T
    return Aff(J, y[:, 4] - J @ x0)


def rand_pointing(rng):
    """pointing incl. RA wrap and high declination"""
    k = rng.random()
    if k < 0.25:
        ra = rng.choice([0.0005, 359.9995, 0.0, 359.99, 0.02])
    else:
        ra = rng.uniform(0, 360)
    k = rng.random()
    if k < 0.25:
        dec = rng.choice([-85.0, 85.0, 80.0, -75.0])
    else:
        dec = rng.uniform(-70, 70)
    return ra, dec


def build_matrix(rot_x, rot_y, sx, sy):
    from tweakwcs.linearfit import build_fit_matrix
    return build_fit_matrix((rot_x, rot_y), (sx, sy))


def mk_fits(rng, kind=None, pointing=None, scale=None, rot=None, crpix=None, shape=None):
    """FITSWCSCorrector on a TAN WCS in CD or PC form, or the HST SIP header of the test data"""
    from tweakwcs.correctors import FITSWCSCorrector
    kind = kind or rng.choice(['cd', 'pc', 'sip', 'siplin', 'lut'])
    ra, dec = pointing or rand_pointing(rng)
    siplin = kind == 'siplin'
    lut = kind == 'lut'
    if siplin:
        kind = 'cd'
    if lut:
        kind = rng.choice(['cd', 'pc'])
    if kind == 'sip':
        hdr = fits.Header.fromfile(os.path.join(DATA, rng.choice(['wfc3_uvis1.hdr', 'wfc3_uvis2.hdr'])))
        w = fitswcs.WCS(hdr)
        w.wcs.crval = [ra, dec]
        w.wcs.set()
        info = {'kind': 'sip', 'crval': [ra, dec]}
        global LAST_FITS_INPUT
        LAST_FITS_INPUT = (w, w.deepcopy())
        return FITSWCSCorrector(w), info
    scale = scale or 10 ** rng.uniform(-5.2, -4.0)     # deg / pixel: 0.023" .. 0.36"
    r = rot if rot is not None else rng.uniform(0, 360)
    skew = rng.uniform(-3, 3)
    nx, ny = shape or (rng.choice([512, 1024, 2048]), rng.choice([512, 1024, 2048]))
    cp = crpix or [rng.uniform(0.3 * nx, 0.7 * nx), rng.uniform(0.3 * ny, 0.7 * ny)]
    w = fitswcs.WCS(naxis=2)
    par = -1.0 if rng.random() < 0.7 else 1.0     # usual sky parity: RA increases to the left
    m = build_matrix(r, r + skew, 1.0, 1.0) @ np.diag([par, 1.0])
    if kind == 'cd':
        w.wcs.cd = scale * m
    else:
        # PC + CDELT form with CDELT1 != CDELT2 (sign convention and anisotropy carried by CDELT)
        k = rng.choice([1.0, 1.0, 0.5, 2.0, 1.01])
        w.wcs.pc = build_matrix(r, r + skew, 1.0, 1.0)
        w.wcs.cdelt = [par * scale * k, scale / k]
    w.wcs.crval = [ra, dec]
    w.wcs.crpix = cp
    w.wcs.ctype = ['RA---TAN', 'DEC--TAN']
    w.pixel_shape = [nx, ny]
    if rng.random() < 0.5:
        w.pixel_bounds = ((-0.5, nx - 0.5), (-0.5, ny - 0.5))
    if siplin:
        # SIP distortion whose value does NOT vanish at CRPIX (constant and linear terms, as lookup-table
        # distortions of real instruments do) plus small quadratic terms
        a = np.zeros((3, 3))
        b = np.zeros((3, 3))
        a[0, 0] = rng.uniform(-0.6, 0.6)
        b[0, 0] = rng.uniform(-0.6, 0.6)
        a[1, 0], a[0, 1] = rng.uniform(-2e-4, 2e-4), rng.uniform(-2e-4, 2e-4)
        b[1, 0], b[0, 1] = rng.uniform(-2e-4, 2e-4), rng.uniform(-2e-4, 2e-4)
        for (i, j) in ((2, 0), (1, 1), (0, 2)):
            a[i, j] = rng.uniform(-2e-7, 2e-7)
            b[i, j] = rng.uniform(-2e-7, 2e-7)
        w.wcs.ctype = ['RA---TAN-SIP', 'DEC--TAN-SIP']
        w.sip = fitswcs.Sip(a, b, None, None, w.wcs.crpix)
        kind = 'siplin'
    if lut:
        # look-up-table distortions (CPDIS, sometimes DET2IM as well) and NO SIP: the ACS/WFPC2 kind of
        # FITS WCS.  Smooth tables (bilinear interpolation stays invertible), not zero at CRPIX.
        def table(amp):
            gy, gx = np.mgrid[0:9, 0:9] / 8.0
            ph = rng.uniform(0, 6.28)
            t = amp * (rng.uniform(0.3, 1.0) + 0.5 * np.sin(2.2 * gx + ph) * np.cos(1.7 * gy - ph) + 0.3 * gx * gy)
            return fitswcs.DistortionLookupTable(t.astype(np.float32), (1.0, 1.0), (1.0, 1.0),
                                                 ((nx - 1) / 8.0, (ny - 1) / 8.0))
        # which tables exist varies: CPDIS, CPDIS and DET2IM, DET2IM only (astropy cannot write a header with a CPDIS
        # table on one axis only, and astropy's all_world2pix does not invert a DET2IM table that
        # exists on one axis only when there is no other distortion (round trip off by the table value): those two
        # layouts are not generated)
        layout = rng.choice(['cpdis', 'cpdis', 'cpdis+det2im', 'cpdis+det2im1', 'det2im', 'det2im'])
        if layout.startswith('cpdis'):
            w.cpdis1 = table(rng.uniform(-0.6, 0.6))
            if layout != 'cpdis1':
                w.cpdis2 = table(rng.uniform(-0.6, 0.6))
        if 'det2im' in layout:
            amp = 0.2 if layout.startswith('cpdis') else 0.6
            if not layout.endswith('det2im2'):
                w.det2im1 = table(rng.uniform(-amp, amp))
            if not layout.endswith('det2im1'):
                w.det2im2 = table(rng.uniform(-amp, amp))
        kind = 'lut'
    w.wcs.set()
    info = {'kind': kind, 'crval': [ra, dec], 'scale': scale, 'rot': r, 'crpix': list(cp), 'shape': [nx, ny]}
    if lut:
        info['lut'] = layout
    # side channel for the checks that look at the construction itself (C18, C19): the WCS object handed to the
    # corrector and a deep copy taken before the corrector saw it
    LAST_FITS_INPUT = (w, w.deepcopy())
    return FITSWCSCorrector(w), info


LAST_FITS_INPUT = None
_QD = {}


def quad_distortion(k, c):
    """separable quadratic detector distortion x' = x + k (x - c)^2 with its exact inverse (astropy models,
    defined on first use): the local scale of the mock gWCS then varies over the detector (~2 % per 1000
    pixels), as it does for every real instrument"""
    if not _QD:
        from astropy.modeling import Model, Parameter

        class QuadDist(Model):
            n_inputs = 2
            n_outputs = 2
            _separable = True
            k = Parameter(default=0.0)
            c = Parameter(default=0.0)

            @staticmethod
            def evaluate(x, y, k, c):
                u = x - c
                v = y - c
                return x + k * u * u, y + k * v * v

            @property
            def inverse(self):
                return _QD['inv'](k=self.k.value, c=self.c.value)

        class QuadDistInv(Model):
            n_inputs = 2
            n_outputs = 2
            _separable = True
            k = Parameter(default=0.0)
            c = Parameter(default=0.0)

            @staticmethod
            def evaluate(x, y, k, c):
                u = (-1.0 + np.sqrt(1.0 + 4.0 * k * (x - c))) / (2.0 * k)
                v = (-1.0 + np.sqrt(1.0 + 4.0 * k * (y - c))) / (2.0 * k)
                return u + c, v + c

            @property
            def inverse(self):
                return _QD['fwd'](k=self.k.value, c=self.c.value)

        _QD['fwd'] = QuadDist
        _QD['inv'] = QuadDistInv
    return _QD['fwd'](k=k, c=c)


def mk_jwst(rng, vacorr=None, pointing=None):
    """JWSTWCSCorrector on a mock gWCS pipeline built as the repo's test helper builds it"""
    from tweakwcs.tests.helper_correctors import make_mock_jwst_wcs
    from tweakwcs.correctors import JWSTWCSCorrector
    ra, dec = pointing or rand_pointing(rng)
    v2 = rng.uniform(-400, 400)
    v3 = rng.uniform(-700, -200) if rng.random() < 0.5 else rng.uniform(100, 600)
    roll = rng.uniform(0, 360)
    scale_as = 10 ** rng.uniform(-1.5, -0.5)          # arcsec / pixel: 0.03" .. 0.3"
    scale = np.deg2rad(scale_as / 3600.0)             # the mock pipeline's CD is in radians / pixel
    r = rng.uniform(0, 360)
    cd = build_matrix(r, r + rng.uniform(-2, 2), scale, scale)
    vacorr = (rng.random() < 0.5) if vacorr is None else vacorr
    vak = 1.0
    nonid_va = vacorr and rng.random() < 0.6
    distk = rng.choice([-1, 1]) * rng.uniform(3e-6, 1.2e-5) if rng.random() < 0.5 else 0.0
    if nonid_va or distk:
        import gwcs
        from astropy.modeling.models import Scale
        from tweakwcs.tests.helper_correctors import make_mock_jwst_pipeline
        pipeline = make_mock_jwst_pipeline(v2ref=v2, v3ref=v3, roll=roll, crpix=[512.0, 512.0], cd=cd,
                                           crval=[ra, dec], enable_vacorr=vacorr)
        if nonid_va:
            # a velocity-aberration step that is NOT the identity (the repo's mock uses Identity(2))
            vak = 1.0 + rng.choice([-1, 1]) * rng.uniform(2e-5, 3e-4)
            frm, _tr = pipeline[1]
            va = Scale(vak) & Scale(vak)
            va.name = 'mock_velocity_aberration'
            pipeline[1] = (frm, va)
        if distk:
            # a detector distortion: the local scale depends on the detector position
            frm0, det2v23 = pipeline[0]
            pipeline[0] = (frm0, quad_distortion(distk, 512.0) | det2v23)
        w = gwcs.wcs.WCS(pipeline)
        w.bounding_box = ((-0.5, 1024 - 0.5), (-0.5, 2048 - 0.5))
        w.array_shape = (2048, 1024)
    else:
        w = make_mock_jwst_wcs(v2ref=v2, v3ref=v3, roll=roll, crpix=[512.0, 512.0], cd=cd,
                               crval=[ra, dec], enable_vacorr=vacorr)
    info = {'kind': 'jwst', 'crval': [ra, dec], 'v2': v2, 'v3': v3, 'roll': roll, 'scale_arcsec': scale_as,
            'vacorr': vacorr, 'va_scale': vak, 'distortion_k': distk}
    wi = {'v2_ref': v2, 'v3_ref': v3, 'roll_ref': roll}
    return JWSTWCSCorrector(w, wi), info


def rewrap(corr):
    """a new corrector built from the (possibly corrected) WCS of `corr`"""
    from tweakwcs.correctors import JWSTWCSCorrector, FITSWCSCorrector
    if isinstance(corr, JWSTWCSCorrector):
        return JWSTWCSCorrector(corr.wcs, corr.ref_angles, meta=dict(corr.meta))
    return FITSWCSCorrector(corr.wcs, meta=dict(corr.meta))


def is_jwst(corr):
    from tweakwcs.correctors import JWSTWCSCorrector
    return isinstance(corr, JWSTWCSCorrector)


def image_size(corr):
    if is_jwst(corr):
        return 1024, 2048
    nx, ny = corr.wcs.pixel_shape
    return nx, ny


def probe_pixels(rng, corr, n=12):
    nx, ny = image_size(corr)
    px = np.array([rng.uniform(0, nx - 1) for _ in range(n)])
    py = np.array([rng.uniform(0, ny - 1) for _ in range(n)])
    return px, py


def fits_steps(corr):
    """hx, hy of FITSWCSCorrector.set_correction (harness-side copy of the two lines)"""
    w = corr.wcs
    naxis1, naxis2 = w.pixel_shape
    hx = max(1.0, min(10, (w.wcs.crpix[0] - 1.0) / 100.0, (naxis1 - w.wcs.crpix[0]) / 100.0))
    hy = max(1.0, min(10, (w.wcs.crpix[1] - 1.0) / 100.0, (naxis2 - w.wcs.crpix[1]) / 100.0))
    return hx, hy
