import Mathlib.Tactic.Ring
import Mathlib.Tactic.Linarith
import Mathlib.Tactic.Positivity
import Mathlib.Algebra.BigOperators.Group.List.Basic
import Mathlib.Algebra.Order.BigOperators.Group.List
import Mathlib.Data.Real.Basic

/-- weighted sum of squared residuals of a scalar linear model y ≈ a*u + b*v + c over a list of rows (w,u,v,y) -/
def S (rows : List (ℝ × ℝ × ℝ × ℝ)) (a b c : ℝ) : ℝ :=
  (rows.map fun r => r.1 * (r.2.2.2 - (a * r.2.1 + b * r.2.2.1 + c))^2).sum

/-- "gradient" components -/
def G (rows : List (ℝ × ℝ × ℝ × ℝ)) (a b c : ℝ) : ℝ × ℝ × ℝ :=
  ((rows.map fun r => r.1 * (r.2.2.2 - (a * r.2.1 + b * r.2.2.1 + c)) * r.2.1).sum,
   (rows.map fun r => r.1 * (r.2.2.2 - (a * r.2.1 + b * r.2.2.1 + c)) * r.2.2.1).sum,
   (rows.map fun r => r.1 * (r.2.2.2 - (a * r.2.1 + b * r.2.2.1 + c))).sum)

theorem S_expand (rows : List (ℝ × ℝ × ℝ × ℝ)) (a b c a' b' c' : ℝ) :
    S rows a' b' c' = S rows a b c
      - 2 * ((a'-a) * (G rows a b c).1 + (b'-b) * (G rows a b c).2.1 + (c'-c) * (G rows a b c).2.2)
      + (rows.map fun r => r.1 * ((a'-a) * r.2.1 + (b'-b) * r.2.2.1 + (c'-c))^2).sum := by
  induction rows with
  | nil => simp [S, G]
  | cons r rs ih =>
    simp only [S, G, List.map_cons, List.sum_cons] at ih ⊢
    rw [ih]; ring

theorem ls_optimal (rows : List (ℝ × ℝ × ℝ × ℝ)) (hw : ∀ r ∈ rows, 0 ≤ r.1) (a b c : ℝ)
    (hG : G rows a b c = (0,0,0)) (a' b' c' : ℝ) : S rows a b c ≤ S rows a' b' c' := by
  rw [S_expand rows a b c a' b' c', hG]
  have : 0 ≤ (rows.map fun r => r.1 * ((a'-a) * r.2.1 + (b'-b) * r.2.2.1 + (c'-c))^2).sum := by
    apply List.sum_nonneg
    intro x hx
    simp only [List.mem_map] at hx
    obtain ⟨r, hr, rfl⟩ := hx
    exact mul_nonneg (hw r hr) (sq_nonneg _)
  simp only [mul_zero, add_zero, sub_zero]
  linarith
#print axioms ls_optimal
