import Mathlib.Analysis.SpecialFunctions.Complex.Arg
import Mathlib.Analysis.Real.Sqrt
import Mathlib.Tactic.Ring
import Mathlib.Tactic.Linarith
import Mathlib.Tactic.FieldSimp

noncomputable def atan2 (y x : ℝ) : ℝ := Complex.arg ⟨x, y⟩

theorem norm_mk (x y : ℝ) : ‖(⟨x, y⟩ : ℂ)‖ = Real.sqrt (x*x + y*y) := by
  rw [Complex.norm_eq_sqrt_sq_add_sq]
  congr 1; ring

theorem hyp_cos (x y : ℝ) (h : x ≠ 0 ∨ y ≠ 0) :
    Real.sqrt (x*x + y*y) * Real.cos (atan2 y x) = x := by
  have hz : (⟨x, y⟩ : ℂ) ≠ 0 := by
    intro hc
    have h1 := congrArg Complex.re hc
    have h2 := congrArg Complex.im hc
    simp at h1 h2
    rcases h with h | h <;> contradiction
  unfold atan2
  rw [Complex.cos_arg hz, norm_mk]
  have hpos : 0 < Real.sqrt (x*x+y*y) := by
    rw [← norm_mk]; exact norm_pos_iff.mpr hz
  rw [mul_comm, div_mul_cancel₀ _ (ne_of_gt hpos)]

theorem hyp_sin (x y : ℝ) (h : x ≠ 0 ∨ y ≠ 0) :
    Real.sqrt (x*x + y*y) * Real.sin (atan2 y x) = y := by
  have hz : (⟨x, y⟩ : ℂ) ≠ 0 := by
    intro hc
    have h1 := congrArg Complex.re hc
    have h2 := congrArg Complex.im hc
    simp at h1 h2
    rcases h with h | h <;> contradiction
  unfold atan2
  rw [Complex.sin_arg, norm_mk]
  have hpos : 0 < Real.sqrt (x*x+y*y) := by
    rw [← norm_mk]; exact norm_pos_iff.mpr hz
  rw [mul_comm, div_mul_cancel₀ _ (ne_of_gt hpos)]

theorem atan2_range (y x : ℝ) : -Real.pi < atan2 y x ∧ atan2 y x ≤ Real.pi :=
  ⟨Complex.neg_pi_lt_arg _, Complex.arg_le_pi _⟩
#print axioms hyp_sin
