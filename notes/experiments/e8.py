import numpy as np, logging, copy, traceback
logging.disable(logging.CRITICAL)
from astropy import wcs as fitswcs
from astropy.table import Table
from tweakwcs import align_wcs, FITSWCSCorrector, XYXYMatch
from tweakwcs.imalign import NotEnoughCatalogs
from tweakwcs.linearfit import build_fit_matrix
def mkwcs(crval=(82.0,12.0), rot=10.0, scale=1e-5, crpix=(512,512), shape=(1024,1024)):
    w = fitswcs.WCS(naxis=2)
    w.wcs.cd = build_fit_matrix(rot, scale)
    w.wcs.crval = crval; w.wcs.crpix = crpix
    w.wcs.ctype = ['RA---TAN','DEC--TAN']
    w.pixel_shape = shape
    w.wcs.set(); return w
rng = np.random.default_rng(3)
g = np.array([(i,j) for i in range(40,1000,60) for j in range(40,1000,60)],float)+rng.uniform(-10,10,(256,2))
def image(kind, gid=None, dx=0, dy=0):
    w = mkwcs(); w.wcs.crval = w.wcs.crval + np.array([dx,dy])*1e-5; w.wcs.set()
    if kind=='good': xy=g.copy()
    elif kind=='junk': xy=rng.uniform(0,1024,(3,2))+5000
    else: xy=np.zeros((0,2))
    meta={'catalog': Table(xy, names=('x','y'))}
    if gid is not None: meta['group_id']=gid
    return FITSWCSCorrector(w, meta=meta)
def run(kinds, gids, ref=None, **kw):
    ims=[image(k,g_,dx=i) for i,(k,g_) in enumerate(zip(kinds,gids))]
    before=[np.array(i.det_to_world(g[:,0],g[:,1])) for i in ims]
    try:
        out=align_wcs(ims, refcat=ref, match=XYXYMatch(searchrad=5,separation=0.1,tolerance=1.5), fitgeom='rscale', **kw)
        res='ok'
    except Exception as e:
        res=type(e).__name__+': '+str(e)[:60]
    st=[i.meta.get('fit_info',{}).get('status') for i in ims]
    ch=[bool(np.abs(np.array(i.det_to_world(g[:,0],g[:,1]))-b).max()>0) for i,b in zip(ims,before)]
    print(kinds,gids,'->',res,st,'changed',ch)
run(['good','empty'],[None,None])
run(['empty','good'],[None,None])
run(['good','empty','good'],[None,None,None])
run(['good','empty','good'],[None,None,None], expand_refcat=True, enforce_user_order=False)
run(['good','junk','good'],[None,None,None])
run(['good','junk','good'],[1,1,2])
run(['good','empty','good'],[1,1,2])
run(['empty','empty','good'],[1,1,2])
run(['good','good'],[1,1])
