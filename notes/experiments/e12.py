import numpy as np, logging, sys, copy
logging.disable(logging.CRITICAL)
from astropy import wcs as fitswcs
from astropy.io import fits
from tweakwcs.linearfit import build_fit_matrix
from tweakwcs.correctors import FITSWCSCorrector
hdr = fits.Header.fromfile('/repo/tweakwcs/tests/data/wfc3_uvis1.hdr')
def cdwcs():
    w = fitswcs.WCS(naxis=2); w.wcs.cd = build_fit_matrix((36,47),1e-5); w.wcs.crval=(82.,12.); w.wcs.crpix=[512,512]
    w.wcs.ctype=['RA---TAN','DEC--TAN']; w.pixel_shape=[1024,2048]; w.wcs.set(); return w
def pcwcs():
    w = fitswcs.WCS(naxis=2); cd=build_fit_matrix((36,47),1e-5); cdelt=np.array([2e-5,0.5e-5])
    w.wcs.pc = cd/cdelt[:,None]; w.wcs.cdelt=cdelt; w.wcs.crval=(82.,12.); w.wcs.crpix=[512,512]
    w.wcs.ctype=['RA---TAN','DEC--TAN']; w.pixel_shape=[1024,2048]; w.wcs.set(); return w
a=cdwcs(); b=pcwcs()
x=np.array([0.,1000.,500.,10.]); y=np.array([0.,2000.,100.,1900.])
print('cd vs pc before', np.abs(np.array(a.all_pix2world(x,y,0))-np.array(b.all_pix2world(x,y,0))).max())
ca=FITSWCSCorrector(a); cb=FITSWCSCorrector(b)
M=build_fit_matrix((0.3,0.2),(1.001,0.999)); s=[3.,-2.]
ca.set_correction(M,s); cb.set_correction(M,s)
print('cd vs pc after', np.abs(np.array(ca.det_to_world(x,y))-np.array(cb.det_to_world(x,y))).max())
print('pc: has_cd',cb.wcs.wcs.has_cd(),'has_pc',cb.wcs.wcs.has_pc(),'cdelt',cb.wcs.wcs.cdelt, 'crpix', cb.wcs.wcs.crpix)
print('cd: has_cd',ca.wcs.wcs.has_cd(),'has_pc',ca.wcs.wcs.has_pc(), hasattr(ca.wcs.wcs,'pc'))
# header round trip
h=cb.wcs.to_header(); w2=fitswcs.WCS(h)
print('roundtrip pc', np.abs(np.array(w2.all_pix2world(x,y,0))-np.array(cb.det_to_world(x,y))).max())
h=ca.wcs.to_header(); w2=fitswcs.WCS(h)
print('roundtrip cd', np.abs(np.array(w2.all_pix2world(x,y,0))-np.array(ca.det_to_world(x,y))).max())
# SIP preserved
w=fitswcs.WCS(hdr); c=FITSWCSCorrector(w); sa=w.sip.a.copy(); c.set_correction(M,s)
print('sip same', np.array_equal(c.wcs.sip.a, sa), np.array_equal(c.wcs.sip.b, w.sip.b), c.wcs.wcs.crpix, w.wcs.crpix, c.wcs.pixel_shape, c.wcs.wcs.ctype)
print('orig untouched', np.array_equal(w.wcs.crval, c.original_wcs.wcs.crval), c.original_wcs is w)
h=c.wcs.to_header(relax=True); w2=fitswcs.WCS(h)
xx=x*2; yy=y
print('roundtrip sip', np.abs(np.array(w2.all_pix2world(xx,yy,0))-np.array(c.det_to_world(xx,yy))).max())
# non-celestial
w=fitswcs.WCS(naxis=2); w.wcs.ctype=['FREQ','STOKES']; w.pixel_shape=[10,10]
try: FITSWCSCorrector(w)
except Exception as e: print(type(e).__name__, e)
try: FITSWCSCorrector(None)
except Exception as e: print(type(e).__name__, e)
