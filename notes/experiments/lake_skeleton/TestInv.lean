import Model.LinAlg
open TW
def toMat (l : List (List Rat)) : Mat 3 Rat := Mat.ofFn fun i j => (l.getD i.val []).getD j.val 0
def showM (m : Mat 3 Rat) : List (List Rat) := (List.finRange 3).map fun i => (List.finRange 3).map fun j => m.get i j
#eval match invSq (K := Rat) (1/1000000) (toMat [[0,2,1],[1,0,3],[4,1,0]]) with
  | .ok x => repr (showM x) | .error e => repr e
#eval match invSq (K := Rat) (1/1000000) (toMat [[1,2,3],[2,4,6],[4,1,0]]) with
  | .ok x => repr (showM x) | .error e => repr e
def big : Mat 8 Rat := Mat.ofFn fun i j => if (i.val + 3) % 8 = j.val then (i.val + 2 : Nat) else if i.val = j.val + 1 then 1 else 0
#eval match invSq (K := Rat) (1/1000000) big with
  | .ok x => repr ((List.finRange 8).map fun j => (matMul x big).get 0 j) | .error e => repr e
