import Model.Basic
open TW
instance : NatCast Float := ⟨Float.ofNat⟩
def parseRat (s : String) : Option Rat :=
  match s.splitOn "/" with
  | [a, b] => do
      let n ← a.toInt?
      let d ← b.toNat?
      pure (mkRat n d)
  | [a] => do let n ← a.toInt?; pure (n : Rat)
  | _ => none
def ratToFloat (q : Rat) : Float := Float.ofInt q.num / Float.ofNat q.den
partial def loop (h : IO.FS.Stream) : IO Unit := do
  let line ← h.getLine
  if line.isEmpty then return ()
  match (line.trimAscii.toString.splitOn " ") with
  | ["hyp", a, b] =>
    match parseRat a, parseRat b with
    | some x, some y => IO.println s!"ok {hyp (ratToFloat x) (ratToFloat y)} {half (x + y)}"
    | _, _ => IO.println "bad-op"
  | _ => IO.println "bad-op"
  loop h
def main : IO Unit := do loop (← IO.getStdin)
