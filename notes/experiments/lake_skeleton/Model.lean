import Model.Basic
import Model.LinAlg
