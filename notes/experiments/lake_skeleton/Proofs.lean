import Proofs.Basic
import Proofs.InvCorrect
import Proofs.HullMain
