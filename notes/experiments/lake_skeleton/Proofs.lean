import Proofs.Basic
