import Model.Fit
open TW
def obs1 : List (Obs Rat) := [⟨3,-2,0,0⟩, ⟨4,-3,1,0⟩, ⟨4,-1,0,1⟩, ⟨5,-2,1,1⟩, ⟨6,-3,2,1⟩]
def showLin (l : Lin Rat) : List Rat := [l.m00, l.m01, l.m10, l.m11, l.sx, l.sy]
#eval match fitGeneral (K := Rat) (1/1000000000) obs1 none none with | .ok l => repr (showLin l) | .error e => repr e
#eval match fitGeneral (K := Rat) (1/1000000000) obs1 (some [1,2,3,4,5]) (some [2,2,0,2,2]) with | .ok l => repr (showLin l) | .error e => repr e
#eval match fitShifts (K := Rat) obs1 (some [1,2,3,4,5]) none with | .ok l => repr (showLin l) | .error e => repr e
