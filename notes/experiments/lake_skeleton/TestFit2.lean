import Model.Fit
open TW
instance : NatCast Float := ⟨Float.ofNat⟩
def obsF : List (Obs Float) := [⟨0.7071067811865476,-0.7071067811865476,1,0⟩, ⟨0.7071067811865476,0.7071067811865476,0,1⟩, ⟨-0.7071067811865476,0.7071067811865476,-1,0⟩, ⟨-0.7071067811865476,-0.7071067811865476,0,-1⟩]
def showLinF (l : Lin Float) : List Float := [l.m00, l.m01, l.m10, l.m11, l.sx, l.sy]
#eval match fitRscale obsF none none (some 1.0) with | .ok l => repr (showLinF l) | .error e => repr e
#eval match fitRscale obsF none none none with | .ok l => repr (showLinF l) | .error e => repr e
-- two collinear points rotated by 30 degrees, scale 1.5, shift (3,-2)
def obs2 : List (Obs Float) := [⟨3,-2,0,0⟩, ⟨3+1.299038105676658,-2-0.75,1,0⟩]
#eval match fitRscale obs2 none none none with | .ok l => repr (showLinF l) | .error e => repr e
