namespace TW
class HasSqrt (K : Type) where
  sqrt : K → K
instance : HasSqrt Float := ⟨Float.sqrt⟩

/-- matrices are *data* (vectors of rows), never closures: a closure-valued state makes the
compiled/interpreted evaluation exponential in the number of elimination steps -/
abbrev Mat (n : Nat) (K : Type) := Vector (Vector K n) n

def Mat.get {n : Nat} {K : Type} (m : Mat n K) (i j : Fin n) : K := (m[i])[j]

def Mat.ofFn {n : Nat} {K : Type} (f : Fin n → Fin n → K) : Mat n K :=
  Vector.ofFn fun i => Vector.ofFn fun j => f i j

@[simp] theorem Mat.get_ofFn {n : Nat} {K : Type} (f : Fin n → Fin n → K) (i j : Fin n) :
    (Mat.ofFn f).get i j = f i j := by
  simp [Mat.get, Mat.ofFn]

variable {K : Type} [Add K] [Sub K] [Mul K] [Div K] [Neg K] [LT K] [DecidableLT K] [NatCast K] [HasSqrt K]

def hyp (a b : K) : K := HasSqrt.sqrt (a*a + b*b)
def half (a : K) : K := a / ((2:Nat) : K)
end TW
