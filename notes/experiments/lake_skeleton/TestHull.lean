import Model.Hull
open TW
#eval hullCore (K := Rat) [(0,0),(1,0),(1,1),(2,0)]
#eval hullCore (K := Rat) [(0,0),(0,10),(3,5),(6,1),(7,8),(10,0),(10,10)]
#eval hullCore (K := Rat) [(0,0),(1,1),(2,2)]
