import Proofs.InvCorrect
#print axioms TW.invSq_correct
#check @TW.invSq_correct
