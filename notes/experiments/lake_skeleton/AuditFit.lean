import Proofs.FitGeneral
#print axioms TW.fitGeneral_optimal
