import Proofs.HullMain
#print axioms TW.chain_inv
#print axioms TW.upper_contains
#print axioms TW.upper_subset
#print axioms TW.chain_contains
