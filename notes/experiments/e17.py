import numpy as np, logging, sys, copy, os
logging.disable(logging.CRITICAL)
sys.path.insert(0,os.environ.get('TWEAKWCS_TREE', '/repo'))
from astropy import wcs as fitswcs
from astropy.table import Table
from astropy.coordinates import angular_separation
from tweakwcs.tests.helper_correctors import make_mock_jwst_wcs
from tweakwcs.linearfit import build_fit_matrix
from tweakwcs.correctors import JWSTWCSCorrector, FITSWCSCorrector
from tweakwcs import align_wcs
def mkfits(crval=(82.,12.), rot=(36,47), crpix=(512,512), scale=1e-5):
    w = fitswcs.WCS(naxis=2); w.wcs.cd = build_fit_matrix(rot,scale); w.wcs.crval=crval; w.wcs.crpix=crpix
    w.wcs.ctype=['RA---TAN','DEC--TAN']; w.pixel_shape=[1024,2048]; w.wcs.set(); return FITSWCSCorrector(w)
def mkjwst(crval=(82.,12.), v2=123.0, v3=500.0, roll=115.0, crpix=(512.,512.)):
    cd = build_fit_matrix((36, 47), 1e-5/57.3*2)  # ~0.07"/pix
    w = make_mock_jwst_wcs(v2ref=v2, v3ref=v3, roll=roll, crpix=list(crpix), cd=cd, crval=list(crval))
    return JWSTWCSCorrector(w, {'v2_ref':v2,'v3_ref':v3,'roll_ref':roll})
rng=np.random.default_rng(0)
def sep(r1,d1,r2,d2): return np.rad2deg(angular_separation(*np.deg2rad([r1,d1,r2,d2])))*3600
def scene(kind):
    if kind=='fits':
        mem=[mkfits(), mkfits(crval=(82.02,12.01),rot=(10,12),scale=1.3e-5), mkfits(crval=(81.99,12.02),rot=(200,203))]
        refs={'member0':None,'nonmember':mkfits(crval=(82.05,11.97),rot=(77,77),scale=2e-5)}
    else:
        mem=[mkjwst(), mkjwst(v2=160.0,v3=480.0,crpix=(100.,900.)), mkjwst(v2=90.0,v3=530.0,crpix=(800.,300.))]
        refs={'member0':None,'nonmember':mkjwst(crval=(82.01,11.99),v2=0.0,v3=0.0,roll=30.0), 'fitsplane':mkfits(crval=(82.0,12.0),rot=(5,5),scale=2e-5)}
    return mem,refs
for kind in ('fits','jwst'):
    for refname in (['member0','nonmember'] if kind=='fits' else ['member0','nonmember','fitsplane']):
        mem,refs=scene(kind)
        # true sky error: an affine in the tangent plane of an arbitrary "truth" plane: member0's plane
        truth=mem[0].copy()
        M=build_fit_matrix(0.02,1.0002); 
        s=np.array([0.3,-0.2]) * (1.0 if kind=='fits' else truth.tanp_center_pixel_scale)*3
        cats=[]; truesky=[]
        for c in mem:
            x=rng.uniform(0,1024,40); y=rng.uniform(0,2048,40)
            ra,dec=c.det_to_world(x,y)
            t=np.array(truth.world_to_tanp(ra,dec)); t2=M@t+s[:,None]
            r2,d2=truth.tanp_to_world(t2[0],t2[1])
            truesky.append((r2,d2,x,y))
            c.meta['catalog']=Table([x,y],names=('x','y')); c.meta['group_id']=7
        refcat=Table([np.concatenate([t[0] for t in truesky]),np.concatenate([t[1] for t in truesky])],names=('RA','DEC'))
        align_wcs(mem, refcat=refcat, ref_tpwcs=refs[refname], match=None, fitgeom='general', nclip=0)
        errs=[sep(*c.det_to_world(t[2],t[3]),t[0],t[1]).max() for c,t in zip(mem,truesky)]
        print(kind,refname,[c.meta['fit_info']['status'] for c in mem],'max err arcsec per member',['%.2e'%e for e in errs],'rmse',mem[0].meta['fit_info']['rmse'])
