import numpy as np, logging, sys, copy
logging.disable(logging.CRITICAL)
import os; sys.path.insert(0, os.environ.get("TWEAKWCS_TREE", "/repo"))
from astropy import wcs as fitswcs
from astropy.io import fits
from astropy.table import Table
from tweakwcs.tests.helper_correctors import make_mock_jwst_wcs
from tweakwcs.linearfit import build_fit_matrix
from tweakwcs.correctors import JWSTWCSCorrector, FITSWCSCorrector
from tweakwcs import fit_wcs
hdr = fits.Header.fromfile('/repo/tweakwcs/tests/data/wfc3_uvis1.hdr')
def mkfits(sip=True, crval=(82.,12.)):
    if sip:
        w=fitswcs.WCS(hdr); w.wcs.crval=crval; w.wcs.set(); return FITSWCSCorrector(w), (4096,2051)
    w = fitswcs.WCS(naxis=2); w.wcs.cd = build_fit_matrix((36,47),1e-5); w.wcs.crval=crval; w.wcs.crpix=[512,512]
    w.wcs.ctype=['RA---TAN','DEC--TAN']; w.pixel_shape=[1024,2048]; w.wcs.set(); return FITSWCSCorrector(w),(1024,2048)
def mkjwst(crval=(82.,12.)):
    cd = build_fit_matrix((36, 47), 1e-5)
    w = make_mock_jwst_wcs(v2ref=123.0, v3ref=500.0, roll=115.0, crpix=[512.0, 512.0], cd=cd, crval=list(crval))
    return JWSTWCSCorrector(w, {'v2_ref':123.0,'v3_ref':500.0,'roll_ref':115.0}),(1024,2048)
rng=np.random.default_rng(0)
def sep_arcsec(r1,d1,r2,d2):
    from astropy.coordinates import angular_separation
    import astropy.units as u
    return np.rad2deg(angular_separation(np.deg2rad(r1),np.deg2rad(d1),np.deg2rad(r2),np.deg2rad(d2)))*3600
def trial(mk, fitgeom, hist, crval=(82.,12.)):
    c,(nx,ny)=mk(crval=crval)
    for _ in range(hist):
        c.set_correction(build_fit_matrix(rng.uniform(-0.2,0.2),1+rng.uniform(-1e-3,1e-3)), rng.uniform(-2,2,2))
        if isinstance(c,JWSTWCSCorrector): c=JWSTWCSCorrector(c.wcs, c.ref_angles)
        else: c=FITSWCSCorrector(c.wcs)
    x=rng.uniform(0,nx,50); y=rng.uniform(0,ny,50)
    # true affine error in c's tangent plane
    if fitgeom=='shift': M=np.eye(2)
    elif fitgeom=='rshift': M=build_fit_matrix(0.05)
    elif fitgeom=='rscale': M=build_fit_matrix(0.05,1.0005)
    else: M=build_fit_matrix((0.05,0.03),(1.0005,0.9997))
    s=np.array([1.3,-0.8])*c.tanp_center_pixel_scale
    tx,ty=c.det_to_tanp(x,y)
    t2=M@np.array([tx,ty])+s[:,None]
    ra,dec=c.tanp_to_world(t2[0],t2[1])
    ref=Table([ra,dec],names=('RA','DEC')); im=Table([x,y],names=('x','y'))
    out=fit_wcs(ref,im,c.copy(),fitgeom=fitgeom,nclip=0)
    fi=out.meta['fit_info']
    r2,d2=out.det_to_world(x,y)
    sep=sep_arcsec(r2,d2,ra,dec)
    return fi['status'], sep.max(), fi['rmse'], np.abs(fi['matrix']-M).max(), c.tanp_center_pixel_scale
for mk,name in ((lambda **k: mkfits(True,**k),'fits-sip'),(lambda **k: mkfits(False,**k),'fits'),(mkjwst,'jwst')):
    for hist in (0,1,2):
        for fg in ('shift','rshift','rscale','general'):
            print(name,'hist',hist,fg, ['%s'%v if isinstance(v,str) else '%.3g'%v for v in trial(mk,fg,hist)])
