import numpy as np, warnings, logging
warnings.filterwarnings('ignore'); logging.disable(logging.CRITICAL)
from astropy.table import Table
from astropy import wcs as fitswcs
from tweakwcs import FITSWCSCorrector, align_wcs, XYXYMatch
from tweakwcs.wcsimage import WCSImageCatalog, WCSGroupCatalog, RefCatalog
def mkw(rot=30):
    w = fitswcs.WCS(naxis=2)
    w.wcs.crpix = [512, 512]; w.wcs.crval = [33.0, -41.0]
    c, s_ = np.cos(np.deg2rad(rot)), np.sin(np.deg2rad(rot))
    w.wcs.cd = np.array([[-c, s_], [s_, c]]) * 1.5e-5
    w.wcs.ctype = ['RA---TAN', 'DEC--TAN']; w.pixel_shape = (1024, 1024); w.wcs.set()
    return w
rng = np.random.default_rng(0)
res = {}
for trial in range(60):
    ang = rng.uniform(0, 180); n = rng.choice([4, 5, 6])
    t = np.sort(rng.uniform(-300, 300, n))
    x = 512.3 + t*np.cos(np.deg2rad(ang)) + rng.normal(0, 0.1, n)
    y = 480.7 + t*np.sin(np.deg2rad(ang)) + rng.normal(0, 0.1, n)
    w = mkw()
    ra, dec = w.all_pix2world(x, y, 0)
    # (a) RefCatalog of thin set
    try:
        r = RefCatalog(Table({'RA': ra, 'DEC': dec}))
        p = r.polygon
        key = 'ref:' + ('clockwise=%s' % p.is_clockwise() if hasattr(p, 'is_clockwise') else '?') + ' contains=%s' % p.contains_radec(ra[1], dec[1])
    except Exception as e:
        key = 'ref:' + type(e).__name__ + ':' + str(e)[:40]
    res[key] = res.get(key, 0) + 1
    # (b) align two good images to a thin refcat
    gx = rng.uniform(100, 900, 12); gy = rng.uniform(100, 900, 12)
    c1 = FITSWCSCorrector(mkw()); c1.meta['catalog'] = Table({'x': np.concatenate([x, gx]) + 0.3, 'y': np.concatenate([y, gy]) - 0.2})
    try:
        align_wcs([c1], Table({'RA': ra, 'DEC': dec}), fitgeom='shift', match=XYXYMatch(searchrad=5, separation=0.1, tolerance=2, use2dhist=False))
        key = 'align-to-thin-ref:' + c1.meta['fit_info']['status']
    except Exception as e:
        key = 'align-to-thin-ref:' + type(e).__name__ + ':' + str(e)[:50]
    res[key] = res.get(key, 0) + 1
    # (c) thin image aligned to good refcat
    gra, gdec = w.all_pix2world(np.concatenate([x, gx]), np.concatenate([y, gy]), 0)
    c2 = FITSWCSCorrector(mkw()); c2.meta['catalog'] = Table({'x': x + 0.3, 'y': y - 0.2})
    try:
        align_wcs([c2], Table({'RA': gra, 'DEC': gdec}), fitgeom='shift', match=XYXYMatch(searchrad=5, separation=0.1, tolerance=2, use2dhist=False))
        key = 'thin-image:' + c2.meta['fit_info']['status']
    except Exception as e:
        key = 'thin-image:' + type(e).__name__ + ':' + str(e)[:50]
    res[key] = res.get(key, 0) + 1
for k, v in sorted(res.items()): print(v, k)
