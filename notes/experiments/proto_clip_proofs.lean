import Mathlib.Data.Real.Basic
import Mathlib.Tactic.Linarith
import ClipModel
open Clip

variable {Fit : Type}

theorem run_succ (c : Cfg ℝ Fit) (w : List Bool) (s : St Fit) (n : ℕ) :
    run c w s (n+1) = step c w (run c w s n) := rfl

theorem step_eff_le (c : Cfg ℝ Fit) (w : List Bool) (s : St Fit) :
    (step c w s).eff ≤ s.eff + 1 := by
  unfold step
  grind

theorem eff_le_nclip (c : Cfg ℝ Fit) (w : List Bool) (s : St Fit) (n : ℕ) :
    (run c w s n).eff ≤ s.eff + n := by
  induction n with
  | zero => simp [run]
  | succ n ih =>
    rw [run_succ]
    have := step_eff_le c w (run c w s n)
    omega

theorem test_spec (c : Cfg ℝ Fit) (f : Fit) (base : List Bool) (i : ℕ) (hi : i < base.length) :
    (test c f base)[i]'(by simp [test, hi]) = (base[i] && decide (c.rnorm f i < c.nsigma * c.stat f)) := by
  simp [test]
#print axioms eff_le_nclip
#print axioms test_spec
