import Mathlib.Tactic.Ring
import Mathlib.Data.Real.Basic

/-- a map of the plane with linear part J=(a b; c d) at the centre plus arbitrary quadratic terms -/
def qmap (f0 g0 a b c d p1 p2 p3 q1 q2 q3 : ℝ) (x y : ℝ) : ℝ × ℝ :=
  (f0 + a*x + b*y + p1*x*x + p2*x*y + p3*y*y, g0 + c*x + d*y + q1*x*x + q2*x*y + q3*y*y)

/-- shoelace sum exactly as in WCSCorrector.tanp_pixel_scale (before 0.5*abs) -/
def shoelace (P0 P1 P2 P3 : ℝ × ℝ) : ℝ :=
  P0.1 * P1.2 + P1.1 * P2.2 + P2.1 * P3.2 + P3.1 * P0.2 -
  P1.1 * P0.2 - P2.1 * P1.2 - P3.1 * P2.2 - P0.1 * P3.2

/-- corners in the code's order: (x-.5,y-.5), (x-.5,y+.5), (x+.5,y+.5), (x+.5,y-.5) -/
theorem shoelace_is_det (f0 g0 a b c d p1 p2 p3 q1 q2 q3 : ℝ) :
    let F := qmap f0 g0 a b c d p1 p2 p3 q1 q2 q3
    (1/2) * shoelace (F (-1/2) (-1/2)) (F (-1/2) (1/2)) (F (1/2) (1/2)) (F (1/2) (-1/2))
      = -(a*d - b*c) := by
  simp only [shoelace, qmap]
  ring
#print axioms shoelace_is_det
