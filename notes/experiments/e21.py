# paper model of the align_wcs control flow (repaired code), checked against the real function
import numpy as np, logging, sys, os, itertools, collections
sys.path.insert(0, os.environ.get('TWEAKWCS_TREE','/tmp/exp/rc'))
from astropy import wcs as fitswcs
from astropy.table import Table
import tweakwcs
from tweakwcs import align_wcs, FITSWCSCorrector, XYXYMatch
from tweakwcs import imalign, wcsimage
from tweakwcs.imalign import NotEnoughCatalogs
from tweakwcs.linearfit import build_fit_matrix
logging.disable(logging.CRITICAL)

SP = 60.0
def mkwcs(crpix, err=(0,0)):
    w = fitswcs.WCS(naxis=2); w.wcs.cd = build_fit_matrix(10.0, 1e-5); w.wcs.crval = (82.0 + err[0]*1e-5, 12.0 + err[1]*1e-5)
    w.wcs.crpix = crpix; w.wcs.ctype = ['RA---TAN','DEC--TAN']; w.pixel_shape = (1024,1024); w.wcs.set(); return w
rng = np.random.default_rng(11)
# physical sources live on a big jittered lattice in a "global pixel frame" = pixel frame of truth wcs with crpix (0,0)
G = {}
gid = 0
for i in range(-10, 40):
    for j in range(-10, 40):
        G[gid] = (i*SP + rng.uniform(-8,8), j*SP + rng.uniform(-8,8)); gid += 1
truth = mkwcs((1.0,1.0))           # global frame: pixel (X,Y) 0-based == truth pixel
def sky_of(ids):
    xy = np.array([G[k] for k in ids]); return truth.all_pix2world(xy, 0)
NEXT_JUNK = [10**6]
def make_image(name, origin, kind, gidv, err):
    """image whose pixel (x,y) corresponds to global (x+origin) ; sees physical sources inside its 1024^2 field"""
    ox, oy = origin
    w = mkwcs((1.0 - ox, 1.0 - oy), err)
    inside = [k for k,(X,Y) in G.items() if 20 <= X-ox <= 1000 and 20 <= Y-oy <= 1000]
    if kind == 'good':
        ids = inside; xy = np.array([(G[k][0]-ox, G[k][1]-oy) for k in ids])
    elif kind == 'junk':   # sources half a lattice step away from every true source: unmatched, but same footprint
        ids = []; xy = []
        for k in inside:
            ids.append(10**6 + k); xy.append((G[k][0]-ox+SP/2, G[k][1]-oy+SP/2))
        xy = np.array(xy)
    else:
        ids = []; xy = np.zeros((0,2))
    meta = {'catalog': Table(xy, names=('x','y')), 'name': name}
    if gidv is not None: meta['group_id'] = gidv
    c = FITSWCSCorrector(w, meta=meta)
    return c, ids

# ------------------------------------------------------------------ paper model
def model(images, refcat_ids, expand, enforce, minobj, areas):
    """images: list of dicts(name,gid,ids); refcat_ids: None or list of source ids; areas: iterator of logged areas.
       returns statuses {name: str}, order [group repr], final refcat list of (srcid, id) or exception name"""
    status = {}
    groups = []; seen = set()
    for im in images:
        g = im['gid']
        if g is None:
            if len(im['ids']) == 0: status[im['name']] = 'FAILED'; continue
            groups.append([im])
        elif g not in seen:
            seen.add(g); mem = [x for x in images if x['gid'] == g]
            if sum(len(x['ids']) for x in mem) == 0:
                for x in mem: status[x['name']] = 'FAILED'
                continue
            groups.append(mem)
    if (refcat_ids is None and len(groups) < 2) or len(groups) == 0:
        return status, [], 'NotEnoughCatalogs'
    eo = enforce or not expand
    def gsrc(g): return [s for x in g for s in x['ids']]
    def gids(g): return [k+1 for x in g for k in range(len(x['ids']))]
    order = []
    if refcat_ids is None:
        n = len(groups)
        if n == 2 or eo:
            ref = groups.pop(0); cur = groups.pop(0); area = next(areas)
        else:
            m = [[0.0]*n for _ in range(n)]
            for i in range(n):
                for j in range(i+1, n):
                    a = next(areas); m[i][j] = a; m[j][i] = a
            flat = [(m[i][j], i, j) for i in range(n) for j in range(n)]
            best = flat[0]
            for t in flat:
                if t[0] > best[0]: best = t
            _, i, j = best
            if sum(m[i]) < sum(m[k][j] for k in range(n)): i, j = j, i
            area = m[i][j]
            jj = j - 1 if i < j else j
            ref = groups.pop(i); cur = groups.pop(jj)
            row = [v for k,v in enumerate(m[i]) if k != i]; row = [v for k,v in enumerate(row) if k != jj]
            idx = list(np.argsort(row)[::-1]); groups[:] = [groups[k] for k in idx]
        refcat = list(zip(gsrc(ref), gids(ref)))
        for x in ref: status[x['name']] = 'REFERENCE'
    else:
        refcat = [(s, k+1) for k, s in enumerate(refcat_ids)]
        def nxt():
            if not groups: return None, None
            if eo:
                g = groups.pop(0); return g, next(areas)
            ar = [next(areas) for _ in groups]; k = int(np.argmax(ar)); return groups.pop(k), ar[k]
        cur, area = nxt()
    def nxt():
        if not groups: return None, None
        if eo:
            g = groups.pop(0); return g, next(areas)
        ar = [next(areas) for _ in groups]; k = int(np.argmax(ar)); return groups.pop(k), ar[k]
    while cur is not None:
        order.append([x['name'] for x in cur])
        refset = set(s for s,_ in refcat)
        src = gsrc(cur)
        matched = [s for s in src if s in refset]
        ok = len(matched) >= minobj
        for x in cur: status[x['name']] = 'SUCCESS' if ok else 'FAILED'
        if expand and (ok or not area):
            mx = max(i for _,i in refcat)
            un = [s for s in src if s not in refset]
            refcat += [(s, mx+1+k) for k,s in enumerate(un)]
        cur, area = nxt()
    return status, order, refcat

# ------------------------------------------------------------------ run real code with observation
class Obs(logging.Handler):
    def __init__(s): super().__init__(); s.rec=[]
    def emit(s, r):
        m = r.getMessage()
        if 'Aligning image catalog' in m: s.rec.append(m)
def run_case(spec, refmode, expand, enforce, fitgeom='rscale'):
    minobj = {'shift':1,'rscale':2,'general':3}[fitgeom]
    ims = []; desc = []
    for k,(origin, kind, g) in enumerate(spec):
        c, ids = make_image('im%d'%k, origin, kind, g, err=(rng.uniform(-1.5,1.5), rng.uniform(-1.5,1.5)))
        ims.append(c); desc.append({'name':'im%d'%k,'gid':g,'ids':ids})
    refcat = None; ref_ids = None
    if refmode:
        ref_ids = [k for k,(X,Y) in G.items() if 100 <= X <= 700 and 100 <= Y <= 700]
        rd = sky_of(ref_ids); refcat = Table(rd, names=('RA','DEC'))
    areas = []
    for cls in (wcsimage.WCSImageCatalog, wcsimage.WCSGroupCatalog, wcsimage.RefCatalog):
        orig = cls._guarded_intersection_area
        def wrap(self, other, _o=orig, _c=cls):
            r = _o(self, other)
            if wrap.depth == 0: pass
            return r
        # only log top-level calls made by imalign: patch imalign-level entry instead (below)
    # log at the level imalign uses: overlap_matrix / _max_overlap_* call obj._guarded_intersection_area(other)
    log_calls = []
    origs = {}
    def mk(cls):
        o = cls._guarded_intersection_area
        def w(self, other):
            mk.depth += 1
            try: r = o(self, other)
            finally: mk.depth -= 1
            if mk.depth == 0: log_calls.append(r[0])
            return r
        return o, w
    mk.depth = 0
    for cls in (wcsimage.WCSImageCatalog, wcsimage.WCSGroupCatalog, wcsimage.RefCatalog):
        o, w = mk(cls); origs[cls] = o; cls._guarded_intersection_area = w
    h = Obs(); lg = logging.getLogger('tweakwcs.imalign'); lg.addHandler(h); logging.disable(logging.NOTSET); lg.setLevel(logging.INFO)
    try:
        try:
            out = align_wcs(ims, refcat=refcat, expand_refcat=expand, enforce_user_order=enforce, fitgeom=fitgeom,
                            match=XYXYMatch(searchrad=5, separation=0.5, tolerance=2.0))
            exc = None
        except Exception as e:
            out = None; exc = type(e).__name__
    finally:
        for cls,o in origs.items(): cls._guarded_intersection_area = o
        lg.removeHandler(h); logging.disable(logging.CRITICAL)
    real_status = {d['name']: (c.meta.get('fit_info',{}).get('status','NONE').split(':')[0]) for d,c in zip(desc,ims)}
    mstatus, morder, mref = model(desc, ref_ids, expand, enforce, minobj, iter(log_calls))
    problems = []
    if exc or mref == 'NotEnoughCatalogs':
        if exc != mref: problems.append(('exception', exc, mref))
        for k,v in mstatus.items():
            if real_status[k] != v: problems.append(('status', k, real_status[k], v))
        return problems, exc
    for k in real_status:
        if real_status[k] != mstatus.get(k): problems.append(('status', k, real_status[k], mstatus.get(k)))
    if len(h.rec) != len(morder): problems.append(('order-len', len(h.rec), len(morder)))
    # map returned refcat rows back to physical sources
    allsrc = {}
    ra = np.array(out['RA']); dec = np.array(out['DEC'])
    pix = truth.all_world2pix(np.array([ra,dec]).T, 0)
    ids_real = list(out['id'])
    if len(ids_real) != len(mref): problems.append(('reflen', len(ids_real), len(mref)))
    else:
        if ids_real != [i for _,i in mref]: problems.append(('ids', ids_real[:5], [i for _,i in mref][:5]))
        bad = 0
        for (X,Y),(s,_) in zip(pix, mref):
            gx, gy = (G[s] if s < 10**6 else (G[s-10**6][0]+SP/2, G[s-10**6][1]+SP/2))
            if np.hypot(X-gx, Y-gy) > 2.5: bad += 1
        if bad: problems.append(('positions', bad))
    return problems, exc

kinds = ['good','junk','empty']
nbad = 0; ncase = 0; excs = collections.Counter()
origins = [(0,0),(400,100),(-300,350),(700,600),(250,-400),(5000,5000),(1100,0),(0,1100),(-1100,50),(1500,1200)]
for trial in range(int(os.environ.get('NTRIAL','80'))):
    n = int(rng.integers(1,6))
    spec = []
    used = collections.defaultdict(list)
    for k in range(n):
        g = [None,None,1,2][int(rng.integers(0,4))]
        for _attempt in range(50):
            o = origins[int(rng.integers(0,len(origins)))]
            # members of one group must not overlap each other (chips of one exposure do not)
            if g is None or all(abs(o[0]-q[0]) >= 1024 or abs(o[1]-q[1]) >= 1024 for q in used[g]): break
        else:
            g = None
        used[g].append(o)
        spec.append((o, kinds[int(rng.choice([0,0,0,1,2]))], g))
    refmode = bool(rng.integers(0,2)); expand = bool(rng.integers(0,2)); enforce = bool(rng.integers(0,2))
    fitgeom = ['shift','rscale','general'][int(rng.integers(0,3))]
    probs, exc = run_case(spec, refmode, expand, enforce, fitgeom)
    ncase += 1; excs[exc] += 1
    if probs:
        nbad += 1; print('MISMATCH', spec, refmode, expand, enforce, fitgeom, probs[:4])
print('cases', ncase, 'mismatching', nbad, dict(excs))
