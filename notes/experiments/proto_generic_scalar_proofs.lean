import Mathlib.Analysis.Real.Sqrt
import Mathlib.Tactic.Ring
import Mathlib.Tactic.Linarith
import M1

noncomputable instance : HasSqrt ℝ := ⟨Real.sqrt⟩

theorem hyp_sq (a b : ℝ) : (hyp a b)^2 = a*a + b*b := by
  unfold hyp
  show Real.sqrt (a*a+b*b)^2 = _
  rw [Real.sq_sqrt]; nlinarith [mul_self_nonneg a, mul_self_nonneg b]

theorem pick_le (a b : ℝ) : pick a b ≤ b + 2 := by
  unfold pick; split <;> linarith

theorem wmean2 (w1 w2 x1 x2 : ℝ) (h : w1 + w2 ≠ 0) :
    wmean [w1, w2] [x1, x2] * (w1 + w2) = w1*x1 + w2*x2 := by
  simp [wmean]
  field_simp
