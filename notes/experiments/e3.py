import numpy as np, logging, sys
logging.disable(logging.CRITICAL)
from astropy.table import Table
from tweakwcs.wcsimage import RefCatalog, convex_hull
from tweakwcs import matchutils as mu
# C16: footprint of 1 and 2 sources
for radec in ([[10.0],[20.0]], [[10.0,10.01],[20.0,20.0]], [[10.0,10.0],[20.0,20.01]], [[10.0,10.01],[20.0,20.01]]):
    rc = RefCatalog(Table(radec, names=['RA','DEC']), footprint_tol=1.0)
    ra, dec = rc._radec[0]
    print('n=',len(radec[0]), 'area srad', rc.poly_area, 'area arcsec^2', rc.poly_area*(206265.**2))
    print('  verts', np.round(ra,4), np.round(dec,4))
    print('  contains', [rc.polygon.contains_radec(r,d) for r,d in zip(*radec)])
# C12: 2dhist bias for noninteger searchrad/pscale
rng = np.random.default_rng(1)
ref = rng.uniform(0,1000,(40,2))
for pscale, sr in [(1.0,3.0),(0.7,3.0),(0.4,3.0),(1.3,3.0),(0.063,3.0),(2.0,5.0)]:
    for shift in [(0.,0.),(1.0,-2.0)]:
        img = ref + np.array(shift)
        est = mu._estimate_2dhist_shift(img, ref, searchrad=sr, pscale=pscale)
        print('pscale',pscale,'sr',sr,'true',shift,'est',np.round(est,4), 'err/bin', np.round((np.array(est)-shift)/pscale,3))
