import numpy as np, logging
logging.disable(logging.CRITICAL)
from astropy.table import Table
from tweakwcs import XYXYMatch
rng=np.random.default_rng(0)
def field(n, minsep, size):
    pts=[]
    while len(pts)<n:
        p=rng.uniform(0,size,2)
        if all(np.hypot(*(p-q))>minsep for q in pts): pts.append(p)
    return np.array(pts)
for pscale in (0.01,0.06,1.0,10.0):
  for use2d in (True,False):
    for trial in range(3):
        sr,tol,sep = 3.0*pscale, 1.0*pscale, 0.5*pscale
        base=field(60, 8*pscale, 600*pscale)
        common=base[:40]; refextra=base[40:50]; imextra=base[50:]
        off=rng.uniform(-0.6,0.6,2)*sr
        ref=np.vstack([common,refextra]); img=np.vstack([common+off+rng.normal(0,0.02*pscale,common.shape), imextra+off])
        pr=rng.permutation(len(ref)); pi=rng.permutation(len(img))
        refc=Table(ref[pr],names=('TPx','TPy')); imc=Table(img[pi],names=('TPx','TPy'))
        m=XYXYMatch(searchrad=sr,separation=sep,tolerance=tol,use2dhist=use2d, xoffset=off[0], yoffset=off[1])
        try:
            ri,ii=m(refc,imc,tp_pscale=pscale)
        except Exception as e:
            print(pscale,use2d,'EXC',type(e).__name__,e); continue
        true={(int(np.where(pr==k)[0][0]),int(np.where(pi==k)[0][0])) for k in range(40)}
        got=set(zip(map(int,ri),map(int,ii)))
        print('pscale',pscale,'2dhist',use2d,'n',len(got),'missing',len(true-got),'false',len(got-true),'off/sr',np.round(off/sr,2))
