import numpy as np, logging
logging.disable(logging.CRITICAL)
from tweakwcs import linearfit as lf
rng = np.random.default_rng(5)
uv = rng.uniform(0,1000,(30,2))
xy = uv + [3,4] + rng.normal(0,0.05,uv.shape)
xy[3] += [50,-40]; xy[17] += [-30, 60]
for accum in (False, True):
  for nclip in range(0,6):
    f = lf.iter_linear_fit(xy, uv, fitgeom='rscale', nclip=nclip, sigma=(3,'rmse'), clip_accum=accum)
    print('accum',accum,'nclip',nclip,'eff',f['eff_nclip'],'rejected',list(np.where(~f['fitmask'])[0]),'rmse %.4f'%f['rmse'], 'nres', len(f['resids']))
