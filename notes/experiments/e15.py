import numpy as np, logging, copy
from astropy import wcs as fitswcs
from astropy.table import Table
from tweakwcs import align_wcs, FITSWCSCorrector
from tweakwcs.linearfit import build_fit_matrix
class H(logging.Handler):
    def __init__(s): super().__init__(); s.rec=[]
    def emit(s,r):
        m=r.getMessage()
        if 'Aligning image catalog' in m or 'Selected image' in m: s.rec.append(m)
h=H(); logging.getLogger('tweakwcs.imalign').addHandler(h)
def mkwcs():
    w = fitswcs.WCS(naxis=2); w.wcs.cd = build_fit_matrix(10,1e-5); w.wcs.crval=(82.,12.); w.wcs.crpix=(512,512)
    w.wcs.ctype=['RA---TAN','DEC--TAN']; w.pixel_shape=(1024,1024); w.wcs.set(); return w
rng=np.random.default_rng(0)
g=rng.uniform(0,1024,(30,2))
sky=mkwcs().all_pix2world(g,0)
def im(name,gid):
    meta={'catalog':Table(g,names=('x','y')),'name':name}
    if gid is not None: meta['group_id']=gid
    return FITSWCSCorrector(mkwcs(),meta=meta)
ims=[im('u1',None),im('g1a',1),im('u2',None),im('g1b',1),im('g2a',2)]
align_wcs(ims, refcat=Table(sky,names=('RA','DEC')), fitgeom='shift', enforce_user_order=True)
print(h.rec)
h.rec.clear()
ims=[im('g1a',1),im('u1',None),im('g2a',2),im('u2',None),im('g1b',1)]
align_wcs(ims, refcat=None, fitgeom='shift', enforce_user_order=True)
print(h.rec)
