import numpy as np, logging, sys, copy, os
logging.disable(logging.CRITICAL)
sys.path.insert(0, os.environ.get('TWEAKWCS_TREE', '/repo'))

from astropy import wcs as fitswcs
from astropy.io import fits
from tweakwcs.tests.helper_correctors import make_mock_jwst_wcs
from tweakwcs.linearfit import build_fit_matrix
from tweakwcs.correctors import JWSTWCSCorrector, FITSWCSCorrector
import tweakwcs; print(tweakwcs.__file__)
hdr = fits.Header.fromfile('/repo/tweakwcs/tests/data/wfc3_uvis1.hdr')
def mkfits(sip=False, crval=(82.,12.), rot=(36,47), crpix=(512,512)):
    if sip:
        w=fitswcs.WCS(hdr); w.wcs.crval=crval; w.wcs.set(); return FITSWCSCorrector(w)
    w = fitswcs.WCS(naxis=2); w.wcs.cd = build_fit_matrix(rot,1e-5); w.wcs.crval=crval; w.wcs.crpix=crpix
    w.wcs.ctype=['RA---TAN','DEC--TAN']; w.pixel_shape=[1024,2048]; w.wcs.set(); return FITSWCSCorrector(w)
def mkjwst(crval=(82.,12.), v2=123.0, v3=500.0, roll=115.0):
    cd = build_fit_matrix((36, 47), 1e-5)
    w = make_mock_jwst_wcs(v2ref=v2, v3ref=v3, roll=roll, crpix=[512.0, 512.0], cd=cd, crval=list(crval))
    return JWSTWCSCorrector(w, {'v2_ref':v2,'v3_ref':v3,'roll_ref':roll})
x=np.array([10.,500.,900.,300.]); y=np.array([20.,1500.,100.,1000.])
def sep(c1,c2):
    from astropy.coordinates import angular_separation
    r1,d1=c1.det_to_world(x,y); r2,d2=c2.det_to_world(x,y)
    return (np.rad2deg(angular_separation(*np.deg2rad([r1,d1,r2,d2])))*3600).max()
M1=build_fit_matrix((0.3,0.2),(1.001,0.999)); s1=np.array([3.,-2.])
M2=build_fit_matrix((-0.1,0.25),(0.9995,1.0005)); s2=np.array([-1.,4.])
for name,mk in (('fits',mkfits),('fits-sip',lambda: mkfits(True)),('jwst',mkjwst)):
    sc = 1.0 if name!='jwst' else mk().tanp_center_pixel_scale
    c0=mk()
    # identity
    c=c0.copy(); c.set_correction(); print(name,'identity',sep(c,c0))
    # inverse
    c=c0.copy(); c.set_correction(M1,s1*sc); Mi=np.linalg.inv(M1); c.set_correction(Mi,-Mi@(s1*sc)); print(name,'corr+inverse (own plane)',sep(c,c0))
    # composition own plane
    c=c0.copy(); c.set_correction(M1,s1*sc); c.set_correction(M2,s2*sc)
    a=c0.copy(); a.set_correction(M2@M1, M2@(s1*sc)+s2*sc)
    b=c0.copy(); b.set_correction(M1@M2, M1@(s2*sc)+s1*sc)
    print(name,'own-plane two-step vs (M2M1):',sep(c,a),' vs (M1M2):',sep(c,b))
    # fixed ref plane
    ref=c0.copy()
    c=c0.copy(); c.set_correction(M1,s1*sc,ref_tpwcs=ref); c.set_correction(M2,s2*sc,ref_tpwcs=ref)
    a=c0.copy(); a.set_correction(M2@M1, M2@(s1*sc)+s2*sc, ref_tpwcs=ref)
    print(name,'ref-plane two-step vs (M2M1):',sep(c,a))
    print(name,'frames', getattr(c.wcs,'available_frames',None))
