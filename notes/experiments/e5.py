import numpy as np, logging, copy
logging.disable(logging.CRITICAL)
from astropy import wcs as fitswcs
from astropy.table import Table
from tweakwcs import align_wcs, FITSWCSCorrector, XYXYMatch
from tweakwcs.linearfit import build_fit_matrix
def mkwcs(crval=(82.0,12.0), rot=10.0, scale=1e-5, crpix=(512,512), shape=(1024,1024)):
    w = fitswcs.WCS(naxis=2)
    w.wcs.cd = build_fit_matrix(rot, scale)
    w.wcs.crval = crval; w.wcs.crpix = crpix
    w.wcs.ctype = ['RA---TAN','DEC--TAN']
    w.pixel_shape = shape
    w.wcs.set(); return w
rng = np.random.default_rng(3)
truew = mkwcs()
# sky sources on a grid jittered, well separated (>= 20 px)
g = np.array([(i,j) for i in range(40,1000,60) for j in range(40,1000,60)],float)
g += rng.uniform(-10,10,g.shape)
sky = truew.all_pix2world(g,0)
def image(name, dx, dy, sel, junk=False):
    w = mkwcs(); 
    w.wcs.crval = w.wcs.crval + np.array([dx,dy])*1e-5   # wcs error
    w.wcs.set()
    # the image sees sources sel at true pixel positions computed from its TRUE wcs (=truew)
    xy = g[sel].copy()
    if junk: xy = rng.uniform(0,1024,xy.shape)
    return FITSWCSCorrector(w, meta={'catalog': Table(xy, names=('x','y')), 'name':name})
n=len(g)
A = np.arange(n)[:int(n*0.6)]; B=np.arange(n)[int(n*0.3):]; 
for enforce in (True, False):
  for junkpos in (1,2):
    ims=[image('im0',0,0,A), image('im1',2,1,B, junk=(junkpos==1)), image('im2',-1,3,np.arange(n), junk=(junkpos==2))]
    ref = Table(sky[A[:100]], names=('RA','DEC'))
    out = align_wcs(ims, refcat=ref, expand_refcat=True, enforce_user_order=enforce, fitgeom='rscale', match=XYXYMatch(searchrad=5, separation=0.1, tolerance=1.5))
    print('enforce',enforce,'junk at',junkpos,[i.meta['fit_info']['status'] for i in ims], 'ref len', len(ref), '->', len(out), 'ids ok', list(out['id'])==list(range(1,len(out)+1)))
