import sys, random, math, numpy as np, warnings, logging
warnings.filterwarnings('ignore'); logging.disable(logging.CRITICAL)
sys.path.insert(0, '/verif')
from harness import scenes, corrsim
from harness.scenes import Aff
from harness.props import c02
from astropy.table import Table
from tweakwcs.imalign import align_wcs
rng = random.Random(15)
base_pt = scenes.rand_pointing(rng)
if abs(base_pt[1]) > 75: base_pt = (base_pt[0], math.copysign(75.0, base_pt[1]))
nim = rng.choice([2, 3, 3])
members = [scenes.mk_fits(rng, kind=rng.choice(['cd', 'pc']), pointing=base_pt, scale=3e-5, shape=(1024, 1024)) for _ in range(nim)]
print(base_pt, [m[1] for m in members][:1])
which = rng.choice(['member0', 'member-last', 'nonmember']); print(which)
m0 = members[0][0]
fitgeom = rng.choice(['shift', 'general', 'rscale']); n = rng.choice([6, 12])
R = np.array([[m0.wcs.wcs.crpix[0] + rng.uniform(-400, 400) for _ in range(n)], [m0.wcs.wcs.crpix[1] + rng.uniform(-400, 400) for _ in range(n)]])
G = c02.gen_corr(rng, 1.0, False); print('G', G.M, G.t)
for mode in ['self', 'copy', 'none']:
    m = m0.copy(); plane0 = m.copy()
    ra, dec = plane0.tanp_to_world(R[0], R[1])
    Ginv = Aff(np.linalg.inv(G.M), -np.linalg.inv(G.M).dot(G.t)); src = Ginv(R)
    sra, sdec = plane0.tanp_to_world(src[0], src[1]); px, py = m.world_to_det(sra, sdec)
    m.meta['catalog'] = Table([np.asarray(px), np.asarray(py)], names=['x', 'y'])
    ref = {'self': m, 'copy': m.copy(), 'none': None}[mode]
    align_wcs([m], refcat=Table([np.asarray(ra), np.asarray(dec)], names=['RA', 'DEC']), ref_tpwcs=ref, fitgeom='general', match=None)
    landed = np.array(plane0.world_to_tanp(*m.det_to_world(px, py)))
    print(mode, np.abs(landed - R).max(), m.meta['fit_info']['rmse'])
