import numpy as np, logging, sys, copy
logging.disable(logging.CRITICAL)
sys.path.insert(0,'/repo')
from astropy import wcs as fitswcs
from astropy.io import fits
from tweakwcs.tests.helper_correctors import make_mock_jwst_wcs
from tweakwcs.linearfit import build_fit_matrix
from tweakwcs.correctors import JWSTWCSCorrector, FITSWCSCorrector
hdr = fits.Header.fromfile('/repo/tweakwcs/tests/data/wfc3_uvis1.hdr')
wf = fitswcs.WCS(hdr)
print('sip', wf.sip is not None, wf.pixel_shape, wf.wcs.has_cd(), wf.wcs.has_pc())
cf = FITSWCSCorrector(wf)
cd = build_fit_matrix((36, 47), 1e-5)
w = make_mock_jwst_wcs(v2ref=123.0, v3ref=500.0, roll=115.0, crpix=[512.0, 512.0], cd=cd, crval=[82.0, 12.0])
cj = JWSTWCSCorrector(w, {'v2_ref':123.0,'v3_ref':500.0,'roll_ref':115.0})
def rot(a):
    a=np.deg2rad(a); return np.array([[np.cos(a),np.sin(a)],[-np.sin(a),np.cos(a)]])
for name,c in (('fits',cf),('jwst',cj)):
  for corr in (False, True):
    if corr: c.set_correction(1.001*rot(0.1),[1.5,-0.7])
    for shp in ((),(3,),(2,3),(1,),(0,)):
        x = np.full(shp, 100.0)+np.arange(int(np.prod(shp))).reshape(shp)*10 if shp!=() else 100.0
        y = np.full(shp, 200.0) if shp!=() else 200.0
        out=[]
        for fn,args in (('det_to_world',(x,y)),('det_to_tanp',(x,y))):
            try:
                r=getattr(c,fn)(*args); out.append((fn,np.shape(r[0]),type(r[0]).__name__))
            except Exception as e: out.append((fn,'EXC '+type(e).__name__+str(e)[:50]))
        try:
            ra,dec=c.det_to_world(x,y); tx,ty=c.det_to_tanp(x,y)
            for fn,args in (('world_to_det',(ra,dec)),('world_to_tanp',(ra,dec)),('tanp_to_det',(tx,ty)),('tanp_to_world',(tx,ty))):
                try:
                    r=getattr(c,fn)(*args); out.append((fn,np.shape(r[0]),type(r[0]).__name__))
                except Exception as e: out.append((fn,'EXC '+type(e).__name__+str(e)[:50]))
        except Exception as e: pass
        print(name,corr,shp,out)
    print(name, 'pscale center', c.tanp_center_pixel_scale, 'units', c.units)
