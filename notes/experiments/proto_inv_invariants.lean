import Mathlib.Data.Matrix.Mul
import Mathlib.Data.Real.Basic
import Mathlib.Tactic.Ring
import Mathlib.Algebra.BigOperators.Ring.Finset
import Mathlib.Logic.Equiv.Basic

open Matrix

variable {n : ℕ}

def elimBelowInv (k : Fin n) (m iv : Matrix (Fin n) (Fin n) ℝ) : Matrix (Fin n) (Fin n) ℝ :=
  fun i j => if k < i then iv i j - m i k * iv k j else iv i j

def elimFull (k : Fin n) (m : Matrix (Fin n) (Fin n) ℝ) : Matrix (Fin n) (Fin n) ℝ :=
  fun i j => if k < i then m i j - m i k * m k j else m i j

theorem elim_inv2 (k : Fin n) (m iv B : Matrix (Fin n) (Fin n) ℝ) (h : m = iv * B) :
    elimFull k m = elimBelowInv k m iv * B := by
  ext i j
  simp only [elimFull, elimBelowInv, Matrix.mul_apply]
  split
  · subst h
    simp only [Matrix.mul_apply, sub_mul, Finset.sum_sub_distrib, Finset.mul_sum, mul_assoc]
  · subst h; simp [Matrix.mul_apply]

def swapIdx (a b : Fin n) (j : Fin n) : Fin n := if j = a then b else if j = b then a else j

def colSwap (a b : Fin n) (m : Matrix (Fin n) (Fin n) ℝ) : Matrix (Fin n) (Fin n) ℝ :=
  fun i j => m i (swapIdx a b j)

theorem swapIdx_eq (a b : Fin n) : swapIdx a b = Equiv.swap a b := by
  funext j; simp [swapIdx, Equiv.swap_apply_def]

theorem colSwap_inv2 (a b : Fin n) (m iv qt A : Matrix (Fin n) (Fin n) ℝ)
    (h : m = iv * (qtᵀ * A * qt)) :
    colSwap a b m = colSwap a b iv * ((colSwap a b qt)ᵀ * A * colSwap a b qt) := by
  have hs : ∀ M : Matrix (Fin n) (Fin n) ℝ, colSwap a b M = M.submatrix id (Equiv.swap a b) := by
    intro M; ext i j; simp [colSwap, swapIdx_eq]
  subst h
  simp only [hs]
  ext i j
  simp only [Matrix.submatrix_apply, Matrix.mul_apply, Matrix.transpose_apply, id]
  rw [← Equiv.sum_comp (Equiv.swap a b)]
#print axioms colSwap_inv2
