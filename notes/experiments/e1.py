import numpy as np, logging
logging.disable(logging.CRITICAL)
from tweakwcs import linearfit as lf
# exact 45-degree rotation data on integer lattice: uv -> xy = R45*sqrt2 * uv (rscale: scale sqrt2)
uv = np.array([[0,0],[1,0],[0,1],[1,1],[2,1]],float)
# matrix for rotation+scale: [[1,1],[-1,1]]
M = np.array([[1.,1.],[-1.,1.]])
xy = uv @ M.T + np.array([3.,-2.])
for fg in ['rscale','general']:
    f = lf.iter_linear_fit(xy, uv, fitgeom=fg, nclip=0)
    print(fg, f['matrix'], f['shift'], f['rmse'])
# rshift exact 45 deg can't be on lattice; but rot_num==rot_denom happen with symmetric sets
uv = np.array([[1,0],[0,1],[-1,0],[0,-1]],float)
c=np.sqrt(0.5)
R = np.array([[c,c],[-c,c]])
xy = uv@R.T
f = lf.iter_linear_fit(xy, uv, fitgeom='rshift', nclip=0)
print('rshift', f['matrix'], f['shift'], f['rmse'], f['proper_rot'])
