import Mathlib.Tactic.Ring
import Mathlib.Tactic.Linarith
import Mathlib.Tactic.Positivity
import Mathlib.Data.Rat.Defs
import Mathlib.Algebra.Order.Field.Rat

def cross (o a b : ℚ × ℚ) : ℚ := (a.1 - o.1) * (b.2 - o.2) - (a.2 - o.2) * (b.1 - o.1)

theorem plucker (a b c d : ℚ × ℚ) :
    cross a b d * (c.1 - b.1) = cross a b c * (d.1 - b.1) + (b.1 - a.1) * cross b c d := by
  simp only [cross]; ring

theorem plucker_y (a b c d : ℚ × ℚ) :
    cross a b d * (c.2 - b.2) = cross a b c * (d.2 - b.2) + (b.2 - a.2) * cross b c d := by
  simp only [cross]; ring

theorem trans_x (a b c d : ℚ × ℚ) (hab : a.1 ≤ b.1) (hbc : b.1 < c.1) (hbd : b.1 ≤ d.1)
    (h1 : 0 ≤ cross a b c) (h2 : 0 ≤ cross b c d) : 0 ≤ cross a b d := by
  have h := plucker a b c d
  have hpos : 0 < c.1 - b.1 := by linarith
  have : 0 ≤ cross a b d * (c.1 - b.1) := by
    rw [h]; apply add_nonneg
    · exact mul_nonneg h1 (by linarith)
    · exact mul_nonneg (by linarith) h2
  by_contra hneg
  push_neg at hneg
  have := mul_neg_of_neg_of_pos hneg hpos
  linarith
