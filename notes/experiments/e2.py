import numpy as np, logging, sys
logging.disable(logging.CRITICAL)
import os; sys.path.insert(0, os.environ.get("TWEAKWCS_TREE", "/repo"))
from tweakwcs.tests.helper_correctors import make_mock_jwst_wcs
from tweakwcs.linearfit import build_fit_matrix
from tweakwcs.correctors import JWSTWCSCorrector, FITSWCSCorrector
cd = build_fit_matrix((36, 47), 1e-5)
w = make_mock_jwst_wcs(v2ref=123.0, v3ref=500.0, roll=115.0, crpix=[512.0, 512.0], cd=cd, crval=[82.0, 12.0])
wi = {'v2_ref':123.0,'v3_ref':500.0,'roll_ref':115.0}
c = JWSTWCSCorrector(w, wi)
x = np.array([10., 500., 900., 300.]); y = np.array([20., 1500., 100., 1000.])
def rot(a): 
    a=np.deg2rad(a); return np.array([[np.cos(a),np.sin(a)],[-np.sin(a),np.cos(a)]])
def check(c, M, s):
    old = c.copy()
    c.set_correction(M, s)
    lhs = np.array(old.world_to_tanp(*c.det_to_world(x,y)))
    rhs = M @ np.array(old.det_to_tanp(x,y)) + np.array(s)[:,None]
    return np.abs(lhs-rhs).max()
M1 = 1.01*rot(0.5); s1=[3.0,-2.0]
print('first correction err (arcsec):', check(c, M1, s1))
print(c.wcs.available_frames)
M2 = rot(-0.3); s2=[-1.0, 4.0]
print('second correction err (arcsec):', check(c, M2, s2))
# rewrap
c2 = JWSTWCSCorrector(c.wcs, wi)
print('third (rewrapped) err:', check(c2, M1, s1))
# coherence C03
for cc in (c, c2):
    tx,ty = cc.det_to_tanp(x,y); r,d = cc.tanp_to_world(tx,ty); r2,d2 = cc.det_to_world(x,y)
    print('triangle', np.abs(r-r2).max()*3600, np.abs(d-d2).max()*3600)
    xx,yy = cc.tanp_to_det(tx,ty); print('tanp rt', np.abs(xx-x).max(), np.abs(yy-y).max())
    tx2,ty2 = cc.world_to_tanp(r2,d2); print('w2t', np.abs(tx2-tx).max(), np.abs(ty2-ty).max())
    print('pscale', cc.tanp_center_pixel_scale)
