-- Mathlib-free generic model of the sigma-clipping loop (fixed semantics)
namespace Clip
variable {K : Type} [Mul K] [LT K] [DecidableLT K]
variable {Fit : Type}

structure Cfg (K Fit : Type) where
  fit    : List Bool → Option Fit       -- single-shot fit of the retained points
  stat   : Fit → K                      -- chosen statistic of that fit
  rnorm  : Fit → Nat → K                -- residual norm of point i w.r.t. that fit
  nsigma : K
  minobj : Nat
  accum  : Bool

def count (m : List Bool) : Nat := (m.filter id).length

/-- retained set after one test of `base` against the current fit -/
def test (c : Cfg K Fit) (f : Fit) (base : List Bool) : List Bool :=
  (List.range base.length).zipWith (fun i b => b && decide (c.rnorm f i < c.nsigma * c.stat f)) base

structure St (Fit : Type) where
  mask : List Bool
  fit  : Fit
  eff  : Nat
  done : Bool

def step (c : Cfg K Fit) (wmask : List Bool) (s : St Fit) : St Fit :=
  if s.done then s else
  let base := if c.accum then s.mask else wmask
  let nm := test c s.fit base
  if count nm < c.minobj ∨ nm = s.mask then { s with done := true }
  else match c.fit nm with
    | none => { s with done := true }      -- (fit error: surfaces as exception in the code)
    | some f => { mask := nm, fit := f, eff := s.eff + 1, done := false }

def run (c : Cfg K Fit) (wmask : List Bool) (s0 : St Fit) : Nat → St Fit
  | 0 => s0
  | n+1 => step c wmask (run c wmask s0 n)
end Clip
