import numpy as np
from astropy.table import Table
from astropy import wcs as fitswcs
from tweakwcs import FITSWCSCorrector, align_wcs
def mkw():
    w = fitswcs.WCS(naxis=2)
    w.wcs.crpix = [512, 512]; w.wcs.crval = [10.0, 20.0]
    w.wcs.cd = np.array([[-1, 0], [0, 1]]) * 1e-5
    w.wcs.ctype = ['RA---TAN', 'DEC--TAN']; w.pixel_shape = (1024, 1024); w.wcs.set()
    return w
rng = np.random.default_rng(2)
x = rng.uniform(100, 900, 12); y = rng.uniform(100, 900, 12)
ra, dec = mkw().all_pix2world(x, y, 0)
refcat = Table({'RA': ra, 'DEC': dec, 'weight': np.ones(12)})
def img(sel, w=None):
    c = FITSWCSCorrector(mkw())
    t = Table({'x': x[sel] + 0.3, 'y': y[sel] - 0.2})
    t['weight'] = np.ones(len(sel)) if w is None else w
    c.meta['catalog'] = t
    return c
a = img(np.arange(0, 6)); b = img(np.arange(4, 8), w=np.array([1., 1., 0., 0.])); c = img(np.arange(6, 12))
from tweakwcs.matchutils import XYXYMatch
cats = [a, b, c]
before = [k.wcs.wcs.crval.copy() for k in cats]
try:
    align_wcs(cats, refcat, fitgeom='general', match=XYXYMatch(searchrad=5, separation=0.1, tolerance=2, use2dhist=False))
    print("returned")
except Exception as e:
    print("raised", type(e).__name__, e)
for k, b0 in zip(cats, before):
    print(k.meta.get('fit_info', {}).get('status'), np.abs(k.wcs.wcs.crval - b0).max() > 0)
