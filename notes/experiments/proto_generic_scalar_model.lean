-- Mathlib-free generic model test
class HasSqrt (K : Type) where
  sqrt : K → K

instance : HasSqrt Float := ⟨Float.sqrt⟩

section
variable {K : Type} [Add K] [Sub K] [Mul K] [Div K] [Neg K] [OfNat K 0] [OfNat K 1] [OfNat K 2]
  [LT K] [DecidableLT K] [HasSqrt K]

def wmean (w x : List K) : K :=
  (List.zipWith (· * ·) w x).foldl (· + ·) 0 / w.foldl (· + ·) 0

def hyp (a b : K) : K := HasSqrt.sqrt (a*a + b*b)

def pick (a b : K) : K := if a < b then a else b + 2
end

#eval wmean [1.0, 2.0] [3.0, 6.0]
#eval hyp 3.0 4.0
#eval pick (1:Float) 2
#eval wmean [(1:Rat), 2] [3, 6]
#eval (1/3 : Rat) + 1/6
