import numpy as np, logging, itertools
from fractions import Fraction
logging.disable(logging.CRITICAL)
from tweakwcs.linalg import inv
from tweakwcs import linearfit as lf
def tryinv(a):
    a0=np.array(a,dtype=float).copy() if not isinstance(a,list) else None
    try:
        r=inv(a); return 'ok', r
    except Exception as e: return type(e).__name__+':'+str(e), None
print(tryinv(np.zeros((2,2)))[0])
print(tryinv(np.array([[1,2],[2,4.]]))[0])
print(tryinv(np.array([[1,np.nan],[2,4.]]))[0])
print(tryinv(np.array([[1,np.inf],[2,4.]])))
print(tryinv(np.array([[1,2,3],[2,4.,5]]))[0])
print(tryinv(np.array([1.,2]))[0])
print(tryinv(np.array([[1e-320,0],[0,1.]]))[0])
print(tryinv(np.array([[1e-300,0],[0,1e-300]]))[0])
# permutation-like order 3..6 with zero diag
rng=np.random.default_rng(0)
worst=0
for n in range(1,9):
    for t in range(200):
        P=np.eye(n)[rng.permutation(n)]
        A=P*rng.integers(1,9,(n,n)) + (rng.random((n,n))<0.3)*rng.integers(-5,6,(n,n))
        A=A.astype(float)
        if abs(np.linalg.det(A))<1e-9: continue
        X=inv(A); err=np.abs(np.array(X@A,dtype=float)-np.eye(n)).max()
        worst=max(worst,err/np.linalg.cond(A))
print('worst err/cond',worst)
# degenerate fits
def tryfit(xy,uv,fg,**k):
    try:
        f=lf.iter_linear_fit(xy,uv,fitgeom=fg,nclip=0,**k); return 'ok', f['matrix'].tolist(), f['shift'].tolist()
    except Exception as e: return type(e).__name__
col=np.array([[0,0],[1,1],[2,2],[3,3.]]); same=np.array([[1,1],[1,1],[1,1.]])
for fg in ('shift','rshift','rscale','general'):
    print(fg,'collinear',tryfit(col+1,col,fg)); print(fg,'coincident',tryfit(same+1,same,fg))
    print(fg,'n=1', tryfit(col[:1]+1,col[:1],fg), 'n=2',tryfit(col[:2]+1,col[:2],fg))
