import Mathlib.Tactic.Ring
import Mathlib.Tactic.Linarith
import Mathlib.Tactic.FieldSimp
import Mathlib.Data.Real.Sqrt
import Mathlib.Analysis.SpecialFunctions.Complex.Arg

theorem five_point (a0 a1 a2 a3 a4 x0 h : ℚ) (hh : h ≠ 0) :
    let f := fun x : ℚ => a0 + a1*(x-x0) + a2*(x-x0)^2 + a3*(x-x0)^3 + a4*(x-x0)^4
    ((f (x0 - h) - f (x0 + h)) + 8 * (f (x0 + h/2) - f (x0 - h/2))) / (6*h) = a1 := by
  intro f
  simp only [f]
  field_simp
  ring

#check @Complex.cos_arg
#check @Complex.sin_arg
#eval Float.atan2 1.0 1.0
#eval Float.sqrt 2.0
#print axioms five_point
