import numpy as np, logging, itertools
logging.disable(logging.CRITICAL)
from tweakwcs.imalign import _max_overlap_pair, _max_overlap_image
class Stub:
    def __init__(s, k, M): s.k=k; s.M=M
    def _guarded_intersection_area(s, o): return float(s.M[s.k][o.k]), 0
    def __repr__(s): return f'S{s.k}'
M = np.array([[0,5,1,2],[5,0,3,0],[1,3,0,9],[2,0,9,0]],float)
bad=0
for perm in itertools.permutations(range(4)):
    ims=[Stub(k,M) for k in perm]
    a,b,area = _max_overlap_pair(ims, False)
    true = M[a.k][b.k]
    if area!=true: bad+=1; print(perm, a,b,'reported',area,'true',true,'rest',ims)
print('bad',bad)
