import numpy as np
from astropy.table import Table
from astropy import wcs as fitswcs
from tweakwcs import FITSWCSCorrector, align_wcs
from tweakwcs.linearfit import SingularMatrixError
def mkw(dx=0.0):
    w = fitswcs.WCS(naxis=2)
    w.wcs.crpix = [512, 512]; w.wcs.crval = [10.0 + dx, 20.0]
    w.wcs.cd = np.array([[-1, 0], [0, 1]]) * 1e-5
    w.wcs.ctype = ['RA---TAN', 'DEC--TAN']; w.pixel_shape = (1024, 1024); w.wcs.set()
    return w
rng = np.random.default_rng(1)
ref = Table({'x': rng.uniform(100, 900, 30), 'y': rng.uniform(100, 900, 30)})
w0 = mkw()
ra, dec = w0.all_pix2world(ref['x'], ref['y'], 0)
refcat = Table({'RA': ra, 'DEC': dec})
def img(sel, shift):
    w = mkw(shift)
    x, y = w.all_world2pix(ra[sel], dec[sel], 0)
    # add true error: shift the WCS a bit
    c = FITSWCSCorrector(w)
    c.meta['catalog'] = Table({'x': x + 0.3, 'y': y - 0.2})
    return c
good1 = img(np.arange(0, 12), 0)
# collinear image: three sources on a line in pixel coords
w = mkw(0)
xs = np.array([200., 400., 600.]); ys = np.array([300., 300., 300.])
r2, d2 = w.all_pix2world(xs, ys, 0)
refcat2 = Table({'RA': np.concatenate([ra, r2]), 'DEC': np.concatenate([dec, d2])})
coll = FITSWCSCorrector(mkw(0)); coll.meta['catalog'] = Table({'x': xs + 0.25, 'y': ys + 0.1})
good2 = img(np.arange(12, 25), 0)
from tweakwcs.matchutils import XYXYMatch
cats = [good1, coll, good2]
before = [c.wcs.wcs.crval.copy() for c in cats]
try:
    align_wcs(cats, refcat2, fitgeom='general', match=XYXYMatch(searchrad=5, separation=0.1, tolerance=2, use2dhist=False))
    print("returned")
except Exception as e:
    print("raised", type(e).__name__, e)
for c, b in zip(cats, before):
    print(c.meta.get('fit_info', {}).get('status'), np.abs(c.wcs.wcs.crval - b).max() > 0)
