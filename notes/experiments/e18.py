import numpy as np, logging
logging.disable(logging.CRITICAL)
from tweakwcs import linearfit as lf
def R(a,s=1.0):
    a=np.deg2rad(a); return s*np.array([[np.cos(a),np.sin(a)],[-np.sin(a),np.cos(a)]])
for uv in (np.array([[0,0],[1,0.]]), np.array([[0,0],[2,0.],[4,0]]), np.array([[0.,3],[1,3],[5,3],[2,3]]), np.array([[1.,1],[2,2],[4,4]]), np.array([[0.3,1.7],[2.2,0.4]])):
  for ang in (0, 30, 90):
    M=R(ang,1.5); t=np.array([3.,-2.])
    xy=uv@M.T+t
    for fg in ('rscale','rshift'):
        if fg=='rshift': xy2=uv@R(ang).T+t
        else: xy2=xy
        f=lf.iter_linear_fit(xy2,uv,fitgeom=fg,nclip=0,center=(0,0))
        print(len(uv),'pts ang',ang,fg,'rmse %.3g'%f['rmse'],'shift',np.round(f['shift'],4),'matrix',np.round(f['matrix'],4).tolist(), 'proper', f['proper'])
