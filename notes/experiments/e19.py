import numpy as np, logging, sys, os
logging.disable(logging.CRITICAL)
sys.path.insert(0, os.environ.get('TWEAKWCS_TREE','/tmp/exp/rc'))
from astropy import wcs as fitswcs
from astropy.io import fits
from tweakwcs.tests.helper_correctors import make_mock_jwst_wcs
from tweakwcs.linearfit import build_fit_matrix
from tweakwcs.correctors import JWSTWCSCorrector, FITSWCSCorrector
hdr = fits.Header.fromfile('/repo/tweakwcs/tests/data/wfc3_uvis1.hdr')
def mkfits(sip=False, crval=(82.,12.), rot=(36,47), crpix=(512,512), scale=1e-5):
    if sip:
        w=fitswcs.WCS(hdr); w.wcs.crval=crval; w.wcs.set(); return FITSWCSCorrector(w)
    w = fitswcs.WCS(naxis=2); w.wcs.cd = build_fit_matrix(rot,scale); w.wcs.crval=crval; w.wcs.crpix=crpix
    w.wcs.ctype=['RA---TAN','DEC--TAN']; w.pixel_shape=[1024,2048]; w.wcs.set(); return FITSWCSCorrector(w)
def mkjwst(crval=(82.,12.), v2=123.0, v3=500.0, roll=115.0):
    cd = build_fit_matrix((36, 47), 1e-5/57.3*2)
    w = make_mock_jwst_wcs(v2ref=v2, v3ref=v3, roll=roll, crpix=[512.0, 512.0], cd=cd, crval=list(crval))
    return JWSTWCSCorrector(w, {'v2_ref':v2,'v3_ref':v3,'roll_ref':roll})
class Aff:
    def __init__(s,M=np.eye(2),t=np.zeros(2)): s.M=np.array(M,float); s.t=np.array(t,float)
    def __call__(s,x): return s.M@np.asarray(x)+s.t[:,None]
    def __matmul__(s,o): return Aff(s.M@o.M, s.M@o.t+s.t)
    def inv(s): Mi=np.linalg.inv(s.M); return Aff(Mi,-Mi@s.t)
def linearize(f, x0, h):
    # numerical affine approximation of a plane map f at x0 (central differences), harness-side
    x0=np.asarray(x0,float)
    pts=np.array([[x0[0]+h,x0[0]-h,x0[0],x0[0],x0[0]],[x0[1],x0[1],x0[1]+h,x0[1]-h,x0[1]]])
    y=np.array(f(pts[0],pts[1]))
    J=np.array([(y[:,0]-y[:,1])/(2*h),(y[:,2]-y[:,3])/(2*h)]).T
    return Aff(J, y[:,4]-J@x0)
px=np.array([10.,500.,900.,300.,512.]); py=np.array([20.,1500.,100.,1000.,512.])
M1=build_fit_matrix((0.3,0.2),(1.001,0.999)); s1=np.array([3.,-2.])
M2=build_fit_matrix((-0.1,0.25),(0.9995,1.0005)); s2=np.array([-1.,4.])
print('=== FITS flat model in chart of original')
for sip in (False,True):
    c0=mkfits(sip); chart=lambda ra,dec: np.array(c0.world_to_tanp(ra,dec))
    u=np.array(c0.det_to_tanp(px,py))     # delta(p)
    S=Aff()                               # S(u)=u in the chart
    c=c0.copy()
    # own plane
    c.set_correction(M1,s1); S=S@Aff(M1,s1)
    print(' sip',sip,'own1', np.abs(chart(*c.det_to_world(px,py))-S(u)).max())
    c.set_correction(M2,s2); S=S@Aff(M2,s2)
    print(' sip',sip,'own2', np.abs(chart(*c.det_to_world(px,py))-S(u)).max())
    # ref plane: another FITS wcs (rotated, scaled, offset)
    ref=mkfits(False, crval=(82.003,11.998), rot=(70,70), scale=2e-5)
    P=linearize(lambda x,y: ref.world_to_tanp(*c0.tanp_to_world(x,y)), (512,512), 200.0)   # chart -> ref plane
    c.set_correction(M1,s1*0.5,ref_tpwcs=ref); S=P.inv()@Aff(M1,s1*0.5)@P@S
    print(' sip',sip,'ref3', np.abs(chart(*c.det_to_world(px,py))-S(u)).max(), '(pixels; first-order bound applies)')
print('=== gWCS model in chart of original')
c0=mkjwst(); chart=lambda ra,dec: np.array(c0.world_to_tanp(ra,dec))
tau=np.array(c0.det_to_tanp(px,py)); sc=c0.tanp_center_pixel_scale
A=Aff(); c=c0.copy()
c.set_correction(M1,s1*sc); A=Aff(M1,s1*sc)@A
print(' own1', np.abs(chart(*c.det_to_world(px,py))-A(tau)).max(), np.abs(np.array(c.det_to_tanp(px,py))-A(tau)).max())
c=JWSTWCSCorrector(c.wcs,c.ref_angles)
c.set_correction(M2,s2*sc); A=Aff(M2,s2*sc)@A
print(' own2(rewrapped)', np.abs(chart(*c.det_to_world(px,py))-A(tau)).max(), np.abs(np.array(c.det_to_tanp(px,py))-A(tau)).max())
ref=mkjwst(crval=(82.002,11.999),v2=100.,v3=520.,roll=20.)
R=linearize(lambda x,y: ref.world_to_tanp(*c0.tanp_to_world(x,y)), (0,0), 20.0)   # chart -> ref plane
c.set_correction(M1,s1*sc,ref_tpwcs=ref); A=R.inv()@Aff(M1,s1*sc)@R@A
print(' ref3', np.abs(chart(*c.det_to_world(px,py))-A(tau)).max(),'arcsec (first-order bound applies)')
reff=mkfits(False, crval=(82.0,12.0), rot=(5,5), scale=2e-5)
R=linearize(lambda x,y: reff.world_to_tanp(*c0.tanp_to_world(x,y)), (0,0), 20.0)
c.set_correction(M2,s2,ref_tpwcs=reff); A=R.inv()@Aff(M2,s2)@R@A
print(' ref4(fits plane)', np.abs(chart(*c.det_to_world(px,py))-A(tau)).max(),'arcsec')
