# paper model of the 2-D histogram estimator and the peak finder, checked against the (repaired) code
import numpy as np, logging, sys, os, math
logging.disable(logging.CRITICAL)
sys.path.insert(0, os.environ.get('TWEAKWCS_TREE','/tmp/exp/rc'))
from tweakwcs import matchutils as mu
from fractions import Fraction as Fr

def model_hist(img, ref, r):
    # pairs with -r-.5 <= d < r+.5 in both coords; R = ceil(r); bin k = floor(d + R + .5), k in 0..2R
    R = math.ceil(r)
    H = [[0]*(2*R+1) for _ in range(2*R+1)]
    for a in img:
        for b in ref:
            dx, dy = a[0]-b[0], a[1]-b[1]
            if -r-0.5 <= dx < r+0.5 and -r-0.5 <= dy < r+0.5:
                kx = math.floor(dx + R + 0.5); ky = math.floor(dy + R + 0.5)
                H[ky][kx] += 1          # zpmat[y, x]
    return H, R

def model_find_peak(data, box=5, mask=None, lsq=None):
    ny, nx = len(data), len(data[0])
    cand = [(j,i) for j in range(ny) for i in range(nx) if (mask is None or mask[j][i])]
    if not cand: return ((nx-1)/2, (ny-1)/2), 'ERROR:NODATA', (0,ny,0,nx)
    best = cand[0]
    for (j,i) in cand:
        if data[j][i] > data[best[0]][best[1]]: best=(j,i)      # first maximum in row-major order
    jmax, imax = best
    if data[jmax][imax] < 1: return ((nx-1)/2, (ny-1)/2), 'ERROR:NODATA', (0,ny,0,nx)
    x1 = max(0, imax - box//2); x2 = min(nx, x1+box); y1 = max(0, jmax - box//2); y2 = min(ny, y1+box)
    if imax == x1 or imax == x2-1 or jmax == y1 or jmax == y2-1:
        return (float(imax), float(jmax)), 'WARNING:EDGE', (y1,y2,x1,x2)
    if x2-x1 < box:
        if x1 == 0: x2 = min(nx, x1+box)
        if x2 == nx: x1 = max(0, x2-box)
    if y2-y1 < box:
        if y1 == 0: y2 = min(ny, y1+box)
        if y2 == ny: y1 = max(0, y2-box)
    pts = [(i-(x1-1), j-(y1-1), data[j][i]) for j in range(y1,y2) for i in range(x1,x2) if (mask is None or mask[j][i])]
    def com():
        dt = sum(p[2] for p in pts)
        if dt == 0: return ((x2+x1-1)/2, (y2+y1-1)/2), 'ERROR:NODATA'
        xc = sum(p[0]*p[2] for p in pts)/dt; yc = sum(p[1]*p[2] for p in pts)/dt
        return (x1+xc-1, y1+yc-1), 'WARNING:CENTER-OF-MASS'
    if len(pts) < 6:
        c, st = com(); return c, st, (y1,y2,x1,x2)
    V = np.array([[1,x,y,x*y,x*x,y*y] for x,y,_ in pts], float); d = np.array([p[2] for p in pts], float)
    c = np.linalg.lstsq(V, d, rcond=None)[0]      # oracle
    _, c10, c01, c11, c20, c02 = c
    det = 4*c02*c20 - c11**2
    if det <= 0 or ((c20 > 0 and c02 >= 0) or (c20 >= 0 and c02 > 0)):
        cc, st = com()
        if st.startswith('ERROR'): return cc, st, (y1,y2,x1,x2)
        return cc, 'WARNING:BADFIT', (y1,y2,x1,x2)
    xm = (c01*c11 - 2*c02*c10)/det + x1 - 1; ym = (c10*c11 - 2*c01*c20)/det + y1 - 1
    if x1 <= xm <= x2-1 and y1 <= ym <= y2-1: return (xm, ym), 'SUCCESS', (y1,y2,x1,x2)
    cc, st = com(); return cc, st, (y1,y2,x1,x2)

def model_estimate(img, ref, searchrad, pscale):
    r = searchrad/pscale
    H, R = model_hist(img/pscale, ref/pscale, r)
    nz = sum(1 for row in H for v in row if v)
    if nz == 0: return (0.0, 0.0)
    if nz == 1:
        (yp, xp) = max(((j,i) for j in range(len(H)) for i in range(len(H))), key=lambda t: H[t[0]][t[1]])
        return (pscale*(xp - R), pscale*(yp - R))
    mask = [[v > 0 for v in row] for row in H]
    (xp, yp), st, sl = model_find_peak(H, 5, mask)
    if st.startswith('ERROR'): return (0.0, 0.0)
    return (pscale*(xp - R), pscale*(yp - R))

rng = np.random.default_rng(7)
bad = 0; n = 0; stats = {}
for trial in range(400):
    pscale = float(rng.choice([0.01,0.063,0.4,0.7,1.0,1.3,2.0,10.0]))
    searchrad = float(rng.choice([1.0,2.5,3.0,5.0]))*float(rng.choice([1.0,pscale]))
    nsrc = int(rng.integers(1,60))
    dense = rng.random() < 0.3
    size = (30 if dense else 1000)*pscale
    ref = rng.uniform(0,size,(nsrc,2))
    shift = rng.uniform(-1,1,2)*searchrad
    img = ref + shift + (rng.normal(0,0.3*pscale,ref.shape) if rng.random()<0.5 else 0)
    if rng.random()<0.3: img = np.vstack([img, rng.uniform(0,size,(int(rng.integers(1,20)),2))])
    H, R = model_hist(img/pscale, ref/pscale, searchrad/pscale)
    Hreal = mu._xy_2dhist(img/pscale, ref/pscale, r=searchrad/pscale)
    if not np.array_equal(np.array(H,float), Hreal): bad += 1; print('HIST MISMATCH', pscale, searchrad)
    e_model = model_estimate(img, ref, searchrad, pscale); e_real = mu._estimate_2dhist_shift(img, ref, searchrad=searchrad, pscale=pscale)
    n += 1
    if not np.allclose(e_model, e_real, atol=1e-9*max(1,pscale), rtol=1e-9): bad += 1; print('EST MISMATCH', pscale, searchrad, e_model, e_real)
# find_peak on random small arrays
for trial in range(3000):
    ny, nx = int(rng.integers(1,9)), int(rng.integers(1,9))
    data = rng.integers(0, int(rng.integers(1,6)), (ny,nx)).astype(float)
    mask = (rng.random((ny,nx)) < rng.choice([1.0,0.8,0.4])) if rng.random()<0.7 else None
    box = int(rng.integers(1,8))
    cm, sm, slm = model_find_peak(data.tolist(), box, None if mask is None else mask.tolist())
    cr, sr, slr = mu._find_peak(data.copy(), peak_fit_box=box, mask=None if mask is None else mask.copy())
    slr_t = (slr[0].start, slr[0].stop, slr[1].start, slr[1].stop)
    stats[sr] = stats.get(sr,0)+1
    ok = sm == sr and slm == slr_t and np.allclose(cm, cr, atol=1e-8)
    inb = (0 <= cr[0] <= nx-1) and (0 <= cr[1] <= ny-1) and (slr_t[2] <= cr[0] <= slr_t[3]-1) and (slr_t[0] <= cr[1] <= slr_t[1]-1)
    if not ok: bad += 1; print('PEAK MISMATCH', data.tolist(), mask, box, (cm,sm,slm), (cr,sr,slr_t))
    if not inb: print('OUT OF BOUNDS', data.tolist(), mask, box, cr, sr, slr_t)
print('cases', n, 'bad', bad, stats)
