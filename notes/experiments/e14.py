import numpy as np, logging
logging.disable(logging.CRITICAL)
from astropy import wcs as fitswcs
from astropy.io import fits
from tweakwcs.correctors import FITSWCSCorrector
hdr = fits.Header.fromfile('/repo/tweakwcs/tests/data/wfc3_uvis1.hdr')
w=fitswcs.WCS(hdr); c=FITSWCSCorrector(w)
cp=w.wcs.crpix
print('center', c.tanp_center_pixel_scale, 'at crpix-1', c.tanp_pixel_scale(*(cp-1)), 'at 0,0', c.tanp_pixel_scale(0,0), 'at far', c.tanp_pixel_scale(4000,2000))
print('tanp_to_det(0,0)?', c.tanp_to_det(0.0,0.0), 'det_to_tanp(crpix-1)', c.det_to_tanp(*(cp-1)))
print(c.world_to_tanp(*w.wcs.crval), cp)
